package core

import (
	"go/token"
	"strings"

	"golang.org/x/tools/go/ssa"
)

// E3 — path-sensitive resource pairing / single-shot typestate.
//
// PathWalk enumerates the control-flow paths of one (small) function — every block
// at most MaxVisits times per path — resolving phis by the edge actually taken and
// pruning branches whose condition is decided by what the path already knows
// (outcomes of "forking" calls chosen earlier on the path, nil-ness of their error
// results, boolean locals assigned constants). No solver is involved: the only
// facts are the finitely many outcome choices made on the path.
//
// Rules plug in through Hooks:
//   - Fork: for a call, the alternative outcomes to explore (e.g. a wrapper that
//     returns holding a lock on success; a callee that has already released a resource
//     on its error return). Each outcome fixes the nil-ness of the call's error result
//     and applies counter deltas.
//   - Step: counter deltas for any other instruction (Lock +1, Unlock −1, close +1 …).
//   - Exit: called at every Return (and panic) with the path's counters.

// Outcome is one alternative result of a forking call.
type Outcome struct {
	Label  string
	ErrNil bool           // the call's error result (last result) is nil on this outcome
	HasErr bool           // whether ErrNil is meaningful
	Bool   *bool          // for bool-returning calls: the result
	Delta  map[string]int // counter changes
	// Is: identities of the error result on this outcome, by errors.Is target name
	// (as core.errTargetName renders it), e.g. {"golang.org/x/sys/unix.EEXIST": true}.
	// Targets not listed are "is not" when the map is non-nil.
	Is map[string]bool
}

// ExitInfo describes one function exit on one path.
type ExitInfo struct {
	Ret      *ssa.Return
	Counters map[string]int
	Trace    []string
	// ErrNil / ErrKnown: nil-ness of the last result when it is of type error and the path decides it.
	ErrNil, ErrKnown bool
}

// Hooks configure a PathWalk.
type Hooks struct {
	Fork func(c ssa.CallInstruction) []Outcome
	Step func(in ssa.Instruction) map[string]int
	Exit func(e ExitInfo)
	// StickyFields: struct fields (by FieldAddrName) whose value, once stored on a path,
	// is assumed to survive calls made later on the path (the rule that sets this must
	// separately check that nothing resets the field).
	StickyFields map[string]bool
	MaxVisits    int // per block per path; default 2
	MaxPaths     int // safety bound; default 20000
}

type pwState struct {
	counters map[string]int
	nilness  map[ssa.Value]bool // value -> is nil (only recorded when known)
	errIs    map[ssa.Value]map[string]bool
	boolval  map[ssa.Value]bool
	fields   map[string]ssa.Value    // "<base>#<field name>" -> last value stored on this path
	loaded   map[*ssa.UnOp]ssa.Value // field loads executed on this path -> value read
	visits   map[int]int
	defers   []ssa.CallInstruction
	trace    []string
	prev     *ssa.BasicBlock
}

func (s *pwState) clone() *pwState {
	n := &pwState{counters: map[string]int{}, nilness: map[ssa.Value]bool{}, boolval: map[ssa.Value]bool{}, visits: map[int]int{}, prev: s.prev, errIs: map[ssa.Value]map[string]bool{}}
	for k, v := range s.errIs {
		n.errIs[k] = v
	}
	n.fields = map[string]ssa.Value{}
	for k, v := range s.fields {
		n.fields[k] = v
	}
	n.loaded = map[*ssa.UnOp]ssa.Value{}
	for k, v := range s.loaded {
		n.loaded[k] = v
	}
	for k, v := range s.counters {
		n.counters[k] = v
	}
	for k, v := range s.nilness {
		n.nilness[k] = v
	}
	for k, v := range s.boolval {
		n.boolval[k] = v
	}
	for k, v := range s.visits {
		n.visits[k] = v
	}
	n.defers = append([]ssa.CallInstruction(nil), s.defers...)
	n.trace = append([]string(nil), s.trace...)
	return n
}

// PathWalk runs the enumeration; returns the number of complete paths and whether the bound was hit.
func PathWalk(fn *ssa.Function, h Hooks) (paths int, truncated bool) {
	if h.MaxVisits == 0 {
		h.MaxVisits = 2
	}
	if h.MaxPaths == 0 {
		h.MaxPaths = 20000
	}
	mr := NewMemReach(fn)
	// resolve a value along the current path: phis by incoming edge are resolved when
	// the phi's block was entered; we keep per-state a map for phi -> chosen operand.
	type frame struct {
		b  *ssa.BasicBlock
		st *pwState
		i  int // instruction index to resume at
	}
	var resolve func(st *pwState, phiSel map[*ssa.Phi]ssa.Value, v ssa.Value, depth int) ssa.Value
	resolve = func(st *pwState, phiSel map[*ssa.Phi]ssa.Value, v ssa.Value, depth int) ssa.Value {
		for depth < 16 {
			depth++
			v = mr.Canon(v)
			if u, ok := v.(*ssa.UnOp); ok && u.Op == token.MUL {
				// a field load is bound to the value the field held when the load executed
				if sv, ok := st.loaded[u]; ok {
					v = sv
					continue
				}
			}
			if p, ok := v.(*ssa.Phi); ok {
				if sel, ok := phiSel[p]; ok {
					v = sel
					continue
				}
			}
			switch x := v.(type) {
			case *ssa.ChangeInterface:
				v = x.X
				continue
			case *ssa.MakeInterface:
				return v
			}
			return v
		}
		return v
	}
	var walk func(b *ssa.BasicBlock, st *pwState, phiSel map[*ssa.Phi]ssa.Value, start int)
	applyDelta := func(st *pwState, d map[string]int) {
		for k, v := range d {
			st.counters[k] += v
		}
	}
	runCall := func(st *pwState, c ssa.CallInstruction) {
		if h.Step != nil {
			applyDelta(st, h.Step(c.(ssa.Instruction)))
		}
	}
	evalNil := func(st *pwState, phiSel map[*ssa.Phi]ssa.Value, v ssa.Value) (isNil bool, known bool) {
		v = resolve(st, phiSel, v, 0)
		if c, ok := v.(*ssa.Const); ok {
			return c.IsNil(), true
		}
		if n, ok := st.nilness[v]; ok {
			return n, true
		}
		switch x := v.(type) {
		case *ssa.MakeInterface:
			return false, true
		case *ssa.Call:
			n := CalleeName(x)
			if n == "errors.New" || n == "fmt.Errorf" {
				return false, true
			}
		case *ssa.Alloc:
			return false, true
		}
		return false, false
	}
	var evalBool func(st *pwState, phiSel map[*ssa.Phi]ssa.Value, v ssa.Value, depth int) (val bool, known bool)
	evalBool = func(st *pwState, phiSel map[*ssa.Phi]ssa.Value, v ssa.Value, depth int) (bool, bool) {
		if depth > 8 {
			return false, false
		}
		v = resolve(st, phiSel, v, 0)
		if b, ok := boolConst(v); ok {
			return b, true
		}
		if b, ok := st.boolval[v]; ok {
			return b, true
		}
		switch x := v.(type) {
		case *ssa.Call:
			if n := CalleeName(x); (n == "errors.Is" || n == "errors.As") && len(x.Call.Args) == 2 {
				subj := resolve(st, phiSel, x.Call.Args[0], 0)
				if isNil, known := evalNil(st, phiSel, subj); known && isNil {
					return false, true
				}
				if m, ok := st.errIs[subj]; ok {
					return m[errTargetName(x.Call.Args[1])], true
				}
			}
		case *ssa.UnOp:
			if x.Op == token.NOT {
				b, ok := evalBool(st, phiSel, x.X, depth+1)
				return !b, ok
			}
		case *ssa.BinOp:
			if x.Op == token.EQL || x.Op == token.NEQ {
				var n, ok bool
				if isNilConst(x.Y) {
					n, ok = evalNil(st, phiSel, x.X)
				} else if isNilConst(x.X) {
					n, ok = evalNil(st, phiSel, x.Y)
				}
				if ok {
					if x.Op == token.NEQ {
						return !n, true
					}
					return n, true
				}
			}
		}
		return false, false
	}
	walk = func(b *ssa.BasicBlock, st *pwState, phiSel map[*ssa.Phi]ssa.Value, start int) {
		if truncated {
			return
		}
		if start == 0 {
			st.visits[b.Index]++
			if st.visits[b.Index] > h.MaxVisits {
				return // bounded unrolling: abandon (not counted as a path)
			}
			// select phi operands by incoming edge
			if st.prev != nil {
				idx := -1
				for i, p := range b.Preds {
					if p == st.prev {
						idx = i
					}
				}
				// parallel assignment: compute all from the old selection
				newSel := map[*ssa.Phi]ssa.Value{}
				for _, in := range b.Instrs {
					phi, ok := in.(*ssa.Phi)
					if !ok {
						break
					}
					if idx >= 0 {
						newSel[phi] = resolve(st, phiSel, phi.Edges[idx], 0)
					}
				}
				if len(newSel) > 0 {
					cp := map[*ssa.Phi]ssa.Value{}
					for k, v := range phiSel {
						cp[k] = v
					}
					for k, v := range newSel {
						cp[k] = v
					}
					phiSel = cp
				}
			}
		}
		for i := start; i < len(b.Instrs); i++ {
			in := b.Instrs[i]
			switch x := in.(type) {
			case *ssa.Defer:
				st.defers = append(st.defers, x)
			case *ssa.RunDefers:
				for j := len(st.defers) - 1; j >= 0; j-- {
					runCall(st, st.defers[j])
				}
				st.defers = nil
			case *ssa.Store:
				if fa, ok := x.Addr.(*ssa.FieldAddr); ok {
					st.fields[fa.X.Name()+"#"+FieldAddrName(fa)] = resolve(st, phiSel, x.Val, 0)
				}
				if h.Step != nil {
					applyDelta(st, h.Step(in))
				}
			case *ssa.UnOp:
				if x.Op == token.MUL {
					if fa, ok := x.X.(*ssa.FieldAddr); ok {
						if sv, ok := st.fields[fa.X.Name()+"#"+FieldAddrName(fa)]; ok {
							st.loaded[x] = sv
						} else {
							delete(st.loaded, x)
						}
					}
				}
				if h.Step != nil {
					applyDelta(st, h.Step(in))
				}
			case *ssa.Go:
				// asynchronous: no effect on this path's counters
			case *ssa.Call:
				for k := range st.fields {
					if !h.StickyFields[k[strings.Index(k, "#")+1:]] {
						delete(st.fields, k)
					}
				}
				if h.Fork != nil {
					if outs := h.Fork(x); len(outs) > 0 {
						for _, o := range outs {
							ns := st.clone()
							applyDelta(ns, o.Delta)
							ns.trace = append(ns.trace, CalleeName(x)+"→"+o.Label)
							if o.HasErr {
								// bind the error result
								if tup, ok := x.Type().(interface{ Len() int }); ok && tup.Len() > 0 {
									for _, ref := range *x.Referrers() {
										if ex, ok := ref.(*ssa.Extract); ok && ex.Index == tup.Len()-1 {
											ns.nilness[ex] = o.ErrNil
											if o.Is != nil {
												ns.errIs[ex] = o.Is
											}
										}
									}
								} else {
									ns.nilness[x] = o.ErrNil
									if o.Is != nil {
										ns.errIs[x] = o.Is
									}
								}
							}
							if o.Bool != nil {
								ns.boolval[x] = *o.Bool
							}
							walk(b, ns, phiSel, i+1)
						}
						return
					}
				}
				runCall(st, x)
			case *ssa.If:
				val, known := evalBool(st, phiSel, x.Cond, 0)
				for si, succ := range b.Succs {
					if known && (si == 0) != val {
						continue
					}
					ns := st.clone()
					ns.prev = b
					// learn nil-ness from the branch
					if bo, ok := x.Cond.(*ssa.BinOp); ok && (bo.Op == token.EQL || bo.Op == token.NEQ) {
						var subj ssa.Value
						if isNilConst(bo.Y) {
							subj = bo.X
						} else if isNilConst(bo.X) {
							subj = bo.Y
						}
						if subj != nil {
							isNil := (bo.Op == token.EQL) == (si == 0)
							ns.nilness[resolve(st, phiSel, subj, 0)] = isNil
						}
					}
					walk(succ, ns, phiSel, 0)
				}
				return
			case *ssa.Jump:
				ns := st
				ns.prev = b
				walk(b.Succs[0], ns, phiSel, 0)
				return
			case *ssa.Return:
				paths++
				if paths > h.MaxPaths {
					truncated = true
					return
				}
				if h.Exit != nil {
					e := ExitInfo{Ret: x, Counters: st.counters, Trace: st.trace}
					if n := len(x.Results); n > 0 && x.Results[n-1].Type().String() == "error" {
						e.ErrNil, e.ErrKnown = evalNil(st, phiSel, x.Results[n-1])
					}
					h.Exit(e)
				}
				return
			case *ssa.Panic:
				return // a panicking path is not an exit the pairing rules constrain
			default:
				if h.Step != nil {
					applyDelta(st, h.Step(in))
				}
			}
		}
	}
	st := &pwState{loaded: map[*ssa.UnOp]ssa.Value{}, fields: map[string]ssa.Value{}, counters: map[string]int{}, nilness: map[ssa.Value]bool{}, boolval: map[ssa.Value]bool{}, visits: map[int]int{}, errIs: map[ssa.Value]map[string]bool{}}
	walk(fn.Blocks[0], st, map[*ssa.Phi]ssa.Value{}, 0)
	return
}
