package core

import (
	"fmt"
	"go/ast"
	"go/constant"
	"go/token"
	"go/types"
	"sort"
	"strings"
	"sync"

	"golang.org/x/tools/go/ssa"
)

// E1 — guarded effect.
//
// A Guard is a call whose result must have a given outcome ("passed") before an
// effect may happen. The engine runs a forward *must* dataflow over the SSA CFG
// of one function: the fact set at a program point is the set of guard
// components known to have passed on *every* path reaching that point. Facts are
// generated on the out-edges of `If` instructions whose condition is a recognised
// test of a guard result and killed when the guard is called again.

// PassKind says which outcome of a guard result means "passed".
type PassKind int

const (
	ErrNil     PassKind = iota // error result == nil (or errors.Is/As(err, accepted))
	IsTrue                     // bool result is true
	IsFalse                    // bool result is false
	NonNil                     // pointer / interface / slice / map result != nil
	IsNil                      // result == nil (non-error)
	NonNeg                     // signed integer result >= 0 (rejecting test is `< 0`)
	Executed                   // merely having executed the call on every path
	EqConst                    // result == named constant / != others: see Guard.Consts
	LenNonZero                 // len(result) != 0 / > 0
	ErrIs                      // errors.Is/As(result, one of Accept) is true
	NeConst                    // result != Const
	ErrNotIs                   // errors.Is/As(result, one of Accept) is false (combine with NonNil for 'definitely failed')
)

// Comp is one component of a guard's pass condition.
type Comp struct {
	Result int // index into the call's result tuple; -1 = the single / last result
	Kind   PassKind
	// Accept lists short names of package-level error variables (or types, for
	// errors.As) that count as "passed" when matched with errors.Is/As, e.g.
	// "pkg/services/object/acl.ErrNotMatched".
	Accept []string
	// Const: for EqConst, the integer constant the result must equal.
	Const int64
}

// Guard describes one required check.
type Guard struct {
	Name  string
	Match func(s Site) bool // which call sites establish this guard
	Comps []Comp            // default: one component {Result:-1, Kind:ErrNil}
	// Value optionally marks non-call values (e.g. the load of a flag variable that a
	// callback sets) as results of component 0 of this guard.
	Value func(fn *ssa.Function, v ssa.Value) bool
	// Instr optionally marks arbitrary instructions (stores, sends) whose execution
	// establishes an Executed-kind guard.
	Instr func(in ssa.Instruction) bool
	// Pure: the guard is a pure predicate of an immutable value (e.g. a method of a
	// by-value parameter); calling it again does not invalidate what an earlier call established.
	Pure bool
}

// G is a convenience constructor: callee short names + pass kind on the last result.
func G(name string, kind PassKind, callees ...string) Guard {
	set := map[string]bool{}
	for _, c := range callees {
		set[c] = true
	}
	return Guard{Name: name, Match: func(s Site) bool { return set[s.Name] }, Comps: []Comp{{Result: -1, Kind: kind}}}
}

// With returns a copy of g with accepted errors on its first component.
func (g Guard) Accepting(errs ...string) Guard {
	cs := append([]Comp(nil), g.Comps...)
	cs[0].Accept = append(append([]string(nil), cs[0].Accept...), errs...)
	g.Comps = cs
	return g
}

// And adds another component (result index + kind).
func (g Guard) And(result int, kind PassKind) Guard {
	g.Comps = append(append([]Comp(nil), g.Comps...), Comp{Result: result, Kind: kind})
	return g
}

// OnArg restricts the guard to calls whose idx-th argument (receiver excluded
// for static method calls: index into Common().Args after the receiver) satisfies pred.
func (g Guard) Where(pred func(s Site) bool) Guard {
	m := g.Match
	g.Match = func(s Site) bool { return m(s) && pred(s) }
	return g
}

type factSet uint64

// GuardFlow is the result of the dataflow for one function.
type GuardFlow struct {
	Fn     *ssa.Function
	Guards []Guard
	// compIdx[g][c] = bit index
	bit     [][]int
	nbits   int
	in      []factSet // per block index
	edgeOut map[[2]int]factSet
	calls   map[ssa.Instruction][]int // guard indices established by this call
	results map[ssa.Value][]resRef    // value -> guard component it is the result of
	Sites   map[int][]ssa.CallInstruction
	Mem     *MemReach
	derived []Derived
	dbit    []int
}

// Derived is a fact that holds when all guards of at least one alternative passed;
// it survives joins where different alternatives were taken on different paths
// (a disjunction the plain must-set cannot express). It is killed whenever one of
// the guards it may depend on is called again.
type Derived struct {
	Name string
	Alts [][]string // guard names
}

type resRef struct{ g, c int }

const allFacts = ^factSet(0)

// Flow runs the analysis of fn for the given guards.
func Flow(fn *ssa.Function, guards []Guard, derived ...Derived) *GuardFlow {
	gf := &GuardFlow{Mem: NewMemReach(fn), derived: derived, Fn: fn, Guards: guards, edgeOut: map[[2]int]factSet{}, calls: map[ssa.Instruction][]int{}, results: map[ssa.Value][]resRef{}, Sites: map[int][]ssa.CallInstruction{}}
	for gi := range guards {
		if len(guards[gi].Comps) == 0 {
			guards[gi].Comps = []Comp{{Result: -1, Kind: ErrNil}}
		}
		var bs []int
		for range guards[gi].Comps {
			bs = append(bs, gf.nbits)
			gf.nbits++
		}
		gf.bit = append(gf.bit, bs)
	}
	for range derived {
		gf.dbit = append(gf.dbit, gf.nbits)
		gf.nbits++
	}
	if gf.nbits > 64 {
		panic("too many guard components")
	}
	// locate guard calls and their result values
	for _, b := range fn.Blocks {
		for _, in := range b.Instrs {
			c, ok := in.(ssa.CallInstruction)
			if !ok {
				continue
			}
			s := Site{fn, c, CalleeName(c)}
			for gi, g := range guards {
				if g.Match != nil && g.Match(s) {
					gf.calls[in] = append(gf.calls[in], gi)
					gf.Sites[gi] = append(gf.Sites[gi], c)
					if v := c.Value(); v != nil {
						gf.bindResults(v, gi)
					}
				}
			}
		}
	}
	for gi, g := range guards {
		if g.Instr != nil {
			for _, b := range fn.Blocks {
				for _, in := range b.Instrs {
					if g.Instr(in) {
						gf.calls[in] = append(gf.calls[in], gi)
					}
				}
			}
		}
		if g.Value == nil {
			continue
		}
		// parameters and captured variables are values too (not instructions)
		for _, prm := range fn.Params {
			if g.Value(fn, prm) {
				gf.results[prm] = append(gf.results[prm], resRef{gi, 0})
			}
		}
		for _, fv := range fn.FreeVars {
			if g.Value(fn, fv) {
				gf.results[fv] = append(gf.results[fv], resRef{gi, 0})
			}
		}
		for _, b := range fn.Blocks {
			for _, in := range b.Instrs {
				if v, ok := in.(ssa.Value); ok && g.Value(fn, v) {
					gf.results[v] = append(gf.results[v], resRef{gi, 0})
					if g.Comps[0].Kind == Executed {
						gf.calls[in] = append(gf.calls[in], gi)
					}
				}
			}
		}
	}
	gf.propagatePhis()
	// fixpoint
	n := len(fn.Blocks)
	gf.in = make([]factSet, n)
	for i := range gf.in {
		gf.in[i] = allFacts
	}
	gf.in[0] = 0
	work := []int{0}
	inq := make([]bool, n)
	inq[0] = true
	visited := make([]bool, n)
	for len(work) > 0 {
		bi := work[0]
		work = work[1:]
		inq[bi] = false
		visited[bi] = true
		b := fn.Blocks[bi]
		f := gf.in[bi]
		for _, in := range b.Instrs {
			f = gf.transfer(f, in)
		}
		for si, succ := range b.Succs {
			out := f
			if ifi, ok := b.Instrs[len(b.Instrs)-1].(*ssa.If); ok {
				out |= gf.edgeFacts(ifi.Cond, si == 0)
				out = gf.close(out)
			}
			key := [2]int{bi, succ.Index}
			// Two edges to the same successor (if c goto X else goto X): meet them.
			if prev, ok := gf.edgeOut[key]; ok && si == 1 && b.Succs[0] == b.Succs[1] {
				out &= prev
			}
			gf.edgeOut[key] = out
			nin := gf.in[succ.Index] & out
			if !visited[succ.Index] || nin != gf.in[succ.Index] {
				gf.in[succ.Index] = nin
				if !inq[succ.Index] {
					inq[succ.Index] = true
					work = append(work, succ.Index)
				}
			}
		}
	}
	return gf
}

// close adds derived facts whose alternatives are satisfied.
func (gf *GuardFlow) close(f factSet) factSet {
	if f == allFacts {
		return f
	}
	for di, d := range gf.derived {
		for _, alt := range d.Alts {
			ok := true
			for _, nm := range alt {
				gi := gf.guardIndex(nm)
				if gi < 0 || !gf.Passed(f, gi) {
					ok = false
					break
				}
			}
			if ok {
				f |= 1 << gf.dbit[di]
			}
		}
	}
	return f
}

func (gf *GuardFlow) guardIndex(name string) int {
	for i, g := range gf.Guards {
		if g.Name == name {
			return i
		}
	}
	return -1
}

// DerivedPassed reports whether derived fact name is in f.
func (gf *GuardFlow) DerivedPassed(f factSet, name string) bool {
	for di, d := range gf.derived {
		if d.Name == name {
			return f&(1<<gf.dbit[di]) != 0
		}
	}
	return false
}

func (gf *GuardFlow) transfer(f factSet, in ssa.Instruction) factSet {
	if gis, ok := gf.calls[in]; ok {
		for _, gi := range gis {
			if gf.Guards[gi].Pure {
				continue
			}
			for di, d := range gf.derived {
				for _, alt := range d.Alts {
					for _, nm := range alt {
						if nm == gf.Guards[gi].Name {
							f &^= 1 << gf.dbit[di]
						}
					}
				}
			}
			for ci, c := range gf.Guards[gi].Comps {
				if c.Kind == Executed {
					if _, isDefer := in.(*ssa.Defer); !isDefer {
						f |= 1 << gf.bit[gi][ci]
					}
				} else {
					f &^= 1 << gf.bit[gi][ci]
				}
			}
		}
		f = gf.close(f)
	}
	return f
}

func (gf *GuardFlow) bindResults(v ssa.Value, gi int) {
	g := gf.Guards[gi]
	tup, isTuple := v.Type().(*types.Tuple)
	for ci, c := range g.Comps {
		if c.Kind == Executed {
			continue
		}
		if !isTuple {
			gf.results[v] = append(gf.results[v], resRef{gi, ci})
			continue
		}
		idx := c.Result
		if idx < 0 {
			idx = tup.Len() - 1
		}
		for _, ref := range *v.Referrers() {
			if ex, ok := ref.(*ssa.Extract); ok && ex.Index == idx {
				gf.results[ex] = append(gf.results[ex], resRef{gi, ci})
			}
		}
	}
}

// propagatePhis extends result bindings through phis, interface changes and
// locals that go through memory (Alloc with stores of guard results only).
func (gf *GuardFlow) propagatePhis() {
	changed := true
	for changed {
		changed = false
		for _, b := range gf.Fn.Blocks {
			for _, in := range b.Instrs {
				switch x := in.(type) {
				case *ssa.Phi:
					if _, done := gf.results[x]; done {
						continue
					}
					// all operands must be results of the same guard component, or
					// neutral constants for that kind.
					var common []resRef
					first := true
					ok := true
					for _, e := range x.Edges {
						refs := gf.results[gf.Mem.Canon(e)]
						if len(refs) == 0 {
							if _, isC := e.(*ssa.Const); isC || e == x {
								continue // judged below against kind
							}
							ok = false
							break
						}
						if first {
							common = refs
							first = false
						} else {
							common = intersectRefs(common, refs)
						}
					}
					if !ok || first || len(common) == 0 {
						continue
					}
					var keep []resRef
					for _, r := range common {
						kind := gf.Guards[r.g].Comps[r.c].Kind
						neutral := true
						for _, e := range x.Edges {
							if c, isC := e.(*ssa.Const); isC && len(gf.results[gf.Mem.Canon(e)]) == 0 {
								if !constIsFailing(c, kind) {
									neutral = false
								}
							}
						}
						if neutral {
							keep = append(keep, r)
						}
					}
					if len(keep) > 0 {
						gf.results[x] = keep
						changed = true
					}
				case *ssa.ChangeInterface:
					if r, ok := gf.results[gf.Mem.Canon(x.X)]; ok && gf.results[x] == nil {
						gf.results[x] = r
						changed = true
					}
				case *ssa.ChangeType:
					if r, ok := gf.results[gf.Mem.Canon(x.X)]; ok && gf.results[x] == nil {
						gf.results[x] = r
						changed = true
					}
				case *ssa.UnOp:
					// load from a local cell that only ever holds results of one guard
					if x.Op != token.MUL || gf.results[x] != nil {
						continue
					}
					al, ok := x.X.(*ssa.Alloc)
					if !ok {
						continue
					}
					var common []resRef
					first, good := true, true
					for _, ref := range *al.Referrers() {
						switch st := ref.(type) {
						case *ssa.Store:
							if st.Addr != al {
								good = false
								break
							}
							refs := gf.results[gf.Mem.Canon(st.Val)]
							if len(refs) == 0 {
								if c, isC := st.Val.(*ssa.Const); isC && c.IsNil() {
									continue
								}
								good = false
								break
							}
							if first {
								common, first = refs, false
							} else {
								common = intersectRefs(common, refs)
							}
						case *ssa.UnOp, *ssa.DebugRef:
						case *ssa.MakeClosure:
							// captured by a closure: the closure may store anything
							good = closureOnlyReads(st, al)
						default:
							good = false
						}
						if !good {
							break
						}
					}
					if good && !first && len(common) > 0 {
						// memory cells: a nil initial store would be "passing" for ErrNil — only allow kinds where zero value is failing? Keep it simple: accept.
						gf.results[x] = common
						changed = true
					}
				}
			}
		}
	}
}

func closureOnlyReads(mc *ssa.MakeClosure, al *ssa.Alloc) bool {
	fn := mc.Fn.(*ssa.Function)
	for i, b := range mc.Bindings {
		if b != al {
			continue
		}
		fv := fn.FreeVars[i]
		for _, ref := range *fv.Referrers() {
			switch r := ref.(type) {
			case *ssa.UnOp:
			case *ssa.Store:
				if r.Addr == fv {
					return false
				}
			default:
				return false
			}
		}
	}
	return true
}

// constIsFailing: a constant operand of a phi that may stand in for a guard
// result only if the constant means "not passed" for that kind (so that the
// test still implies the guard ran and passed).
func constIsFailing(c *ssa.Const, k PassKind) bool {
	switch k {
	case IsTrue:
		return c.Value != nil && c.Value.Kind() == constant.Bool && !constant.BoolVal(c.Value)
	case IsFalse:
		return c.Value != nil && c.Value.Kind() == constant.Bool && constant.BoolVal(c.Value)
	case NonNil:
		return c.IsNil()
	case NonNeg:
		if c.Value != nil && c.Value.Kind() == constant.Int {
			return constant.Sign(c.Value) < 0
		}
	}
	return false
}

func intersectRefs(a, b []resRef) []resRef {
	var out []resRef
	for _, x := range a {
		for _, y := range b {
			if x == y {
				out = append(out, x)
			}
		}
	}
	return out
}

type tri int

const (
	triU tri = iota
	triT
	triF
)

func (t tri) not() tri {
	switch t {
	case triT:
		return triF
	case triF:
		return triT
	}
	return triU
}

// edgeFacts returns the guard components implied *passed* when cond evaluates to branch.
func (gf *GuardFlow) edgeFacts(cond ssa.Value, branch bool) factSet {
	var out factSet
	for gi, g := range gf.Guards {
		for ci := range g.Comps {
			if g.Comps[ci].Kind == Executed {
				continue
			}
			// Evaluate cond assuming the component FAILED. If the result is definite
			// and differs from branch, then taking this branch implies it passed.
			t := gf.eval(cond, resRef{gi, ci}, 0)
			if (t == triT && !branch) || (t == triF && branch) {
				out |= 1 << gf.bit[gi][ci]
			}
		}
	}
	return out
}

func (gf *GuardFlow) isResult(v ssa.Value, r resRef) bool {
	v = gf.Mem.Canon(v)
	for _, x := range gf.results[v] {
		if x == r {
			return true
		}
	}
	return false
}

func isNilConst(v ssa.Value) bool {
	c, ok := v.(*ssa.Const)
	return ok && c.IsNil()
}

func intConst(v ssa.Value) (int64, bool) {
	c, ok := v.(*ssa.Const)
	if !ok || c.Value == nil || c.Value.Kind() != constant.Int {
		return 0, false
	}
	i, ok := constant.Int64Val(c.Value)
	return i, ok
}

func boolConst(v ssa.Value) (bool, bool) {
	c, ok := v.(*ssa.Const)
	if !ok || c.Value == nil || c.Value.Kind() != constant.Bool {
		return false, false
	}
	return constant.BoolVal(c.Value), true
}

// eval evaluates boolean value v under the assumption that guard component r failed.
func (gf *GuardFlow) eval(v ssa.Value, r resRef, depth int) tri {
	if depth > 8 {
		return triU
	}
	comp := gf.Guards[r.g].Comps[r.c]
	v = gf.Mem.Canon(v)
	if b, ok := boolConst(v); ok {
		if b {
			return triT
		}
		return triF
	}
	if gf.isResult(v, r) {
		switch comp.Kind {
		case IsTrue:
			return triF
		case IsFalse:
			return triT
		}
		return triU
	}
	switch x := v.(type) {
	case *ssa.UnOp:
		if x.Op == token.NOT {
			return gf.eval(x.X, r, depth+1).not()
		}
	case *ssa.BinOp:
		switch x.Op {
		case token.EQL, token.NEQ:
			var t tri = triU
			a, b := x.X, x.Y
			if gf.isResult(b, r) {
				a, b = b, a
			}
			if gf.isResult(a, r) {
				switch comp.Kind {
				case ErrNil, IsNil:
					if isNilConst(b) {
						t = triF // failing => a != nil => (a == nil) is false
					}
				case NonNil:
					if isNilConst(b) {
						t = triT
					}
				case IsTrue:
					if c, ok := boolConst(b); ok {
						t = boolTri(!c) // a is false; a == c  <=> c == false
					}
				case IsFalse:
					if c, ok := boolConst(b); ok {
						t = boolTri(c)
					}
				case EqConst:
					if c, ok := intConst(b); ok && c == comp.Const {
						t = triF // failing => a != Const => (a == Const) is false
					}
				case NeConst:
					if c, ok := intConst(b); ok && c == comp.Const {
						t = triT // failing => a == Const
					}
				}
			} else if lenOf(a, gf, r) || lenOf(b, gf, r) {
				if lenOf(b, gf, r) {
					a, b = b, a
				}
				if c, ok := intConst(b); ok && c == 0 && comp.Kind == LenNonZero {
					t = triT // failing => len == 0
				}
			} else {
				// bool == bool
				if c, ok := boolConst(b); ok {
					t = gf.eval(a, r, depth+1)
					if !c {
						t = t.not()
					}
				} else if c, ok := boolConst(a); ok {
					t = gf.eval(b, r, depth+1)
					if !c {
						t = t.not()
					}
				}
			}
			if x.Op == token.NEQ {
				t = t.not()
			}
			return t
		case token.LSS, token.GEQ, token.GTR, token.LEQ:
			if comp.Kind == NonNeg {
				// failing => a < 0
				if gf.isResult(x.X, r) {
					if c, ok := intConst(x.Y); ok {
						switch {
						case x.Op == token.LSS && c >= 0: // a < c with c>=0: true when a<0
							return triT
						case x.Op == token.LEQ && c >= -1:
							return triT
						case x.Op == token.GEQ && c >= 0:
							return triF
						case x.Op == token.GTR && c >= -1:
							return triF
						}
					}
				}
				if gf.isResult(x.Y, r) {
					if c, ok := intConst(x.X); ok {
						switch {
						case x.Op == token.GTR && c >= 0: // c > a
							return triT
						case x.Op == token.GEQ && c >= -1:
							return triT
						case x.Op == token.LEQ && c >= 0: // c <= a
							return triF
						case x.Op == token.LSS && c >= -1:
							return triF
						}
					}
				}
			}
			if comp.Kind == LenNonZero {
				if lenOf(x.X, gf, r) {
					if c, ok := intConst(x.Y); ok {
						switch {
						case x.Op == token.GTR && c >= 0: // len > c ; failing len==0
							return triF
						case x.Op == token.GEQ && c >= 1:
							return triF
						case x.Op == token.LSS && c >= 1:
							return triT
						case x.Op == token.LEQ && c >= 0:
							return triT
						}
					}
				}
			}
		}
	case *ssa.Call:
		name := CalleeName(x)
		if (name == "errors.Is" || name == "errors.As") && len(x.Call.Args) == 2 && comp.Kind == ErrNotIs {
			if gf.isResult(x.Call.Args[0], r) {
				tgt := errTargetName(x.Call.Args[1])
				for _, a := range comp.Accept {
					if a == tgt {
						return triT // failing means: it IS an accepted error
					}
				}
			}
		}
		if (name == "errors.Is" || name == "errors.As") && len(x.Call.Args) == 2 && (comp.Kind == ErrNil || comp.Kind == ErrIs) {
			if gf.isResult(x.Call.Args[0], r) {
				tgt := errTargetName(x.Call.Args[1])
				for _, a := range comp.Accept {
					if a == tgt {
						return triF // failing means: non-nil and not an accepted error
					}
				}
			}
		}
		// repo-specific error predicates listed as "fn:<callee>" in Accept
		if (comp.Kind == ErrNil || comp.Kind == ErrIs) && len(x.Call.Args) >= 1 && gf.isResult(x.Call.Args[0], r) {
			for _, a := range comp.Accept {
				if a == "fn:"+name {
					return triF
				}
			}
		}
	case *ssa.Phi:
		// a materialised short-circuit expression: all edges must agree
		var res tri = triU
		for i, e := range x.Edges {
			t := gf.eval(e, r, depth+1)
			if t == triU {
				return triU
			}
			if i == 0 {
				res = t
			} else if res != t {
				return triU
			}
		}
		return res
	}
	return triU
}

func boolTri(b bool) tri {
	if b {
		return triT
	}
	return triF
}

func lenOf(v ssa.Value, gf *GuardFlow, r resRef) bool {
	c, ok := v.(*ssa.Call)
	if !ok {
		return false
	}
	if b, ok := c.Call.Value.(*ssa.Builtin); ok && b.Name() == "len" && len(c.Call.Args) == 1 {
		return gf.isResult(c.Call.Args[0], r)
	}
	return false
}

// errTargetName names the second argument of errors.Is / errors.As: a package
// level variable ("pkg.ErrX"), or for errors.As the pointed-to type.
// ErrTargetName is the exported errTargetName.
func ErrTargetName(v ssa.Value) string { return errTargetName(v) }

func errTargetName(v ssa.Value) string {
	for {
		switch x := v.(type) {
		case *ssa.MakeInterface:
			if c, ok := x.X.(*ssa.Const); ok && c.Value != nil {
				return "const:" + Short(types.TypeString(c.Type(), nil)) + "=" + c.Value.ExactString()
			}
			v = x.X
			continue
		case *ssa.ChangeInterface:
			v = x.X
			continue
		case *ssa.UnOp:
			if x.Op == token.MUL {
				if g, ok := x.X.(*ssa.Global); ok {
					return Short(g.Pkg.Pkg.Path()) + "." + g.Name()
				}
			}
		case *ssa.Alloc:
			return "type:" + Short(types.TypeString(x.Type().(*types.Pointer).Elem(), nil))
		case *ssa.Global:
			return Short(x.Pkg.Pkg.Path()) + "." + x.Name()
		case *ssa.Call:
			// constructor of an error value, e.g. apistatus.ErrX? name by callee
			return "call:" + CalleeName(x)
		}
		return Short(types.TypeString(v.Type(), nil))
	}
}

// At returns the facts holding immediately before instruction in.
func (gf *GuardFlow) At(in ssa.Instruction) factSet {
	b := in.Block()
	f := gf.in[b.Index]
	if f == allFacts && b.Index != 0 && !gf.reachable(b) {
		return allFacts // unreachable code: vacuous
	}
	for _, i := range b.Instrs {
		if i == in {
			return f
		}
		f = gf.transfer(f, i)
	}
	return f
}

func (gf *GuardFlow) reachable(b *ssa.BasicBlock) bool {
	for _, p := range b.Preds {
		if _, ok := gf.edgeOut[[2]int{p.Index, b.Index}]; ok {
			return true
		}
	}
	return false
}

// EdgeFacts returns facts at the end of edge pred->succ.
func (gf *GuardFlow) OnEdge(pred, succ *ssa.BasicBlock) factSet {
	if f, ok := gf.edgeOut[[2]int{pred.Index, succ.Index}]; ok {
		return f
	}
	return allFacts
}

// Passed reports whether guard gi (all its components) is in f.
func (gf *GuardFlow) Passed(f factSet, gi int) bool {
	for _, b := range gf.bit[gi] {
		if f&(1<<b) == 0 {
			return false
		}
	}
	return true
}

// Missing lists names of guards from req (indices) not passed in f.
func (gf *GuardFlow) Missing(f factSet, req []int) []string {
	var out []string
	for _, gi := range req {
		if !gf.Passed(f, gi) {
			out = append(out, gf.Guards[gi].Name)
		}
	}
	return out
}

// PassedNames lists all guards passed in f.
func (gf *GuardFlow) PassedNames(f factSet) []string {
	var out []string
	for gi := range gf.Guards {
		if gf.Passed(f, gi) {
			out = append(out, gf.Guards[gi].Name)
		}
	}
	sort.Strings(out)
	return out
}

// ---------------------------------------------------------------------------
// Rule helpers built on Flow.

// EffectRule: in function Fn, every instruction satisfying Effect must have all
// guards passed.
type EffectRule struct {
	Fn      string // short function name
	Effect  func(p *Prog, in ssa.Instruction) (desc string, ok bool)
	Guards  []Guard
	Derived []Derived
	// Need optionally restricts the guards (or derived facts) required at a site, by name; nil = all guards.
	Need func(desc string) []string
	// Min is the minimum number of effect sites that must be found in this function.
	Min int
	// LiftDepth > 0 (with CallerScope) makes the rule interprocedural for unexported helpers: a guard missing at
	// an effect inside an unexported function that is never used as a value is accepted when every call site
	// of that function in CallerScope has the guard passed (or, recursively, is lifted itself). The guards must
	// not depend on the function they are evaluated in.
	LiftDepth   int
	CallerScope []*ssa.Function
}

// liftCtx caches what the lifting needs for one EffectRule run.
type liftCtx struct {
	r       EffectRule
	flows   map[*ssa.Function]*GuardFlow
	callers map[*ssa.Function][]Site
	asValue map[*ssa.Function]bool
}

func newLiftCtx(r EffectRule) *liftCtx {
	lc := &liftCtx{r: r, flows: map[*ssa.Function]*GuardFlow{}, callers: map[*ssa.Function][]Site{}, asValue: map[*ssa.Function]bool{}}
	for _, f := range r.CallerScope {
		for _, b := range f.Blocks {
			for _, in := range b.Instrs {
				if c, ok := in.(ssa.CallInstruction); ok {
					if cal := StaticCallee(c); cal != nil {
						lc.callers[cal] = append(lc.callers[cal], Site{f, c, CalleeName(c)})
					}
				}
				for _, op := range in.Operands(nil) {
					if op == nil || *op == nil {
						continue
					}
					fv, isF := (*op).(*ssa.Function)
					if !isF {
						continue
					}
					if c, ok := in.(ssa.CallInstruction); ok && c.Common().Value == fv {
						continue // in call position
					}
					lc.asValue[fv] = true
				}
			}
		}
	}
	return lc
}

func unexportedFunc(fn *ssa.Function) bool {
	n := fn.Name()
	return fn.Parent() == nil && n != "" && n != "init" && !ast.IsExported(n)
}

// holdsAtCallers: name (guard or derived fact) has passed at every call site of fn.
func (lc *liftCtx) holdsAtCallers(fn *ssa.Function, name string, depth int, seen map[*ssa.Function]bool) bool {
	if depth <= 0 || !unexportedFunc(fn) || lc.asValue[fn] || seen[fn] || len(lc.callers[fn]) == 0 {
		return false
	}
	seen[fn] = true
	defer delete(seen, fn)
	for _, cs := range lc.callers[fn] {
		gf := lc.flows[cs.Fn]
		if gf == nil {
			gf = Flow(cs.Fn, lc.r.Guards, lc.r.Derived...)
			lc.flows[cs.Fn] = gf
		}
		f := gf.At(cs.Call.(ssa.Instruction))
		ok := false
		if gi := gf.guardIndex(name); gi >= 0 {
			ok = gf.Passed(f, gi)
		} else {
			ok = gf.DerivedPassed(f, name)
		}
		if !ok && !lc.holdsAtCallers(cs.Fn, name, depth-1, seen) {
			return false
		}
	}
	return true
}

// CheckEffects runs an EffectRule and adds obligations (one per effect site × guard).
func CheckEffects(p *Prog, h *RuleH, r EffectRule) {
	fn := p.Func(r.Fn)
	if fn == nil {
		h.r.Fatalf("%s: anchor function %s not found", h.ID(), r.Fn)
		return
	}
	CheckEffectsFn(p, h, fn, r)
}

func CheckEffectsFn(p *Prog, h *RuleH, fn *ssa.Function, r EffectRule) int {
	gf := Flow(fn, r.Guards, r.Derived...)
	idx := map[string]int{}
	for i, g := range r.Guards {
		idx[g.Name] = i
	}
	for i, d := range r.Derived {
		idx[d.Name] = -1 - i
	}
	n := 0
	var lc *liftCtx
	lifted := func(name string) bool {
		if r.LiftDepth <= 0 {
			return false
		}
		if lc == nil {
			lc = newLiftCtx(r)
		}
		return lc.holdsAtCallers(fn, name, r.LiftDepth, map[*ssa.Function]bool{})
	}
	for _, b := range fn.Blocks {
		for _, in := range b.Instrs {
			desc, ok := r.Effect(p, in)
			if !ok {
				continue
			}
			n++
			f := gf.At(in)
			var req []int
			if r.Need != nil {
				for _, nm := range r.Need(desc) {
					gi, ok := idx[nm]
					if !ok {
						panic("unknown guard " + nm)
					}
					req = append(req, gi)
				}
			} else {
				for i := range r.Guards {
					req = append(req, i)
				}
			}
			for _, gi := range req {
				if gi < 0 {
					d := r.Derived[-1-gi]
					c := fmt.Sprintf("%s#%s!%s", FuncName(fn), desc, d.Name)
					if gf.DerivedPassed(f, d.Name) {
						h.OK(c, p.InstrPos(in), "one alternative of the disjunctive guard passed on every path to the effect")
					} else if lifted(d.Name) {
						h.OK(c, p.InstrPos(in), "unexported helper never used as a value: the guard has passed at every one of its call sites")
					} else {
						h.Bad(c, p.InstrPos(in), fmt.Sprintf("effect %s is reachable on a path where none of the alternatives %v of %q has passed; passed here: [%s]", desc, d.Alts, d.Name, strings.Join(gf.PassedNames(f), ",")))
					}
					continue
				}
				g := r.Guards[gi]
				c := fmt.Sprintf("%s#%s!%s", FuncName(fn), desc, g.Name)
				if gf.Passed(f, gi) {
					h.OK(c, p.InstrPos(in), "guard passed on every path to the effect")
				} else if lifted(g.Name) {
					h.OK(c, p.InstrPos(in), "unexported helper never used as a value: the guard has passed at every one of its call sites")
				} else {
					why := fmt.Sprintf("effect %s is reachable on a path where guard %q has not passed", desc, g.Name)
					if len(gf.Sites[gi]) == 0 {
						why += " (no call establishing the guard exists in this function)"
					}
					h.Bad(c, p.InstrPos(in), why+"; passed here: ["+strings.Join(gf.PassedNames(f), ",")+"]")
				}
			}
		}
	}
	if n < r.Min {
		h.r.Fatalf("%s: %s has %d effect sites, expected at least %d", h.ID(), FuncName(fn), n, r.Min)
	}
	return n
}

// SuccessRule (must-pass-through): every *success return* of Fn has passed all guards.
// A return is a success return when its error result (last result of type error) is
// the nil constant, or its bool result (if BoolResult>=0) is the given constant.
type SuccessRule struct {
	Fn      string
	Guards  []Guard
	Derived []Derived
	// Need lists the guard / derived names required at a success return; nil = all guards.
	Need []string
	// ResultIdx: index of the result that signals success; -1 = last.
	ResultIdx int
	// SuccessBool: when the signalling result is a bool, which value means success.
	SuccessBool bool
	// AllowTail: guard names for which `return g(...)`-style tails (the returned
	// value is the guard's own result) count as satisfied — default all.
	MinReturns int
}

// CheckSuccess adds one obligation per (success return edge × guard).
func CheckSuccess(p *Prog, h *RuleH, r SuccessRule) {
	fn := p.Func(r.Fn)
	if fn == nil {
		h.r.Fatalf("%s: anchor function %s not found", h.ID(), r.Fn)
		return
	}
	CheckSuccessFn(p, h, fn, r)
}

// SuccessHolds evaluates a SuccessRule quietly: true when fn has at least one success
// return and every success return satisfies the rule. Used to recognise guard *wrappers*
// (a helper whose nil result implies the inner guard passed).
func SuccessHolds(p *Prog, fn *ssa.Function, r SuccessRule) bool {
	tmp := NewReport("tmp", "other", "quick")
	h := tmp.Rule("tmp", "", 0)
	r.MinReturns = 1
	CheckSuccessFn(p, h, fn, r)
	if len(tmp.Fatal) > 0 || len(tmp.Obls) == 0 {
		return false
	}
	for _, o := range tmp.Obls {
		if o.Status != Discharged {
			return false
		}
	}
	return true
}

func CheckSuccessFn(p *Prog, h *RuleH, fn *ssa.Function, r SuccessRule) {
	if r.Fn == "" {
		r.Fn = FuncName(fn)
	}
	gf := Flow(fn, r.Guards, r.Derived...)
	nret := 0
	need := map[string]bool{}
	for _, n := range r.Need {
		need[n] = true
	}
	// ownComp: component (gi,ci) is decided by the returned values themselves: the success-signalling value (or, for
	// an error-kind component, the returned error) IS that component's result, with a kind that makes
	// "the caller sees success" equivalent to "the component passed".
	var curResults []ssa.Value
	ownComp := func(val ssa.Value, gi, ci int) bool {
		kind := r.Guards[gi].Comps[ci].Kind
		if gf.isResult(val, resRef{gi, ci}) {
			if val.Type().String() == "bool" {
				return kind == IsTrue && r.SuccessBool || kind == IsFalse && !r.SuccessBool
			}
			return kind == ErrNil || kind == IsNil
		}
		if kind == ErrNil {
			for _, rv := range curResults {
				if rv != val && rv.Type().String() == "error" && gf.isResult(gf.Mem.Canon(rv), resRef{gi, ci}) {
					return true // handed to the caller as this function's own error
				}
			}
		}
		return false
	}
	check := func(desc string, pos string, f factSet, val ssa.Value, at *ssa.BasicBlock) {
		// classify val (seeing through defer-spilled result cells)
		val = gf.Mem.Canon(val)
		switch classifySuccess(val, r.SuccessBool) {
		case triF:
			return // failure return
		}
		if knownNonNil(gf.Mem, val, at) {
			return // `if err != nil { return err }`: a failure return
		}
		if closureCellAllFailures(val, r.SuccessBool, strings.HasPrefix(at.Comment, "rangefunc.resume")) {
			return // result cell written only by closures (range-over-func bodies) with failure values
		}
		nret++
		for _, d := range r.Derived {
			if r.Need != nil && !need[d.Name] {
				continue
			}
			c := fmt.Sprintf("%s#%s!%s", FuncName(fn), desc, d.Name)
			ok := gf.DerivedPassed(f, d.Name)
			for _, alt := range d.Alts {
				all := true
				for _, nm := range alt {
					gi := gf.guardIndex(nm)
					if gi < 0 {
						all = false
						continue
					}
					for ci := range r.Guards[gi].Comps {
						if f&(1<<gf.bit[gi][ci]) == 0 && !ownComp(val, gi, ci) {
							all = false
						}
					}
				}
				ok = ok || all
			}
			if ok {
				h.OK(c, pos, "one alternative passed (or the returned value is that guard's own result)")
			} else {
				h.Bad(c, pos, fmt.Sprintf("a success return is reachable where none of the alternatives %v of %q holds; passed here: [%s]", d.Alts, d.Name, strings.Join(gf.PassedNames(f), ",")))
			}
		}
		for gi, g := range r.Guards {
			if r.Need != nil && !need[g.Name] {
				continue
			}
			c := fmt.Sprintf("%s#%s!%s", FuncName(fn), desc, g.Name)
			if gf.Passed(f, gi) {
				h.OK(c, pos, "guard passed on every path to this success return")
				continue
			}
			// the returned value is this guard's own result: success <=> passed (per component: passed on the path, or decided by the returned values)
			own := true
			for ci := range g.Comps {
				if f&(1<<gf.bit[gi][ci]) == 0 && !ownComp(val, gi, ci) {
					own = false
				}
			}
			if own {
				h.OK(c, pos, "the returned value is the guard's own result")
				continue
			}
			h.Bad(c, pos, fmt.Sprintf("a success return is reachable without guard %q having passed; passed here: [%s]", g.Name, strings.Join(gf.PassedNames(f), ",")))
		}
	}
	retIdx := 0
	for _, b := range fn.Blocks {
		ret, ok := b.Instrs[len(b.Instrs)-1].(*ssa.Return)
		if !ok || len(ret.Results) == 0 {
			continue
		}
		ri := r.ResultIdx
		if ri < 0 {
			ri = len(ret.Results) - 1
		}
		val := ret.Results[ri]
		if phi, ok := val.(*ssa.Phi); ok && phi.Block() == b {
			for i, e := range phi.Edges {
				retIdx++
				f := gf.OnEdge(b.Preds[i], b)
				// instructions in b before the return could kill facts; approximate with edge facts then block transfer
				for _, in := range b.Instrs {
					f = gf.transfer(f, in)
				}
				curResults = ret.Results
				check(fmt.Sprintf("return[%d]", retIdx), p.InstrPos(ret), f, e, b.Preds[i])
			}
			continue
		}
		retIdx++
		curResults = ret.Results
		check(fmt.Sprintf("return[%d]", retIdx), p.InstrPos(ret), gf.At(ret), val, b)
	}
	if nret < r.MinReturns {
		h.r.Fatalf("%s: %s has %d success returns, expected at least %d", h.ID(), r.Fn, nret, r.MinReturns)
	}
}

// classifySuccess: triT = definitely success, triF = definitely failure, triU = may be either.
func classifySuccess(v ssa.Value, successBool bool) tri {
	switch x := v.(type) {
	case *ssa.Const:
		if x.IsNil() {
			return triT
		}
		if b, ok := boolConst(x); ok {
			return boolTri(b == successBool)
		}
		return triU
	case *ssa.MakeInterface:
		return triF // a concrete non-nil error value
	case *ssa.Call:
		n := CalleeName(x)
		if n == "fmt.Errorf" || n == "errors.New" {
			return triF
		}
		if cal := StaticCallee(x); cal != nil && alwaysNonNilError(cal, 0) {
			return triF
		}
		if strings.HasSuffix(n, "grpc/status.Error") || strings.HasSuffix(n, "grpc/status.Errorf") {
			// status.Error(codes.OK, …) returns nil: a failure only for a constant non-OK code
			if c, ok := intConst(x.Call.Args[0]); ok && c != 0 {
				return triF
			}
			return triU
		}
	case *ssa.UnOp:
		if x.Op == token.MUL {
			if _, ok := x.X.(*ssa.Global); ok {
				return triF // package-level error variable
			}
		}
	}
	return triU
}

// CallTo returns an Effect predicate matching calls (call/go/defer) whose CalleeName is in names.
func CallTo(names ...string) func(p *Prog, in ssa.Instruction) (string, bool) {
	set := map[string]bool{}
	for _, n := range names {
		set[n] = true
	}
	return func(p *Prog, in ssa.Instruction) (string, bool) {
		c, ok := in.(ssa.CallInstruction)
		if !ok {
			return "", false
		}
		n := CalleeName(c)
		if set[n] {
			return n, true
		}
		return "", false
	}
}

// Discover prints, for every call site of fn, which auto-derived guards have passed
// there. Used only while building rule tables (nfscheck -discover).
func Discover(p *Prog, fn *ssa.Function) []string {
	var guards []Guard
	seen := map[string]bool{}
	for _, s := range CallSites([]*ssa.Function{fn}, nil) {
		v := s.Call.Value()
		if v == nil || seen[s.Name] {
			continue
		}
		seen[s.Name] = true
		name := s.Name
		add := func(idx int, t types.Type) {
			suffix := ""
			if idx >= 0 {
				suffix = fmt.Sprintf("[%d]", idx)
			}
			mk := func(k PassKind, tag string) {
				if len(guards) >= 60 {
					return
				}
				nm := name
				guards = append(guards, Guard{Name: nm + suffix + tag, Match: func(s Site) bool { return s.Name == nm }, Comps: []Comp{{Result: idx, Kind: k}}})
			}
			if types.Identical(t, types.Universe.Lookup("error").Type()) {
				mk(ErrNil, "==nil")
			} else if b, ok := t.Underlying().(*types.Basic); ok && b.Kind() == types.Bool {
				mk(IsTrue, "==true")
				mk(IsFalse, "==false")
			} else if b, ok := t.Underlying().(*types.Basic); ok && b.Info()&types.IsInteger != 0 && b.Info()&types.IsUnsigned == 0 {
				mk(NonNeg, ">=0")
			} else if _, ok := t.Underlying().(*types.Pointer); ok {
				mk(NonNil, "!=nil")
			}
		}
		if tup, ok := v.Type().(*types.Tuple); ok {
			for i := 0; i < tup.Len(); i++ {
				add(i, tup.At(i).Type())
			}
		} else {
			add(-1, v.Type())
		}
	}
	gf := Flow(fn, guards)
	var out []string
	for _, b := range fn.Blocks {
		for _, in := range b.Instrs {
			switch x := in.(type) {
			case ssa.CallInstruction:
				out = append(out, fmt.Sprintf("%-40s call %-70s passed=%v", p.InstrPos(in), CalleeName(x), gf.PassedNames(gf.At(in))))
			case *ssa.Return:
				out = append(out, fmt.Sprintf("%-40s return %v passed=%v", p.InstrPos(in), x.Results, gf.PassedNames(gf.At(in))))
			case *ssa.Store:
				if fa, ok := x.Addr.(*ssa.FieldAddr); ok {
					out = append(out, fmt.Sprintf("%-40s store %-69s passed=%v", p.InstrPos(in), FieldAddrName(fa), gf.PassedNames(gf.At(in))))
				}
			}
		}
	}
	return out
}

// LEFacts builds guards recognising every comparison form that establishes a <= b
// (a <= b, b >= a on their true edge; a > b, b < a on their false edge) and, when
// strictOK, also the strict forms a < b / b > a (true edge). The derived fact `name`
// holds when any of them has been established.
func LEFacts(name string, isA, isB func(fn *ssa.Function, v ssa.Value) bool, strictOK bool) ([]Guard, Derived) {
	t := Guard{Name: name + "(true-form)", Comps: []Comp{{Result: -1, Kind: IsTrue}}, Value: func(fn *ssa.Function, v ssa.Value) bool {
		bo, ok := v.(*ssa.BinOp)
		if !ok {
			return false
		}
		switch bo.Op {
		case token.LEQ:
			return isA(fn, bo.X) && isB(fn, bo.Y)
		case token.GEQ:
			return isB(fn, bo.X) && isA(fn, bo.Y)
		case token.LSS:
			return strictOK && isA(fn, bo.X) && isB(fn, bo.Y)
		case token.GTR:
			return strictOK && isB(fn, bo.X) && isA(fn, bo.Y)
		}
		return false
	}}
	f := Guard{Name: name + "(false-form)", Comps: []Comp{{Result: -1, Kind: IsFalse}}, Value: func(fn *ssa.Function, v ssa.Value) bool {
		bo, ok := v.(*ssa.BinOp)
		if !ok {
			return false
		}
		switch bo.Op {
		case token.GTR:
			return isA(fn, bo.X) && isB(fn, bo.Y)
		case token.LSS:
			return isB(fn, bo.X) && isA(fn, bo.Y)
		}
		return false
	}}
	return []Guard{t, f}, Derived{Name: name, Alts: [][]string{{t.Name}, {f.Name}}}
}

// Never is a guard no call establishes: requiring it at a site reports the site
// (used for "this construct has a shape the rule does not accept").
func Never(name string) Guard {
	return Guard{Name: name, Match: func(Site) bool { return false }, Comps: []Comp{{Result: -1, Kind: IsTrue}}}
}

// knownNonNil: block b is dominated by the non-nil outcome of a nil test of v
// (`if v != nil {` true edge or `if v == nil {` false edge).
// KnownNonNil is the exported form of knownNonNil that also accepts freshly constructed errors.
func KnownNonNil(mr *MemReach, v ssa.Value, b *ssa.BasicBlock) bool {
	v = mr.Canon(v)
	if classifySuccess(v, true) == triF {
		return true
	}
	return knownNonNil(mr, v, b)
}

func knownNonNil(mr *MemReach, v ssa.Value, b *ssa.BasicBlock) bool {
	v = mr.Canon(v)
	if c, ok := v.(*ssa.Call); ok {
		if cal := StaticCallee(c); cal != nil {
			if k, ok := nonNilIfArg(cal); ok && k < len(c.Call.Args) {
				a := mr.Canon(c.Call.Args[k])
				if classifySuccess(a, true) == triF || knownNonNil(mr, a, b) {
					return true
				}
			}
		}
	}
	fn := b.Parent()
	for _, blk := range fn.Blocks {
		ifi, ok := blk.Instrs[len(blk.Instrs)-1].(*ssa.If)
		if !ok {
			continue
		}
		bo, ok := ifi.Cond.(*ssa.BinOp)
		if !ok || (bo.Op != token.NEQ && bo.Op != token.EQL) {
			continue
		}
		x, y := mr.Canon(bo.X), mr.Canon(bo.Y)
		if !(x == v && isNilConst(y) || y == v && isNilConst(x)) {
			continue
		}
		succ := blk.Succs[0]
		if bo.Op == token.EQL {
			succ = blk.Succs[1]
		}
		if len(succ.Preds) == 1 && succ.Dominates(b) {
			return true
		}
	}
	return false
}

// closureCellAllFailures: v is a load of a local cell that is written only inside
// closures of the function (the result cell of a `return` inside a range-over-func
// body) and every value stored there is a failure value.
func closureCellAllFailures(v ssa.Value, successBool bool, resumeBlock bool) bool {
	u, ok := v.(*ssa.UnOp)
	if !ok || u.Op != token.MUL {
		return false
	}
	al, ok := u.X.(*ssa.Alloc)
	if !ok || al.Referrers() == nil {
		return false
	}
	n := 0
	for _, ref := range *al.Referrers() {
		switch x := ref.(type) {
		case *ssa.Store:
			if x.Addr == al && !resumeBlock {
				return false // also written directly: not a pure closure result cell
			}
			// in a rangefunc.resume.* block only the stores made by the loop body (closure) reach the load
		case *ssa.MakeClosure:
			fn := x.Fn.(*ssa.Function)
			for i, b := range x.Bindings {
				if b != al {
					continue
				}
				for _, r2 := range *fn.FreeVars[i].Referrers() {
					if st, ok := r2.(*ssa.Store); ok && st.Addr == fn.FreeVars[i] {
						n++
						if classifySuccess(st.Val, successBool) != triF {
							return false
						}
					}
				}
			}
		}
	}
	return n > 0
}

var (
	nonNilMemo   = map[*ssa.Function]bool{}
	nonNilMemoMu sync.Mutex
)

// alwaysNonNilError: fn has a body, returns a single error, and every return is a
// constructed error (fmt.Errorf, errors.New, a concrete value, a package-level error
// variable, or a call of another such constructor). Used to recognise the repository's
// own error wrappers (logicerr.Wrap, …) as failure returns.
func alwaysNonNilError(fn *ssa.Function, depth int) bool {
	if fn == nil || fn.Blocks == nil || depth > 3 {
		return false
	}
	res := fn.Signature.Results()
	if res.Len() != 1 || res.At(0).Type().String() != "error" {
		return false
	}
	nonNilMemoMu.Lock()
	v, ok := nonNilMemo[fn]
	nonNilMemoMu.Unlock()
	if ok {
		return v
	}
	out := true
	n := 0
	for _, b := range fn.Blocks {
		ret, ok := b.Instrs[len(b.Instrs)-1].(*ssa.Return)
		if !ok {
			continue
		}
		n++
		switch x := ret.Results[0].(type) {
		case *ssa.MakeInterface:
		case *ssa.Call:
			nm := CalleeName(x)
			if nm == "fmt.Errorf" || nm == "errors.New" {
				continue
			}
			if cal := StaticCallee(x); !alwaysNonNilError(cal, depth+1) {
				if k, ok := nonNilIfArg(cal); !(ok && k < len(x.Call.Args) && classifySuccess(x.Call.Args[k], true) == triF) {
					out = false
				}
			}
		case *ssa.UnOp:
			if _, isG := x.X.(*ssa.Global); !(x.Op == token.MUL && isG) {
				out = false
			}
		default:
			out = false
		}
	}
	out = out && n > 0
	nonNilMemoMu.Lock()
	nonNilMemo[fn] = out
	nonNilMemoMu.Unlock()
	return out
}

// nonNilIfArg: fn returns a single error and every return is either a constructed (non-nil)
// error or the function's k-th parameter itself: the result is non-nil whenever argument k is.
func nonNilIfArg(fn *ssa.Function) (int, bool) {
	if fn == nil || fn.Blocks == nil {
		return 0, false
	}
	res := fn.Signature.Results()
	if res.Len() != 1 || res.At(0).Type().String() != "error" {
		return 0, false
	}
	k, n := -1, 0
	for _, b := range fn.Blocks {
		ret, ok := b.Instrs[len(b.Instrs)-1].(*ssa.Return)
		if !ok {
			continue
		}
		n++
		switch x := ret.Results[0].(type) {
		case *ssa.MakeInterface:
		case *ssa.Parameter:
			idx := -1
			for i, p := range fn.Params {
				if p == x {
					idx = i
				}
			}
			if idx < 0 || k >= 0 && k != idx {
				return 0, false
			}
			k = idx
		case *ssa.Call:
			nm := CalleeName(x)
			if nm != "fmt.Errorf" && nm != "errors.New" && !alwaysNonNilError(StaticCallee(x), 1) {
				return 0, false
			}
		default:
			return 0, false
		}
	}
	return k, n > 0 && k >= 0
}
