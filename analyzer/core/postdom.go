package core

import "golang.org/x/tools/go/ssa"

// E9 helper — MustFollow: every path from instruction `from` to a function exit
// (Return) executes an instruction satisfying pred. Blocks that end in panic count as
// vacuous exits. Greatest fixpoint over the CFG (loops may be left without executing
// pred only through their exits, which are then examined).
func MustFollow(from ssa.Instruction, pred func(ssa.Instruction) bool) bool {
	fn := from.Parent()
	n := len(fn.Blocks)
	// hasPred[b]: pred holds somewhere in b (from the start)
	good := make([]bool, n)
	for i := range good {
		good[i] = true
	}
	blockHas := func(b *ssa.BasicBlock, after ssa.Instruction) bool {
		seen := after == nil
		for _, in := range b.Instrs {
			if !seen {
				if in == after {
					seen = true
				}
				continue
			}
			if pred(in) {
				return true
			}
		}
		return false
	}
	has := make([]bool, n)
	for i, b := range fn.Blocks {
		has[i] = blockHas(b, nil)
	}
	changed := true
	for changed {
		changed = false
		for i, b := range fn.Blocks {
			if !good[i] || has[i] {
				continue
			}
			ok := true
			if _, isRet := b.Instrs[len(b.Instrs)-1].(*ssa.Return); isRet {
				ok = false
			}
			for _, s := range b.Succs {
				if !good[s.Index] {
					ok = false
				}
			}
			if !ok {
				good[i] = false
				changed = true
			}
		}
	}
	fb := from.Block()
	if blockHas(fb, from) {
		return true
	}
	if _, isRet := fb.Instrs[len(fb.Instrs)-1].(*ssa.Return); isRet {
		return false
	}
	for _, s := range fb.Succs {
		if !good[s.Index] {
			return false
		}
	}
	return true
}
