package core

import "golang.org/x/tools/go/ssa"

// FlagFlow is a forward *must* dataflow of one boolean fact over the SSA CFG:
// the fact holds at a point iff it holds on every path reaching it. effect returns
// (+1) when the instruction establishes the fact, (-1) when it destroys it, 0 otherwise.
type FlagFlow struct {
	fn     *ssa.Function
	in     []int8 // -1 unvisited, 0 false, 1 true
	effect func(ssa.Instruction) int
}

// NewFlagFlow runs the fixpoint; init is the fact's value at function entry.
func NewFlagFlow(fn *ssa.Function, init bool, effect func(ssa.Instruction) int) *FlagFlow {
	ff := &FlagFlow{fn: fn, in: make([]int8, len(fn.Blocks)), effect: effect}
	for i := range ff.in {
		ff.in[i] = -1
	}
	if init {
		ff.in[0] = 1
	} else {
		ff.in[0] = 0
	}
	work := []int{0}
	for len(work) > 0 {
		bi := work[0]
		work = work[1:]
		v := ff.in[bi]
		for _, in := range fn.Blocks[bi].Instrs {
			switch effect(in) {
			case 1:
				v = 1
			case -1:
				v = 0
			}
		}
		for _, s := range fn.Blocks[bi].Succs {
			old := ff.in[s.Index]
			nv := v
			if old == 0 {
				nv = 0
			}
			if old != nv {
				ff.in[s.Index] = nv
				work = append(work, s.Index)
			}
		}
	}
	return ff
}

// Before reports the fact immediately before instruction in (false for unreachable code's sake never matters).
func (ff *FlagFlow) Before(in ssa.Instruction) bool {
	b := in.Block()
	v := ff.in[b.Index]
	if v < 0 {
		return true // unreachable
	}
	for _, i := range b.Instrs {
		if i == in {
			return v == 1
		}
		switch ff.effect(i) {
		case 1:
			v = 1
		case -1:
			v = 0
		}
	}
	return v == 1
}
