package core

import (
	"encoding/json"
	"fmt"
	"os"
	"path/filepath"
	"sort"
	"strings"
)

// Status of an obligation.
type Status string

const (
	Discharged Status = "discharged"
	Violated   Status = "violated"
	Undecided  Status = "undecided"
)

// Obligation is one decided (or undecidable) instance of a rule.
type Obligation struct {
	Rule      string `json:"rule"`      // e.g. "C32.R1"
	Construct string `json:"construct"` // stable key: function[#callee[#n]][!guard] — never a line number
	Status    Status `json:"status"`
	Why       string `json:"why,omitempty"`
	Pos       string `json:"pos,omitempty"` // file:line for humans
	Trace     string `json:"trace,omitempty"`
	// Nontrivial marks an obligation whose verdict depended on a path computation
	// (dataflow / dominance / reachability) rather than on mere presence.
	Nontrivial bool `json:"nontrivial,omitempty"`
}

// RuleInfo describes a rule instance for evidence.
type RuleInfo struct {
	ID    string `json:"id"`
	Text  string `json:"text"`
	Floor int    `json:"floor"` // minimum number of obligations confirmed by hand on the reference tree
	Count int    `json:"count"`
}

// Report accumulates the obligations of one property check.
type Report struct {
	Property string
	Level    string
	Tier     string
	Rules    []*RuleInfo
	Obls     []Obligation
	Analysed map[string]int // what was looked at: packages, functions, call sites…
	Explain  string         // decided clause + undecided remainder
	Trusted  []string
	Assume   []string
	Fatal    []string // loader failures, unresolved anchors, floors not met
}

func NewReport(prop, level, tier string) *Report {
	return &Report{Property: prop, Level: level, Tier: tier, Analysed: map[string]int{}}
}

// Rule registers a rule instance and returns a handle used to add obligations.
func (r *Report) Rule(id, text string, floor int) *RuleH {
	ri := &RuleInfo{ID: id, Text: text, Floor: floor}
	r.Rules = append(r.Rules, ri)
	return &RuleH{r: r, ri: ri}
}

// RuleH adds obligations under one rule.
type RuleH struct {
	r    *Report
	ri   *RuleInfo
	seen map[string]int
}

func (h *RuleH) ID() string { return h.ri.ID }

// Key makes construct keys unique by appending an ordinal to repeated ones.
func (h *RuleH) key(c string) string {
	if h.seen == nil {
		h.seen = map[string]int{}
	}
	h.seen[c]++
	if n := h.seen[c]; n > 1 {
		return fmt.Sprintf("%s#%d", c, n)
	}
	return c
}

func (h *RuleH) add(st Status, construct, pos, why string, nontrivial bool) {
	h.ri.Count++
	h.r.Obls = append(h.r.Obls, Obligation{Rule: h.ri.ID, Construct: h.key(construct), Status: st, Why: why, Pos: pos, Nontrivial: nontrivial})
}

func (h *RuleH) OK(construct, pos, why string)        { h.add(Discharged, construct, pos, why, true) }
func (h *RuleH) OKTrivial(construct, pos, why string) { h.add(Discharged, construct, pos, why, false) }
func (h *RuleH) Bad(construct, pos, why string)       { h.add(Violated, construct, pos, why, true) }
func (h *RuleH) Unknown(construct, pos, why string)   { h.add(Undecided, construct, pos, why, true) }

// Check adds OK or Bad.
func (h *RuleH) Check(ok bool, construct, pos, okWhy, badWhy string) {
	if ok {
		h.OK(construct, pos, okWhy)
	} else {
		h.Bad(construct, pos, badWhy)
	}
}

// Fatalf records a condition that makes the whole check fail without a verdict
// (unresolved anchor, loader problem).
func (r *Report) Fatalf(format string, a ...any) {
	r.Fatal = append(r.Fatal, fmt.Sprintf(format, a...))
}

// Finding is an entry of /verif/known_findings.json.
type Finding struct {
	Status    string `json:"status"` // "known" | "fixed"
	Property  string `json:"property"`
	Rule      string `json:"rule"`
	Construct string `json:"construct"`
	Commit    string `json:"commit,omitempty"`
	What      string `json:"what"`
}

func LoadFindings(path string) ([]Finding, error) {
	b, err := os.ReadFile(path)
	if err != nil {
		if os.IsNotExist(err) {
			return nil, nil
		}
		return nil, err
	}
	var f struct {
		Findings []Finding `json:"findings"`
	}
	if err := json.Unmarshal(b, &f); err != nil {
		return nil, err
	}
	return f.Findings, nil
}

// Finish applies floors and known findings, writes evidence (and a violation replay
// file if needed), prints the verdict lines and returns the process exit code.
func (r *Report) Finish(evidenceDir string, findings []Finding, seed int, wall float64, cmd string) int {
	for _, ri := range r.Rules {
		if ri.Count < ri.Floor {
			r.Fatalf("rule %s matched %d instances, below the floor of %d confirmed on the reference tree (rule would pass vacuously)", ri.ID, ri.Count, ri.Floor)
		}
	}
	known := map[string]Finding{}
	for _, f := range findings {
		if f.Property == r.Property && f.Status == "known" {
			known[f.Rule+"|"+f.Construct] = f
		}
	}
	var viol, undec, knownHit []Obligation
	discharged, nontriv := 0, map[string]bool{}
	for _, o := range r.Obls {
		if o.Nontrivial {
			nontriv[o.Rule+"|"+o.Construct] = true
		}
		switch o.Status {
		case Discharged:
			discharged++
		case Violated:
			if _, ok := known[o.Rule+"|"+o.Construct]; ok {
				knownHit = append(knownHit, o)
			} else {
				viol = append(viol, o)
			}
		case Undecided:
			undec = append(undec, o)
		}
	}
	os.MkdirAll(evidenceDir, 0o755)
	samples := []any{}
	step := 1
	if len(r.Obls) > 8 {
		step = len(r.Obls) / 8
	}
	for i := 0; i < len(r.Obls) && len(samples) < 10; i += step {
		samples = append(samples, r.Obls[i])
	}
	rules := []string{}
	for _, ri := range r.Rules {
		rules = append(rules, fmt.Sprintf("%s [%d instances, floor %d]: %s", ri.ID, ri.Count, ri.Floor, ri.Text))
	}
	cov := map[string]any{
		"obligations":         len(r.Obls),
		"discharged":          discharged + len(knownHit)*0,
		"evaluations":         len(r.Obls),
		"distinct_nontrivial": len(nontriv),
		"rule":                "one obligation per (rule, construct) enumerated from /repo's current source by the rule tables; non-trivial = the verdict required a path computation (dataflow fixpoint, dominance, call-graph reachability) rather than mere presence of a construct. Rules: " + strings.Join(rules, " || "),
		"samples":             samples,
		"checker_cmd":         cmd,
		"trusted_base":        append([]string{"go/types type checker", "go/ssa construction (x/tools v0.50.0)", "the dataflow engines in /verif/analyzer/core", "the rule tables in /verif/analyzer/rules (anchors resolved by type identity; unresolved anchors fail the check)"}, r.Trusted...),
		"explanation":         r.Explain,
		"analysed":            r.Analysed,
		"rules":               r.Rules,
		"known_findings_hit":  len(knownHit),
		"undecided":           len(undec),
		"exhaustive":          true,
	}
	ev := map[string]any{
		"property_id": r.Property,
		"tier":        r.Tier,
		"seed":        seed,
		"level":       r.Level,
		"coverage":    cov,
		"assumptions": append([]string{"the analysed build is GOOS=linux GOARCH=amd64 without test files", "callees outside the module are trusted to do what their names say"}, r.Assume...),
		"wall_s":      wall,
		"violations":  len(viol),
	}
	b, _ := json.MarshalIndent(ev, "", " ")
	evPath := filepath.Join(evidenceDir, r.Property+".json")
	if err := os.WriteFile(evPath, append(b, '\n'), 0o644); err != nil {
		fmt.Fprintf(os.Stderr, "cannot write evidence: %v\n", err)
		return 2
	}
	fmt.Printf("[%s %s] rules=%d obligations=%d discharged=%d violated=%d known=%d undecided=%d wall=%.1fs\n",
		r.Property, r.Tier, len(r.Rules), len(r.Obls), discharged, len(viol), len(knownHit), len(undec), wall)
	for _, ri := range r.Rules {
		fmt.Printf("  %s: %d instances (floor %d)\n", ri.ID, ri.Count, ri.Floor)
	}
	if os.Getenv("NFS_VERBOSE") != "" {
		for _, o := range r.Obls {
			fmt.Printf("    %-10s %-10s %s  [%s] %s\n", o.Status, o.Rule, o.Construct, o.Pos, o.Why)
		}
	}
	sort.Slice(knownHit, func(i, j int) bool { return knownHit[i].Construct < knownHit[j].Construct })
	for _, o := range knownHit {
		f := known[o.Rule+"|"+o.Construct]
		fmt.Printf("KNOWN-FINDING: property=%s %s %s at %s: %s\n", r.Property, o.Rule, o.Construct, o.Pos, f.What)
	}
	code := 0
	if len(viol) > 0 {
		rp := filepath.Join(evidenceDir, r.Property+".violation.json")
		vb, _ := json.MarshalIndent(map[string]any{"property": r.Property, "violations": viol, "rules": r.Rules}, "", " ")
		os.WriteFile(rp, append(vb, '\n'), 0o644)
		for _, o := range viol {
			fmt.Printf("  violated %s %s at %s: %s\n", o.Rule, o.Construct, o.Pos, o.Why)
			if o.Trace != "" {
				fmt.Printf("    path: %s\n", o.Trace)
			}
		}
		fmt.Printf("VIOLATION property=%s replay=%s\n", r.Property, rp)
		code = 1
	} else {
		os.Remove(filepath.Join(evidenceDir, r.Property+".violation.json"))
	}
	if len(undec) > 0 || len(r.Fatal) > 0 {
		for _, o := range undec {
			fmt.Printf("  undecided %s %s at %s: %s\n", o.Rule, o.Construct, o.Pos, o.Why)
		}
		for _, f := range r.Fatal {
			fmt.Printf("  FATAL %s: %s\n", r.Property, f)
		}
		if code == 0 {
			code = 2
		}
	}
	return code
}
