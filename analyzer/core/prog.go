// Package core holds the loader and the generic, table-driven rule engines.
// Everything here works on the type-checked program of /repo's *current* working
// tree (go/packages + go/ssa); nothing is executed.
package core

import (
	"fmt"
	"go/constant"
	"go/token"
	"go/types"
	"os"
	"sort"
	"strings"
	"sync"

	"golang.org/x/tools/go/callgraph"
	"golang.org/x/tools/go/callgraph/cha"
	"golang.org/x/tools/go/callgraph/vta"
	"golang.org/x/tools/go/packages"
	"golang.org/x/tools/go/ssa"
	"golang.org/x/tools/go/ssa/ssautil"
)

// Mod is the module path prefix stripped from every name the rules use.
const Mod = "github.com/nspcc-dev/neofs-node/"

// Prog is the loaded program.
type Prog struct {
	Root   string
	Fset   *token.FileSet
	Pkgs   []*packages.Package // root packages (module packages matched by the patterns)
	All    map[string]*packages.Package
	SSA    *ssa.Program
	SSAPkg map[string]*ssa.Package // by short path

	funcs     map[string]*ssa.Function // by short name
	allFuncs  []*ssa.Function          // functions with bodies that belong to the module (incl. closures)
	cgOnce    sync.Once
	cg        *callgraph.Graph
	reachMemo map[string]map[*ssa.Function]bool
	mu        sync.Mutex
}

// Short strips the module prefix from every occurrence in s.
func Short(s string) string { return strings.ReplaceAll(s, Mod, "") }

// Load type-checks the given package patterns (relative to root, e.g. "./pkg/services/object/...")
// from source together with all their dependencies and builds SSA for everything.
func Load(root string, patterns ...string) (*Prog, error) { return load(root, Mod, patterns...) }

// FixtureDir is where the checker's own positive examples live (set by the driver).
var FixtureDir = "/verif/analyzer"

var (
	fixOnce sync.Once
	fixProg *Prog
	fixErr  error
)

// Fixtures loads (once) the tiny positive-example packages under FixtureDir/fixtures.
func Fixtures() (*Prog, error) {
	fixOnce.Do(func() { fixProg, fixErr = load(FixtureDir, "verif/analyzer/", "./fixtures/...") })
	return fixProg, fixErr
}

func load(root, mod string, patterns ...string) (*Prog, error) {
	cfg := &packages.Config{
		Mode:  packages.LoadAllSyntax,
		Dir:   root,
		Tests: false,
		Env:   append(os.Environ(), "GOFLAGS=-mod=mod", "GOWORK=off", "GOOS=linux", "GOARCH=amd64", "CGO_ENABLED=0"),
	}
	pkgs, err := packages.Load(cfg, patterns...)
	if err != nil {
		return nil, fmt.Errorf("load: %w", err)
	}
	if len(pkgs) == 0 {
		return nil, fmt.Errorf("load: no packages matched %v", patterns)
	}
	var errs []string
	all := map[string]*packages.Package{}
	packages.Visit(pkgs, nil, func(p *packages.Package) {
		all[p.PkgPath] = p
		if strings.HasPrefix(p.PkgPath, Mod) {
			for _, e := range p.Errors {
				errs = append(errs, e.Error())
			}
		}
	})
	if len(errs) > 0 {
		sort.Strings(errs)
		if len(errs) > 10 {
			errs = errs[:10]
		}
		return nil, fmt.Errorf("load: type errors in module packages: %s", strings.Join(errs, "; "))
	}
	prog, _ := ssautil.AllPackages(pkgs, ssa.InstantiateGenerics)
	prog.Build()
	p := &Prog{Root: root, Fset: pkgs[0].Fset, Pkgs: pkgs, All: all, SSA: prog,
		SSAPkg: map[string]*ssa.Package{}, funcs: map[string]*ssa.Function{}, reachMemo: map[string]map[*ssa.Function]bool{}}
	for _, sp := range prog.AllPackages() {
		if sp.Pkg != nil && strings.HasPrefix(sp.Pkg.Path(), mod) {
			p.SSAPkg[Short(sp.Pkg.Path())] = sp
		}
	}
	for fn := range ssautil.AllFunctions(prog) {
		if fn.Blocks == nil || fn.Synthetic != "" && !strings.Contains(fn.Synthetic, "instance") && fn.Parent() == nil {
			continue
		}
		if pk := FuncPkg(fn); pk != nil && strings.HasPrefix(pk.Path(), mod) {
			p.allFuncs = append(p.allFuncs, fn)
			p.funcs[FuncName(fn)] = fn
		}
	}
	sort.Slice(p.allFuncs, func(i, j int) bool { return FuncName(p.allFuncs[i]) < FuncName(p.allFuncs[j]) })
	return p, nil
}

// FuncPkg returns the types.Package a function (or its outermost parent) belongs to.
func FuncPkg(fn *ssa.Function) *types.Package {
	for fn.Parent() != nil {
		fn = fn.Parent()
	}
	if fn.Pkg != nil {
		return fn.Pkg.Pkg
	}
	if o := fn.Origin(); o != nil && o.Pkg != nil {
		return o.Pkg.Pkg
	}
	if fn.Object() != nil {
		return fn.Object().Pkg()
	}
	return nil
}

// FuncName is the short, stable name used by all rule tables, e.g.
// "(*pkg/services/control/server.Server).isValidRequest", "pkg/local_object_storage/metabase.inGarbage",
// closures get "$n" suffixes as go/ssa names them.
func FuncName(fn *ssa.Function) string {
	if fn == nil {
		return ""
	}
	return Short(fn.String())
}

// Outer returns the outermost enclosing declared function of fn.
func Outer(fn *ssa.Function) *ssa.Function {
	for fn.Parent() != nil {
		fn = fn.Parent()
	}
	return fn
}

// Func looks a function up by short name; nil when absent.
func (p *Prog) Func(name string) *ssa.Function { return p.funcs[name] }

// Funcs returns all module functions with bodies, sorted by name.
func (p *Prog) Funcs() []*ssa.Function { return p.allFuncs }

// FuncsIn returns the module functions (closures included) whose package short path
// equals pkg or, when pkg ends in "/...", has that prefix.
func (p *Prog) FuncsIn(pkg string) []*ssa.Function {
	var out []*ssa.Function
	pre, wild := strings.CutSuffix(pkg, "/...")
	for _, fn := range p.allFuncs {
		pk := FuncPkg(fn)
		if pk == nil {
			continue
		}
		sp := Short(pk.Path())
		if sp == pre || wild && strings.HasPrefix(sp, pre+"/") {
			out = append(out, fn)
		}
	}
	return out
}

// Pos renders a position relative to the repository root.
func (p *Prog) Pos(pos token.Pos) string {
	if !pos.IsValid() {
		return "-"
	}
	ps := p.Fset.Position(pos)
	f := strings.TrimPrefix(ps.Filename, p.Root+"/")
	return fmt.Sprintf("%s:%d", f, ps.Line)
}

// InstrPos gives the best position for an instruction (falls back to the
// nearest preceding instruction with a position, then the function).
func (p *Prog) InstrPos(in ssa.Instruction) string {
	if in.Pos().IsValid() {
		return p.Pos(in.Pos())
	}
	if c, ok := in.(ssa.CallInstruction); ok && c.Common().Pos().IsValid() {
		return p.Pos(c.Common().Pos())
	}
	b := in.Block()
	for i := len(b.Instrs) - 1; i >= 0; i-- {
		if b.Instrs[i] == in {
			for j := i - 1; j >= 0; j-- {
				if b.Instrs[j].Pos().IsValid() {
					return p.Pos(b.Instrs[j].Pos())
				}
			}
		}
	}
	return p.Pos(in.Parent().Pos())
}

// CalleeName names what a call instruction calls:
//   - static function / method: its FuncName;
//   - interface method: "(pkg/path.Iface).Method" (the interface the method is declared in);
//   - builtin: "builtin.name";
//   - call through a struct field of function type: "field:(pkg/path.T).f";
//   - anything else: "dynamic".
func CalleeName(c ssa.CallInstruction) string {
	cc := c.Common()
	if cc.IsInvoke() {
		return Short(cc.Method.FullName())
	}
	switch v := cc.Value.(type) {
	case *ssa.Function:
		if o := v.Origin(); o != nil {
			return FuncName(o)
		}
		return FuncName(v)
	case *ssa.Builtin:
		return "builtin." + v.Name()
	case *ssa.MakeClosure:
		return FuncName(v.Fn.(*ssa.Function))
	}
	if f := fieldOf(cc.Value); f != "" {
		return "field:" + f
	}
	return "dynamic"
}

// fieldOf returns "(pkg.T).f" if v is a load of struct field f.
func fieldOf(v ssa.Value) string {
	switch x := v.(type) {
	case *ssa.UnOp:
		if x.Op == token.MUL {
			if fa, ok := x.X.(*ssa.FieldAddr); ok {
				return fieldName(fa.X.Type(), fa.Field)
			}
		}
	case *ssa.Field:
		return fieldName(x.X.Type(), x.Field)
	}
	return ""
}

func fieldName(t types.Type, idx int) string {
	if pt, ok := t.Underlying().(*types.Pointer); ok {
		t = pt.Elem()
	}
	st, ok := t.Underlying().(*types.Struct)
	if !ok || idx >= st.NumFields() {
		return ""
	}
	return "(" + Short(types.TypeString(t, nil)) + ")." + st.Field(idx).Name()
}

// FieldAddrName names the field a FieldAddr points to: "(pkg.T).f".
func FieldAddrName(fa *ssa.FieldAddr) string { return fieldName(fa.X.Type(), fa.Field) }

// StaticCallee returns the *ssa.Function called (origin of generic instances), following MakeClosure.
func StaticCallee(c ssa.CallInstruction) *ssa.Function {
	cc := c.Common()
	if cc.IsInvoke() {
		return nil
	}
	switch v := cc.Value.(type) {
	case *ssa.Function:
		return v
	case *ssa.MakeClosure:
		return v.Fn.(*ssa.Function)
	}
	return nil
}

// Site is one call instruction in one function.
type Site struct {
	Fn   *ssa.Function
	Call ssa.CallInstruction
	Name string // CalleeName
}

// CallSites enumerates all call instructions (call, go, defer) in the given functions.
func CallSites(fns []*ssa.Function, pred func(s Site) bool) []Site {
	var out []Site
	for _, fn := range fns {
		for _, b := range fn.Blocks {
			for _, in := range b.Instrs {
				if c, ok := in.(ssa.CallInstruction); ok {
					s := Site{fn, c, CalleeName(c)}
					if pred == nil || pred(s) {
						out = append(out, s)
					}
				}
			}
		}
	}
	return out
}

// Reaches reports whether fn (through static calls, closures it creates, and — when
// the callee set of an interface call is given by resolve — dynamic calls) reaches an
// instruction satisfying prim. key memoises per predicate.
func (p *Prog) Reaches(key string, fn *ssa.Function, prim func(in ssa.Instruction) bool) bool {
	p.mu.Lock()
	memo := p.reachMemo[key]
	if memo == nil {
		memo = map[*ssa.Function]bool{}
		p.reachMemo[key] = memo
	}
	p.mu.Unlock()
	visiting := map[*ssa.Function]bool{}
	var rec func(f *ssa.Function) bool
	rec = func(f *ssa.Function) bool {
		if f == nil || f.Blocks == nil {
			return false
		}
		p.mu.Lock()
		v, ok := memo[f]
		p.mu.Unlock()
		if ok {
			return v
		}
		if visiting[f] {
			return false
		}
		visiting[f] = true
		res := false
	outer:
		for _, b := range f.Blocks {
			for _, in := range b.Instrs {
				if prim(in) {
					res = true
					break outer
				}
				switch x := in.(type) {
				case ssa.CallInstruction:
					if cal := StaticCallee(x); cal != nil && rec(cal) {
						res = true
						break outer
					}
					for _, a := range x.Common().Args {
						if mc, ok := a.(*ssa.MakeClosure); ok && rec(mc.Fn.(*ssa.Function)) {
							res = true
							break outer
						}
					}
				case *ssa.MakeClosure:
					if rec(x.Fn.(*ssa.Function)) {
						res = true
						break outer
					}
				}
			}
		}
		delete(visiting, f)
		p.mu.Lock()
		memo[f] = res
		p.mu.Unlock()
		return res
	}
	return rec(fn)
}

// CallGraph builds (once) the VTA call graph seeded from CHA over the whole loaded program.
func (p *Prog) CallGraph() *callgraph.Graph {
	p.cgOnce.Do(func() {
		fns := ssautil.AllFunctions(p.SSA)
		p.cg = vta.CallGraph(fns, cha.CallGraph(p.SSA))
	})
	return p.cg
}

// NamedType finds a named type "pkg/short/path.Name" in the loaded program.
func (p *Prog) NamedType(name string) *types.Named {
	i := strings.LastIndex(name, ".")
	if i < 0 {
		return nil
	}
	pk := p.All[Mod+name[:i]]
	if pk == nil {
		pk = p.All[name[:i]]
	}
	if pk == nil || pk.Types == nil {
		return nil
	}
	o := pk.Types.Scope().Lookup(name[i+1:])
	if o == nil {
		return nil
	}
	n, _ := o.Type().(*types.Named)
	return n
}

// MethodsOf lists the method names of an interface type "pkg.Name" (sorted).
func (p *Prog) IfaceMethods(name string) []string {
	n := p.NamedType(name)
	if n == nil {
		return nil
	}
	it, ok := n.Underlying().(*types.Interface)
	if !ok {
		return nil
	}
	var out []string
	for i := 0; i < it.NumMethods(); i++ {
		if it.Method(i).Exported() {
			out = append(out, it.Method(i).Name())
		}
	}
	sort.Strings(out)
	return out
}

// Unwrap strips interface/type conversions.
func Unwrap(v ssa.Value) ssa.Value {
	for {
		switch x := v.(type) {
		case *ssa.MakeInterface:
			v = x.X
		case *ssa.ChangeInterface:
			v = x.X
		case *ssa.ChangeType:
			v = x.X
		case *ssa.Convert:
			v = x.X
		default:
			return v
		}
	}
}

// ParamIndex returns the index of v (after Unwrap) among fn's parameters, or -1.
func ParamIndex(fn *ssa.Function, v ssa.Value) int {
	v = Unwrap(v)
	for i, p := range fn.Params {
		if p == v {
			return i
		}
	}
	return -1
}

// Args returns the call's arguments with the receiver first (for invoke calls the
// receiver is Common().Value).
func Args(c ssa.CallInstruction) []ssa.Value {
	cc := c.Common()
	if cc.IsInvoke() {
		return append([]ssa.Value{cc.Value}, cc.Args...)
	}
	return cc.Args
}

// RootOf follows field/index/deref/slice chains back to the base value.
func RootOf(v ssa.Value) ssa.Value {
	for i := 0; i < 32; i++ {
		switch x := v.(type) {
		case *ssa.FieldAddr:
			v = x.X
		case *ssa.Field:
			v = x.X
		case *ssa.IndexAddr:
			v = x.X
		case *ssa.Index:
			v = x.X
		case *ssa.Slice:
			v = x.X
		case *ssa.UnOp:
			if x.Op != token.MUL {
				return v
			}
			v = x.X
		case *ssa.MakeInterface:
			v = x.X
		case *ssa.ChangeInterface:
			v = x.X
		case *ssa.ChangeType:
			v = x.X
		case *ssa.Convert:
			v = x.X
		default:
			return v
		}
	}
	return v
}

// AccessPath follows loads / field selections back to the base value and returns the
// field names walked, outermost first: for `req.Object.ObjectId.Value` it returns
// (req, ["Object","ObjectId","Value"]). Index/slice steps are skipped.
func AccessPath(v ssa.Value) (ssa.Value, []string) { return AccessPathM(nil, v) }

// AccessPathM is AccessPath that also sees through local memory cells (spilled
// parameters / locals captured by closures) using mr.
func AccessPathM(mr *MemReach, v ssa.Value) (ssa.Value, []string) {
	var rev []string
	for i := 0; i < 32; i++ {
		if mr != nil {
			v = mr.Canon(v)
		}
		switch x := v.(type) {
		case *ssa.FieldAddr:
			rev = append(rev, fieldShort(x.X.Type(), x.Field))
			v = x.X
		case *ssa.Field:
			rev = append(rev, fieldShort(x.X.Type(), x.Field))
			v = x.X
		case *ssa.IndexAddr:
			v = x.X
		case *ssa.Index:
			v = x.X
		case *ssa.Slice:
			v = x.X
		case *ssa.UnOp:
			if x.Op != token.MUL {
				goto done
			}
			v = x.X
		case *ssa.MakeInterface:
			v = x.X
		case *ssa.ChangeInterface:
			v = x.X
		case *ssa.ChangeType:
			v = x.X
		case *ssa.Convert:
			v = x.X
		default:
			goto done
		}
	}
done:
	for i, j := 0, len(rev)-1; i < j; i, j = i+1, j-1 {
		rev[i], rev[j] = rev[j], rev[i]
	}
	return v, rev
}

func fieldShort(t types.Type, idx int) string {
	if pt, ok := t.Underlying().(*types.Pointer); ok {
		t = pt.Elem()
	}
	st, ok := t.Underlying().(*types.Struct)
	if !ok || idx >= st.NumFields() {
		return "?"
	}
	return st.Field(idx).Name()
}

// ResolveFreeVar maps a closure's free variable to the value bound at the (unique)
// MakeClosure site in the parent; if the binding is a local cell with a single store,
// the stored value is returned.
func ResolveFreeVar(fv *ssa.FreeVar) ssa.Value {
	fn := fv.Parent()
	par := fn.Parent()
	if par == nil {
		return nil
	}
	idx := -1
	for i, x := range fn.FreeVars {
		if x == fv {
			idx = i
		}
	}
	for _, b := range par.Blocks {
		for _, in := range b.Instrs {
			mc, ok := in.(*ssa.MakeClosure)
			if !ok || mc.Fn != fn || idx < 0 {
				continue
			}
			bv := mc.Bindings[idx]
			if al, ok := bv.(*ssa.Alloc); ok {
				var st *ssa.Store
				n := 0
				for _, ref := range *al.Referrers() {
					if s, ok := ref.(*ssa.Store); ok && s.Addr == al {
						st = s
						n++
					}
				}
				if n == 1 {
					return st.Val
				}
				return nil
			}
			return bv
		}
	}
	return nil
}

// RootParam returns the index of the parameter v is rooted at (through field/index/
// deref chains, spilled parameters and address-taken copies of value receivers), or -1.
func RootParam(fn *ssa.Function, v ssa.Value) int {
	for i := 0; i < 8; i++ {
		root := RootOf(v)
		if pi := ParamIndex(fn, root); pi >= 0 {
			return pi
		}
		al, ok := root.(*ssa.Alloc)
		if !ok || al.Referrers() == nil {
			return -1
		}
		var st *ssa.Store
		n := 0
		for _, ref := range *al.Referrers() {
			if s, ok := ref.(*ssa.Store); ok && s.Addr == al {
				st = s
				n++
			}
		}
		if n != 1 {
			return -1
		}
		v = st.Val
	}
	return -1
}

// ConstInt returns the integer value of the named package-level constant "pkg/path.Name".
func (p *Prog) ConstInt(name string) (int64, bool) {
	i := strings.LastIndex(name, ".")
	if i < 0 {
		return 0, false
	}
	pk := p.All[Mod+name[:i]]
	if pk == nil {
		pk = p.All[name[:i]]
	}
	if pk == nil || pk.Types == nil {
		return 0, false
	}
	c, ok := pk.Types.Scope().Lookup(name[i+1:]).(*types.Const)
	if !ok {
		return 0, false
	}
	v, ok := constant.Int64Val(constant.ToInt(c.Val()))
	return v, ok
}

// FieldAddrNameOfField names the field an ssa.Field selects: "(pkg.T).f".
func FieldAddrNameOfField(f *ssa.Field) string { return fieldName(f.X.Type(), f.Field) }
