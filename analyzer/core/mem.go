package core

import (
	"go/token"

	"golang.org/x/tools/go/ssa"
)

// Local memory cells. go/ssa keeps a local variable in memory (Alloc + Store/Load)
// when a closure captures it (e.g. `defer func() { use(err) }()`), which hides the
// def-use chain the guard engine needs. MemReach recovers it: for every local
// Alloc that is only stored to / loaded from in its own function and only *read*
// by the closures capturing it, a forward reaching-stores dataflow gives, for
// each Load, the unique Store that reaches it (if there is exactly one).

type MemReach struct {
	resolved map[*ssa.UnOp]ssa.Value
}

type cellState map[ssa.Value]ssa.Instruction // nil entry absent = no store yet; manyStores = several

var manyStores ssa.Instruction = &ssa.Jump{}

// NewMemReach analyses fn.
func NewMemReach(fn *ssa.Function) *MemReach {
	mr := &MemReach{resolved: map[*ssa.UnOp]ssa.Value{}}
	// eligible cells
	cells := map[ssa.Value]bool{}
	// captured variables of a closure behave like local cells inside the closure body
	// (the closure runs synchronously with respect to its own loads and stores)
	for _, fv := range fn.FreeVars {
		if fv.Referrers() == nil {
			continue
		}
		ok, hasStore := true, false
		for _, ref := range *fv.Referrers() {
			switch r := ref.(type) {
			case *ssa.Store:
				if r.Addr != fv {
					ok = false
				}
				hasStore = true
			case *ssa.UnOp:
				if r.Op != token.MUL {
					ok = false
				}
			case *ssa.DebugRef:
			default:
				ok = false
			}
		}
		if ok && hasStore {
			cells[fv] = true
		}
	}
	for _, b := range fn.Blocks {
		for _, in := range b.Instrs {
			al, ok := in.(*ssa.Alloc)
			if !ok || al.Referrers() == nil {
				continue
			}
			ok = true
			hasStore := false
			for _, ref := range *al.Referrers() {
				switch r := ref.(type) {
				case *ssa.Store:
					if r.Addr != al {
						ok = false
					}
					hasStore = true
				case *ssa.UnOp:
					if r.Op != token.MUL {
						ok = false
					}
				case *ssa.DebugRef:
				case *ssa.MakeClosure:
					if !closureOnlyReads(r, al) {
						ok = false
					}
				default:
					ok = false
				}
			}
			if ok && hasStore {
				cells[al] = true
			}
		}
	}
	// Fallback for cells that are not eligible (written by closures, e.g. the result
	// cell of a function containing a range-over-func loop): a load is resolved when a
	// store to the same cell precedes it in the same block with no call in between.
	defer func() {
		for _, b := range fn.Blocks {
			last := map[ssa.Value]ssa.Value{}
			for _, ins := range b.Instrs {
				switch x := ins.(type) {
				case *ssa.Store:
					if _, ok := x.Addr.(*ssa.Alloc); ok {
						last[x.Addr] = x.Val
					}
				case ssa.CallInstruction:
					for k := range last {
						delete(last, k)
					}
				case *ssa.UnOp:
					if x.Op == token.MUL {
						if _, done := mr.resolved[x]; !done {
							if v, ok := last[x.X]; ok {
								mr.resolved[x] = v
							}
						}
					}
				}
			}
		}
	}()
	if len(cells) == 0 {
		return mr
	}
	n := len(fn.Blocks)
	in := make([]cellState, n)
	visited := make([]bool, n)
	in[0] = cellState{}
	work := []int{0}
	meet := func(a, b cellState) (cellState, bool) {
		// returns a ⊓ b and whether it differs from a
		changed := false
		out := cellState{}
		for k, v := range a {
			out[k] = v
		}
		for k, v := range b {
			if cur, ok := out[k]; !ok {
				// a: no store (zero value) ; b: store => ambiguous
				out[k] = manyStores
				changed = true
			} else if cur != v && cur != manyStores {
				out[k] = manyStores
				changed = true
			}
		}
		for k, v := range a {
			if _, ok := b[k]; !ok && v != manyStores {
				out[k] = manyStores
				changed = true
			}
		}
		return out, changed
	}
	for len(work) > 0 {
		bi := work[0]
		work = work[1:]
		visited[bi] = true
		st := cellState{}
		for k, v := range in[bi] {
			st[k] = v
		}
		for _, ins := range fn.Blocks[bi].Instrs {
			if s, ok := ins.(*ssa.Store); ok {
				if cells[s.Addr] {
					st[s.Addr] = s
				}
			}
		}
		for _, succ := range fn.Blocks[bi].Succs {
			si := succ.Index
			if !visited[si] && in[si] == nil {
				cp := cellState{}
				for k, v := range st {
					cp[k] = v
				}
				in[si] = cp
				work = append(work, si)
				continue
			}
			m, ch := meet(in[si], st)
			if ch {
				in[si] = m
				work = append(work, si)
			}
		}
	}
	for bi, b := range fn.Blocks {
		if in[bi] == nil {
			continue
		}
		st := cellState{}
		for k, v := range in[bi] {
			st[k] = v
		}
		for _, ins := range b.Instrs {
			switch x := ins.(type) {
			case *ssa.Store:
				if cells[x.Addr] {
					st[x.Addr] = x
				}
			case *ssa.UnOp:
				if x.Op == token.MUL && cells[x.X] {
					if s, ok := st[x.X]; ok && s != manyStores {
						mr.resolved[x] = s.(*ssa.Store).Val
					}
				}
			}
		}
	}
	return mr
}

// Canon replaces a load with the value of the unique store reaching it (repeatedly).
func (mr *MemReach) Canon(v ssa.Value) ssa.Value {
	for i := 0; i < 8; i++ {
		u, ok := v.(*ssa.UnOp)
		if !ok {
			return v
		}
		r, ok := mr.resolved[u]
		if !ok {
			return v
		}
		v = r
	}
	return v
}
