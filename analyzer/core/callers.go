package core

import (
	"sort"

	"golang.org/x/tools/go/ssa"
)

// E2 — who-may-call. For each sink (callee name) every call site in the analysed
// functions must be inside one of the allowed enclosing (outermost) functions.

// CallerRule: Sink callee name -> allowed outer function names with a reason each.
type CallerRule struct {
	Sink    string
	Allowed map[string]string
	// MinSites: minimum number of call sites expected (0 = may be uncalled)
	MinSites int
}

// CheckCallers adds one obligation per call site of the sink found in fns.
func CheckCallers(p *Prog, h *RuleH, fns []*ssa.Function, rules []CallerRule) {
	bySink := map[string]*CallerRule{}
	count := map[string]int{}
	for i := range rules {
		bySink[rules[i].Sink] = &rules[i]
	}
	if h.r.Tier == "thorough" {
		// whole program: every module function that was loaded (./... in this tier), not only the rule's packages
		fns = p.Funcs()
	}
	sites := CallSites(fns, func(s Site) bool { return bySink[s.Name] != nil })
	sort.SliceStable(sites, func(i, j int) bool { return FuncName(sites[i].Fn) < FuncName(sites[j].Fn) })
	for _, s := range sites {
		r := bySink[s.Name]
		count[s.Name]++
		outer := FuncName(Outer(s.Fn))
		c := outer + "#" + s.Name
		if why, ok := r.Allowed[outer]; ok {
			h.OK(c, p.InstrPos(s.Call), "allowed caller: "+why)
		} else {
			h.Bad(c, p.InstrPos(s.Call), "call of "+s.Name+" from "+outer+", which is not in the allowed-caller table of this rule")
		}
	}
	for _, r := range rules {
		if count[r.Sink] < r.MinSites {
			h.r.Fatalf("%s: sink %s has %d call sites, expected at least %d", h.ID(), r.Sink, count[r.Sink], r.MinSites)
		}
	}
}
