package core

import (
	"fmt"
	"go/constant"
	"go/token"
	"go/types"
	"strings"

	"golang.org/x/tools/go/ssa"
)

// E4 — ordering facts for integer arithmetic (difference-bound reasoning, no solver).
//
// For an instruction `in` the engine collects facts of the form  p <= q + c  from the
// branch conditions on the dominator chain of `in` (the edge actually taken), plus the
// definitional facts of min/max builtins and of x±const, and answers queries
// "is  x <= y + k  implied?" by a bounded search over those facts. Values are compared
// through canonical keys so that two evaluations of the same pure expression
// (`len(prefix)`, `uint64(len(prefix))`, `r.First`) are one node; a re-sliced or
// re-assigned variable is a different SSA value and therefore a different node.

type ordFact struct {
	p, q string
	c    int64
}

// OrderCtx holds the facts valid at one program point.
type OrderCtx struct {
	at    ssa.Instruction // the program point the facts are collected for
	fn    *ssa.Function
	facts []ordFact
	defs  map[string]ssa.Value // key -> defining value (for min/max/±const reasoning)
	uns   map[string]bool      // keys known to be >= 0 (unsigned types, len())
	mr    *MemReach
}

const zeroKey = "#0"

// OrdKey is the canonical key of an integer value.
func (oc *OrderCtx) OrdKey(v ssa.Value) string { return oc.key(v, 0) }

func (oc *OrderCtx) key(v ssa.Value, depth int) string {
	if depth > 6 {
		return v.Name()
	}
	v = oc.mr.Canon(v)
	switch x := v.(type) {
	case *ssa.Const:
		if x.Value != nil && x.Value.Kind() == constant.Int {
			if i, ok := constant.Int64Val(x.Value); ok {
				return fmt.Sprintf("#%d", i)
			}
			if u, ok := constant.Uint64Val(x.Value); ok {
				return fmt.Sprintf("#u%d", u)
			}
		}
	case *ssa.Convert:
		if isIntType(x.X.Type()) && isIntType(x.Type()) {
			k := oc.key(x.X, depth+1)
			oc.noteUnsigned(k, x.Type())
			return k
		}
	case *ssa.ChangeType:
		return oc.key(x.X, depth+1)
	case *ssa.Call:
		if b, ok := x.Call.Value.(*ssa.Builtin); ok && (b.Name() == "len" || b.Name() == "cap") && len(x.Call.Args) == 1 {
			inner := oc.key(x.Call.Args[0], depth+1)
			k := b.Name() + "(" + inner + ")"
			oc.uns[k] = true
			oc.defs[k] = v
			oc.lenCap(inner)
			return k
		}
		if cal := x.Call.StaticCallee(); cal != nil && cal.Name() == "Len" && strings.HasSuffix(cal.String(), "bytes.Reader).Len") {
			// bytes.Reader.Len() is pure between reads; keyed by receiver AND instruction (it changes over time)
			oc.uns[x.Name()] = true
		}
	case *ssa.UnOp:
		if x.Op == token.MUL {
			if k, ok := oc.fieldKey(x, x.Type()); ok {
				return k
			}
			if k, ok := oc.cellKey(x); ok {
				return k
			}
		}
	case *ssa.Field:
		if k, ok := oc.fieldKey(x, x.Type()); ok {
			return k
		}
	}
	if c, ok := v.(*ssa.Call); ok {
		// generated protobuf getters are pure functions of their receiver
		if cal := c.Call.StaticCallee(); cal != nil && strings.HasPrefix(cal.Name(), "Get") && len(c.Call.Args) == 1 && cal.Pkg != nil && strings.Contains(cal.Pkg.Pkg.Path(), "/proto/") {
			k := "get:" + cal.Name() + "(" + oc.key(c.Call.Args[0], depth+1) + ")"
			oc.noteUnsigned(k, c.Type())
			return k
		}
	}
	k := v.Name()
	oc.noteUnsigned(k, v.Type())
	oc.defs[k] = v
	return k
}

func (oc *OrderCtx) noteUnsigned(k string, t types.Type) {
	if b, ok := t.Underlying().(*types.Basic); ok && b.Info()&types.IsUnsigned != 0 {
		oc.uns[k] = true
	}
}

func isSignedInt(t types.Type) bool {
	b, ok := t.Underlying().(*types.Basic)
	return ok && b.Info()&types.IsInteger != 0 && b.Info()&types.IsUnsigned == 0
}

func isIntType(t types.Type) bool {
	b, ok := t.Underlying().(*types.Basic)
	return ok && b.Info()&types.IsInteger != 0
}

// NewOrderCtx collects the facts that hold immediately before `in`.
func NewOrderCtx(in ssa.Instruction) *OrderCtx {
	fn := in.Parent()
	oc := &OrderCtx{at: in, fn: fn, defs: map[string]ssa.Value{}, uns: map[string]bool{}, mr: NewMemReach(fn)}
	b := in.Block()
	// walk the dominator chain: for each dominator D ending in If, if exactly one successor S of D
	// has D as its only predecessor and dominates (or is) b, the condition holds with that polarity.
	for d := b.Idom(); d != nil; d = d.Idom() {
		oc.addBranchFacts(d, b)
	}
	oc.addSliceFacts(in)
	return oc
}

// lenCap records len(k) <= cap(k) once.
func (oc *OrderCtx) lenCap(inner string) {
	l, c := "len("+inner+")", "cap("+inner+")"
	for _, f := range oc.facts {
		if f.p == l && f.q == c {
			return
		}
	}
	oc.uns[l], oc.uns[c] = true, true
	oc.facts = append(oc.facts, ordFact{l, c, 0})
}

// CapKey is the key of cap(v).
func (oc *OrderCtx) CapKey(v ssa.Value) string {
	inner := oc.key(v, 0)
	oc.lenCap(inner)
	return "cap(" + inner + ")"
}

// addSliceFacts: a slice expression x[lo:hi] that was executed on every path to `in` (its block dominates, or it
// precedes `in` in the same block) did not panic, hence hi <= cap(x).
func (oc *OrderCtx) addSliceFacts(in ssa.Instruction) {
	b := in.Block()
	for _, blk := range oc.fn.Blocks {
		if blk != b && !blk.Dominates(b) {
			continue
		}
		for _, i2 := range blk.Instrs {
			if i2 == in {
				break
			}
			sl, ok := i2.(*ssa.Slice)
			if !ok || sl.High == nil {
				continue
			}
			if _, isSl := sl.X.Type().Underlying().(*types.Slice); !isSl {
				continue
			}
			oc.facts = append(oc.facts, ordFact{oc.key(sl.High, 0), oc.CapKey(sl.X), 0})
		}
	}
}

// ProveLEKey is ProveLE with the right-hand side given by key (e.g. CapKey).
func (oc *OrderCtx) ProveLEKey(x ssa.Value, ky string, k int64) bool {
	kx := oc.key(x, 0)
	if oc.prove(kx, ky, k, 0, map[string]bool{}) {
		return true
	}
	return oc.proveSplit(x, nil, kx, ky, k, oc.at.Block(), 2)
}

func (oc *OrderCtx) addBranchFacts(d, target *ssa.BasicBlock) {
	ifi, ok := d.Instrs[len(d.Instrs)-1].(*ssa.If)
	if !ok {
		return
	}
	for si, s := range d.Succs {
		if len(s.Preds) != 1 {
			continue
		}
		if s == target || s.Dominates(target) {
			if d.Succs[0] == d.Succs[1] {
				return
			}
			oc.addCond(ifi.Cond, si == 0, 0)
		}
	}
}

func (oc *OrderCtx) addCond(cond ssa.Value, truth bool, depth int) {
	if depth > 4 {
		return
	}
	switch x := cond.(type) {
	case *ssa.UnOp:
		if x.Op == token.NOT {
			oc.addCond(x.X, !truth, depth+1)
		}
	case *ssa.BinOp:
		if !isIntType(x.X.Type()) {
			return
		}
		a, b := oc.key(x.X, 0), oc.key(x.Y, 0)
		op := x.Op
		if !truth {
			switch op {
			case token.LSS:
				op = token.GEQ
			case token.LEQ:
				op = token.GTR
			case token.GTR:
				op = token.LEQ
			case token.GEQ:
				op = token.LSS
			case token.EQL:
				op = token.NEQ
			case token.NEQ:
				op = token.EQL
			}
		}
		switch op {
		case token.LSS: // a < b  => a <= b - 1
			oc.facts = append(oc.facts, ordFact{a, b, -1})
		case token.LEQ:
			oc.facts = append(oc.facts, ordFact{a, b, 0})
		case token.GTR:
			oc.facts = append(oc.facts, ordFact{b, a, -1})
		case token.GEQ:
			oc.facts = append(oc.facts, ordFact{b, a, 0})
		case token.EQL:
			oc.facts = append(oc.facts, ordFact{a, b, 0}, ordFact{b, a, 0})
		case token.NEQ:
			// a != 0 with a unsigned: a >= 1
			if b == zeroKey && oc.uns[a] {
				oc.facts = append(oc.facts, ordFact{zeroKey, a, -1})
			} else if a == zeroKey && oc.uns[b] {
				oc.facts = append(oc.facts, ordFact{zeroKey, b, -1})
			}
		}
	}
}

// constOf parses a "#n" key.
func constOf(k string) (int64, bool) {
	if strings.HasPrefix(k, "#u") {
		return 0, false
	}
	if strings.HasPrefix(k, "#") {
		var n int64
		if _, err := fmt.Sscanf(k[1:], "%d", &n); err == nil {
			return n, true
		}
	}
	return 0, false
}

// ProveLE reports whether  x <= y + k  follows from the collected facts.
func (oc *OrderCtx) ProveLE(x, y ssa.Value, k int64) bool {
	kx, ky := oc.key(x, 0), oc.key(y, 0)
	if oc.prove(kx, ky, k, 0, map[string]bool{}) {
		return true
	}
	return oc.proveSplit(x, y, kx, ky, k, oc.at.Block(), 2)
}

// proveSplit: case split over the edges entering b. When the dominating conditions alone do not give the
// fact (`if a != 0 && a >= n { return }` leaves "a == 0 or a < n"), the query is asked once per predecessor
// with the conditions dominating that predecessor plus the condition of the edge taken; every case must hold.
// Sound because every execution reaching b enters through one of these edges; x and y must be defined outside
// b's phis so that they denote the same value on every edge.
func (oc *OrderCtx) proveSplit(x, y ssa.Value, kx, ky string, k int64, b *ssa.BasicBlock, depth int) bool {
	// climb to the nearest merge point above (a chain of single-predecessor blocks is a straight line)
	for b != nil && len(b.Preds) == 1 {
		b = b.Preds[0]
	}
	if depth == 0 || b == nil || len(b.Preds) < 2 {
		return false
	}
	for i, pr := range b.Preds {
		sub := &OrderCtx{at: oc.at, fn: oc.fn, defs: oc.defs, uns: oc.uns, mr: oc.mr}
		sub.facts = append(sub.facts, oc.facts...) // what dominates the query point holds on every path
		for d := pr.Idom(); d != nil; d = d.Idom() {
			sub.addBranchFacts(d, pr)
		}
		if ifi, ok := pr.Instrs[len(pr.Instrs)-1].(*ssa.If); ok && pr.Succs[0] != pr.Succs[1] {
			sub.addCond(ifi.Cond, pr.Succs[0] == b, 0)
		}
		// on this edge every phi of b equals its edge operand
		for _, in := range b.Instrs {
			phi, ok := in.(*ssa.Phi)
			if !ok {
				break
			}
			if !isIntType(phi.Type()) {
				continue
			}
			pk, ek := sub.key(phi, 0), sub.key(phi.Edges[i], 0)
			sub.facts = append(sub.facts, ordFact{pk, ek, 0}, ordFact{ek, pk, 0})
		}
		if !sub.prove(kx, ky, k, 0, map[string]bool{}) && !sub.proveSplit(x, y, kx, ky, k, pr, depth-1) {
			return false
		}
	}
	return true
}

func (oc *OrderCtx) prove(x, y string, k int64, depth int, seen map[string]bool) bool {
	if depth > 7 {
		return false
	}
	// normalise constants onto the zero node
	if c, ok := constOf(x); ok && x != zeroKey {
		return oc.prove(zeroKey, y, k-c, depth, seen)
	}
	if c, ok := constOf(y); ok && y != zeroKey {
		return oc.prove(x, zeroKey, k+c, depth, seen)
	}
	if x == y {
		return k >= 0
	}
	if x == zeroKey && oc.uns[y] && k >= 0 {
		return true
	}
	id := fmt.Sprintf("%s|%s|%d", x, y, k)
	if seen[id] {
		return false
	}
	seen[id] = true
	defer delete(seen, id)
	// definitional reasoning on y
	if dv, ok := oc.defs[y]; ok {
		if c, isC := dv.(*ssa.Call); isC {
			if b, isB := c.Call.Value.(*ssa.Builtin); isB && len(c.Call.Args) == 2 {
				a0, a1 := oc.key(c.Call.Args[0], 0), oc.key(c.Call.Args[1], 0)
				switch b.Name() {
				case "min": // x <= min(a,b)+k  <=  x <= a+k and x <= b+k
					if oc.prove(x, a0, k, depth+1, seen) && oc.prove(x, a1, k, depth+1, seen) {
						return true
					}
				case "max":
					if oc.prove(x, a0, k, depth+1, seen) || oc.prove(x, a1, k, depth+1, seen) {
						return true
					}
				}
			}
		}
		if bo, isB := dv.(*ssa.BinOp); isB && isIntType(bo.Type()) {
			if c, isC := constOf(oc.key(bo.Y, 0)); isC {
				switch bo.Op {
				case token.SUB: // y = a - c (no wrap if proven separately): x <= a - c + k
					if c >= 0 && oc.prove(x, oc.key(bo.X, 0), k-c, depth+1, seen) && oc.prove(zeroKey, oc.key(bo.X, 0), -c, depth+1, seen) {
						return true
					}
				}
			}
		}
	}
	// definitional reasoning on x
	if dv, ok := oc.defs[x]; ok {
		if c, isC := dv.(*ssa.Call); isC {
			if b, isB := c.Call.Value.(*ssa.Builtin); isB && len(c.Call.Args) == 2 {
				a0, a1 := oc.key(c.Call.Args[0], 0), oc.key(c.Call.Args[1], 0)
				switch b.Name() {
				case "min": // min(a,b) <= y+k  <=  a <= y+k or b <= y+k
					if oc.prove(a0, y, k, depth+1, seen) || oc.prove(a1, y, k, depth+1, seen) {
						return true
					}
				case "max":
					if oc.prove(a0, y, k, depth+1, seen) && oc.prove(a1, y, k, depth+1, seen) {
						return true
					}
				}
			}
		}
		if bo, isB := dv.(*ssa.BinOp); isB && isSignedInt(bo.Type()) && bo.Op == token.ADD {
			// x = a + c, signed machine int (sums of buffer offsets and lengths: overflow is not modelled)
			if c, isC := constOf(oc.key(bo.Y, 0)); isC && oc.prove(oc.key(bo.X, 0), y, k-c, depth+1, seen) {
				return true
			}
			if c, isC := constOf(oc.key(bo.X, 0)); isC && oc.prove(oc.key(bo.Y, 0), y, k-c, depth+1, seen) {
				return true
			}
		}
		if bo, isB := dv.(*ssa.BinOp); isB && isIntType(bo.Type()) && bo.Op == token.SUB {
			// x = a - b with b >= 0 (and no wrap, proven at its own site): x <= a
			bk := oc.key(bo.Y, 0)
			if (oc.uns[bk] || oc.prove(zeroKey, bk, 0, depth+1, seen)) && oc.prove(oc.key(bo.X, 0), y, k, depth+1, seen) {
				return true
			}
		}
	}
	// transitivity through facts
	for _, f := range oc.facts {
		// constants in facts live on the zero node:  #n <= q + c  is  #0 <= q + (c-n);  p <= #m + c  is  p <= #0 + (c+m)
		if n, ok := constOf(f.p); ok && f.p != zeroKey {
			f = ordFact{zeroKey, f.q, f.c - n}
		}
		if m, ok := constOf(f.q); ok && f.q != zeroKey {
			f = ordFact{f.p, zeroKey, f.c + m}
		}
		// a fact about a sum  (a + c0) <= q + c  bounds the summand:  a <= q + (c - c0)   (signed machine ints)
		if dv, ok := oc.defs[f.p]; ok && f.p != x {
			if bo, isB := dv.(*ssa.BinOp); isB && bo.Op == token.ADD && isSignedInt(bo.Type()) {
				for _, pair := range [2][2]ssa.Value{{bo.X, bo.Y}, {bo.Y, bo.X}} {
					if c0, isC := constOf(oc.key(pair[1], 0)); isC && oc.key(pair[0], 0) == x && f.q != x {
						if oc.prove(f.q, y, k-(f.c-c0), depth+1, seen) {
							return true
						}
					}
				}
			}
		}
		if f.p == x && f.q != x {
			if oc.prove(f.q, y, k-f.c, depth+1, seen) {
				return true
			}
		}
		if f.q == y && f.p != y {
			if oc.prove(x, f.p, k-f.c, depth+1, seen) {
				return true
			}
		}
	}
	return false
}

// Facts renders the collected facts (for reports).
func (oc *OrderCtx) Facts() string {
	var out []string
	for _, f := range oc.facts {
		switch {
		case f.c == 0:
			out = append(out, f.p+"<="+f.q)
		case f.c == -1:
			out = append(out, f.p+"<"+f.q)
		default:
			out = append(out, fmt.Sprintf("%s<=%s%+d", f.p, f.q, f.c))
		}
	}
	return strings.Join(out, ", ")
}

// fieldKey gives a stable key to a load of a field path rooted at a parameter, at a local copy
// of a parameter, or at any other value, provided no store to that same path can precede the load.
func (oc *OrderCtx) fieldKey(v ssa.Value, t types.Type) (string, bool) {
	root, path := AccessPathM(oc.mr, v)
	if len(path) == 0 {
		return "", false
	}
	rootName := root.Name()
	if al, ok := root.(*ssa.Alloc); ok {
		// local copy of a (value) parameter: exactly one whole-value store, of a parameter
		n := 0
		for _, ref := range *al.Referrers() {
			if st, isSt := ref.(*ssa.Store); isSt && st.Addr == al {
				n++
				if prm, isP := st.Val.(*ssa.Parameter); isP {
					rootName = prm.Name()
				} else {
					return "", false
				}
			}
		}
		if n != 1 {
			return "", false
		}
	}
	ps := strings.Join(path, ".")
	// the load denotes the value at the program point of interest only if no store to the same
	// path can execute between the load and that point
	ld, _ := v.(ssa.Instruction)
	isStore := func(in ssa.Instruction) bool {
		st, ok := in.(*ssa.Store)
		if !ok {
			return false
		}
		fa, ok := st.Addr.(*ssa.FieldAddr)
		if !ok {
			return false
		}
		r2, p2 := AccessPathM(oc.mr, fa)
		return strings.Join(p2, ".") == ps && (r2 == root || sameRootParam(r2, root))
	}
	if ld != nil && oc.at != nil && !stableBetween(ld, oc.at, isStore) {
		return "", false
	}
	k := rootName + "." + ps
	oc.noteUnsigned(k, t)
	return k, true
}

// mayPrecede: instruction a can execute before b on some path.
func mayPrecede(a, b ssa.Instruction) bool {
	if a.Block() == b.Block() {
		for _, i := range a.Block().Instrs {
			if i == a {
				return true
			}
			if i == b {
				break
			}
		}
	}
	seen := map[*ssa.BasicBlock]bool{}
	var walk func(x *ssa.BasicBlock) bool
	walk = func(x *ssa.BasicBlock) bool {
		for _, s := range x.Succs {
			if s == b.Block() {
				return true
			}
			if !seen[s] {
				seen[s] = true
				if walk(s) {
					return true
				}
			}
		}
		return false
	}
	return walk(a.Block())
}

func sameRootParam(a, b ssa.Value) bool {
	pa, okA := a.(*ssa.Parameter)
	pb, okB := b.(*ssa.Parameter)
	return okA && okB && pa == pb
}

// stableBetween: no instruction satisfying kill can execute on a path from `from` to `to`
// that does not pass through from's block again (the last evaluation of `from` before `to`).
func stableBetween(from, to ssa.Instruction, kill func(ssa.Instruction) bool) bool {
	fb, tb := from.Block(), to.Block()
	scan := func(b *ssa.BasicBlock, after, before ssa.Instruction) bool {
		started := after == nil
		for _, in := range b.Instrs {
			if in == before {
				break
			}
			if !started {
				if in == after {
					started = true
				}
				continue
			}
			if kill(in) {
				return false
			}
		}
		return true
	}
	if fb == tb {
		// from before to in the same block: only the instructions in between
		pos := map[ssa.Instruction]int{}
		for i, in := range fb.Instrs {
			pos[in] = i
		}
		if pos[from] <= pos[to] {
			return scan(fb, from, to)
		}
	}
	if !scan(fb, from, nil) || !scan(tb, nil, to) {
		return false
	}
	// blocks strictly between: forward from fb's successors avoiding fb, intersect backward from tb avoiding fb
	fwd := map[*ssa.BasicBlock]bool{}
	var f func(b *ssa.BasicBlock)
	f = func(b *ssa.BasicBlock) {
		if b == fb || fwd[b] {
			return
		}
		fwd[b] = true
		for _, s := range b.Succs {
			f(s)
		}
	}
	for _, s := range fb.Succs {
		f(s)
	}
	bwd := map[*ssa.BasicBlock]bool{}
	var g func(b *ssa.BasicBlock)
	g = func(b *ssa.BasicBlock) {
		if b == fb || bwd[b] {
			return
		}
		bwd[b] = true
		for _, p := range b.Preds {
			g(p)
		}
	}
	g(tb)
	for b := range fwd {
		if !bwd[b] || b == tb {
			continue
		}
		if !scan(b, nil, nil) {
			return false
		}
	}
	// a loop through tb itself back to tb (without fb) re-executes instructions of tb after `to`
	if fwd[tb] {
		loops := false
		for _, s := range tb.Succs {
			if s != fb && bwd[s] && fwd[s] {
				loops = true
			}
		}
		if loops && !scan(tb, to, nil) {
			return false
		}
	}
	return true
}

// cellKey keys a load of a local variable kept in memory (captured by closures) or of a captured
// variable inside a closure: all loads between which the cell cannot be written share one key.
func (oc *OrderCtx) cellKey(ld *ssa.UnOp) (string, bool) {
	var cell ssa.Value
	switch c := ld.X.(type) {
	case *ssa.Alloc:
		cell = c
	case *ssa.FreeVar:
		cell = c
	default:
		return "", false
	}
	if !isIntType(ld.Type()) {
		return "", false
	}
	writers := closuresWriting(oc.fn, cell)
	kill := func(in ssa.Instruction) bool {
		switch x := in.(type) {
		case *ssa.Store:
			return x.Addr == cell
		case ssa.CallInstruction:
			// a call that runs a closure writing the cell (directly, or passed as an argument)
			cc := x.Common()
			if f := calleeClosure(cc.Value); f != nil && writers[f] {
				return true
			}
			for _, a := range cc.Args {
				if f := calleeClosure(a); f != nil && writers[f] {
					return true
				}
			}
		}
		return false
	}
	if oc.at != nil && !stableBetween(ld, oc.at, kill) {
		return "", false
	}
	k := "cell:" + cell.Name()
	oc.noteUnsigned(k, ld.Type())
	return k, true
}

func calleeClosure(v ssa.Value) *ssa.Function {
	switch x := v.(type) {
	case *ssa.MakeClosure:
		return x.Fn.(*ssa.Function)
	case *ssa.Function:
		return x
	case *ssa.UnOp:
		if al, ok := x.X.(*ssa.Alloc); ok {
			for _, ref := range *al.Referrers() {
				if st, isSt := ref.(*ssa.Store); isSt && st.Addr == al {
					if f := calleeClosure(st.Val); f != nil {
						return f
					}
				}
			}
		}
	}
	return nil
}

// closuresWriting: the anonymous functions of fn (transitively) that store to the given cell
// (an Alloc of fn captured by them) — or, when cell is a FreeVar, nothing (conservatively all siblings are unknown).
func closuresWriting(fn *ssa.Function, cell ssa.Value) map[*ssa.Function]bool {
	out := map[*ssa.Function]bool{}
	al, ok := cell.(*ssa.Alloc)
	if !ok {
		return out
	}
	var visit func(f *ssa.Function, fv *ssa.FreeVar)
	visit = func(f *ssa.Function, fv *ssa.FreeVar) {
		for _, ref := range *fv.Referrers() {
			switch r := ref.(type) {
			case *ssa.Store:
				if r.Addr == fv {
					out[f] = true
				}
			case *ssa.MakeClosure:
				inner := r.Fn.(*ssa.Function)
				for i, b := range r.Bindings {
					if b == fv {
						visit(inner, inner.FreeVars[i])
						if out[inner] {
							out[f] = true
						}
					}
				}
			}
		}
	}
	for _, ref := range *al.Referrers() {
		if mc, isMC := ref.(*ssa.MakeClosure); isMC {
			inner := mc.Fn.(*ssa.Function)
			for i, b := range mc.Bindings {
				if b == al {
					visit(inner, inner.FreeVars[i])
				}
			}
		}
	}
	return out
}

// SrcName gives a source-level name to a value for stable construct keys: parameter, captured or
// local variable name, last field of an access path, len(x), constant; "expr" otherwise (never an SSA register number).
func SrcName(v ssa.Value) string {
	for i := 0; i < 6; i++ {
		switch x := v.(type) {
		case *ssa.Parameter:
			return x.Name()
		case *ssa.FreeVar:
			return x.Name()
		case *ssa.Alloc:
			if x.Comment != "" {
				return x.Comment
			}
			return "local"
		case *ssa.Phi:
			if x.Comment != "" {
				return x.Comment
			}
			return "expr"
		case *ssa.Const:
			if x.Value != nil {
				return x.Value.ExactString()
			}
			return "nil"
		case *ssa.Convert:
			v = x.X
			continue
		case *ssa.ChangeType:
			v = x.X
			continue
		case *ssa.Call:
			if b, ok := x.Call.Value.(*ssa.Builtin); ok && len(x.Call.Args) >= 1 {
				return b.Name() + "(" + SrcName(x.Call.Args[0]) + ")"
			}
			if cal := x.Call.StaticCallee(); cal != nil {
				return cal.Name() + "()"
			}
			return "call"
		case *ssa.UnOp:
			if x.Op == token.MUL {
				if _, path := AccessPath(x); len(path) > 0 {
					return path[len(path)-1]
				}
				v = x.X
				continue
			}
			return "expr"
		case *ssa.Field:
			if _, path := AccessPath(x); len(path) > 0 {
				return path[len(path)-1]
			}
			return "field"
		case *ssa.Extract:
			v = x.Tuple
			continue
		case *ssa.BinOp:
			return "(" + SrcName(x.X) + x.Op.String() + SrcName(x.Y) + ")"
		}
		break
	}
	return "expr"
}
