// Package nilval is a positive example for the C02 "presence by value" rule: a key that is
// stored with a nil value must not be probed with Get(...) != nil. It must be reported on every run.
package nilval

type Bucket struct{ m map[string][]byte }

func (b *Bucket) Get(k []byte) []byte { return b.m[string(k)] }

func mkGarbageKey(id [32]byte) []byte { return append([]byte{5}, id[:]...) }

// Bad tests the presence of a nil-valued mark by its value.
func Bad(b *Bucket, id [32]byte) bool {
	if v := b.Get(mkGarbageKey(id)); v != nil {
		return true
	}
	return false
}

// Good uses the value only.
func Good(b *Bucket, id [32]byte) int {
	return len(b.Get(mkGarbageKey(id)))
}
