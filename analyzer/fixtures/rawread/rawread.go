// Package rawread is a positive example for the C46 raw-Read rule: it must be reported on every run.
package rawread

import "io"

// Bad discards the count of a direct Read and then treats the buffer as full.
func Bad(r io.Reader, n int) ([]byte, error) {
	buf := make([]byte, n)
	_, err := r.Read(buf)
	if err != nil {
		return nil, err
	}
	return buf, nil
}

// Good reads the whole record.
func Good(r io.Reader, n int) ([]byte, error) {
	buf := make([]byte, n)
	_, err := io.ReadFull(r, buf)
	if err != nil {
		return nil, err
	}
	return buf, nil
}
