// nfscheck decides structural necessary conditions of the neofs-node properties
// by static analysis of /repo's current source. See /verif/DESIGN.md.
package main

import (
	"flag"
	"fmt"
	"os"
	"runtime/debug"
	"sort"
	"strconv"
	"strings"
	"time"

	"verif/analyzer/core"
	"verif/analyzer/rules"
)

func main() {
	prop := flag.String("prop", "", "property id (C01…), comma list, or 'all'")
	tier := flag.String("tier", "quick", "quick|thorough")
	root := flag.String("root", "/repo", "repository root to analyse")
	evdir := flag.String("evidence", "/verif/evidence", "evidence directory")
	known := flag.String("known", "/verif/known_findings.json", "known findings file")
	discover := flag.String("discover", "", "print guard facts at every call site of the named function (rule-building aid)")
	pkgs := flag.String("pkgs", "", "package patterns for -discover (comma separated)")
	list := flag.Bool("list", false, "list registered properties")
	flag.Parse()
	if *list {
		fmt.Println(strings.Join(rules.IDs(), " "))
		return
	}
	if *discover != "" {
		p, err := core.Load(*root, strings.Split(*pkgs, ",")...)
		if err != nil {
			fmt.Fprintln(os.Stderr, err)
			os.Exit(2)
		}
		found := false
		for _, fn := range p.Funcs() {
			if core.FuncName(fn) == *discover || strings.HasSuffix(core.FuncName(fn), *discover) {
				found = true
				fmt.Println("==", core.FuncName(fn))
				for _, l := range core.Discover(p, fn) {
					fmt.Println(l)
				}
			}
		}
		if !found {
			fmt.Println("no such function; candidates:")
			for _, fn := range p.Funcs() {
				if strings.Contains(core.FuncName(fn), *discover) {
					fmt.Println("  ", core.FuncName(fn))
				}
			}
		}
		return
	}
	seed, _ := strconv.Atoi(os.Getenv("VERIF_SEED"))
	ids := strings.Split(*prop, ",")
	if *prop == "all" {
		ids = rules.IDs()
	}
	findings, err := core.LoadFindings(*known)
	if err != nil {
		fmt.Fprintln(os.Stderr, "known findings:", err)
		os.Exit(2)
	}
	// group: load the union of package patterns once
	patset := map[string]bool{}
	var checks []*rules.Check
	for _, id := range ids {
		c := rules.Get(id)
		if c == nil {
			fmt.Fprintf(os.Stderr, "unknown property %q\n", id)
			os.Exit(2)
		}
		checks = append(checks, c)
		for _, p := range c.Pkgs {
			patset[p] = true
		}
	}
	var pats []string
	if *tier == "thorough" || patset["./..."] {
		pats = []string{"./..."}
	} else {
		for p := range patset {
			pats = append(pats, p)
		}
		sort.Strings(pats)
	}
	t0 := time.Now()
	p, err := core.Load(*root, pats...)
	if err != nil {
		fmt.Fprintln(os.Stderr, "FATAL:", err)
		os.Exit(2)
	}
	loadT := time.Since(t0).Seconds()
	fmt.Printf("loaded %d root packages, %d module functions from %s in %.1fs\n", len(p.Pkgs), len(p.Funcs()), *root, loadT)
	exit := 0
	for _, c := range checks {
		t1 := time.Now()
		r := core.NewReport(c.ID, c.Level, *tier)
		r.Analysed["root_packages"] = len(p.Pkgs)
		r.Analysed["module_functions_with_bodies"] = len(p.Funcs())
		func() {
			defer func() {
				if e := recover(); e != nil {
					r.Fatalf("engine panic: %v\n%s", e, debug.Stack())
				}
			}()
			c.Run(p, r)
		}()
		wall := time.Since(t1).Seconds() + loadT/float64(len(checks))
		code := r.Finish(*evdir, findings, seed, wall, fmt.Sprintf("/verif/check.sh %s %s", c.ID, *tier))
		if code > exit {
			if exit == 0 || code == 1 {
				exit = code
			}
		}
	}
	os.Exit(exit)
}
