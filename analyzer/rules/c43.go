package rules

import (
	"fmt"
	"go/token"
	"sort"
	"strings"

	"golang.org/x/tools/go/ssa"

	"verif/analyzer/core"
)

// C43 — shard behaviour always matches its reported mode.
func init() {
	register(&Check{ID: "C43", Level: "other", Pkgs: []string{"./pkg/local_object_storage/shard/...", "./pkg/local_object_storage/metabase", "./pkg/local_object_storage/writecache"}, Run: runC43})
}

const modeField = "(pkg/local_object_storage/shard.Info).Mode"

// isModeFieldAddr: v addresses Shard.info.Mode (or cfg.info.Mode).
func isModeFieldAddr(v ssa.Value) bool {
	fa, ok := v.(*ssa.FieldAddr)
	return ok && core.FieldAddrName(fa) == modeField
}

// holdsShardLock: instruction in is dominated by a call of s.m.RLock / s.m.Lock in its function
// that is not followed by a non-deferred unlock dominating in.
func holdsShardLock(in ssa.Instruction) bool {
	fn := in.Parent()
	isM := func(c ssa.CallInstruction) bool {
		a := core.Args(c)
		if len(a) == 0 {
			return false
		}
		fa, ok := a[0].(*ssa.FieldAddr)
		return ok && strings.HasSuffix(core.FieldAddrName(fa), "shard.cfg).m")
	}
	dominates := func(a, b ssa.Instruction) bool {
		if a.Block() == b.Block() {
			for _, i := range a.Block().Instrs {
				if i == a {
					return true
				}
				if i == b {
					return false
				}
			}
		}
		return a.Block().Dominates(b.Block())
	}
	locked := false
	for _, blk := range fn.Blocks {
		for _, i := range blk.Instrs {
			c, ok := i.(*ssa.Call)
			if !ok || !isM(c) {
				continue
			}
			switch core.CalleeName(c) {
			case "(*sync.RWMutex).RLock", "(*sync.RWMutex).Lock":
				if dominates(i, in) {
					locked = true
				}
			}
		}
	}
	if !locked {
		return false
	}
	for _, blk := range fn.Blocks {
		for _, i := range blk.Instrs {
			c, ok := i.(*ssa.Call) // deferred unlocks are *ssa.Defer, not *ssa.Call
			if !ok || !isM(c) {
				continue
			}
			switch core.CalleeName(c) {
			case "(*sync.RWMutex).RUnlock", "(*sync.RWMutex).Unlock":
				if dominates(i, in) {
					return false
				}
			}
		}
	}
	return true
}

func runC43(p *core.Prog, r *core.Report) {
	r.Explain = "Decides the structure that keeps the reported mode and the components' modes together: (R1) Shard.info.Mode is written only by setMode (and the constructor option / info snapshot); (R2) setMode stores the new mode only after the loop over ALL component setters (metabase, blob storage, write-cache when configured) completed with every setter returning nil, and each setter receives the requested mode; (R3) every read of the mode in the shard package happens with the shard mutex held — in the reading function itself, through GetMode(), or in a helper all of whose callers hold it; (R4) the mode predicates and the String/IsValid switches cover every declared mode constant; (R5) setModeStorage skips reopening the blob storage only when the requested mode equals the reported one, otherwise success requires Close and Open(readOnly-of-the-requested-mode) to succeed. Observation, not a rule: after a component fails mid-way the components and the reported mode may disagree; docs/shard-modes.md accepts that ('mode of some components can be different'). Not covered: what each component does in a mode (C14), schedules of concurrent SetMode and operations."
	fns := p.FuncsIn("pkg/local_object_storage/shard")
	// ---------------- R1 writers
	r1 := r.Rule("C43.R1", "Shard.info.Mode is written only in setMode, the WithMode option and fillInfo (snapshot of GetMode)", 3)
	writers := map[string]string{shardT + ".setMode": "the single mode switch", "pkg/local_object_storage/shard.WithMode": "constructor option (before the shard is served)", shardT + ".fillInfo": "stores GetMode() back at init"}
	nW := 0
	for _, fn := range fns {
		for _, b := range fn.Blocks {
			for _, in := range b.Instrs {
				st, ok := in.(*ssa.Store)
				if !ok || !isModeFieldAddr(st.Addr) {
					continue
				}
				nW++
				o := core.FuncName(core.Outer(fn))
				r1.Check(writers[o] != "", o+"#info.Mode=", p.InstrPos(in), "tabled writer: "+writers[o], "the reported mode is written in "+o+", outside setMode")
			}
		}
	}
	if nW < 3 {
		r.Fatalf("C43.R1: %d writes of info.Mode found", nW)
	}
	// ---------------- R2 setMode
	r2 := r.Rule("C43.R2", "setMode: the mode is stored only after every component setter returned nil; all components are in the list and get the requested mode", 6)
	sm := p.Func(shardT + ".setMode")
	if sm == nil {
		r.Fatalf("C43.R2: setMode not found")
		return
	}
	isSetterCall := func(s core.Site) bool {
		if s.Name != "dynamic" {
			return false
		}
		return strings.HasSuffix(s.Call.Common().Value.Type().String(), "func(github.com/nspcc-dev/neofs-node/pkg/local_object_storage/shard/mode.Mode) error")
	}
	setters := core.CallSites([]*ssa.Function{sm}, isSetterCall)
	r2.Check(len(setters) == 1, core.FuncName(sm)+"#setter-call", p.Pos(sm.Pos()), "one call site applies each component setter", fmt.Sprintf("expected one dynamic setter call in setMode, found %d", len(setters)))
	for _, s := range setters {
		r2.Check(core.ParamIndex(sm, s.Call.Common().Args[0]) == 1, core.FuncName(sm)+"#setter-arg", p.InstrPos(s.Call), "each component gets the requested mode", "a component setter is called with something other than the requested mode")
	}
	ok := core.G("component-set", core.ErrNil, "dynamic").Where(isSetterCall)
	gf := core.Flow(sm, []core.Guard{ok})
	// the loop: header dominates the setter call; back edges need the fact; the store is after the loop (dominated by header, not in loop)
	var hdr *ssa.BasicBlock
	for _, h := range sm.Blocks {
		for _, pred := range h.Preds {
			if h.Dominates(pred) && len(setters) == 1 && h.Dominates(setters[0].Call.Block()) {
				hdr = h
			}
		}
	}
	if hdr == nil {
		r2.Bad(core.FuncName(sm)+"#loop", p.Pos(sm.Pos()), "no loop over the component setters found")
	} else {
		for _, pred := range hdr.Preds {
			if hdr.Dominates(pred) {
				r2.Check(gf.Passed(gf.OnEdge(pred, hdr), 0), core.FuncName(sm)+"#next-component", p.InstrPos(pred.Instrs[len(pred.Instrs)-1]), "the loop moves on only after the setter returned nil", "the loop over components continues after a failed setter")
			}
		}
		// loop bound is the full length of the components slice
		full := false
		for _, b := range sm.Blocks {
			if !b.Dominates(hdr) {
				continue
			}
			for _, in := range b.Instrs {
				if c, isC := in.(*ssa.Call); isC && core.CalleeName(c) == "builtin.len" {
					if strings.Contains(c.Call.Args[0].Type().String(), "func(") {
						full = true
						if sl, isSl := c.Call.Args[0].(*ssa.Slice); isSl && (sl.Low != nil || sl.High != nil) {
							full = false // a sub-slice of the component list
						}
					}
				}
			}
		}
		r2.Check(full, core.FuncName(sm)+"#all-components", p.Pos(sm.Pos()), "ranges over the whole component list", "the loop does not range over the whole component list")
		inLoop := func(b *ssa.BasicBlock) bool { return hdr.Dominates(b) && reaches(b, hdr) }
		for _, b := range sm.Blocks {
			for _, in := range b.Instrs {
				if st, isSt := in.(*ssa.Store); isSt && isModeFieldAddr(st.Addr) {
					r2.Check(hdr.Dominates(b) && !inLoop(b) && core.ParamIndex(sm, st.Val) == 1, core.FuncName(sm)+"#info.Mode=", p.InstrPos(in), "stored after the loop, the requested mode", "the reported mode is stored before the loop over components completed, or is not the requested mode")
				}
			}
		}
	}
	// the component list
	var comps []string
	for _, b := range sm.Blocks {
		for _, in := range b.Instrs {
			mc, isMC := in.(*ssa.MakeClosure)
			if !isMC {
				continue
			}
			n := core.FuncName(mc.Fn.(*ssa.Function))
			if strings.HasSuffix(n, "$bound") {
				comps = append(comps, strings.TrimSuffix(n, "$bound"))
			}
		}
	}
	sort.Strings(comps)
	want := []string{"(*pkg/local_object_storage/metabase.DB).SetMode", shardT + ".setModeStorage", "(pkg/local_object_storage/writecache.Cache).SetMode"}
	for _, w := range want {
		found := false
		for _, c := range comps {
			found = found || c == w
		}
		r2.Check(found, core.FuncName(sm)+"#component:"+w, p.Pos(sm.Pos()), "in the component list", "component setter "+w+" is no longer in setMode's list")
	}

	// ---------------- R3 reads under the lock
	r3 := r.Rule("C43.R3", "every read of the reported mode happens with the shard mutex held (directly, or in a helper all of whose callers hold it)", 30)
	// call sites by callee within the package
	callers := map[*ssa.Function][]core.Site{}
	for _, s := range core.CallSites(fns, nil) {
		if cal := core.StaticCallee(s.Call); cal != nil {
			callers[cal] = append(callers[cal], s)
		}
	}
	exempt := map[string]string{
		shardT + ".setMode":        "called with the write lock held by SetMode / under Init before the shard is served",
		shardT + ".setModeStorage": "component setter invoked by setMode",
		shardT + ".fillInfo":       "init-time snapshot through GetMode()",
	}
	var heldAt func(in ssa.Instruction, depth int, seen map[*ssa.Function]bool) (bool, string)
	heldAt = func(in ssa.Instruction, depth int, seen map[*ssa.Function]bool) (bool, string) {
		if holdsShardLock(in) {
			return true, "lock taken in " + core.FuncName(in.Parent())
		}
		fn := in.Parent()
		if why, ok := exempt[core.FuncName(core.Outer(fn))]; ok {
			return true, "tabled: " + why
		}
		if depth > 3 || seen[fn] {
			return false, "caller chain too deep"
		}
		seen[fn] = true
		defer delete(seen, fn)
		if fn.Parent() != nil {
			// a closure: where it is created must hold the lock (synchronous callbacks) — find MakeClosure
			for _, b := range fn.Parent().Blocks {
				for _, i := range b.Instrs {
					if mc, ok := i.(*ssa.MakeClosure); ok && mc.Fn == fn {
						if _, isGo := firstUse(mc).(*ssa.Go); isGo {
							return false, "closure started as a goroutine"
						}
						return heldAt(i, depth+1, seen)
					}
				}
			}
			return false, "closure creation not found"
		}
		cs := callers[fn]
		if len(cs) == 0 {
			return false, "no static caller in the package and no lock in " + core.FuncName(fn)
		}
		for _, s := range cs {
			if ok, why := heldAt(s.Call.(ssa.Instruction), depth+1, seen); !ok {
				return false, "caller " + core.FuncName(s.Fn) + ": " + why
			}
		}
		return true, "all callers hold the lock"
	}
	for _, fn := range fns {
		for _, b := range fn.Blocks {
			for _, in := range b.Instrs {
				u, ok := in.(*ssa.UnOp)
				if !ok || u.Op != token.MUL || !isModeFieldAddr(u.X) {
					continue
				}
				if strings.HasSuffix(core.FuncName(core.Outer(fn)), "shard.WithMode") {
					continue
				}
				held, why := heldAt(in, 0, map[*ssa.Function]bool{})
				key := core.FuncName(fn) + "#read-info.Mode"
				if held {
					r3.OK(key, p.InstrPos(in), why)
				} else {
					r3.Bad(key, p.InstrPos(in), "the reported mode is read without the shard mutex ("+why+"): a concurrent SetMode can change the components underneath the operation")
				}
			}
		}
	}

	// ---------------- R4 exhaustiveness of mode switches
	r4 := r.Rule("C43.R4", "Mode.String and Mode.IsValid cover every declared mode constant", 2)
	mpk := p.All[core.Mod+"pkg/local_object_storage/shard/mode"]
	if mpk == nil {
		r.Fatalf("C43.R4: mode package not loaded")
	} else {
		var consts []int64
		names := map[int64]string{}
		for _, n := range mpk.Types.Scope().Names() {
			if c, ok := p.ConstInt("pkg/local_object_storage/shard/mode." + n); ok {
				consts = append(consts, c)
				names[c] = n
			}
		}
		for _, m := range []string{"String", "IsValid"} {
			fn := p.Func("(pkg/local_object_storage/shard/mode.Mode)." + m)
			if fn == nil {
				r.Fatalf("C43.R4: Mode.%s not found", m)
				continue
			}
			seen := map[int64]bool{}
			for _, b := range fn.Blocks {
				for _, in := range b.Instrs {
					if bo, ok := in.(*ssa.BinOp); ok && bo.Op == token.EQL {
						if c, isC := bo.Y.(*ssa.Const); isC && c.Value != nil {
							seen[int64(c.Uint64())] = true
						}
					}
				}
			}
			var miss []string
			for _, c := range consts {
				if !seen[c] {
					miss = append(miss, names[c])
				}
			}
			r4.Check(len(miss) == 0, core.FuncName(fn), p.Pos(fn.Pos()), "all mode constants handled", "mode constants not handled: "+strings.Join(miss, ","))
		}
	}

	// ---------------- R5 setModeStorage
	r5 := r.Rule("C43.R5", "setModeStorage succeeds without reopening only when the requested mode equals the reported one; otherwise only after Close and Open(requested read-only flag) succeeded", 2)
	if entry := p.Func(shardT + ".setModeStorage"); entry == nil {
		r.Fatalf("C43.R5: setModeStorage not found")
	} else {
		same := core.Guard{Name: "mode-unchanged", Comps: []core.Comp{{Result: -1, Kind: core.IsTrue}}, Value: func(fn *ssa.Function, v ssa.Value) bool {
			bo, ok := v.(*ssa.BinOp)
			if !ok || bo.Op != token.EQL {
				return false
			}
			isLoad := func(x ssa.Value) bool {
				u, ok := x.(*ssa.UnOp)
				return ok && u.Op == token.MUL && isModeFieldAddr(u.X)
			}
			return isLoad(bo.X) && core.ParamIndex(fn, bo.Y) == 1 || isLoad(bo.Y) && core.ParamIndex(fn, bo.X) == 1
		}}
		// the reopening itself may live in setModeStorage or in a helper it hands its mode to
		ss := storageReopener(p)
		if ss == nil {
			r5.Bad(core.FuncName(entry)+"#Close", p.Pos(entry.Pos()), "setModeStorage no longer closes the blob storage (neither itself nor through a helper that is given the requested mode)")
		} else {
			var closeCall ssa.CallInstruction
			for _, cs := range core.CallSites([]*ssa.Function{ss}, isStorageClose) {
				closeCall = cs.Call
			}
			gf := core.Flow(ss, []core.Guard{same})
			mr := core.NewMemReach(ss)
			nRet := 0
			for _, b := range ss.Blocks {
				ret, isRet := b.Instrs[len(b.Instrs)-1].(*ssa.Return)
				if !isRet {
					continue
				}
				v := mr.Canon(ret.Results[0])
				if c, isC := v.(*ssa.Const); !isC || !c.IsNil() {
					if !core.KnownNonNil(mr, v, b) {
						r5.Unknown(core.FuncName(ss)+"#return", p.InstrPos(ret), "a return whose value is neither nil nor a known error")
					}
					continue
				}
				nRet++
				if !closeCall.Block().Dominates(b) {
					// (a) success returns that are not preceded by Close need mode-unchanged
					r5.Check(ss == entry && gf.Passed(gf.At(ret), 0), core.FuncName(ss)+"#return-without-reopen", p.InstrPos(ret), "skips reopening only when the requested mode equals the reported one", "reports success without reopening the blob storage although the requested mode differs from the reported one: a component left in another mode by an earlier partial switch is never brought back")
					continue
				}
				// (b) after Close: the nil return must sit on the nil edge of a test of a value that merges every storage call's error
				var tested ssa.Value
				for _, blk := range ss.Blocks {
					ifi, isIf := blk.Instrs[len(blk.Instrs)-1].(*ssa.If)
					if !isIf {
						continue
					}
					bo, isB := ifi.Cond.(*ssa.BinOp)
					if !isB || bo.Op != token.NEQ && bo.Op != token.EQL {
						continue
					}
					nilSucc := blk.Succs[1]
					if bo.Op == token.EQL {
						nilSucc = blk.Succs[0]
					}
					if (nilSucc == b || nilSucc.Dominates(b)) && len(nilSucc.Preds) == 1 {
						if c, isC := bo.Y.(*ssa.Const); isC && c.IsNil() {
							tested = bo.X
						}
					}
				}
				okAll := tested != nil
				var missing []string
				for _, cs := range core.CallSites([]*ssa.Function{ss}, func(s core.Site) bool { return strings.Contains(s.Name, "common.Storage).") }) {
					if cs.Call.Value() == nil || cs.Call.Value().Type().String() != "error" {
						continue
					}
					if tested == nil || !flowsTo(cs.Call.Value(), tested, 5) {
						okAll = false
						missing = append(missing, cs.Name)
					}
				}
				r5.Check(okAll, core.FuncName(ss)+"#return-after-reopen", p.InstrPos(ret), "success only when Close, Open and Init all returned nil (their errors merge into the tested value)", "success after reopening does not depend on the error of: "+strings.Join(missing, ","))
			}
			// Open is asked for the requested mode's read-only flag
			r5.Check(len(core.CallSites([]*ssa.Function{ss}, func(s core.Site) bool {
				if !strings.HasSuffix(s.Name, "common.Storage).Open") {
					return false
				}
				c, ok := s.Call.Common().Args[0].(*ssa.Call)
				return ok && strings.HasSuffix(core.CalleeName(c), "mode.Mode).ReadOnly") && core.ParamIndex(ss, c.Call.Args[0]) == 1
			})) == 1, core.FuncName(ss)+"#Open(m.ReadOnly())", p.Pos(ss.Pos()), "reopened with the requested mode's read-only flag", "the blob storage is not reopened with m.ReadOnly() of the requested mode")
			if ss != entry {
				// (c) the entry succeeds only with the mode unchanged or the helper's success for the requested mode
				reopened := core.Guard{Name: "reopened", Match: func(s core.Site) bool {
					return s.Name == core.FuncName(ss) && len(s.Call.Common().Args) == 2 && core.ParamIndex(entry, s.Call.Common().Args[1]) == 1
				}, Comps: []core.Comp{{Result: -1, Kind: core.ErrNil}}}
				before := len(r.Obls)
				core.CheckSuccessFn(p, r5, entry, core.SuccessRule{ResultIdx: -1, MinReturns: 1, Guards: []core.Guard{same, reopened},
					Derived: []core.Derived{{Name: "storage-follows-the-switch", Alts: [][]string{{"mode-unchanged"}, {"reopened"}}}}, Need: []string{"storage-follows-the-switch"}})
				nRet += len(r.Obls) - before
			}
			if nRet < 2 {
				r.Fatalf("C43.R5: %d nil returns in setModeStorage and its reopening helper, expected 2", nRet)
			}
		}
	}
	// ---------------- R6 a component records a mode that needs its store only after the store was opened
	r6 := r.Rule("C43.R6", "metabase and write-cache record a mode that needs an open store only after every open step of that function returned nil (a failed switch must leave the recorded mode unchanged, else the retry is skipped as 'already in that mode')", 6)
	componentModeAfterOpen(p, r, r6)
	// ---------------- R7 the write-cache changes its recorded mode only after the flush that the switch requires
	r7 := r.Rule("C43.R7", "write-cache SetMode: the flush required for entering a no-metabase mode comes before any write of the recorded mode and a failed flush ends the call without one (the shard aborts its switch on that error and keeps reporting the old mode; a cache that already records the new mode silently refuses deletes and never flushes behind a READ_WRITE shard)", 2)
	if sm := p.Func("(*pkg/local_object_storage/writecache.cache).SetMode"); sm == nil {
		r.Fatalf("C43.R7: write-cache SetMode not found")
	} else {
		var stores []*ssa.Store
		for _, b := range sm.Blocks {
			for _, in := range b.Instrs {
				if st, ok := in.(*ssa.Store); ok {
					if fa, isFA := st.Addr.(*ssa.FieldAddr); isFA && core.FieldAddrName(fa) == "(pkg/local_object_storage/writecache.cache).mode" {
						stores = append(stores, st)
					}
				}
			}
		}
		flushes := core.CallSites([]*ssa.Function{sm}, func(s core.Site) bool { return s.Name == "(*pkg/local_object_storage/writecache.cache).flush" })
		name := core.FuncName(sm)
		if len(stores) == 0 {
			r7.Bad(name+"#mode-store", p.Pos(sm.Pos()), "SetMode never records the mode")
		}
		if len(flushes) == 0 {
			r7.Check(true, name+"#flush", p.Pos(sm.Pos()), "no flush step in the switch", "")
		}
		for i, f := range flushes {
			fi := f.Call.(ssa.Instruction)
			fb := fi.Block()
			early := ""
			for _, st := range stores {
				before := st.Block() == fb && indexIn(fb, st) < indexIn(fb, fi)
				if before || st.Block() != fb && reaches(st.Block(), fb) {
					early = p.InstrPos(st)
				}
			}
			r7.Check(early == "", fmt.Sprintf("%s#flush@%d!before-recording", name, i+1), p.InstrPos(fi), "no write of the recorded mode can precede the flush",
				"the recorded mode is written ("+early+") before the flush the switch requires: when the flush fails the call returns its error with the new mode already recorded")
			// failed flush: no store reachable from the error edge
			late := ""
			if c, ok := f.Call.(*ssa.Call); ok && c.Referrers() != nil {
				tested := false
				for _, ref := range *c.Referrers() {
					bo, isB := ref.(*ssa.BinOp)
					if !isB || bo.Referrers() == nil {
						continue
					}
					if k, isK := bo.Y.(*ssa.Const); !isK || !k.IsNil() {
						continue
					}
					for _, u := range *bo.Referrers() {
						iff, isIf := u.(*ssa.If)
						if !isIf {
							continue
						}
						tested = true
						errSucc := iff.Block().Succs[0]
						if bo.Op == token.EQL {
							errSucc = iff.Block().Succs[1]
						}
						for _, st := range stores {
							if st.Block() == errSucc || reaches(errSucc, st.Block()) {
								late = p.InstrPos(st)
							}
						}
					}
				}
				if !tested {
					// `return c.flush(...)`: fine only if nothing was recorded before (checked above) and nothing follows
					for _, ref := range *c.Referrers() {
						if _, isRet := ref.(*ssa.Return); isRet {
							tested = true
						}
					}
				}
				if !tested {
					late = "the flush result is not examined"
				}
			}
			r7.Check(late == "", fmt.Sprintf("%s#flush@%d!failure-records-nothing", name, i+1), p.InstrPos(fi), "a failed flush ends the switch with the recorded mode untouched",
				"after a failed flush the recorded mode can still be written ("+late+")")
		}
	}
	r.Explain += " (R7) in the write-cache's SetMode the flush that entering a no-metabase mode requires precedes every write of the recorded mode, and its failure edge reaches none: Shard.setMode aborts on the cache's error (C14.R4) and keeps the old mode, so the cache must keep it too."
}

func indexIn(b *ssa.BasicBlock, in ssa.Instruction) int {
	for i, x := range b.Instrs {
		if x == in {
			return i
		}
	}
	return -1
}

// firstUse returns the first referrer of v (used to see whether a closure is started as a goroutine).
func firstUse(v ssa.Value) ssa.Instruction {
	if v.Referrers() == nil || len(*v.Referrers()) == 0 {
		return nil
	}
	return (*v.Referrers())[0]
}

// componentModeAfterOpen: see C43.R6.
func componentModeAfterOpen(p *core.Prog, r *core.Report, h *core.RuleH) {
	fields := map[string]bool{"(pkg/local_object_storage/metabase.DB).mode": true, "(pkg/local_object_storage/writecache.cache).mode": true}
	openers := map[string]bool{
		"(*pkg/local_object_storage/metabase.DB).openBolt": true, "(*pkg/local_object_storage/metabase.DB).Open": true, "(*pkg/local_object_storage/metabase.DB).Init": true, "(*pkg/local_object_storage/metabase.DB).initWritable": true,
		"(*pkg/local_object_storage/writecache.cache).openStore": true,
	}
	degraded, okD := p.ConstInt("pkg/local_object_storage/shard/mode.Degraded")
	if !okD {
		r.Fatalf("%s: mode.Degraded constant not found", h.ID())
		return
	}
	n := 0
	fns := append(p.FuncsIn("pkg/local_object_storage/metabase"), p.FuncsIn("pkg/local_object_storage/writecache")...)
	for _, fn := range fns {
		var stores []*ssa.Store
		for _, b := range fn.Blocks {
			for _, in := range b.Instrs {
				if st, ok := in.(*ssa.Store); ok {
					if fa, isFA := st.Addr.(*ssa.FieldAddr); isFA && fields[core.FieldAddrName(fa)] {
						stores = append(stores, st)
					}
				}
			}
		}
		if len(stores) == 0 {
			continue
		}
		hasOpener := len(core.CallSites([]*ssa.Function{fn}, func(s core.Site) bool { return openers[s.Name] })) > 0
		for _, st := range stores {
			n++
			id := core.FuncName(fn) + "#store " + core.FieldAddrName(st.Addr.(*ssa.FieldAddr))
			pos := p.InstrPos(st)
			if k, isK := intConstOf(st.Val); isK && k&degraded != 0 {
				h.OKTrivial(id+"[no-store mode]", pos, "records a mode that needs no open store")
				continue
			}
			if !hasOpener {
				h.OKTrivial(id+"[no open step here]", pos, "the function opens nothing: option / constructor default")
				continue
			}
			val := st.Val
			noStore := core.Guard{Name: "mode-needs-no-store", Pure: true, Match: func(s core.Site) bool {
				return s.Name == "(pkg/local_object_storage/shard/mode.Mode).NoMetabase" && s.Call.Common().Args[0] == val
			}, Comps: []core.Comp{{Result: -1, Kind: core.IsTrue}}}
			gf := core.Flow(fn, []core.Guard{noStore})
			if gf.Passed(gf.At(st), 0) {
				h.OK(id+"!after-open", pos, "recorded under 'the mode needs no store'")
				continue
			}
			// nil-tests whose nil edge dominates the store
			var tests []ssa.Value
			for _, blk := range fn.Blocks {
				ifi, isIf := blk.Instrs[len(blk.Instrs)-1].(*ssa.If)
				if !isIf {
					continue
				}
				bo, isB := ifi.Cond.(*ssa.BinOp)
				if !isB || bo.Op != token.NEQ && bo.Op != token.EQL {
					continue
				}
				if c, isC := bo.Y.(*ssa.Const); !isC || !c.IsNil() {
					continue
				}
				nilSucc := blk.Succs[1]
				if bo.Op == token.EQL {
					nilSucc = blk.Succs[0]
				}
				if len(nilSucc.Preds) == 1 && nilSucc.Dominates(st.Block()) {
					tests = append(tests, bo.X)
				}
			}
			nOpen, ok := 0, true
			var missing []string
			for _, cs := range core.CallSites([]*ssa.Function{fn}, func(s core.Site) bool { return openers[s.Name] }) {
				nOpen++
				covered := false
				for _, t := range tests {
					if cs.Call.Value() != nil && flowsTo(cs.Call.Value(), t, 6) {
						covered = true
					}
				}
				if !covered {
					ok = false
					missing = append(missing, cs.Name[strings.LastIndex(cs.Name, ".")+1:]+" at "+p.InstrPos(cs.Call))
				}
			}
			h.Check(ok && nOpen > 0, id+"!after-open", pos, "recorded only after the error of every open step of the function was tested nil",
				"the component records the new mode although the open step "+strings.Join(missing, ", ")+" has not been seen to succeed: when the open fails the switch reports an error but the recorded mode has already changed, and the retried switch is skipped as 'already in that mode' — the shard then reports a mode its metabase/write-cache cannot serve")
		}
	}
	if n == 0 {
		r.Fatalf("%s: no store to a component mode field found", h.ID())
	}
}

func isStorageClose(s core.Site) bool { return strings.HasSuffix(s.Name, "common.Storage).Close") }

// storageReopener finds the shard function that closes and reopens the blob storage for a mode switch:
// setModeStorage itself, or the helper it passes its requested mode to.
func storageReopener(p *core.Prog) *ssa.Function {
	entry := p.Func(shardT + ".setModeStorage")
	if entry == nil {
		return nil
	}
	if len(core.CallSites([]*ssa.Function{entry}, isStorageClose)) > 0 {
		return entry
	}
	for _, cs := range core.CallSites([]*ssa.Function{entry}, func(s core.Site) bool { return strings.HasPrefix(s.Name, "(*pkg/local_object_storage/shard.Shard).") }) {
		callee := cs.Call.Common().StaticCallee()
		if callee == nil || len(cs.Call.Common().Args) != 2 || core.ParamIndex(entry, cs.Call.Common().Args[1]) != 1 {
			continue
		}
		if len(core.CallSites([]*ssa.Function{callee}, isStorageClose)) > 0 {
			return callee
		}
	}
	return nil
}
