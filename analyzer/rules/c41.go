package rules

import (
	"fmt"
	"go/types"
	"strings"

	"golang.org/x/tools/go/ssa"

	"verif/analyzer/core"
)

// C41 — fast header parsing agrees with full decoding (error-before-use clause only).
func init() {
	register(&Check{ID: "C41", Level: "other", Pkgs: []string{"./internal/object", "./pkg/local_object_storage/blobstor/fstree", "./pkg/local_object_storage/shard", "./pkg/services/object"}, Run: runC41})
}

// fallibleResultUses checks, in fn, that no result of a fallible parse helper is used before its
// failure indicator was tested: (T..., error) helpers need err == nil; protowire.Consume* helpers
// (which signal failure by a negative length) need protowire.ParseError(n) == nil or n >= 0.
func fallibleResultUses(p *core.Prog, h *core.RuleH, fn *ssa.Function, isHelper func(name string) bool) int {
	n := 0
	for _, b := range fn.Blocks {
		for _, in := range b.Instrs {
			call, ok := in.(*ssa.Call)
			if !ok {
				continue
			}
			name := core.CalleeName(call)
			if !isHelper(name) {
				continue
			}
			tup, isTuple := call.Type().(*types.Tuple)
			consume := strings.Contains(name, "protowire.Consume")
			var guard core.Guard
			var checked []ssa.Value // result values whose use needs the guard
			var indicator ssa.Value
			switch {
			case consume:
				// last result is n
				if isTuple {
					for _, ref := range *call.Referrers() {
						if ex, isEx := ref.(*ssa.Extract); isEx {
							if ex.Index == tup.Len()-1 {
								indicator = ex
							}
							checked = append(checked, ex)
						}
					}
				} else {
					indicator = call
					checked = append(checked, call)
				}
				if indicator == nil {
					continue
				}
				ind := indicator
				guard = core.Guard{Name: "length-valid", Match: func(s core.Site) bool {
					return strings.HasSuffix(s.Name, "protowire.ParseError") && s.Call.Common().Args[0] == ind
				}, Comps: []core.Comp{{Result: -1, Kind: core.ErrNil}}}
			case isTuple && tup.Len() >= 2 && tup.At(tup.Len()-1).Type().String() == "error":
				site := call
				guard = core.Guard{Name: "parse-ok", Match: func(s core.Site) bool { return s.Call == ssa.CallInstruction(site) }, Comps: []core.Comp{{Result: -1, Kind: core.ErrNil}}}
				for _, ref := range *call.Referrers() {
					if ex, isEx := ref.(*ssa.Extract); isEx && ex.Index != tup.Len()-1 {
						checked = append(checked, ex)
					}
				}
			default:
				continue
			}
			nonneg := core.Guard{Name: "length-nonneg", Comps: []core.Comp{{Result: -1, Kind: core.NonNeg}}, Pure: true, Value: func(_ *ssa.Function, v ssa.Value) bool { return indicator != nil && v == indicator }}
			gf := core.Flow(fn, []core.Guard{guard, nonneg})
			for _, v := range checked {
				for _, ref := range *v.Referrers() {
					use, _ := ref.(ssa.Instruction)
					if use == nil {
						continue
					}
					switch u := ref.(type) {
					case *ssa.DebugRef:
						continue
					case *ssa.Return:
						continue // returned together with the indicator: the caller decides
					case *ssa.Phi:
						continue
					case ssa.CallInstruction:
						if strings.HasSuffix(core.CalleeName(u), "protowire.ParseError") {
							continue
						}
					case *ssa.BinOp:
						// a comparison of the indicator itself (n < 0) is the test
						if v == indicator && (u.Op.String() == "<" || u.Op.String() == ">=" || u.Op.String() == "==" || u.Op.String() == "!=" || u.Op.String() == ">" || u.Op.String() == "<=") {
							continue
						}
					case *ssa.Store:
						// copied into a local variable / result cell: not a use by itself; the reads of that cell are examined instead
						if al, isAl := u.Addr.(*ssa.Alloc); isAl {
							if al.Comment != "" {
								for _, r2 := range *al.Referrers() {
									var at ssa.Instruction
									switch y := r2.(type) {
									case *ssa.UnOp:
										at = y
									case *ssa.FieldAddr:
										at = y
									}
									if at == nil || !u.Block().Dominates(at.Block()) {
										continue
									}
									n++
									f := gf.At(at)
									key := fmt.Sprintf("%s#%s→use(%s)", core.FuncName(fn), shortCallee(name), al.Comment)
									if gf.Passed(f, 0) || consume && gf.Passed(f, 1) {
										h.OK(key, p.InstrPos(at), "the variable is read only after the failure indicator was tested")
									} else if _, isRet := nextIsReturnOnly(at); isRet {
										h.OK(key, p.InstrPos(at), "read only to be returned together with the error")
									} else {
										h.Bad(key, p.InstrPos(at), "variable "+al.Comment+" holds a result of "+name+" and is read on a path where the failure indicator has not been tested")
									}
								}
							}
							continue
						}
					}
					n++
					f := gf.At(use)
					okUse := gf.Passed(f, 0) || consume && gf.Passed(f, 1)
					key := fmt.Sprintf("%s#%s→use", core.FuncName(fn), shortCallee(name))
					if okUse {
						h.OK(key, p.InstrPos(use), "used only after the failure indicator was tested")
					} else {
						h.Bad(key, p.InstrPos(use), "a result of "+name+" is used on a path where its failure indicator has not been tested: on malformed input the fast path works with garbage instead of returning an error")
					}
				}
			}
		}
	}
	return n
}

func shortCallee(n string) string {
	if i := strings.LastIndex(n, "/"); i >= 0 {
		return n[i+1:]
	}
	return n
}

func runC41(p *core.Prog, r *core.Report) {
	r.Explain = "Decides only the error-before-use clause of the fast parsing paths: in internal/object (wire.go) and in the fstree header/stream readers, no value produced by a fallible parse helper (protowire.Consume*, the SDK's protobuf seek/bounds/varint helpers, the repository's own Get*Header helpers) is used on a path where the helper's failure indicator (negative length / error) has not been tested; and no explicit panic or unchecked type assertion sits in those functions (the three documented Seek panics of the fstree readers are tabled: they guard API misuse, not input). It does NOT decide agreement with full decoding, nor the absence of index-out-of-range panics on malformed input — those need fuzzing / differential testing, which is another family of technique."
	isHelper := func(name string) bool {
		return strings.Contains(name, "protowire.Consume") || strings.Contains(name, "proto/protobuf.") || strings.HasPrefix(name, "internal/object.Get") || strings.HasPrefix(name, "internal/object.get") || strings.HasPrefix(name, "internal/object.Extract")
	}
	r1 := r.Rule("C41.R1", "results of fallible parse helpers are used only after the failure indicator was tested", 20)
	total := 0
	var scope []*ssa.Function
	scope = append(scope, p.FuncsIn("internal/object")...)
	for _, fn := range p.FuncsIn("pkg/local_object_storage/blobstor/fstree") {
		// only functions that call a parse helper
		if len(core.CallSites([]*ssa.Function{fn}, func(s core.Site) bool { return isHelper(s.Name) })) > 0 {
			scope = append(scope, fn)
		}
	}
	for _, fn := range scope {
		total += fallibleResultUses(p, r1, fn, isHelper)
	}
	r.Analysed["functions_with_parse_helpers"] = len(scope)
	r.Analysed["uses_examined"] = total
	// ---------------- R3 nested scans are confined to the nested field
	r3 := r.Rule("C41.R3", "a scan that starts at the value offset of a located field is confined to that field: the scanned buffer is cut at the field's end before the loop", 1)
	nNest := 0
	for _, fn := range p.FuncsIn("internal/object") {
		// `off := base + f.ValueFrom` for a FieldBounds value f
		for _, b := range fn.Blocks {
			for _, in := range b.Instrs {
				bo, ok := in.(*ssa.BinOp)
				if !ok || bo.Op.String() != "+" {
					continue
				}
				base, fname := boundsField(bo.Y)
				if base == nil || fname != "ValueFrom" {
					continue
				}
				// is it the start offset of a tag-parsing loop?
				loops := len(core.CallSites([]*ssa.Function{fn}, func(s core.Site) bool {
					return strings.HasSuffix(s.Name, "protobuf.ParseTag") && inCycle(s.Call.Block())
				})) > 0
				if !loops {
					continue
				}
				nNest++
				// a reslice buf[:base+f.To] of the same bounds value must dominate the loop
				cut := false
				for _, b2 := range fn.Blocks {
					for _, i2 := range b2.Instrs {
						sl, isSl := i2.(*ssa.Slice)
						if !isSl || sl.High == nil {
							continue
						}
						hb, isB := sl.High.(*ssa.BinOp)
						if !isB || hb.Op.String() != "+" {
							continue
						}
						tb, tname := boundsField(hb.Y)
						if tb != nil && tb == base && tname == "To" && hb.X == bo.X {
							// and the loop parses from that cut buffer
							for _, s := range core.CallSites([]*ssa.Function{fn}, func(s core.Site) bool { return strings.HasSuffix(s.Name, "protobuf.ParseTag") }) {
								if a, isA := s.Call.Common().Args[0].(*ssa.Slice); isA && (a.X == ssa.Value(sl) || flowsTo(sl, a.X, 3)) {
									cut = true
								}
							}
						}
					}
				}
				r3.Check(cut, core.FuncName(fn)+"#nested-scan-bounded", p.InstrPos(in), "the scan of the nested message cannot run past the field's end", "the scan that starts at the nested field's value offset is not confined to the field: it runs on into the following fields of the outer message (e.g. the payload) and mistakes them for fields of the nested message")
			}
		}
	}
	if nNest == 0 {
		r.Fatalf("C41.R3: no nested scan found in internal/object (expected getParentNonPayloadFieldBounds)")
	}

	// ---------------- R2 no panics / unchecked assertions
	r2 := r.Rule("C41.R2", "no explicit panic or unchecked type assertion in the fast parsing functions (tabled API-misuse panics excepted)", 1)
	tabled := map[string]string{
		"(pkg/local_object_storage/blobstor/fstree.compressedReader).Seek":        "API misuse guard (whence/offset), not reachable from parsing input",
		"(*pkg/local_object_storage/blobstor/fstree.prefixedReadSeekCloser).Seek": "API misuse guard",
		"(*pkg/local_object_storage/blobstor/fstree.limitedFileReader).Seek":      "API misuse guard",
		"pkg/local_object_storage/blobstor/fstree.putInt":                         "",
	}
	np := 0
	for _, fn := range append(p.FuncsIn("internal/object"), p.FuncsIn("pkg/local_object_storage/blobstor/fstree")...) {
		for _, b := range fn.Blocks {
			for _, in := range b.Instrs {
				switch x := in.(type) {
				case *ssa.Panic:
					np++
					if lo, hi, okCov := switchCoversRange(fn); okCov {
						r2.OK(core.FuncName(fn)+"#panic(default)", p.InstrPos(in), fmt.Sprintf("the default branch is unreachable: every field number %d..%d below the loop's bound has a case and number 0 is rejected by the tag parser", lo, hi))
						continue
					}
					why, ok := tabled[core.FuncName(core.Outer(fn))]
					r2.Check(ok && why != "", core.FuncName(fn)+"#panic", p.InstrPos(in), "tabled: "+why, "an explicit panic sits in a parsing/reading function that is not in the table of API-misuse guards")
				case *ssa.TypeAssert:
					if !x.CommaOk && strings.HasPrefix(core.FuncName(fn), "internal/object") {
						np++
						r2.Bad(core.FuncName(fn)+"#type-assert", p.InstrPos(in), "unchecked type assertion in a fast parsing function")
					}
				}
			}
		}
	}
	r2.OKTrivial("scan", "-", fmt.Sprintf("%d panic/assertion sites examined", np))
	// ---------------- R4 / R5 the combined-file fast path (fstree/head.go)
	const fstP = "pkg/local_object_storage/blobstor/fstree."
	rh := p.Func("(*" + fstP + "FSTree).readHeader")
	pp := p.Func(fstP + "parseCombinedPrefix")
	if rh == nil || pp == nil {
		r.Fatalf("C41.R4: readHeader / parseCombinedPrefix not found")
		return
	}
	r4 := r.Rule("C41.R4", "readHeader hands back a non-nil stream with every error: its callers close the stream they got on the error path", 3)
	closesOnErr := 0
	for _, fn := range p.FuncsIn("pkg/local_object_storage/blobstor/fstree") {
		for _, cs := range core.CallSites([]*ssa.Function{fn}, func(s core.Site) bool { return core.StaticCallee(s.Call) == rh }) {
			v := cs.Call.Value()
			if v == nil || v.Referrers() == nil {
				continue
			}
			for _, ref := range *v.Referrers() {
				ex, ok := ref.(*ssa.Extract)
				if !ok || ex.Index != 1 || ex.Referrers() == nil {
					continue
				}
				for _, u := range *ex.Referrers() {
					if c, isC := u.(ssa.CallInstruction); isC && c.Common().IsInvoke() && c.Common().Method.Name() == "Close" {
						closesOnErr++
					}
				}
			}
		}
	}
	for _, b := range rh.Blocks {
		ret, ok := b.Instrs[len(b.Instrs)-1].(*ssa.Return)
		if !ok || len(ret.Results) != 3 {
			continue
		}
		if c, isC := ret.Results[2].(*ssa.Const); isC && c.IsNil() {
			continue // success
		}
		c, isNil := ret.Results[1].(*ssa.Const)
		r4.Check(closesOnErr == 0 || !(isNil && c.IsNil()), core.FuncName(rh)+"#error-return!stream-not-nil", p.InstrPos(ret), "a stream is returned with the error", "readHeader returns a nil stream with an error, and its callers call Close() on the returned stream when they see an error: a malformed file makes the fast path panic instead of failing")
	}
	r5 := r.Rule("C41.R5", "the combined-file scanner refills its window unless at least as many bytes as the prefix parser demands are buffered", 1)
	// what the prefix parser demands: the constant of its own len(p) < C test
	var need int64 = -1
	for _, b := range pp.Blocks {
		for _, in := range b.Instrs {
			bo, ok := in.(*ssa.BinOp)
			if !ok || bo.Op.String() != "<" {
				continue
			}
			if c, isC := bo.X.(*ssa.Call); isC && core.CalleeName(c) == "builtin.len" {
				if k, isK := intConstOf(bo.Y); isK {
					need = k
				}
			}
		}
	}
	if need < 0 {
		r.Fatalf("C41.R5: parseCombinedPrefix no longer tests len(p) against a constant")
		return
	}
	nThr := 0
	for _, b := range rh.Blocks {
		for _, in := range b.Instrs {
			bo, ok := in.(*ssa.BinOp)
			if !ok || bo.Op.String() != "<" {
				continue
			}
			sub, isSub := bo.X.(*ssa.BinOp)
			k, isK := intConstOf(bo.Y)
			if !isSub || sub.Op.String() != "-" || !isK {
				continue
			}
			nThr++
			r5.Check(k >= need, core.FuncName(rh)+"#refill-threshold", p.InstrPos(in), fmt.Sprintf("refills unless %d bytes are buffered; the prefix parser reads %d", k, need),
				fmt.Sprintf("the scanner goes on without a refill when only %d bytes of the next entry prefix are buffered, but parseCombinedPrefix reads %d: the entry length is taken from bytes beyond the data read (stale or zero) — wrong or truncated objects, or a panic, for entries whose prefix straddles the window end", k, need))
		}
	}
	if nThr == 0 {
		r.Fatalf("C41.R5: no `buffered < constant` refill test found in readHeader")
	}
	// ---- R6 the fast parsers see everything that was read for them
	r6 := r.Rule("C41.R6", "a fast-path parser of stored object bytes is handed all the bytes read for it: its argument is never cut at a constant length (the non-payload part is the id, the signature AND the header, each with its own limit; a cut at one of those limits makes the fast path fail on objects that full decoding accepts)", 5)
	nSites := 0
	for _, cs := range core.CallSites(p.Funcs(), func(s core.Site) bool {
		switch s.Name {
		case "internal/object.GetNonPayloadFieldBounds", "internal/object.GetParentNonPayloadFieldBounds", "internal/object.GetParentNonPayloadFieldBoundsHeader", "internal/object.ExtractHeaderAndPayload":
			return core.FuncPkg(s.Fn) != nil && !strings.HasSuffix(core.FuncPkg(s.Fn).Path(), "internal/object")
		}
		return false
	}) {
		nSites++
		arg := cs.Call.Common().Args[0]
		cut := ""
		if sl, ok := arg.(*ssa.Slice); ok && sl.High != nil {
			if _, isK := intConstOf(sl.High); isK {
				cut = "a constant"
			} else if c, isC := sl.High.(*ssa.Call); isC {
				if bi, isB := c.Call.Value.(*ssa.Builtin); isB && bi.Name() == "min" {
					for _, a := range c.Call.Args {
						if _, isK := intConstOf(a); isK {
							cut = "min(..., constant)"
						}
					}
				}
			}
		}
		r6.Check(cut == "", core.FuncName(cs.Fn)+"#"+cs.Name[strings.LastIndex(cs.Name, ".")+1:], p.InstrPos(cs.Call), "gets the bytes as read",
			"the fast-path parser is given the buffer cut at "+cut+": bytes that were read and belong to the non-payload fields are hidden from it, so it fails (or disagrees with full decoding) for objects whose id, signature and header together pass that length")
	}
	if nSites == 0 {
		r.Fatalf("C41.R6: no caller of the fast-path parsers found")
	}
	r.Explain += " (R6) every caller outside the parsing package hands the fast-path parsers the buffer up to the number of bytes actually read, never up to a fixed length."
}

// nextIsReturnOnly: every referrer of the loaded value is a Return (the value is only passed back).
func nextIsReturnOnly(at ssa.Instruction) (ssa.Value, bool) {
	v, ok := at.(ssa.Value)
	if !ok || v.Referrers() == nil || len(*v.Referrers()) == 0 {
		return nil, false
	}
	for _, r := range *v.Referrers() {
		if _, isRet := r.(*ssa.Return); !isRet {
			return v, false
		}
	}
	return v, true
}

// switchCoversRange: fn compares one value with `> B` (leaving the loop) and has `== k` cases for every k in 1..B.
func switchCoversRange(fn *ssa.Function) (int64, int64, bool) {
	bounds := map[ssa.Value]int64{}
	cases := map[ssa.Value]map[int64]bool{}
	for _, b := range fn.Blocks {
		for _, in := range b.Instrs {
			bo, ok := in.(*ssa.BinOp)
			if !ok {
				continue
			}
			k, isK := intConstOf(bo.Y)
			if !isK {
				continue
			}
			switch bo.Op.String() {
			case ">":
				bounds[bo.X] = k
			case "==":
				if cases[bo.X] == nil {
					cases[bo.X] = map[int64]bool{}
				}
				cases[bo.X][k] = true
			}
		}
	}
	for v, hi := range bounds {
		cs := cases[v]
		if len(cs) == 0 || hi < 1 || hi > 16 {
			continue
		}
		all := true
		for k := int64(1); k <= hi; k++ {
			if !cs[k] {
				all = false
			}
		}
		if all {
			return 1, hi, true
		}
	}
	return 0, 0, false
}

// boundsField: v reads field `name` of a protobuf.FieldBounds value (struct value or local variable); returns the bounds value/cell.
func boundsField(v ssa.Value) (ssa.Value, string) {
	const pre = "(github.com/nspcc-dev/neofs-sdk-go/proto/protobuf.FieldBounds)."
	switch x := v.(type) {
	case *ssa.Field:
		if n := core.FieldAddrNameOfField(x); strings.HasPrefix(n, pre) {
			return x.X, strings.TrimPrefix(n, pre)
		}
	case *ssa.UnOp:
		if fa, ok := x.X.(*ssa.FieldAddr); ok {
			if n := core.FieldAddrName(fa); strings.HasPrefix(n, pre) {
				return fa.X, strings.TrimPrefix(n, pre)
			}
		}
	}
	return nil, ""
}
