package rules

import (
	"fmt"
	"go/token"
	"go/types"
	"strings"

	"golang.org/x/tools/go/ssa"

	"verif/analyzer/core"
)

// C40 — epoch timers fire each tick exactly once per epoch, at the right time.
func init() {
	register(&Check{ID: "C40", Level: "other", Pkgs: []string{"./pkg/timers", "./pkg/util", "./pkg/innerring", "./cmd/neofs-node"}, Run: runC40})
}

func runC40(p *core.Prog, r *core.Report) {
	r.Explain = "Decides the per-call structure of EpochTimers.UpdateTime/Reset on all CFG paths: every handler invocation is dominated by its own done==false test and by nextTickAt <= <the block time argument>; every invocation is followed on every path to the exit by done=true for that handler class (so it cannot fire twice before a reset); the sub-epoch handlers are examined on every call that did not start with the epoch already done (an epoch tick cannot starve a pending sub-epoch tick of the same block); done flags are cleared only in Reset and set only in UpdateTime; both methods run under the mutex for their whole body. (R6) the asynchronous single-instance wrapper that every tick handler is passed through runs the handler for every request it takes from its queue. Not covered: the arithmetic of the schedule (lastTick + dur*mul/div) and behaviour over real block streams."
	const T = "(*pkg/timers.EpochTimers)"
	upd, reset := p.Func(T+".UpdateTime"), p.Func(T+".Reset")
	if upd == nil || reset == nil {
		r.Fatalf("C40: UpdateTime/Reset not found")
		return
	}
	fieldLoad := func(name string) func(*ssa.Function, ssa.Value) bool {
		return func(_ *ssa.Function, v ssa.Value) bool {
			u, ok := v.(*ssa.UnOp)
			if !ok || u.Op != token.MUL {
				return false
			}
			fa, ok := u.X.(*ssa.FieldAddr)
			return ok && core.FieldAddrName(fa) == name
		}
	}
	const (
		eDone = "(pkg/timers.EpochTimers).done"
		eNext = "(pkg/timers.EpochTimers).nextTickAt"
		dDone = "(pkg/timers.deltaHandler).done"
		dNext = "(pkg/timers.deltaHandler).nextTickAt"
		eHs   = "(pkg/timers.EpochTimers).eHandlers"
		dHs   = "(pkg/timers.EpochTimers).deltaHandlers"
		dTick = "field:(pkg/timers.deltaHandler).tick"
	)
	isCurr := func(fn *ssa.Function, x ssa.Value) bool { return core.ParamIndex(fn, x) == 1 }
	eDueG, eDueD := core.LEFacts("epoch-due", fieldLoad(eNext), isCurr, false)
	dDueG, dDueD := core.LEFacts("delta-due", fieldLoad(dNext), isCurr, false)
	guards := []core.Guard{
		{Name: "epoch-not-done", Comps: []core.Comp{{Result: -1, Kind: core.IsFalse}}, Value: fieldLoad(eDone)},
		{Name: "delta-not-done", Comps: []core.Comp{{Result: -1, Kind: core.IsFalse}}, Value: fieldLoad(dDone)},
		{Name: "epoch-already-done", Comps: []core.Comp{{Result: -1, Kind: core.IsTrue}}, Value: fieldLoad(eDone)},
		{Name: "delta-handlers-examined", Comps: []core.Comp{{Result: -1, Kind: core.Executed}}, Value: fieldLoad(dHs)},
	}
	guards = append(append(guards, eDueG...), dDueG...)
	dueDer := []core.Derived{eDueD, dDueD}
	// dynamic handler calls: `h()` for h ranging over eHandlers, `dh.tick()`
	isEpochTickCall := func(c ssa.CallInstruction) bool {
		if core.CalleeName(c) != "dynamic" {
			return false
		}
		found := false
		walkOperands(c.Common().Value, 6, func(x ssa.Value) {
			if fa, ok := x.(*ssa.FieldAddr); ok && core.FieldAddrName(fa) == eHs {
				found = true
			}
		})
		return found
	}
	r1 := r.Rule("C40.R1", "every handler invocation in UpdateTime is dominated by its done==false test and by nextTickAt <= curr", 4)
	nE, nD := 0, 0
	core.CheckEffectsFn(p, r1, upd, core.EffectRule{Guards: guards, Derived: dueDer, Effect: func(p *core.Prog, in ssa.Instruction) (string, bool) {
		c, ok := in.(ssa.CallInstruction)
		if !ok {
			return "", false
		}
		if core.CalleeName(c) == dTick {
			nD++
			return "sub-epoch tick", true
		}
		if isEpochTickCall(c) {
			nE++
			return "epoch tick", true
		}
		if n := core.CalleeName(c); n == "dynamic" || strings.HasPrefix(n, "field:") {
			return "unclassified dynamic call " + n, true
		}
		return "", false
	}, Need: func(desc string) []string {
		switch desc {
		case "epoch tick":
			return []string{"epoch-not-done", "epoch-due"}
		case "sub-epoch tick":
			return []string{"epoch-not-done", "delta-not-done", "delta-due"}
		}
		return []string{"epoch-not-done", "epoch-due", "delta-not-done", "delta-due"} // cannot hold: an unknown handler call is a violation
	}})
	if nE == 0 || nD == 0 {
		r.Fatalf("C40.R1: handler invocation sites not found (epoch=%d, sub-epoch=%d)", nE, nD)
	}
	// R2: followed by done = true
	r2 := r.Rule("C40.R2", "every handler invocation is followed, on every path to the exit, by done=true for its handler class", 2)
	storeTrue := func(field string) func(ssa.Instruction) bool {
		return func(in ssa.Instruction) bool {
			st, ok := in.(*ssa.Store)
			if !ok {
				return false
			}
			fa, ok := st.Addr.(*ssa.FieldAddr)
			if !ok || core.FieldAddrName(fa) != field {
				return false
			}
			c, ok := st.Val.(*ssa.Const)
			return ok && c.Value != nil && c.Value.String() == "true"
		}
	}
	for _, s := range core.CallSites([]*ssa.Function{upd}, nil) {
		switch {
		case s.Name == dTick:
			r2.Check(core.MustFollow(s.Call, storeTrue(dDone)), T+".UpdateTime#sub-epoch tick", p.InstrPos(s.Call), "followed by dh.done = true on every path", "a sub-epoch handler can be invoked without its done flag being set afterwards: it fires again on the next block")
		case isEpochTickCall(s.Call):
			r2.Check(core.MustFollow(s.Call, storeTrue(eDone)), T+".UpdateTime#epoch tick", p.InstrPos(s.Call), "followed by et.done = true on every path", "the epoch handlers can be invoked without et.done being set afterwards: they fire again on the next block")
		}
	}
	// R5: sub-epoch handlers examined unless the epoch was already done at entry
	r5 := r.Rule("C40.R5", "every exit of UpdateTime either found the epoch already done at entry or has examined the sub-epoch handlers", 1)
	core.CheckEffectsFn(p, r5, upd, core.EffectRule{Guards: guards, Min: 1,
		Derived: []core.Derived{{Name: "sub-epoch-handlers-examined-or-epoch-was-done", Alts: [][]string{{"epoch-already-done"}, {"delta-handlers-examined"}}}},
		Effect: func(p *core.Prog, in ssa.Instruction) (string, bool) {
			if _, ok := in.(*ssa.Return); ok {
				return "return", true
			}
			return "", false
		}, Need: func(string) []string { return []string{"sub-epoch-handlers-examined-or-epoch-was-done"} }})
	// R3: writers of done
	r3 := r.Rule("C40.R3", "done flags are cleared only in Reset and set only in UpdateTime", 4)
	for _, fn := range p.FuncsIn("pkg/timers") {
		for _, b := range fn.Blocks {
			for _, in := range b.Instrs {
				st, ok := in.(*ssa.Store)
				if !ok {
					continue
				}
				fa, ok := st.Addr.(*ssa.FieldAddr)
				if !ok {
					continue
				}
				f := core.FieldAddrName(fa)
				if f != eDone && f != dDone {
					continue
				}
				c, isC := st.Val.(*ssa.Const)
				key := core.FuncName(fn) + "#store " + f
				switch {
				case !isC || c.Value == nil:
					r3.Bad(key, p.InstrPos(in), "done flag assigned from a non-constant")
				case c.Value.String() == "true":
					r3.Check(fn == upd, key+"=true", p.InstrPos(in), "set in UpdateTime", "done flag set outside UpdateTime")
				default:
					r3.Check(fn == reset, key+"=false", p.InstrPos(in), "cleared in Reset", "done flag cleared outside Reset: handlers may fire twice in one epoch")
				}
			}
		}
	}
	// R4: lock held for the whole body
	r4 := r.Rule("C40.R4", "UpdateTime and Reset take et.m first and release it only by a deferred Unlock", 2)
	for _, fn := range []*ssa.Function{upd, reset} {
		ok := false
		var first ssa.CallInstruction
		for _, in := range fn.Blocks[0].Instrs {
			if c, isC := in.(ssa.CallInstruction); isC {
				first = c
				break
			}
		}
		if first != nil && core.CalleeName(first) == "(*sync.Mutex).Lock" {
			nDefer, nUnlock := 0, 0
			for _, s := range core.CallSites([]*ssa.Function{fn}, func(s core.Site) bool { return s.Name == "(*sync.Mutex).Unlock" }) {
				nUnlock++
				if _, isD := s.Call.(*ssa.Defer); isD && s.Call.Block().Index == 0 {
					nDefer++
				}
			}
			ok = nDefer == 1 && nUnlock == 1
		}
		r4.Check(ok, core.FuncName(fn)+"#lock", p.Pos(fn.Pos()), "Lock is the first call and the only Unlock is deferred at entry", "the timer state is read or written outside the mutex")
	}
	// ---------------- R6 the asynchronous wrapper runs the handler for every request it takes
	r6 := r.Rule("C40.R6", "SingleAsyncExecutingInstance (the wrapper every tick handler goes through): each request taken from the queue leads to a run of the handler before the next one is taken — no request is taken and dropped", 1)
	if wf := p.Func("pkg/util.SingleAsyncExecutingInstance"); wf == nil {
		r.Fatalf("C40.R6: SingleAsyncExecutingInstance not found")
	} else {
		n := 0
		for _, cl := range wf.AnonFuncs {
			// the worker: the closure that calls the wrapped function f (free variable of func() type)
			var fcalls = map[*ssa.BasicBlock]bool{}
			for _, b := range cl.Blocks {
				for _, in := range b.Instrs {
					c, ok := in.(*ssa.Call)
					if !ok || c.Call.IsInvoke() {
						continue
					}
					if fv, isFV := core.Unwrap(c.Call.Value).(*ssa.FreeVar); isFV && fv.Name() == wf.Params[0].Name() {
						fcalls[b] = true
					} else if u, isU := c.Call.Value.(*ssa.UnOp); isU {
						if fv, isFV := u.X.(*ssa.FreeVar); isFV && fv.Name() == wf.Params[0].Name() {
							fcalls[b] = true
						}
					}
				}
			}
			if len(fcalls) == 0 {
				continue
			}
			var firstSel *ssa.Select
			for _, b := range cl.Blocks {
				for _, in := range b.Instrs {
					sel, ok := in.(*ssa.Select)
					if !ok {
						continue
					}
					if firstSel == nil {
						firstSel = sel
					}
					for i, st := range sel.States {
						if st.Dir != types.RecvOnly || !strings.HasSuffix(st.Chan.Type().String(), "chan struct{}") {
							continue
						}
						cb := selectCaseBlock(sel, i)
						if cb == nil {
							// no branch on the outcome (empty case bodies): the request is taken right in the select's block
							n++
							after, afterHasF := false, false
							for _, in2 := range sel.Block().Instrs {
								if in2 == ssa.Instruction(sel) {
									after = true
									continue
								}
								if c2, isC := in2.(*ssa.Call); after && isC && !c2.Call.IsInvoke() {
									if u, isU := c2.Call.Value.(*ssa.UnOp); isU {
										if fv, isFV := u.X.(*ssa.FreeVar); isFV && fv.Name() == wf.Params[0].Name() {
											afterHasF = true
										}
									}
								}
							}
							others := map[*ssa.BasicBlock]bool{}
							for b2 := range fcalls {
								if b2 != sel.Block() {
									others[b2] = true
								}
							}
							okNB := afterHasF || !reachesAvoiding(sel.Block(), firstSel.Block(), others, nil)
							r6.Check(okNB, core.FuncName(cl)+"#request-taken→handler-runs", p.InstrPos(sel), "a taken request always leads to a run of the handler", "the worker takes a request from its queue without running the handler for it (a receive whose outcome is not even looked at): a tick that fires while the handler is still busy with the previous one is acknowledged by the timer (done=true) but never handled")
							continue
						}
						// a receive whose case returns is the stop signal, not a request
						stops := false
						for _, in2 := range cb.Instrs {
							if _, isRet := in2.(*ssa.Return); isRet {
								stops = true
							}
						}
						if stops {
							continue
						}
						n++
						ok := fcalls[cb] || !reachesAvoiding(cb, firstSel.Block(), fcalls, nil)
						r6.Check(ok, core.FuncName(cl)+"#request-taken→handler-runs", p.InstrPos(sel), "a taken request always leads to a run of the handler", "the worker takes a request from its queue on a path that does not run the handler: a tick that fires while the handler is still busy with the previous one is acknowledged by the timer (done=true) but never handled")
					}
				}
			}
		}
		if n == 0 {
			r.Fatalf("C40.R6: no request receive found in the worker of SingleAsyncExecutingInstance")
		}
	}

	// ---- R7 what is registered as a tick is the handler, not a filter in front of it
	r7 := r.Rule("C40.R7", "every function registered with the epoch timers (NewEpochTicks / SubEpochTick.Tick) is a SingleAsyncExecutingInstance wrapper, a handler of its own, or a closure that calls the wrapped tick on every path: no state kept between ticks decides whether the wrapped handler runs (the timers alone decide that, R1-R3)", 3)
	registeredTicksAreUnfiltered(p, r, r7)
	r.Explain += " (R7) the wiring: every value stored as a timers.Tick (in the inner ring's initTimers and the storage node's load-report timers) is result #0 of SingleAsyncExecutingInstance, a plain handler, or a closure in which each call of a captured function post-dominates the entry; a closure that consults its own flag before passing the tick on can swallow the single tick of an epoch after a Reset."

}

func registeredTicksAreUnfiltered(p *core.Prog, r *core.Report, h *core.RuleH) {
	isTick := func(t types.Type) bool {
		n, ok := t.(*types.Named)
		return ok && n.Obj().Name() == "Tick" && n.Obj().Pkg() != nil && strings.HasSuffix(n.Obj().Pkg().Path(), "pkg/timers")
	}
	n := 0
	for _, fn := range p.Funcs() {
		if fn.Blocks == nil || core.FuncPkg(fn) == nil || strings.HasSuffix(core.FuncPkg(fn).Path(), "pkg/timers") {
			continue // the timers package only copies what it was given
		}
		for _, b := range fn.Blocks {
			for _, in := range b.Instrs {
				st, ok := in.(*ssa.Store)
				if !ok || !isTick(st.Val.Type()) {
					continue
				}
				v := st.Val
				for {
					if ct, isCT := v.(*ssa.ChangeType); isCT {
						v = ct.X
						continue
					}
					break
				}
				if c, isC := v.(*ssa.Const); isC && c.IsNil() {
					continue
				}
				n++
				key := core.FuncName(core.Outer(fn)) + "#tick@" + fmt.Sprint(n)
				switch x := v.(type) {
				case *ssa.Extract:
					c, isCall := x.Tuple.(*ssa.Call)
					h.Check(isCall && x.Index == 0 && strings.HasSuffix(core.CalleeName(c), "util.SingleAsyncExecutingInstance"), key, p.InstrPos(in),
						"the tick is a SingleAsyncExecutingInstance wrapper", "the registered tick is a result of something else than SingleAsyncExecutingInstance")
				case *ssa.MakeClosure:
					cl := x.Fn.(*ssa.Function)
					bad := ""
					for _, cb := range cl.Blocks {
						for _, ci := range cb.Instrs {
							call, isCall := ci.(*ssa.Call)
							if !isCall {
								continue
							}
							u, isU := call.Call.Value.(*ssa.UnOp)
							if !isU {
								continue
							}
							if _, isFV := u.X.(*ssa.FreeVar); !isFV {
								continue
							}
							if _, isSig := call.Call.Value.Type().Underlying().(*types.Signature); !isSig {
								continue
							}
							first := cl.Blocks[0].Instrs[0]
							same := func(i2 ssa.Instruction) bool { return i2 == ssa.Instruction(call) }
							if !(same(first) || core.MustFollow(first, same)) {
								bad = p.InstrPos(call)
							}
						}
					}
					h.Check(bad == "", key, p.InstrPos(in), "the closure passes the tick on unconditionally (or is the handler itself)",
						"the registered tick is a closure that calls the wrapped handler only on some paths ("+bad+"): state kept between ticks decides whether an epoch's tick reaches the handler, so after a Reset that arrives before the local end of the epoch the handler can be skipped for a whole epoch")
				case *ssa.Function:
					h.Check(true, key, p.InstrPos(in), "a plain handler", "")
				default:
					h.Check(false, key, p.InstrPos(in), "", "cannot tell what is registered as a tick ("+v.String()+")")
				}
			}
		}
	}
	if n == 0 {
		r.Fatalf("C40.R7: no registration of a timers.Tick found")
	}
}
