// Package rules holds the per-property rule tables that fill the engine slots.
package rules

import (
	"sort"

	"verif/analyzer/core"
)

// Check is one property's checker.
type Check struct {
	ID    string
	Level string   // "proof" | "other"
	Pkgs  []string // package patterns (relative to the repo root) the quick tier loads
	// Whole: the thorough tier loads ./... and may use the whole-program call graph.
	Run func(p *core.Prog, r *core.Report)
}

var registry = map[string]*Check{}

func register(c *Check) { registry[c.ID] = c }

// Get returns the check for a property id.
func Get(id string) *Check { return registry[id] }

// IDs lists registered property ids, sorted.
func IDs() []string {
	var out []string
	for k := range registry {
		out = append(out, k)
	}
	sort.Strings(out)
	return out
}
