package rules

import (
	"go/token"
	"strings"

	"golang.org/x/tools/go/ssa"

	"verif/analyzer/core"
)

// C38 — network map admission and epoch ticks follow the rules.
func init() {
	register(&Check{ID: "C38", Level: "other", Pkgs: []string{"./pkg/innerring/..."}, Run: runC38})
}

const npT = "(*pkg/innerring/processors/netmap.Processor)"

func runC38(p *core.Prog, r *core.Report) {
	r.Explain = "Decides on all CFG paths: (R1) processAddNode co-signs the admission only after IsAlphabet()==true, IsValidScript()==(true,nil) for the request's main transaction, Node2Info()==nil and nodeValidator.Verify()==nil; (R2) the composite validator returns nil only after its loop over ALL configured validators finished, and returns the first validator error immediately; (R3) the epoch tick asks the chain for exactly EpochCounter()+1 and only under IsAlphabet()==true, and nothing else in the inner ring calls netmap NewEpoch except the operator's notary request (tabled). (R4) the indexer behind IsAlphabet marks its cache fresh only after both fetches succeeded. Not covered: which validators are configured, histories of notifications and ticks."
	r1 := r.Rule("C38.R1", "processAddNode: NotarySignAndInvokeTX dominated by alphabet, valid script, parsed node info and validator acceptance", 4)
	vs := func(s core.Site) bool { return s.Name == mcT+".IsValidScript" }
	core.CheckEffects(p, r1, core.EffectRule{Fn: npT + ".processAddNode", Min: 1,
		Guards: []core.Guard{
			{Name: "is-alphabet", Match: func(s core.Site) bool { return strings.HasSuffix(s.Name, ").IsAlphabet") }, Comps: []core.Comp{{Result: -1, Kind: core.IsTrue}}},
			{Name: "script-valid", Match: vs, Comps: []core.Comp{{Result: 0, Kind: core.IsTrue}, {Result: 1, Kind: core.ErrNil}}},
			core.G("node-info-parsed", core.ErrNil, "pkg/morph/event/netmap.Node2Info"),
			{Name: "validators-accept", Match: func(s core.Site) bool { return strings.HasSuffix(s.Name, "NodeValidator).Verify") }, Comps: []core.Comp{{Result: -1, Kind: core.ErrNil}}},
		}, Effect: core.CallTo(mcT + ".NotarySignAndInvokeTX")})
	// the transaction that is validated is the one that is signed
	if fn := p.Func(npT + ".processAddNode"); fn != nil {
		var signed, validated ssa.Value
		for _, s := range core.CallSites([]*ssa.Function{fn}, nil) {
			switch s.Name {
			case mcT + ".NotarySignAndInvokeTX":
				signed = s.Call.Common().Args[1]
			case mcT + ".IsValidScript":
				validated = s.Call.Common().Args[1]
			}
		}
		ok := false
		if signed != nil && validated != nil {
			rs, ps := core.AccessPath(signed)
			rv, pv := core.AccessPath(validated)
			ok = rs == rv && len(pv) == len(ps)+1 && strings.Join(pv[:len(ps)], ".") == strings.Join(ps, ".")
		}
		r1.Check(ok, core.FuncName(fn)+"#same-transaction", p.Pos(fn.Pos()), "the script validated is the script of the transaction that gets co-signed", "IsValidScript is applied to a different transaction than the one co-signed")
	}
	// R2
	r2 := r.Rule("C38.R2", "CompositeValidator.Verify: nil only after the loop over all validators; a validator error is returned at once", 2)
	if fn := p.Func("(*pkg/innerring/processors/netmap/nodevalidation.CompositeValidator).Verify"); fn == nil {
		r.Fatalf("C38.R2: CompositeValidator.Verify not found")
	} else {
		isV := func(in ssa.Instruction) bool {
			c, ok := in.(ssa.CallInstruction)
			return ok && strings.HasSuffix(core.CalleeName(c), "NodeValidator).Verify")
		}
		hdrs := loopHeadersContaining(fn, isV)
		// the ranged slice is the validators field
		rangeOK := false
		for h := range hdrs {
			for _, b := range fn.Blocks {
				if !b.Dominates(h) {
					continue
				}
				for _, in := range b.Instrs {
					if c, ok := in.(*ssa.Call); ok {
						if bi, ok := c.Call.Value.(*ssa.Builtin); ok && bi.Name() == "len" {
							if u, isU := c.Call.Args[0].(*ssa.UnOp); isU { // the field itself, not a sub-slice of it
								if fa, isFA := u.X.(*ssa.FieldAddr); isFA && strings.HasSuffix(core.FieldAddrName(fa), ".validators") {
									rangeOK = true
								}
							}
						}
					}
				}
			}
		}
		r2.Check(len(hdrs) == 1 && rangeOK, core.FuncName(fn)+"#loop-over-all", p.Pos(fn.Pos()), "ranges over the whole validators slice", "the validator loop is missing or does not range over c.validators")
		mr := core.NewMemReach(fn)
		for _, b := range fn.Blocks {
			ret, ok := b.Instrs[len(b.Instrs)-1].(*ssa.Return)
			if !ok {
				continue
			}
			v := mr.Canon(ret.Results[0])
			if c, isC := v.(*ssa.Const); isC && c.IsNil() {
				inLoop, afterLoop := false, false
				for h := range hdrs {
					if h.Dominates(b) && reaches(b, h) {
						inLoop = true
					}
					if h.Dominates(b) {
						afterLoop = true
					}
				}
				r2.Check(!inLoop && afterLoop, core.FuncName(fn)+"#return-nil", p.InstrPos(ret), "success only after the loop", "Verify returns nil without having run the loop over all validators to its end (from inside the loop, or on a path that bypasses it)")
			} else {
				r2.Check(core.KnownNonNil(mr, v, b), core.FuncName(fn)+"#return-err", p.InstrPos(ret), "validator error returned", "a return inside the validator loop may report success")
			}
		}
		for _, s := range core.CallSites([]*ssa.Function{fn}, func(s core.Site) bool { return strings.HasSuffix(s.Name, "NodeValidator).Verify") }) {
			// its error must be tested and returned
			tested := false
			for _, ref := range *s.Call.Value().Referrers() {
				if bo, ok := ref.(*ssa.BinOp); ok && (bo.Op == token.NEQ || bo.Op == token.EQL) {
					tested = true
				}
			}
			r2.Check(tested, core.FuncName(fn)+"#verify-result-tested", p.InstrPos(s.Call), "each validator's verdict is tested", "a validator's verdict is ignored")
		}
	}
	// R3
	r3 := r.Rule("C38.R3", "epoch tick: NewEpoch(EpochCounter()+1) only under IsAlphabet; no other NewEpoch caller", 3)
	const newEpoch = "(*pkg/morph/client/netmap.Client).NewEpoch"
	core.CheckEffects(p, r3, core.EffectRule{Fn: npT + ".processNewEpochTick", Min: 1,
		Guards: []core.Guard{{Name: "is-alphabet", Match: func(s core.Site) bool { return strings.HasSuffix(s.Name, ").IsAlphabet") }, Comps: []core.Comp{{Result: -1, Kind: core.IsTrue}}}},
		Effect: core.CallTo(newEpoch)})
	if fn := p.Func(npT + ".processNewEpochTick"); fn != nil {
		for _, s := range core.CallSites([]*ssa.Function{fn}, func(s core.Site) bool { return s.Name == newEpoch }) {
			arg := s.Call.Common().Args[1]
			ok := false
			if bo, isB := arg.(*ssa.BinOp); isB && bo.Op == token.ADD {
				c, isC := bo.X.(*ssa.Call)
				k, isK := bo.Y.(*ssa.Const)
				ok = isC && strings.HasSuffix(core.CalleeName(c), ").EpochCounter") && isK && k.Value != nil && k.Uint64() == 1
			}
			r3.Check(ok, core.FuncName(fn)+"#next-epoch-value", p.InstrPos(s.Call), "asks for exactly EpochCounter()+1", "the epoch tick does not ask for exactly the next epoch")
		}
	}
	core.CheckCallers(p, r3, p.Funcs(), []core.CallerRule{{Sink: newEpoch, MinSites: 1, Allowed: map[string]string{npT + ".processNewEpochTick": "the epoch timer tick"}}})
	// ---------------- R4 the membership answer behind the gate is never a stale one after a failed refresh
	r4 := r.Rule("C38.R4", "the inner ring indexer marks its cache fresh only after both lists were fetched successfully (shared with C35.R2): a failed refresh cannot make IsAlphabet answer from stale or zero-valued indexes", 2)
	indexerStampOnlyAfterRefresh(p, r, r4)
	// ---------------- R5 the counter the tick adds one to is the notified epoch on every path
	r5 := r.Rule("C38.R5", "processNewEpoch records the notified epoch (SetEpochCounter with the event's own epoch number) on every path, before anything that can end the handler early: the tick asks for EpochCounter()+1, so a counter left at the old value makes the next tick ask for the epoch the chain is already in", 1)
	if fn := p.Func(npT + ".processNewEpoch"); fn == nil {
		r.Fatalf("C38.R5: processNewEpoch not found")
	} else {
		isEpochNo := func(v ssa.Value) bool {
			c, ok := v.(*ssa.Call)
			return ok && strings.HasSuffix(core.CalleeName(c), "NewEpoch).EpochNumber")
		}
		rec := core.Guard{Name: "epoch-recorded", Comps: []core.Comp{{Result: -1, Kind: core.Executed}}, Match: func(s core.Site) bool {
			a := s.Call.Common().Args
			return strings.HasSuffix(s.Name, ").SetEpochCounter") && len(a) > 0 && isEpochNo(a[len(a)-1])
		}}
		core.CheckEffectsFn(p, r5, fn, core.EffectRule{Min: 1, Guards: []core.Guard{rec}, Effect: func(_ *core.Prog, in ssa.Instruction) (string, bool) {
			_, ok := in.(*ssa.Return)
			return "handler-ends", ok
		}})
	}
	r.Explain += " (R5) the handler of the NewEpoch notification stores the notified epoch number in the shared epoch state on every path to every return (a failed netmap read or timer reset does not skip it); R3's 'EpochCounter()+1' is the next epoch only then."
}
