package rules

import (
	"go/token"
	"strings"

	"golang.org/x/tools/go/ssa"

	"verif/analyzer/core"
)

// C39 — converting GAS amounts between precisions never creates value or wraps (narrowing and direction clauses).
func init() {
	register(&Check{ID: "C39", Level: "other", Pkgs: []string{"./pkg/util/precision"}, Run: runC39})
}

func runC39(p *core.Prog, r *core.Report) {
	r.Explain = "Decides the narrowing and rounding-direction clauses structurally: (R1) every narrowing (*big.Int).Int64() of a converted amount is dominated by IsInt64()==true, or the conversion provably only divides; (R2) convert multiplies only when precision increases and divides (rounding toward zero, never up) when it decreases; toTarget / toBase pass the right direction; Cross-reference only (outside the property's precision range 0..18): the factor is computed as int64(math.Pow10(exp)), which does not fit for a precision difference of 19 or more. Not covered: 'never yields more than the original' for every int64 (arithmetic over all values)."
	fns := p.FuncsIn("pkg/util/precision")
	// ---------------- R1 narrowing
	r1 := r.Rule("C39.R1", "Int64() of a converted amount only after IsInt64(), or when the conversion only divides", 2)
	n := 0
	for _, s := range core.CallSites(fns, func(s core.Site) bool { return s.Name == "(*math/big.Int).Int64" }) {
		n++
		fn := s.Fn
		recv := s.Call.Common().Args[0]
		site := s.Call
		isInt64 := core.G("fits-int64", core.IsTrue, "(*math/big.Int).IsInt64").Where(func(x core.Site) bool { return x.Call.Common().Args[0] == recv })
		gf := core.Flow(fn, []core.Guard{isInt64})
		key := core.FuncName(fn) + "#Int64"
		if gf.Passed(gf.At(site.(ssa.Instruction)), 0) {
			r1.OK(key, p.InstrPos(site), "narrowing guarded by IsInt64()")
			continue
		}
		r1.Bad(key, p.InstrPos(site), "the converted amount is narrowed with Int64() without an IsInt64() test: when the conversion multiplies (target precision above the source) the product can exceed int64 and the low 64 bits are returned")
	}
	if n < 2 {
		r.Fatalf("C39.R1: %d Int64() narrowings found, expected 2", n)
	}
	// ---------------- R2 direction
	r2 := r.Rule("C39.R2", "multiply only when precision increases, divide otherwise; direction flags of toTarget/toBase", 4)
	if cv := p.Func("pkg/util/precision.convert"); cv == nil {
		r.Fatalf("C39.R2: convert not found")
	} else {
		dec := core.Guard{Name: "decreasing", Comps: []core.Comp{{Result: -1, Kind: core.IsTrue}}, Pure: true, Value: func(fn *ssa.Function, v ssa.Value) bool { return core.ParamIndex(fn, v) == 2 }}
		inc := core.Guard{Name: "increasing", Comps: []core.Comp{{Result: -1, Kind: core.IsFalse}}, Pure: true, Value: func(fn *ssa.Function, v ssa.Value) bool { return core.ParamIndex(fn, v) == 2 }}
		core.CheckEffectsFn(p, r2, cv, core.EffectRule{Min: 2, Guards: []core.Guard{dec, inc}, Effect: core.CallTo("(*math/big.Int).Div", "(*math/big.Int).Mul", "(*math/big.Int).Quo"),
			Need: func(d string) []string {
				if strings.HasSuffix(d, ".Mul") {
					return []string{"increasing"}
				}
				return []string{"decreasing"}
			}})
	}
	for name, op := range map[string]token.Token{"(pkg/util/precision.converter).toTarget": token.GTR, "(pkg/util/precision.converter).toBase": token.LSS} {
		fn := p.Func(name)
		if fn == nil {
			r.Fatalf("C39.R2: %s not found", name)
			continue
		}
		good := false
		for _, s := range core.CallSites([]*ssa.Function{fn}, func(s core.Site) bool { return s.Name == "pkg/util/precision.convert" }) {
			if bo, ok := s.Call.Common().Args[2].(*ssa.BinOp); ok && bo.Op == op {
				_, px := core.AccessPath(bo.X)
				_, py := core.AccessPath(bo.Y)
				if len(px) > 0 && len(py) > 0 && px[len(px)-1] == "base" && py[len(py)-1] == "target" {
					good = true
				}
			}
		}
		r2.Check(good, name+"#direction", p.Pos(fn.Pos()), "divides exactly when leaving the finer precision", name+" passes the wrong direction flag to convert: amounts are multiplied where they must be divided")
	}
}
