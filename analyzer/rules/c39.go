package rules

import (
	"go/token"
	"go/types"
	"strings"

	"golang.org/x/tools/go/ssa"

	"verif/analyzer/core"
)

// C39 — converting GAS amounts between precisions never creates value or wraps (narrowing and direction clauses).
func init() {
	register(&Check{ID: "C39", Level: "other", Pkgs: []string{"./pkg/util/precision", "./pkg/innerring/..."}, Run: runC39})
}

func runC39(p *core.Prog, r *core.Report) {
	r.Explain = "Decides the narrowing and rounding-direction clauses structurally: (R1) every narrowing (*big.Int).Int64() of a converted amount is dominated by IsInt64()==true, or the conversion provably only divides; (R2) the conversion multiplies only when precision increases and divides when it decreases; toTarget / toBase pass the right direction; (R3) the narrowing division is big.Int's Euclidean Div, which rounds down for every sign (a truncating division would round a negative amount up), and products are not formed in a fixed-width type; Cross-reference only (outside the property's precision range 0..18): the factor is computed as int64(math.Pow10(exp)), which does not fit for a precision difference of 19 or more. (R4) precision.Fixed8Converter is the only implementation of the processors' conversion interfaces in the module and the two processors store the converter they are given unchanged, so no second conversion layer can bend the amounts outside the ruled code. Not covered: 'never yields more than the original' for every int64 (arithmetic over all values)."
	fns := p.FuncsIn("pkg/util/precision")
	// ---------------- R1 narrowing
	r1 := r.Rule("C39.R1", "Int64() of a converted amount only after IsInt64(), or when the conversion only divides", 1)
	n := 0
	for _, s := range core.CallSites(fns, func(s core.Site) bool { return s.Name == "(*math/big.Int).Int64" }) {
		n++
		fn := s.Fn
		recv := s.Call.Common().Args[0]
		site := s.Call
		isInt64 := core.G("fits-int64", core.IsTrue, "(*math/big.Int).IsInt64").Where(func(x core.Site) bool { return x.Call.Common().Args[0] == recv })
		gf := core.Flow(fn, []core.Guard{isInt64})
		key := core.FuncName(fn) + "#Int64"
		if gf.Passed(gf.At(site.(ssa.Instruction)), 0) {
			r1.OK(key, p.InstrPos(site), "narrowing guarded by IsInt64()")
			continue
		}
		r1.Bad(key, p.InstrPos(site), "the converted amount is narrowed with Int64() without an IsInt64() test: when the conversion multiplies (target precision above the source) the product can exceed int64 and the low 64 bits are returned")
	}
	if n == 0 {
		r1.OKTrivial("precision#no-big.Int-narrowing", "-", "no big.Int narrowing in the package (fixed-width arithmetic is judged by R3)")
	}
	// ---------------- R2 direction (name-agnostic: any function of the package that both multiplies and divides under a bool parameter)
	r2 := r.Rule("C39.R2", "multiply only when precision increases, divide otherwise; direction flags of toTarget/toBase", 4)
	isMul := func(in ssa.Instruction) bool {
		if c, ok := in.(ssa.CallInstruction); ok && core.CalleeName(c) == "(*math/big.Int).Mul" {
			return true
		}
		bo, ok := in.(*ssa.BinOp)
		return ok && bo.Op == token.MUL && isInt(bo.Type())
	}
	isDiv := func(in ssa.Instruction) bool {
		if c, ok := in.(ssa.CallInstruction); ok {
			switch core.CalleeName(c) {
			case "(*math/big.Int).Div", "(*math/big.Int).Quo", "(*math/big.Int).DivMod", "(*math/big.Int).QuoRem":
				return true
			}
		}
		bo, ok := in.(*ssa.BinOp)
		return ok && bo.Op == token.QUO && isInt(bo.Type())
	}
	convFns := map[*ssa.Function]int{} // conversion function -> index of its bool parameter
	for _, fn := range fns {
		hasM, hasD := false, false
		for _, b := range fn.Blocks {
			for _, in := range b.Instrs {
				hasM = hasM || isMul(in)
				hasD = hasD || isDiv(in)
			}
		}
		if !hasM || !hasD {
			continue
		}
		for i, prm := range fn.Params {
			if prm.Type().String() == "bool" {
				convFns[fn] = i
			}
		}
	}
	if len(convFns) == 0 {
		r.Fatalf("C39.R2: no conversion function (multiply/divide under a bool parameter) found in the package")
	}
	for cv, pi := range convFns {
		idx := pi
		dec := core.Guard{Name: "decreasing", Comps: []core.Comp{{Result: -1, Kind: core.IsTrue}}, Pure: true, Value: func(fn *ssa.Function, v ssa.Value) bool { return core.ParamIndex(fn, v) == idx }}
		inc := core.Guard{Name: "increasing", Comps: []core.Comp{{Result: -1, Kind: core.IsFalse}}, Pure: true, Value: func(fn *ssa.Function, v ssa.Value) bool { return core.ParamIndex(fn, v) == idx }}
		core.CheckEffectsFn(p, r2, cv, core.EffectRule{Min: 2, Guards: []core.Guard{dec, inc}, Effect: func(_ *core.Prog, in ssa.Instruction) (string, bool) {
			if isMul(in) {
				return "multiply", true
			}
			if isDiv(in) {
				return "divide", true
			}
			return "", false
		}, Need: func(d string) []string {
			if d == "multiply" {
				return []string{"increasing"}
			}
			return []string{"decreasing"}
		}})
	}
	for name, op := range map[string]token.Token{"(pkg/util/precision.converter).toTarget": token.GTR, "(pkg/util/precision.converter).toBase": token.LSS} {
		fn := p.Func(name)
		if fn == nil {
			r.Fatalf("C39.R2: %s not found", name)
			continue
		}
		good, found := false, false
		for _, s := range core.CallSites([]*ssa.Function{fn}, func(s core.Site) bool {
			cal := core.StaticCallee(s.Call)
			_, ok := convFns[cal]
			return ok
		}) {
			found = true
			pi := convFns[core.StaticCallee(s.Call)]
			if bo, ok := s.Call.Common().Args[pi].(*ssa.BinOp); ok && bo.Op == op {
				_, px := core.AccessPath(bo.X)
				_, py := core.AccessPath(bo.Y)
				if len(px) > 0 && len(py) > 0 && px[len(px)-1] == "base" && py[len(py)-1] == "target" {
					good = true
				}
			}
		}
		if !found {
			r.Fatalf("C39.R2: %s no longer calls a conversion function (re-anchor the rule)", name)
			continue
		}
		r2.Check(good, name+"#direction", p.Pos(fn.Pos()), "divides exactly when leaving the finer precision", name+" passes the wrong direction flag to the conversion: amounts are multiplied where they must be divided")
	}
	// ---------------- R3 rounding: the narrowing division rounds toward minus infinity (never up), and products are not formed in a fixed-width type
	r3 := r.Rule("C39.R3", "the narrowing division is big.Int.Div (rounds down for every sign); no truncating division and no fixed-width multiplication of amounts", 2)
	for cv := range convFns {
		for _, b := range cv.Blocks {
			for _, in := range b.Instrs {
				if c, ok := in.(ssa.CallInstruction); ok {
					switch core.CalleeName(c) {
					case "(*math/big.Int).Div", "(*math/big.Int).DivMod":
						r3.OK(core.FuncName(cv)+"#division", p.InstrPos(in), "Euclidean division: the quotient never exceeds the exact ratio")
					case "(*math/big.Int).Quo", "(*math/big.Int).QuoRem":
						r3.Bad(core.FuncName(cv)+"#division", p.InstrPos(in), "truncating division (Quo): a negative amount is rounded UP, so converting down and back yields more than the original")
					case "(*math/big.Int).Mul":
						r3.OK(core.FuncName(cv)+"#multiplication", p.InstrPos(in), "arbitrary-precision product (narrowing is judged by R1)")
					}
				}
				if bo, ok := in.(*ssa.BinOp); ok && isInt(bo.Type()) {
					switch bo.Op {
					case token.QUO:
						r3.Bad(core.FuncName(cv)+"#division", p.InstrPos(in), "Go's integer `/` truncates toward zero: a negative amount is rounded UP, so converting down and back yields more than the original")
					case token.MUL:
						r3.Bad(core.FuncName(cv)+"#multiplication", p.InstrPos(in), "the product is formed in a fixed-width integer without an overflow test: amounts below 2^53 silently wrap")
					}
				}
			}
		}
	}
	// ---------------- R4 nothing else stands between the processors and the ruled converter
	r4 := r.Rule("C39.R4", "the only implementation of the processors' conversion interfaces (ToBalancePrecision / ToFixed8) in the module is precision.Fixed8Converter, and the processors store the converter they are given unchanged: no second conversion layer (clamp, cache, rounding) outside the ruled code", 3)
	nImpl := 0
	for path, pk := range p.All {
		if !strings.HasPrefix(path, core.Mod) || pk.Types == nil {
			continue
		}
		sc := pk.Types.Scope()
		for _, nm := range sc.Names() {
			tn, ok := sc.Lookup(nm).(*types.TypeName)
			if !ok {
				continue
			}
			if _, isIface := tn.Type().Underlying().(*types.Interface); isIface {
				continue
			}
			for _, t := range []types.Type{tn.Type(), types.NewPointer(tn.Type())} {
				ms := types.NewMethodSet(t)
				found := ""
				for _, m := range []string{"ToBalancePrecision", "ToFixed8"} {
					if sel := ms.Lookup(nil, m); sel != nil || ms.Lookup(pk.Types, m) != nil {
						found = m
					}
				}
				if found == "" {
					continue
				}
				nImpl++
				full := core.Short(tn.Type().String())
				r4.Check(full == "pkg/util/precision.Fixed8Converter", full+"#implements-"+found, p.Pos(tn.Pos()), "the ruled converter", full+" implements "+found+" but is not precision.Fixed8Converter: amounts pass through a conversion layer this check does not rule (a clamp or rounding there breaks exactness without touching the converter)")
				break
			}
		}
	}
	if nImpl == 0 {
		r.Fatalf("C39.R4: no implementation of ToBalancePrecision / ToFixed8 found")
	}
	// the processors keep the converter they were given
	for _, ctor := range []string{"pkg/innerring/processors/neofs.New", "pkg/innerring/processors/balance.New"} {
		fn := p.Func(ctor)
		if fn == nil {
			r.Fatalf("C39.R4: %s not found", ctor)
			continue
		}
		ok, n := true, 0
		for _, b := range fn.Blocks {
			for _, in := range b.Instrs {
				st, isSt := in.(*ssa.Store)
				if !isSt {
					continue
				}
				fa, isFA := st.Addr.(*ssa.FieldAddr)
				if !isFA || !strings.HasSuffix(core.FieldAddrName(fa), ".converter") {
					continue
				}
				n++
				// the stored value is a field of the parameters struct (p.Converter), not something constructed here
				_, path := core.AccessPath(st.Val)
				if len(path) == 0 || path[len(path)-1] != "Converter" {
					ok = false
				}
			}
		}
		r4.Check(ok && n > 0, ctor+"#converter-stored-unchanged", p.Pos(fn.Pos()), "the processor keeps the converter it was given", ctor+" does not store the given converter as it is (wrapped or replaced)")
	}
	// ---- R5 nothing is added to an amount on its way through a processor
	r5 := r.Rule("C39.R5", "the inner ring processors convert an event's amount as it came: each ToFixed8 / ToBalancePrecision call gets the event's Amount() itself and its result goes into the outgoing call unchanged — no arithmetic before or after the conversion (rounding up before the narrowing creates value on the other chain)", 4)
	nConv := 0
	for _, pk := range []string{"pkg/innerring/processors/balance", "pkg/innerring/processors/neofs"} {
		for _, cs := range core.CallSites(p.FuncsIn(pk), func(s core.Site) bool {
			if !s.Call.Common().IsInvoke() {
				return false
			}
			m := s.Call.Common().Method.Name()
			return m == "ToFixed8" || m == "ToBalancePrecision"
		}) {
			nConv++
			a := cs.Call.Common().Args[0]
			asIs := false
			if c, ok := a.(ssa.CallInstruction); ok {
				if c.Common().IsInvoke() {
					asIs = c.Common().Method.Name() == "Amount"
				} else if cal := core.StaticCallee(c); cal != nil {
					asIs = cal.Name() == "Amount"
				}
			}
			after := true
			if v := cs.Call.Value(); v != nil && v.Referrers() != nil {
				for _, ref := range *v.Referrers() {
					switch ref.(type) {
					case ssa.CallInstruction, *ssa.DebugRef, *ssa.Store, *ssa.MakeInterface:
					default:
						after = false
					}
				}
			}
			r5.Check(asIs && after, core.FuncName(core.Outer(cs.Fn))+"#"+cs.Call.Common().Method.Name(), p.InstrPos(cs.Call), "converts the event's amount itself and passes the result on",
				"the amount is changed around its conversion (the converter does not get the event's Amount() as it is, or its result is computed with before being sent): e.g. adding half a unit before narrowing turns 'never more than the original' into rounding to nearest")
		}
	}
	if nConv == 0 {
		r.Fatalf("C39.R5: no conversion call found in the balance / neofs processors")
	}
	r.Explain += " (R5) the four conversion calls of the balance and neofs processors take the event's Amount() directly and hand the result directly to the contract call."

}
