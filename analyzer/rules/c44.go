package rules

import (
	"go/token"
	"strings"

	"golang.org/x/tools/go/ssa"

	"verif/analyzer/core"
)

// C44 — garbage collection eventually removes everything that should be removed (necessary conditions of progress only).
func init() {
	register(&Check{ID: "C44", Level: "other", Pkgs: []string{"./pkg/local_object_storage/shard", "./pkg/local_object_storage/metabase"}, Run: runC44})
}

func runC44(p *core.Prog, r *core.Report) {
	r.Explain = "'Eventually' is a liveness statement over epochs, batch sizes and schedules and is not decidable statically. Decided here are structural NECESSARY conditions of progress — each one, if broken, makes some garbage stay forever: (R1) the periodic remover re-arms its timer after every pass on every path and leaves its loop only on the stop signal; the event listener keeps listening after every event (known or unknown type); (R2) a GC pass looks at every bin the metabase returned: the loop over bins is left only by exhaustion (a failing container or object batch is logged, not fatal to the pass), an empty bin of a removed container leads to the container clean-up, a non-empty one to object deletion; (R3) an epoch is recorded as completely processed only when the expired-object scan of that pass collected nothing (otherwise the next pass must scan again), and hitting the batch limit ends the scan with the interrupt sentinel that the iterator maps to success, not with an error; (R4) the expired-object callback and the tombstone deletion run in the same pass that collected them (nothing collected is dropped). (R5) deleteObjs hands every id whose metadata the metabase removed to the blob storage Delete — no path through that loop skips it; an orphan blob is invisible to every later pass. (R6) the lister agrees with the deleter: deleteMetadata refuses non-physical entries (split / EC parents) while keeping their garbage mark, and DB.delete reports that as success — so the lister must not let such entries occupy batch slots; decided structurally (the value compared with the limit advances only under a test that consults the PHY marker, or only such entries are listed). Not covered: that repeated passes terminate, fairness between containers under the per-call limits, interaction with locks (C07) — all behavioural."
	sh := "(*pkg/local_object_storage/shard.Shard)."
	// ---------------- R1 loops keep running
	r1 := r.Rule("C44.R1", "the remover re-arms its timer after every pass and stops only on the stop signal; the event listener never stops on an event", 3)
	if tr := p.Func("(*pkg/local_object_storage/shard.gc).tickRemover"); tr == nil {
		r.Fatalf("C44.R1: gc.tickRemover not found")
	} else {
		isReset := func(in ssa.Instruction) bool {
			c, ok := in.(ssa.CallInstruction)
			return ok && core.CalleeName(c) == "(*time.Timer).Reset"
		}
		n := 0
		for _, b := range tr.Blocks {
			for _, in := range b.Instrs {
				c, ok := in.(ssa.CallInstruction)
				if !ok || core.CalleeName(c) != "field:(pkg/local_object_storage/shard.gc).remover" && !strings.HasSuffix(core.CalleeName(c), "gc).remover") {
					continue
				}
				n++
				r1.Check(core.MustFollow(in, isReset), core.FuncName(tr)+"#remover→timer.Reset", p.InstrPos(in), "the timer is re-armed after every pass", "after a GC pass some path does not re-arm the timer: the remover never runs again")
			}
		}
		if n == 0 {
			r1.Bad(core.FuncName(tr)+"#remover→timer.Reset", p.Pos(tr.Pos()), "tickRemover no longer calls the remover")
		}
		checkOnlyStopReturns(p, r1, tr)
	}
	if le := p.Func("(*pkg/local_object_storage/shard.gc).listenEvents"); le == nil {
		r.Fatalf("C44.R1: gc.listenEvents not found")
	} else {
		checkOnlyStopReturns(p, r1, le)
	}
	// ---------------- R2 every bin is handled
	r2 := r.Rule("C44.R2", "a GC pass handles every bin: loop left only by exhaustion; empty bin → container clean-up, non-empty → object deletion", 3)
	if rg := p.Func(sh + "removeGarbage"); rg == nil {
		r.Fatalf("C44.R2: removeGarbage not found")
	} else {
		dels := core.CallSites([]*ssa.Function{rg}, func(s core.Site) bool { return s.Name == sh+"deleteObjs" })
		cln := core.CallSites([]*ssa.Function{rg}, func(s core.Site) bool { return s.Name == mbDB+"DeleteContainer" })
		r2.Check(len(dels) == 1 && len(cln) == 1, core.FuncName(rg)+"#both-branches", p.Pos(rg.Pos()), "object deletion and container clean-up are both present", "the GC pass lost its object-deletion or its container clean-up branch")
		if len(dels) == 1 {
			var hdr *ssa.BasicBlock
			db := dels[0].Call.Block()
			for _, h := range rg.Blocks {
				for _, pr := range h.Preds {
					if h.Dominates(pr) && h.Dominates(db) && reaches(db, h) && (hdr == nil || hdr.Dominates(h)) {
						hdr = h
					}
				}
			}
			if hdr == nil {
				r2.Bad(core.FuncName(rg)+"#bin-loop", p.Pos(rg.Pos()), "no loop over the garbage bins found")
			} else {
				inLoop := func(b *ssa.BasicBlock) bool { return hdr.Dominates(b) && reaches(b, hdr) }
				early := 0
				for _, b := range rg.Blocks {
					if !inLoop(b) || b == hdr {
						continue
					}
					for _, sc := range b.Succs {
						if !inLoop(sc) && sc != hdr {
							early++
						}
					}
				}
				r2.Check(early == 0, core.FuncName(rg)+"#bin-loop!no-early-exit", p.Pos(rg.Pos()), "the loop over bins is left only by exhaustion", "the loop over garbage bins can be left early (return/break on a failing bin): the bins behind it are never processed in this pass, and the failing bin comes first again in the next")
				// the same bin goes to the branch: deleteObjs gets bin.Container/bin.Objects, clean-up is under len(bin.Objects)==0
				emp := core.Guard{Name: "bin-is-empty", Comps: []core.Comp{{Result: -1, Kind: core.IsTrue}}, Value: func(_ *ssa.Function, v ssa.Value) bool {
					bo, ok := v.(*ssa.BinOp)
					if !ok || bo.Op.String() != "==" {
						return false
					}
					c, isC := bo.X.(*ssa.Call)
					z, isZ := intConstOf(bo.Y)
					return isC && core.CalleeName(c) == "builtin.len" && isZ && z == 0
				}}
				core.CheckEffectsFn(p, r2, rg, core.EffectRule{Min: 1, Guards: []core.Guard{emp}, Effect: core.CallTo(mbDB + "DeleteContainer")})
			}
		}
	}
	// ---------------- R3 processed epoch
	r3 := r.Rule("C44.R3", "an epoch is recorded as processed only when the scan collected nothing (or the clock went back); the batch limit ends the scan with the interrupt sentinel", 3)
	if ce := p.Func(sh + "collectExpiredObjects"); ce == nil {
		r.Fatalf("C44.R3: collectExpiredObjects not found")
	} else {
		nothing := core.Guard{Name: "collected-nothing", Comps: []core.Comp{{Result: -1, Kind: core.IsTrue}}, Value: func(_ *ssa.Function, v ssa.Value) bool {
			bo, ok := v.(*ssa.BinOp)
			if !ok || bo.Op.String() != "==" {
				return false
			}
			z, isZ := intConstOf(bo.Y)
			return isZ && z == 0 && strings.Contains(core.SrcName(bo.X), "collected")
		}}
		back := core.Guard{Name: "clock-went-back", Comps: []core.Comp{{Result: -1, Kind: core.IsTrue}}, Value: func(_ *ssa.Function, v ssa.Value) bool {
			bo, ok := v.(*ssa.BinOp)
			return ok && bo.Op.String() == ">" && strings.Contains(core.SrcName(bo.X), "Load") && strings.Contains(core.SrcName(bo.Y), "Load")
		}}
		core.CheckEffectsFn(p, r3, ce, core.EffectRule{Min: 2, Guards: []core.Guard{nothing, back}, Derived: []core.Derived{{Name: "nothing-left-for-this-epoch", Alts: [][]string{{"collected-nothing"}, {"clock-went-back"}}}},
			Need: func(string) []string { return []string{"nothing-left-for-this-epoch"} }, Effect: func(_ *core.Prog, in ssa.Instruction) (string, bool) {
				c, ok := in.(ssa.CallInstruction)
				if !ok || core.CalleeName(c) != "(*sync/atomic.Uint64).Store" {
					return "", false
				}
				_, path := core.AccessPath(c.Common().Args[0])
				return "processedEpoch.Store", len(path) > 0 && path[len(path)-1] == "processedEpoch"
			}})
		// batch limit → ErrInterruptIterator in the callback
		okInt := false
		for _, a := range ce.AnonFuncs {
			for _, b := range a.Blocks {
				if ret, isRet := b.Instrs[len(b.Instrs)-1].(*ssa.Return); isRet && len(ret.Results) == 1 {
					if u, isU := ret.Results[0].(*ssa.UnOp); isU {
						if g, isG := u.X.(*ssa.Global); isG && g.Name() == "ErrInterruptIterator" {
							okInt = true
						}
					}
				}
			}
		}
		r3.Check(okInt, core.FuncName(ce)+"#batch-limit→interrupt", p.Pos(ce.Pos()), "the batch limit ends the scan with the interrupt sentinel", "the expired-object callback no longer ends a full batch with ErrInterruptIterator")
	}
	if ie := p.Func(mbDB + "iterateExpired"); ie == nil {
		r.Fatalf("C44.R3: iterateExpired not found")
	} else {
		n := len(core.CallSites([]*ssa.Function{ie}, func(s core.Site) bool {
			return s.Name == "errors.Is" && core.ErrTargetName(s.Call.Common().Args[1]) == mb+"ErrInterruptIterator"
		}))
		r3.Check(n >= 1, core.FuncName(ie)+"#interrupt-is-success", p.Pos(ie.Pos()), "the interrupt sentinel is mapped to success", "iterateExpired no longer maps the interrupt sentinel to success: every full batch is reported as a failed scan")
	}
	// ---------------- R4 collected work is done in the same pass
	r4 := r.Rule("C44.R4", "whatever a pass collected is handed on in that pass: tombstone bins to deleteObjs, other expired objects to the callback", 2)
	if ce := p.Func(sh + "collectExpiredObjects"); ce != nil {
		scan := core.CallSites([]*ssa.Function{ce}, func(s core.Site) bool { return s.Name == mbDB+"IterateExpired" })
		if len(scan) != 1 {
			r4.Bad(core.FuncName(ce)+"#scan", p.Pos(ce.Pos()), "expected exactly one IterateExpired scan")
		} else {
			from := scan[0].Call.(ssa.Instruction)
			// after the scan, on every path to the exit the tombstone loop header is reached (deleteObjs is in a loop over the bins) and the callback test is evaluated
			nd := len(core.CallSites([]*ssa.Function{ce}, func(s core.Site) bool { return s.Name == sh+"deleteObjs" }))
			cb := 0
			for _, b := range ce.Blocks {
				for _, in := range b.Instrs {
					if c, ok := in.(ssa.CallInstruction); ok && strings.HasPrefix(core.CalleeName(c), "field:") && strings.HasSuffix(core.CalleeName(c), ".expiredObjectsCallback") {
						cb++
					}
				}
			}
			r4.Check(nd == 1 && cb == 1, core.FuncName(ce)+"#hand-over", p.InstrPos(from), "expired tombstones are deleted and other expired objects go to the callback", "the pass no longer deletes the expired tombstones it collected or no longer hands the expired objects to the callback")
			// no return between the scan and those steps except the function's end
			rets := 0
			for _, b := range ce.Blocks {
				if _, isRet := b.Instrs[len(b.Instrs)-1].(*ssa.Return); isRet && scan[0].Call.Block().Dominates(b) {
					rets++
				}
			}
			r4.Check(rets == 1, core.FuncName(ce)+"#no-early-return-after-scan", p.InstrPos(from), "after the scan the function runs to its end", "an early return after the scan drops what was collected (e.g. on an iterator error)")
		}
	}
	// ---------------- R5 what the metabase forgets, the blob storage forgets too
	r5 := r.Rule("C44.R5", "Shard.deleteObjs deletes from blob storage every id the metabase removed: once the metadata is gone no later pass can find the blob", 2)
	blobDeleteForEveryRemoved(p, r, r5)
	// ---------------- R6 what is listed can be removed
	r6 := r.Rule("C44.R6", "lister and deleter agree: entries the metabase refuses to delete while keeping their garbage mark (and reports as success) do not take slots of the garbage batch", 2)
	listerAgreesWithDeleter(p, r, r6)
	// ---------------- R7 a mark without an object still goes away
	r7 := r.Rule("C44.R7", "deleteMetadata removes the garbage mark also of an id that has no object record here (tombstones of objects this shard never held leave such marks): the mark's removal is reachable on the 'no object record' path — the lister counts such marks as removable (R6), so a mark that is never removed fills every batch", 1)
	if dm := p.Func(mb + "deleteMetadata"); dm == nil {
		r.Fatalf("C44.R7: deleteMetadata not found")
	} else {
		var first *ssa.Call
		for _, b := range dm.Blocks {
			for _, in := range b.Instrs {
				if c, ok := in.(*ssa.Call); ok && core.CalleeName(c) == "bytes.Equal" && first == nil {
					first = c
				}
			}
			if first != nil {
				break
			}
		}
		stopEdge := map[[2]*ssa.BasicBlock]bool{}
		if first != nil && first.Referrers() != nil {
			for _, ref := range *first.Referrers() {
				if iff, ok := ref.(*ssa.If); ok {
					stopEdge[[2]*ssa.BasicBlock{iff.Block(), iff.Block().Succs[0]}] = true
				}
				if u, ok := ref.(*ssa.UnOp); ok && u.Op == token.NOT && u.Referrers() != nil {
					for _, r2 := range *u.Referrers() {
						if iff, isIf := r2.(*ssa.If); isIf {
							stopEdge[[2]*ssa.BasicBlock{iff.Block(), iff.Block().Succs[1]}] = true
						}
					}
				}
			}
		}
		ok := false
		if len(stopEdge) > 0 {
			for _, cs := range core.CallSites([]*ssa.Function{dm}, func(s core.Site) bool { return s.Name == "(*github.com/nspcc-dev/bbolt.Cursor).Delete" }) {
				cb := cs.Call.(ssa.Instruction).Block()
				if cs.Fn == dm && (cb == dm.Blocks[0] || reachesAvoiding(dm.Blocks[0], cb, nil, stopEdge)) {
					ok = true
				}
			}
		}
		r7.Check(ok, core.FuncName(dm)+"#mark-of-an-absent-object", p.Pos(dm.Pos()), "a key removal is reachable without an object record",
			"deleteMetadata removes nothing for an id that has no object record: the garbage mark a tombstone left for an object this shard never held stays for ever, is listed as removable on every pass and, once a batch-full of such marks sorts first, starves all other garbage")
	}
	r8 := r.Rule("C44.R8", "the garbage lister hands every mark of the container to GC (up to the batch limit): no iteration of listGarbageObjects goes on to the next mark without having listed the current one — a mark whose object has no index record (a tombstone's target this shard never indexed, or one the resync skipped as 'already removed') is listed too, it is what removes that object's blob", 1)
	listerListsEveryMark(p, r, r8)
	r.Explain += " (R8) every garbage mark is listed, whatever is or is not indexed under its id."
	r.Explain += " (R7) in deleteMetadata a cursor Delete (the garbage mark's) is reachable from the entry without passing the 'object record found' edge of the first key comparison."
}

// phyMarkerLookup: c is getObjAttribute(..., FilterPhysical).
func phyMarkerLookup(c ssa.CallInstruction) bool {
	if core.CalleeName(c) != mb+"getObjAttribute" || len(c.Common().Args) != 3 {
		return false
	}
	k, ok := c.Common().Args[2].(*ssa.Const)
	return ok && k.Value != nil && strings.Contains(k.Value.ExactString(), "$Object:PHY")
}

// consultsPhyMarker: fn looks the PHY marker up, directly or through a callee of the same package (depth 2).
func consultsPhyMarker(fn *ssa.Function, depth int) bool {
	if fn == nil || fn.Blocks == nil {
		return false
	}
	for _, b := range fn.Blocks {
		for _, in := range b.Instrs {
			c, ok := in.(ssa.CallInstruction)
			if !ok {
				continue
			}
			if phyMarkerLookup(c) {
				return true
			}
			if cal := core.StaticCallee(c); depth > 0 && cal != nil && core.FuncPkg(cal) == core.FuncPkg(fn) && consultsPhyMarker(cal, depth-1) {
				return true
			}
		}
	}
	return false
}

// listerAgreesWithDeleter: see C44.R6.
func listerAgreesWithDeleter(p *core.Prog, r *core.Report, h *core.RuleH) {
	del := p.Func(mb + "deleteMetadata")
	dd := p.Func(mbDB + "delete")
	lst := p.Func(mb + "listGarbageObjects")
	if del == nil || dd == nil || lst == nil {
		r.Fatalf("%s: deleteMetadata / DB.delete / listGarbageObjects not found", h.ID())
		return
	}
	// (1) the refusal: a return of errNonPhy that is not dominated by the removal of the garbage mark
	var gcBlk *ssa.BasicBlock
	for _, b := range del.Blocks {
		for _, in := range b.Instrs {
			if _, ok := fieldStore(in, cdiff+"GC"); ok {
				gcBlk = b
			}
		}
	}
	refusals := 0
	for _, b := range del.Blocks {
		ret, ok := b.Instrs[len(b.Instrs)-1].(*ssa.Return)
		if !ok || len(ret.Results) != 2 {
			continue
		}
		u, isU := ret.Results[1].(*ssa.UnOp)
		if !isU {
			continue
		}
		if g, isG := u.X.(*ssa.Global); !isG || g.Name() != "errNonPhy" {
			continue
		}
		if gcBlk != nil && gcBlk.Dominates(b) {
			continue // the mark is gone: the entry leaves the listing
		}
		if gcBlk != nil && reaches(gcBlk, b) {
			continue
		}
		refusals++
	}
	swallowed := len(core.CallSites([]*ssa.Function{dd}, func(s core.Site) bool {
		return s.Name == "errors.Is" && core.ErrTargetName(s.Call.Common().Args[1]) == mb+"errNonPhy"
	})) > 0
	if refusals == 0 || !swallowed {
		h.OKTrivial(core.FuncName(del)+"#mark-keeping-refusal", p.Pos(del.Pos()), "the metabase no longer refuses entries while keeping their mark: nothing for the lister to agree with")
		return
	}
	h.OK(core.FuncName(del)+"#mark-keeping-refusal", p.Pos(del.Pos()), "non-physical entries are refused (reported as success) with their garbage mark kept: the lister must not let them fill the batch")
	// (2) the lister: what is compared with the limit (the loop body may be a range-over-func closure)
	fns := append([]*ssa.Function{lst}, lst.AnonFuncs...)
	resolve := func(v ssa.Value) ssa.Value { // cell behind a (possibly captured) variable
		for i := 0; i < 4; i++ {
			switch x := v.(type) {
			case *ssa.UnOp:
				if x.Op.String() == "*" {
					v = x.X
					continue
				}
			case *ssa.FreeVar:
				if bnd := core.ResolveFreeVar(x); bnd != nil {
					v = bnd
					continue
				}
			}
			break
		}
		return v
	}
	isLimit := func(v ssa.Value) bool { return core.RootParam(lst, resolve(v)) == 3 || core.RootParam(lst, v) == 3 }
	var limCmp *ssa.BinOp
	for _, f := range fns {
		for _, b := range f.Blocks {
			for _, in := range b.Instrs {
				bo, ok := in.(*ssa.BinOp)
				if !ok {
					continue
				}
				switch bo.Op.String() {
				case ">=", "<", ">", "<=", "==":
					if isLimit(bo.X) || isLimit(bo.Y) {
						limCmp = bo
					}
				}
			}
		}
	}
	if limCmp == nil {
		h.Bad(core.FuncName(lst)+"#limit", p.Pos(lst.Pos()), "the lister no longer compares anything with its limit")
		return
	}
	counted := limCmp.X
	if isLimit(limCmp.X) {
		counted = limCmp.Y
	}
	// control dependence on a PHY-marker consultation
	underPhyTest := func(b *ssa.BasicBlock) bool {
		for _, bb := range b.Parent().Blocks {
			for _, in := range bb.Instrs {
				c, ok := in.(*ssa.Call)
				if !ok {
					continue
				}
				cal := core.StaticCallee(c)
				if !(phyMarkerLookup(c) || cal != nil && core.FuncPkg(cal) == core.FuncPkg(lst) && consultsPhyMarker(cal, 2)) {
					continue
				}
				conds := []ssa.Value{c}
				if c.Referrers() != nil {
					for _, ref := range *c.Referrers() {
						if v, isV := ref.(ssa.Value); isV {
							conds = append(conds, v)
						}
					}
				}
				for _, cv := range conds {
					if branchDominates(cv, true, b) || branchDominates(cv, false, b) {
						return true
					}
				}
			}
		}
		return false
	}
	badWhy := "non-physical parents pile up at the beginning of the list until a whole batch consists of them — then every pass lists the same ids, removes nothing, and garbage collection of the container stops for good"
	if lc, isLen := counted.(*ssa.Call); isLen && core.CalleeName(lc) == "builtin.len" {
		// every listed entry takes a slot: then only removable entries may be listed
		ok, n := true, 0
		for _, f := range fns {
			for _, b := range f.Blocks {
				for _, in := range b.Instrs {
					if c, isC := in.(*ssa.Call); isC && core.CalleeName(c) == "builtin.append" {
						n++
						if !underPhyTest(b) {
							ok = false
						}
					}
				}
			}
		}
		h.Check(ok && n > 0, core.FuncName(lst)+"#slots!only-removable", p.InstrPos(limCmp), "entries are listed only after the 'is it stored itself' test", "every listed id takes a slot of the batch, and ids are listed without asking whether the metabase will refuse them: "+badWhy)
		return
	}
	// a separate counter (SSA phi or captured cell): its increments must be under the test
	cell := resolve(counted)
	ok, n := true, 0
	for _, f := range fns {
		for _, b := range f.Blocks {
			for _, in := range b.Instrs {
				var inc *ssa.BinOp
				switch x := in.(type) {
				case *ssa.Store:
					if bo, isB := x.Val.(*ssa.BinOp); isB && resolve(x.Addr) == cell {
						inc = bo
					}
				case *ssa.BinOp:
					if ph, isPhi := x.X.(*ssa.Phi); isPhi && ph.Comment != "rangeindex" && (x.X == counted || flowsTo(x, counted, 4)) {
						inc = x
					}
				}
				if inc == nil || inc.Op.String() != "+" {
					continue
				}
				if k, isK := intConstOf(inc.Y); !isK || k != 1 {
					continue
				}
				n++
				if !underPhyTest(b) {
					ok = false
				}
			}
		}
	}
	h.Check(ok && n > 0, core.FuncName(lst)+"#slots!only-removable", p.InstrPos(limCmp), "only entries that passed the 'is it stored itself' test are counted against the limit", "the batch counter is advanced for entries the metabase will refuse: "+badWhy)
}

// checkOnlyStopReturns: in a worker loop function every return is reached only through the stop-channel case of a select.
func checkOnlyStopReturns(p *core.Prog, h *core.RuleH, fn *ssa.Function) {
	var sel *ssa.Select
	stopIdx := -1
	for _, b := range fn.Blocks {
		for _, in := range b.Instrs {
			if s, ok := in.(*ssa.Select); ok {
				for i, st := range s.States {
					if _, path := core.AccessPath(st.Chan); len(path) > 0 && path[len(path)-1] == "stopChannel" {
						sel, stopIdx = s, i
					}
				}
			}
		}
	}
	if sel == nil {
		h.Bad(core.FuncName(fn)+"#stop-select", p.Pos(fn.Pos()), "the worker loop no longer selects on the stop channel")
		return
	}
	stopBlk := selectCaseBlock(sel, stopIdx)
	for _, b := range fn.Blocks {
		if _, isRet := b.Instrs[len(b.Instrs)-1].(*ssa.Return); !isRet {
			continue
		}
		ok := stopBlk != nil && (b == stopBlk || stopBlk.Dominates(b))
		h.Check(ok, core.FuncName(fn)+"#return", p.InstrPos(b.Instrs[len(b.Instrs)-1]), "the worker returns only on the stop signal", "the worker loop can return on a path other than the stop signal: GC stops for good")
	}
}

// listerListsEveryMark: shared by C44.R8 and C09.R8. In the loop body of listGarbageObjects (range-over-func: a
// closure) every 'continue' (return true) has appended the mark's id to the result, or isNonPhysicalEntry answered true for it (Delete refuses
// such an entry, it is removed with its last part); only 'break' (return false) skips.
func listerListsEveryMark(p *core.Prog, r *core.Report, h *core.RuleH) {
	var body *ssa.Function
	if lf := p.Func(mb + "listGarbageObjects"); lf != nil {
		for _, a := range lf.AnonFuncs {
			if len(a.Params) == 1 && strings.HasSuffix(a.Params[0].Type().String(), "object/id.ID") {
				body = a
			}
		}
	}
	if body == nil {
		r.Fatalf("%s: the loop body of listGarbageObjects not found", h.ID())
		return
	}
	listed := core.Guard{Name: "mark-listed", Comps: []core.Comp{{Result: -1, Kind: core.Executed}}, Instr: func(in ssa.Instruction) bool {
		st, ok := in.(*ssa.Store)
		if !ok {
			return false
		}
		fv, ok := st.Addr.(*ssa.FreeVar)
		if !ok {
			return false
		}
		c, ok := st.Val.(*ssa.Call)
		return ok && core.CalleeName(c) == "builtin.append" && fv.Name() == "objs"
	}}
	// an entry that is indexed without being stored itself may be left out: Delete refuses it anyway, it goes with its last part
	nonPhy := core.G("entry-is-non-physical", core.IsTrue, mb+"isNonPhysicalEntry")
	core.CheckEffectsFn(p, h, body, core.EffectRule{Min: 1, Guards: []core.Guard{listed, nonPhy},
		Derived: []core.Derived{{Name: "mark-listed-or-not-removable-itself", Alts: [][]string{{"mark-listed"}, {"entry-is-non-physical"}}}},
		Need:    func(string) []string { return []string{"mark-listed-or-not-removable-itself"} },
		Effect: func(_ *core.Prog, in ssa.Instruction) (string, bool) {
		ret, ok := in.(*ssa.Return)
		if !ok || len(ret.Results) != 1 {
			return "", false
		}
		if c, isC := ret.Results[0].(*ssa.Const); isC {
			if bv, isB := constBool(c); isB && bv {
				return "next-mark", true
			}
			return "", false
		}
		return "next-mark?", true
	}})
}
