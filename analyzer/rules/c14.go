package rules

import (
	"go/token"
	"strings"

	"golang.org/x/tools/go/ssa"

	"verif/analyzer/core"
)

// C14 — read-only shard modes never change stored data.
func init() {
	register(&Check{ID: "C14", Level: "other", Pkgs: []string{"./pkg/local_object_storage/..."}, Run: runC14})
}

// lifecycle functions of the shard that run before the mode is served or re-establish it.
var shardLifecycle = map[string]string{
	shardT + ".Init":                "initialises components when the shard is opened (before it serves requests)",
	shardT + ".Reload":              "re-opens the metabase under s.m.Lock and then calls setMode with the configured mode",
	shardT + ".resyncObjectHandler": "metabase resynchronisation, started only from Init in read-write mode",
	shardT + ".resyncMetabase":      "metabase resynchronisation, started only from Init in read-write mode",
}

func fieldLoadOf(field string) func(v ssa.Value) bool {
	return func(v ssa.Value) bool {
		u, ok := v.(*ssa.UnOp)
		if !ok || u.Op != token.MUL {
			return false
		}
		fa, ok := u.X.(*ssa.FieldAddr)
		return ok && core.FieldAddrName(fa) == field
	}
}

func runC14(p *core.Prog, r *core.Report) {
	r.Explain = "Decides, on all CFG paths: (R1) every call in the shard package that mutates a component (metabase methods that transitively open a bbolt write transaction — derived —, blob storage Put/PutBatch/Delete, write-cache Put/Delete/Flush) is dominated by a test of the shard's own mode with the writable outcome (ReadOnly()==false or ==ReadWrite), except the tabled lifecycle functions; (R2) defence in depth for background jobs and direct component access: every bbolt write transaction in a metabase method is dominated by db.mode.ReadOnly()==false (and NoMetabase()==false), every write-cache mutation by readOnly()==false, every FSTree mutation by t.readOnly==false; (R3) each component's SetMode returns nil only after it stored the requested mode (or found it already equal), so the guards of R2 really see the mode the shard reports. Not covered: byte equality of persisted state, bbolt's own read-only open."
	mbMut := metabaseMutators(p)
	r.Analysed["metabase_mutators_derived"] = len(mbMut)
	if len(mbMut) < 8 {
		r.Fatalf("C14: only %d metabase mutators derived (expected >= 8): %v", len(mbMut), sortedKeys(mbMut))
	}
	// ---- R1
	r1 := r.Rule("C14.R1", "every component-mutating call in package shard is dominated by a writable-mode test of the shard's own mode (lifecycle functions tabled)", 15)
	g, d := shardModeGuards()
	shardFns := p.FuncsIn("pkg/local_object_storage/shard")
	for _, fn := range shardFns {
		if _, ok := shardLifecycle[core.FuncName(core.Outer(fn))]; ok {
			continue
		}
		core.CheckEffectsFn(p, r1, fn, core.EffectRule{Guards: g, Derived: d, LiftDepth: 3, CallerScope: shardFns, Effect: func(p *core.Prog, in ssa.Instruction) (string, bool) {
			if c, ok := in.(ssa.CallInstruction); ok {
				return shardMutatorCall(p, mbMut, c)
			}
			return "", false
		}, Need: func(string) []string { return []string{"shard-writable"} }})
	}
	// ---- R2 metabase
	r2 := r.Rule("C14.R2", "every bbolt write transaction / write-cache mutation / FSTree mutation is dominated by the component's own not-read-only test", 20)
	dbMode := fieldLoadOf("(pkg/local_object_storage/metabase.DB).mode")
	mg := []core.Guard{
		{Name: "db.mode.ReadOnly()==false", Match: func(s core.Site) bool { return s.Name == modeRO && dbMode(s.Call.Common().Args[0]) }, Comps: []core.Comp{{Result: -1, Kind: core.IsFalse}}},
		{Name: "db.mode.NoMetabase()==false", Match: func(s core.Site) bool { return s.Name == modeNM && dbMode(s.Call.Common().Args[0]) }, Comps: []core.Comp{{Result: -1, Kind: core.IsFalse}}},
	}
	mbLifecycle := map[string]string{
		"(*pkg/local_object_storage/metabase.DB).Init":         "opened by the shard in the mode being set; Open(readOnly) makes bbolt itself read-only",
		"(*pkg/local_object_storage/metabase.DB).init":         "same as Init",
		"(*pkg/local_object_storage/metabase.DB).initWritable": "the write half of init: called by init after its own mode test, and by SetMode right after Open(false) succeeded for a read-write target (the recorded mode is still the old one there, by design: C42.R7)",
		"(*pkg/local_object_storage/metabase.DB).Reset":        "lifecycle: called from Shard.Init resync only",
		"(*pkg/local_object_storage/metabase.DB).SetMode":      "re-opens the database",
		"(*pkg/local_object_storage/metabase.DB).Open":         "lifecycle",
	}
	isWriteTx := func(n string) bool {
		return n == "(*github.com/nspcc-dev/bbolt.DB).Update" || n == "(*github.com/nspcc-dev/bbolt.DB).Batch"
	}
	for _, fn := range p.FuncsIn("pkg/local_object_storage/metabase") {
		if _, ok := mbLifecycle[core.FuncName(core.Outer(fn))]; ok {
			continue
		}
		if strings.HasSuffix(p.Fset.Position(fn.Pos()).Filename, "/metabase/version.go") {
			continue // version migration runs inside Init (C42)
		}
		core.CheckEffectsFn(p, r2, fn, core.EffectRule{Guards: mg, Effect: func(p *core.Prog, in ssa.Instruction) (string, bool) {
			if c, ok := in.(ssa.CallInstruction); ok && isWriteTx(core.CalleeName(c)) {
				return core.CalleeName(c), true
			}
			return "", false
		}})
	}
	// write-cache
	wcRO := core.G("cache.readOnly()==false", core.IsFalse, "(*pkg/local_object_storage/writecache.cache).readOnly")
	wcMut := func(p *core.Prog, in ssa.Instruction) (string, bool) {
		c, ok := in.(ssa.CallInstruction)
		if !ok {
			return "", false
		}
		n := core.CalleeName(c)
		switch n {
		case "(*pkg/local_object_storage/blobstor/fstree.FSTree).Put", "(*pkg/local_object_storage/blobstor/fstree.FSTree).PutBatch", "(*pkg/local_object_storage/blobstor/fstree.FSTree).Delete",
			"(*pkg/local_object_storage/writecache.cache).put", "(*pkg/local_object_storage/writecache.cache).flushSingle", "(*pkg/local_object_storage/writecache.cache).flushBatch", "(*pkg/local_object_storage/writecache.cache).delete":
			return n, true
		}
		return "", false
	}
	for _, name := range []string{"Put", "Delete", "flushWorker"} {
		fn := p.Func("(*pkg/local_object_storage/writecache.cache)." + name)
		if fn == nil {
			r.Fatalf("C14.R2: writecache %s not found", name)
			continue
		}
		core.CheckEffectsFn(p, r2, fn, core.EffectRule{Guards: []core.Guard{wcRO}, Effect: wcMut, Min: 1})
	}
	// FSTree
	tRO := fieldLoadOf("(pkg/local_object_storage/blobstor/fstree.FSTree).readOnly")
	fg := []core.Guard{{Name: "t.readOnly==false", Comps: []core.Comp{{Result: -1, Kind: core.IsFalse}}, Value: func(_ *ssa.Function, v ssa.Value) bool { return tRO(v) }}}
	fsPrim := func(in ssa.Instruction) bool {
		c, ok := in.(ssa.CallInstruction)
		if !ok {
			return false
		}
		n := core.CalleeName(c)
		return n == "os.Remove" || n == "os.Rename" || n == "os.WriteFile" || strings.HasPrefix(n, "(pkg/local_object_storage/blobstor/fstree.writer).") || n == "golang.org/x/sys/unix.Linkat" || n == "golang.org/x/sys/unix.Unlink"
	}
	nfs := 0
	for _, fn := range p.FuncsIn("pkg/local_object_storage/blobstor/fstree") {
		if fn.Parent() != nil || fn.Object() == nil || !fn.Object().Exported() || fn.Signature.Recv() == nil || !strings.HasPrefix(core.FuncName(fn), "(*pkg/local_object_storage/blobstor/fstree.FSTree).") {
			continue
		}
		switch fn.Name() {
		case "Init", "Open", "Close", "CleanUpTmp":
			continue // lifecycle: Init creates directories / cleans temporary files only when !readOnly (checked by the same guard below where applicable)
		}
		if !p.Reaches("fstree-mutation", fn, fsPrim) {
			continue
		}
		nfs++
		core.CheckEffectsFn(p, r2, fn, core.EffectRule{Guards: fg, Effect: func(p *core.Prog, in ssa.Instruction) (string, bool) {
			if fsPrim(in) {
				return core.CalleeName(in.(ssa.CallInstruction)), true
			}
			if c, ok := in.(ssa.CallInstruction); ok {
				if cal := core.StaticCallee(c); cal != nil && p.Reaches("fstree-mutation", cal, fsPrim) {
					return "call " + core.FuncName(cal), true
				}
			}
			return "", false
		}})
	}
	if nfs < 3 {
		r.Fatalf("C14.R2: only %d FSTree mutators derived", nfs)
	}
	// ---- R3 SetMode stores the mode
	r3 := r.Rule("C14.R3", "each component's SetMode returns nil only after storing the requested mode (or finding it already set)", 4)
	checkSetModeStores(p, r, r3, "(*pkg/local_object_storage/writecache.cache).SetMode", "(pkg/local_object_storage/writecache.cache).mode")
	checkSetModeStores(p, r, r3, "(*pkg/local_object_storage/metabase.DB).SetMode", "(pkg/local_object_storage/metabase.DB).mode")
	checkSetModeStores(p, r, r3, shardT+".setMode", shModeF)
}

// checkSetModeStores: every nil return of fn has executed `field = <mode parameter>` or
// passed the `field == <mode parameter>` test.
func checkSetModeStores(p *core.Prog, r *core.Report, h *core.RuleH, fnName, field string) {
	fn := p.Func(fnName)
	if fn == nil {
		r.Fatalf("%s: %s not found", h.ID(), fnName)
		return
	}
	ld := fieldLoadOf(field)
	isM := func(v ssa.Value) bool { return core.ParamIndex(fn, v) == 1 }
	guards := []core.Guard{
		{Name: "mode-stored", Comps: []core.Comp{{Result: -1, Kind: core.Executed}}, Instr: func(in ssa.Instruction) bool {
			st, ok := in.(*ssa.Store)
			if !ok || !isM(st.Val) {
				return false
			}
			fa, ok := st.Addr.(*ssa.FieldAddr)
			return ok && core.FieldAddrName(fa) == field
		}},
		{Name: "mode-already-set", Comps: []core.Comp{{Result: -1, Kind: core.IsTrue}}, Value: func(_ *ssa.Function, v ssa.Value) bool {
			bo, ok := v.(*ssa.BinOp)
			return ok && bo.Op == token.EQL && (ld(bo.X) && isM(bo.Y) || ld(bo.Y) && isM(bo.X))
		}},
	}
	core.CheckSuccessFn(p, h, fn, core.SuccessRule{ResultIdx: -1, MinReturns: 1, Guards: guards,
		Derived: []core.Derived{{Name: "mode-recorded", Alts: [][]string{{"mode-stored"}, {"mode-already-set"}}}}, Need: []string{"mode-recorded"}})
}
