package rules

import (
	"fmt"
	"go/token"
	"go/types"
	"strings"

	"golang.org/x/tools/go/ssa"

	"verif/analyzer/core"
)

// C14 — read-only shard modes never change stored data.
func init() {
	register(&Check{ID: "C14", Level: "other", Pkgs: []string{"./pkg/local_object_storage/..."}, Run: runC14})
}

// lifecycle functions of the shard that run before the mode is served or re-establish it.
var shardLifecycle = map[string]string{
	shardT + ".Init":                "initialises components when the shard is opened (before it serves requests)",
	shardT + ".Reload":              "re-opens the metabase under s.m.Lock and then calls setMode with the configured mode",
	shardT + ".resyncObjectHandler": "metabase resynchronisation, started only from Init in read-write mode",
	shardT + ".resyncMetabase":      "metabase resynchronisation, started only from Init in read-write mode",
}

func fieldLoadOf(field string) func(v ssa.Value) bool {
	return func(v ssa.Value) bool {
		u, ok := v.(*ssa.UnOp)
		if !ok || u.Op != token.MUL {
			return false
		}
		fa, ok := u.X.(*ssa.FieldAddr)
		return ok && core.FieldAddrName(fa) == field
	}
}

func runC14(p *core.Prog, r *core.Report) {
	r.Explain = "Decides, on all CFG paths: (R1) every call in the shard package that mutates a component (metabase methods that transitively open a bbolt write transaction — derived —, blob storage Put/PutBatch/Delete, write-cache Put/Delete/Flush) is dominated by a test of the shard's own mode with the writable outcome (ReadOnly()==false or ==ReadWrite), except the tabled lifecycle functions; (R2) defence in depth for background jobs and direct component access: every bbolt write transaction in a metabase method is dominated by db.mode.ReadOnly()==false (and NoMetabase()==false), every write-cache mutation by readOnly()==false, every FSTree mutation by t.readOnly==false; (R3) each component's SetMode returns nil only after it stored the requested mode (or found it already equal), so the guards of R2 really see the mode the shard reports. Not covered: byte equality of persisted state, bbolt's own read-only open."
	mbMut := metabaseMutators(p)
	r.Analysed["metabase_mutators_derived"] = len(mbMut)
	if len(mbMut) < 8 {
		r.Fatalf("C14: only %d metabase mutators derived (expected >= 8): %v", len(mbMut), sortedKeys(mbMut))
	}
	// ---- R1
	r1 := r.Rule("C14.R1", "every component-mutating call in package shard is dominated by a writable-mode test of the shard's own mode (lifecycle functions tabled)", 15)
	g, d := shardModeGuards()
	shardFns := p.FuncsIn("pkg/local_object_storage/shard")
	for _, fn := range shardFns {
		if _, ok := shardLifecycle[core.FuncName(core.Outer(fn))]; ok {
			continue
		}
		core.CheckEffectsFn(p, r1, fn, core.EffectRule{Guards: g, Derived: d, LiftDepth: 3, CallerScope: shardFns, Effect: func(p *core.Prog, in ssa.Instruction) (string, bool) {
			if c, ok := in.(ssa.CallInstruction); ok {
				return shardMutatorCall(p, mbMut, c)
			}
			return "", false
		}, Need: func(string) []string { return []string{"shard-writable"} }})
	}
	// ---- R2 metabase
	r2 := r.Rule("C14.R2", "every bbolt write transaction / write-cache mutation / FSTree mutation is dominated by the component's own not-read-only test", 20)
	dbMode := fieldLoadOf("(pkg/local_object_storage/metabase.DB).mode")
	mg := []core.Guard{
		{Name: "db.mode.ReadOnly()==false", Match: func(s core.Site) bool { return s.Name == modeRO && dbMode(s.Call.Common().Args[0]) }, Comps: []core.Comp{{Result: -1, Kind: core.IsFalse}}},
		{Name: "db.mode.NoMetabase()==false", Match: func(s core.Site) bool { return s.Name == modeNM && dbMode(s.Call.Common().Args[0]) }, Comps: []core.Comp{{Result: -1, Kind: core.IsFalse}}},
	}
	mbLifecycle := map[string]string{
		"(*pkg/local_object_storage/metabase.DB).Init":         "opened by the shard in the mode being set; Open(readOnly) makes bbolt itself read-only",
		"(*pkg/local_object_storage/metabase.DB).init":         "same as Init",
		"(*pkg/local_object_storage/metabase.DB).initWritable": "the write half of init: called by init after its own mode test, and by SetMode right after Open(false) succeeded for a read-write target (the recorded mode is still the old one there, by design: C42.R7)",
		"(*pkg/local_object_storage/metabase.DB).Reset":        "lifecycle: called from Shard.Init resync only",
		"(*pkg/local_object_storage/metabase.DB).SetMode":      "re-opens the database",
		"(*pkg/local_object_storage/metabase.DB).Open":         "lifecycle",
	}
	isWriteTx := func(n string) bool {
		return n == "(*github.com/nspcc-dev/bbolt.DB).Update" || n == "(*github.com/nspcc-dev/bbolt.DB).Batch"
	}
	for _, fn := range p.FuncsIn("pkg/local_object_storage/metabase") {
		if _, ok := mbLifecycle[core.FuncName(core.Outer(fn))]; ok {
			continue
		}
		if strings.HasSuffix(p.Fset.Position(fn.Pos()).Filename, "/metabase/version.go") {
			continue // version migration runs inside Init (C42)
		}
		core.CheckEffectsFn(p, r2, fn, core.EffectRule{Guards: mg, Effect: func(p *core.Prog, in ssa.Instruction) (string, bool) {
			if c, ok := in.(ssa.CallInstruction); ok && isWriteTx(core.CalleeName(c)) {
				return core.CalleeName(c), true
			}
			return "", false
		}})
	}
	// write-cache
	wcRO := core.G("cache.readOnly()==false", core.IsFalse, "(*pkg/local_object_storage/writecache.cache).readOnly")
	wcMut := func(p *core.Prog, in ssa.Instruction) (string, bool) {
		c, ok := in.(ssa.CallInstruction)
		if !ok {
			return "", false
		}
		n := core.CalleeName(c)
		switch n {
		case "(*pkg/local_object_storage/blobstor/fstree.FSTree).Put", "(*pkg/local_object_storage/blobstor/fstree.FSTree).PutBatch", "(*pkg/local_object_storage/blobstor/fstree.FSTree).Delete",
			"(*pkg/local_object_storage/writecache.cache).put", "(*pkg/local_object_storage/writecache.cache).flushSingle", "(*pkg/local_object_storage/writecache.cache).flushBatch", "(*pkg/local_object_storage/writecache.cache).delete":
			return n, true
		}
		return "", false
	}
	for _, name := range []string{"Put", "Delete", "flushWorker"} {
		fn := p.Func("(*pkg/local_object_storage/writecache.cache)." + name)
		if fn == nil {
			r.Fatalf("C14.R2: writecache %s not found", name)
			continue
		}
		core.CheckEffectsFn(p, r2, fn, core.EffectRule{Guards: []core.Guard{wcRO}, Effect: wcMut, Min: 1})
	}
	// FSTree
	tRO := fieldLoadOf("(pkg/local_object_storage/blobstor/fstree.FSTree).readOnly")
	fg := []core.Guard{{Name: "t.readOnly==false", Comps: []core.Comp{{Result: -1, Kind: core.IsFalse}}, Value: func(_ *ssa.Function, v ssa.Value) bool { return tRO(v) }}}
	fsPrim := func(in ssa.Instruction) bool {
		c, ok := in.(ssa.CallInstruction)
		if !ok {
			return false
		}
		n := core.CalleeName(c)
		return n == "os.Remove" || n == "os.Rename" || n == "os.WriteFile" || strings.HasPrefix(n, "(pkg/local_object_storage/blobstor/fstree.writer).") || n == "golang.org/x/sys/unix.Linkat" || n == "golang.org/x/sys/unix.Unlink"
	}
	nfs := 0
	for _, fn := range p.FuncsIn("pkg/local_object_storage/blobstor/fstree") {
		if fn.Parent() != nil || fn.Object() == nil || !fn.Object().Exported() || fn.Signature.Recv() == nil || !strings.HasPrefix(core.FuncName(fn), "(*pkg/local_object_storage/blobstor/fstree.FSTree).") {
			continue
		}
		switch fn.Name() {
		case "Init", "Open", "Close", "CleanUpTmp":
			continue // lifecycle: Init creates directories / cleans temporary files only when !readOnly (checked by the same guard below where applicable)
		}
		if !p.Reaches("fstree-mutation", fn, fsPrim) {
			continue
		}
		nfs++
		core.CheckEffectsFn(p, r2, fn, core.EffectRule{Guards: fg, Effect: func(p *core.Prog, in ssa.Instruction) (string, bool) {
			if fsPrim(in) {
				return core.CalleeName(in.(ssa.CallInstruction)), true
			}
			if c, ok := in.(ssa.CallInstruction); ok {
				if cal := core.StaticCallee(c); cal != nil && p.Reaches("fstree-mutation", cal, fsPrim) {
					return "call " + core.FuncName(cal), true
				}
			}
			return "", false
		}})
	}
	if nfs < 3 {
		r.Fatalf("C14.R2: only %d FSTree mutators derived", nfs)
	}
	// ---- R3 SetMode stores the mode
	r3 := r.Rule("C14.R3", "each component's SetMode returns nil only after storing the requested mode (or finding it already set)", 4)
	checkSetModeStores(p, r, r3, "(*pkg/local_object_storage/writecache.cache).SetMode", "(pkg/local_object_storage/writecache.cache).mode")
	checkSetModeStores(p, r, r3, "(*pkg/local_object_storage/metabase.DB).SetMode", "(pkg/local_object_storage/metabase.DB).mode")
	checkSetModeStores(p, r, r3, shardT+".setMode", shModeF)
	// ---- R4 the switch stops at the first component that refuses
	r4 := r.Rule("C14.R4", "Shard.setMode applies the mode component by component and stops at the first failure: the next component is called, and the shard's mode recorded, only after the previous call returned nil; towards READ_WRITE the metabase goes first (the order is changed only when leaving READ_WRITE)", 4)
	shardSwitchStopsAtFirstFailure(p, r, r4)
	// ---- R5 the configured mode reaches the components
	r5 := r.Rule("C14.R5", "Shard.Init (the tabled lifecycle exception: components are opened for writing) succeeds only with the components in the shard's configured mode: the mode is READ_WRITE, or SetMode(mode) returned nil (directly or inside a helper given that mode) and, for a read-only mode, the blob storage was reopened for it (setModeStorage skips a shard that already reports the mode); and a shard configured READ_ONLY switches its write-cache to read-only right after initialising it, before the (possibly long) metabase initialisation", 2)
	configuredModeApplied(p, r, r5)
	r.Explain += " (R5) the mode a shard is configured with is applied to its components at start: Shard.Init reports success only when the mode is READ_WRITE or SetMode(mode) returned nil, and for READ_ONLY the write-cache is switched right after its own initialisation (its flush workers otherwise move cached objects into blobstor while the shard already answers 'read-only')."
	r.Explain += " (R4) Shard.setMode calls the components' mode switches one after another and stops at the first error, and the stored order puts the metabase first unless the switch leaves READ_WRITE: when the metabase cannot be reopened for writing, blobstor and the write-cache are not made writable behind a shard that keeps reporting read-only (a writable write-cache flushes on its own, without any request)."
}

func shardSwitchStopsAtFirstFailure(p *core.Prog, r *core.Report, h *core.RuleH) {
	fn := p.Func(shardT + ".setMode")
	if fn == nil {
		r.Fatalf("C14.R4: Shard.setMode not found")
		return
	}
	name := core.FuncName(fn)
	rw, okRW := p.ConstInt("github.com/nspcc-dev/neofs-node/pkg/local_object_storage/shard/mode.ReadWrite")
	if !okRW {
		r.Fatalf("C14.R4: mode.ReadWrite not found")
		return
	}
	var modeStores []*ssa.Store
	var calls []*ssa.Call
	var reorder []*ssa.Store
	var first ssa.Value
	for _, b := range fn.Blocks {
		for _, in := range b.Instrs {
			switch x := in.(type) {
			case *ssa.Call:
				if x.Call.IsInvoke() || core.StaticCallee(x) != nil || len(x.Call.Args) != 1 || core.ParamIndex(fn, x.Call.Args[0]) != 1 {
					continue
				}
				if sg, ok := x.Call.Value.Type().Underlying().(*types.Signature); ok && sg.Results().Len() == 1 && sg.Results().At(0).Type().String() == "error" {
					calls = append(calls, x)
				}
			case *ssa.Store:
				if fa, ok := x.Addr.(*ssa.FieldAddr); ok && core.FieldAddrName(fa) == shModeF {
					modeStores = append(modeStores, x)
				}
				ia, ok := x.Addr.(*ssa.IndexAddr)
				if !ok {
					continue
				}
				if _, isSig := x.Val.Type().Underlying().(*types.Signature); !isSig {
					continue
				}
				if al, isAl := ia.X.(*ssa.Alloc); isAl {
					// the slice literal: remember what is put first
					if k, isK := intConstOf(ia.Index); isK && k == 0 && al.Comment == "slicelit" {
						if _, isArr := al.Type().Underlying().(*types.Pointer).Elem().Underlying().(*types.Array); isArr && first == nil {
							first = x.Val
						}
					}
					continue
				}
				reorder = append(reorder, x)
			}
		}
	}
	if len(calls) != 1 || len(modeStores) == 0 {
		h.Bad(name+"#component-loop", p.Pos(fn.Pos()), fmt.Sprintf("expected one component call site and a store of the shard mode, found %d and %d", len(calls), len(modeStores)))
		return
	}
	c := calls[0]
	succ := map[[2]*ssa.BasicBlock]bool{}
	if c.Referrers() != nil {
		for _, ref := range *c.Referrers() {
			bo, ok := ref.(*ssa.BinOp)
			if !ok || bo.Referrers() == nil {
				continue
			}
			k, isK := bo.Y.(*ssa.Const)
			if !isK || !k.IsNil() || bo.Op != token.NEQ && bo.Op != token.EQL {
				continue
			}
			for _, u := range *bo.Referrers() {
				if iff, isIf := u.(*ssa.If); isIf {
					blk := iff.Block()
					if bo.Op == token.NEQ {
						succ[[2]*ssa.BasicBlock{blk, blk.Succs[1]}] = true
					} else {
						succ[[2]*ssa.BasicBlock{blk, blk.Succs[0]}] = true
					}
				}
			}
		}
	}
	h.Check(len(succ) > 0 && inCycle(c.Block()) && !reachesAvoiding(c.Block(), c.Block(), nil, succ), name+"#next-component", p.InstrPos(c),
		"the next component is switched only after this one returned nil", "Shard.setMode goes on to the next component after one has failed: towards READ_WRITE a metabase that cannot be reopened no longer keeps blobstor and the write-cache read-only, and the write-cache flushes while the shard reports read-only")
	for _, st := range modeStores {
		h.Check(len(succ) > 0 && !reachesAvoiding(c.Block(), st.Block(), nil, succ), name+"#mode-recorded", p.InstrPos(st),
			"the shard's mode is recorded only after every component accepted it", "Shard.setMode records the new mode although a component refused it")
	}
	// order: metabase first, changed only when leaving READ_WRITE
	mc, _ := first.(*ssa.MakeClosure)
	h.Check(mc != nil && strings.Contains(mc.Fn.Name(), "SetMode") && strings.HasSuffix(core.FuncName(mc.Fn.(*ssa.Function)), "metabase.DB).SetMode$bound"), name+"#first-component", p.Pos(fn.Pos()),
		"the component list starts with the metabase", "Shard.setMode no longer switches the metabase first towards READ_WRITE")
	leaving := func(b *ssa.BasicBlock) bool {
		for _, blk := range fn.Blocks {
			for _, in := range blk.Instrs {
				bo, ok := in.(*ssa.BinOp)
				if !ok || core.ParamIndex(fn, bo.X) != 1 {
					continue
				}
				k, isK := intConstOf(bo.Y)
				if !isK || k != rw {
					continue
				}
				if bo.Op == token.NEQ && branchDominates(bo, true, b) || bo.Op == token.EQL && branchDominates(bo, false, b) {
					return true
				}
			}
		}
		return false
	}
	for _, st := range reorder {
		h.Check(leaving(st.Block()), name+"#reorder", p.InstrPos(st), "components are reordered only when the shard leaves READ_WRITE", "Shard.setMode reorders the components also towards READ_WRITE: something becomes writable before the metabase has agreed")
	}
}

// checkSetModeStores: every nil return of fn has executed `field = <mode parameter>` or
// passed the `field == <mode parameter>` test.
func checkSetModeStores(p *core.Prog, r *core.Report, h *core.RuleH, fnName, field string) {
	fn := p.Func(fnName)
	if fn == nil {
		r.Fatalf("%s: %s not found", h.ID(), fnName)
		return
	}
	ld := fieldLoadOf(field)
	isM := func(v ssa.Value) bool { return core.ParamIndex(fn, v) == 1 }
	guards := []core.Guard{
		{Name: "mode-stored", Comps: []core.Comp{{Result: -1, Kind: core.Executed}}, Instr: func(in ssa.Instruction) bool {
			st, ok := in.(*ssa.Store)
			if !ok || !isM(st.Val) {
				return false
			}
			fa, ok := st.Addr.(*ssa.FieldAddr)
			return ok && core.FieldAddrName(fa) == field
		}},
		{Name: "mode-already-set", Comps: []core.Comp{{Result: -1, Kind: core.IsTrue}}, Value: func(_ *ssa.Function, v ssa.Value) bool {
			bo, ok := v.(*ssa.BinOp)
			return ok && bo.Op == token.EQL && (ld(bo.X) && isM(bo.Y) || ld(bo.Y) && isM(bo.X))
		}},
	}
	core.CheckSuccessFn(p, h, fn, core.SuccessRule{ResultIdx: -1, MinReturns: 1, Guards: guards,
		Derived: []core.Derived{{Name: "mode-recorded", Alts: [][]string{{"mode-stored"}, {"mode-already-set"}}}}, Need: []string{"mode-recorded"}})
}

func configuredModeApplied(p *core.Prog, r *core.Report, h *core.RuleH) {
	fn := p.Func(shardT + ".Init")
	if fn == nil {
		r.Fatalf("C14.R5: Shard.Init not found")
		return
	}
	rw, okRW := p.ConstInt("github.com/nspcc-dev/neofs-node/pkg/local_object_storage/shard/mode.ReadWrite")
	ro, okRO := p.ConstInt("github.com/nspcc-dev/neofs-node/pkg/local_object_storage/shard/mode.ReadOnly")
	if !okRW || !okRO {
		r.Fatalf("C14.R5: mode constants not found")
		return
	}
	isModeVal := func(v ssa.Value) bool {
		if c, ok := v.(*ssa.Call); ok && core.CalleeName(c) == shardT+".GetMode" {
			return true
		}
		return fieldLoadOf(shModeF)(v)
	}
	cmpMode := func(k int64, op token.Token) func(*ssa.Function, ssa.Value) bool {
		return func(_ *ssa.Function, v ssa.Value) bool {
			bo, ok := v.(*ssa.BinOp)
			if !ok || bo.Op != op {
				return false
			}
			c, isC := intConstOf(bo.Y)
			return isC && c == k && isModeVal(bo.X)
		}
	}
	// a helper that applies the mode it is given: succeeds only after setMode(that mode) did, and, when that mode is a
	// read-only one, after the blob storage was reopened for it (setMode itself skips the storage of a shard
	// that already reports the mode -- which the configured one always is)
	reopener := storageReopener(p)
	storageGuards := func(isM func(*ssa.Function, ssa.Value) bool) []core.Guard {
		return []core.Guard{
			{Name: "mode-not-read-only", Match: func(s core.Site) bool {
				return strings.HasSuffix(s.Name, "mode.Mode).ReadOnly") && isM(s.Call.Parent(), s.Call.Common().Args[0])
			}, Comps: []core.Comp{{Result: -1, Kind: core.IsFalse}}},
			{Name: "storage-reopened", Match: func(s core.Site) bool {
				return reopener != nil && s.Name == core.FuncName(reopener) && s.Name != shardT+".setModeStorage" && len(s.Call.Common().Args) == 2 && isM(s.Call.Parent(), s.Call.Common().Args[1])
			}, Comps: []core.Comp{{Result: -1, Kind: core.ErrNil}}},
		}
	}
	isParam1 := func(fn *ssa.Function, v ssa.Value) bool { return core.ParamIndex(fn, v) == 1 }
	isConfigured := func(_ *ssa.Function, v ssa.Value) bool { return isModeVal(v) }
	applies := map[string]bool{}
	appliesWithStorage := map[string]bool{}
	for _, f := range p.FuncsIn("pkg/local_object_storage/shard") {
		if len(f.Params) != 2 || !strings.HasPrefix(core.FuncName(f), shardT+".") || core.FuncName(f) == shardT+".SetMode" || core.FuncName(f) == shardT+".setMode" {
			continue
		}
		if !strings.HasSuffix(f.Params[1].Type().String(), "mode.Mode") || f.Signature.Results().Len() != 1 {
			continue
		}
		inner := core.Guard{Name: "mode-applied", Match: func(s core.Site) bool {
			return (s.Name == shardT+".SetMode" || s.Name == shardT+".setMode") && len(s.Call.Common().Args) == 2 && isParam1(s.Call.Parent(), s.Call.Common().Args[1])
		}, Comps: []core.Comp{{Result: -1, Kind: core.ErrNil}}}
		if len(core.CallSites([]*ssa.Function{f}, inner.Match)) == 0 {
			continue
		}
		if core.SuccessHolds(p, f, core.SuccessRule{ResultIdx: -1, Guards: []core.Guard{inner}}) {
			applies[core.FuncName(f)] = true
			if core.SuccessHolds(p, f, core.SuccessRule{ResultIdx: -1, Guards: storageGuards(isParam1),
				Derived: []core.Derived{{Name: "storage", Alts: [][]string{{"mode-not-read-only"}, {"storage-reopened"}}}}, Need: []string{"storage"}}) {
				appliesWithStorage[core.FuncName(f)] = true
			}
		}
	}
	guards := append([]core.Guard{
		{Name: "configured-read-write(ne-form)", Comps: []core.Comp{{Result: -1, Kind: core.IsFalse}}, Value: cmpMode(rw, token.NEQ)},
		{Name: "configured-read-write(eq-form)", Comps: []core.Comp{{Result: -1, Kind: core.IsTrue}}, Value: cmpMode(rw, token.EQL)},
		{Name: "mode-applied", Match: func(s core.Site) bool {
			return (s.Name == shardT+".SetMode" || s.Name == shardT+".setMode" || applies[s.Name]) && len(s.Call.Common().Args) == 2 && isModeVal(s.Call.Common().Args[1])
		}, Comps: []core.Comp{{Result: -1, Kind: core.ErrNil}}},
		{Name: "mode-applied-with-storage", Match: func(s core.Site) bool {
			return appliesWithStorage[s.Name] && len(s.Call.Common().Args) == 2 && isModeVal(s.Call.Common().Args[1])
		}, Comps: []core.Comp{{Result: -1, Kind: core.ErrNil}}},
	}, storageGuards(isConfigured)...)
	core.CheckSuccessFn(p, h, fn, core.SuccessRule{ResultIdx: -1, MinReturns: 1, Guards: guards,
		Derived: []core.Derived{
			{Name: "components-in-configured-mode", Alts: [][]string{{"configured-read-write(ne-form)"}, {"configured-read-write(eq-form)"}, {"mode-applied"}}},
			{Name: "storage-in-configured-mode", Alts: [][]string{{"configured-read-write(ne-form)"}, {"configured-read-write(eq-form)"}, {"mode-not-read-only"}, {"storage-reopened"}, {"mode-applied-with-storage"}}},
		}, Need: []string{"components-in-configured-mode", "storage-in-configured-mode"}})
	// the cache stops before the metabase is initialised
	wcInit := core.CallSites([]*ssa.Function{fn}, func(s core.Site) bool { return strings.HasSuffix(s.Name, "writecache.Cache).Init") })
	mbInit := core.CallSites([]*ssa.Function{fn}, func(s core.Site) bool { return s.Name == "(*pkg/local_object_storage/metabase.DB).Init" })
	if len(wcInit) == 0 || len(mbInit) == 0 {
		h.Bad(core.FuncName(fn)+"#cache-stopped-early", p.Pos(fn.Pos()), "Shard.Init no longer initialises the write-cache and the metabase itself")
		return
	}
	early := []core.Guard{
		{Name: "configured-not-read-only(ne-form)", Comps: []core.Comp{{Result: -1, Kind: core.IsTrue}}, Value: cmpMode(ro, token.NEQ)},
		{Name: "configured-not-read-only(eq-form)", Comps: []core.Comp{{Result: -1, Kind: core.IsFalse}}, Value: cmpMode(ro, token.EQL)},
		{Name: "cache-switched", Match: func(s core.Site) bool {
			if !strings.HasSuffix(s.Name, "writecache.Cache).SetMode") {
				return false
			}
			k, isK := intConstOf(s.Call.Common().Args[0])
			return isK && k == ro || isModeVal(s.Call.Common().Args[0])
		}, Comps: []core.Comp{{Result: -1, Kind: core.ErrNil}}},
		{Name: "no-write-cache", Match: func(s core.Site) bool { return s.Name == shardT+".hasWriteCache" }, Comps: []core.Comp{{Result: -1, Kind: core.IsFalse}}},
	}
	core.CheckEffectsFn(p, h, fn, core.EffectRule{Min: 1, Guards: early,
		Derived: []core.Derived{{Name: "cache-cannot-flush-in-read-only", Alts: [][]string{{"configured-not-read-only(ne-form)"}, {"configured-not-read-only(eq-form)"}, {"cache-switched"}, {"no-write-cache"}}}},
		Effect:  core.CallTo("(*pkg/local_object_storage/metabase.DB).Init"), Need: func(string) []string { return []string{"cache-cannot-flush-in-read-only"} }})
}
