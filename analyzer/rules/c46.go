package rules

import (
	"go/token"
	"strings"

	"golang.org/x/tools/go/ssa"

	"verif/analyzer/core"
)

// C46 — restoring a shard dump reproduces exactly the dumped objects.
func init() {
	register(&Check{ID: "C46", Level: "other", Pkgs: []string{"./pkg/local_object_storage/shard", "./pkg/local_object_storage/engine"}, Run: runC46})
}

// rawReads lists direct io.Reader.Read calls in fn whose byte count is discarded.
func rawReads(fn *ssa.Function) []ssa.CallInstruction {
	var out []ssa.CallInstruction
	for _, s := range core.CallSites([]*ssa.Function{fn}, func(s core.Site) bool { return s.Name == "(io.Reader).Read" }) {
		v := s.Call.Value()
		used := false
		if v != nil {
			for _, ref := range *v.Referrers() {
				if ex, ok := ref.(*ssa.Extract); ok && ex.Index == 0 && len(*ex.Referrers()) > 0 {
					used = true
				}
			}
		}
		if !used {
			out = append(out, s.Call)
		}
	}
	return out
}

func runC46(p *core.Prog, r *core.Report) {
	r.Explain = "Decides the clause 'however the underlying reader splits the stream into chunks': in every function of the shard and engine packages that takes an io.Reader (Shard.Restore and its engine wrapper), no record is read with a bare Reader.Read whose count is discarded (a short read would leave the tail of the record buffer stale) — records must be read with io.ReadFull/ReadAtLeast/Copy or use the count; the framing written by Dump (magic, 4-byte little-endian length) is the framing Restore reads; and the restored-object counter is advanced only after Put succeeded or returned one of the two tolerated outcomes (already removed, expired). Not covered: byte identity of restored objects, behaviour on corrupted records."
	r1 := r.Rule("C46.R1", "no bare io.Reader.Read with a discarded count in functions that take an io.Reader (short reads must not truncate a record)", 2)
	// fixture: the engine must see its positive example
	if fx, err := core.Fixtures(); err != nil {
		r.Fatalf("C46.R1: fixtures: %v", err)
	} else {
		bad, good := fx.Func("verif/analyzer/fixtures/rawread.Bad"), fx.Func("verif/analyzer/fixtures/rawread.Good")
		if bad == nil || good == nil || len(rawReads(bad)) != 1 || len(rawReads(good)) != 0 {
			r.Fatalf("C46.R1: the raw-read rule does not report its own positive example (fixtures/rawread)")
		}
	}
	n := 0
	for _, pk := range []string{"pkg/local_object_storage/shard", "pkg/local_object_storage/engine"} {
		for _, fn := range p.FuncsIn(pk) {
			takes := false
			for _, prm := range fn.Params {
				if prm.Type().String() == "io.Reader" {
					takes = true
				}
			}
			for _, fv := range fn.FreeVars {
				if strings.HasSuffix(fv.Type().String(), "io.Reader") {
					takes = true
				}
			}
			if !takes {
				continue
			}
			n++
			bad := rawReads(fn)
			if len(bad) == 0 {
				r1.OK(core.FuncName(fn), p.Pos(fn.Pos()), "all reads of the stream are full reads or use the count")
			}
			for _, c := range bad {
				r1.Bad(core.FuncName(fn)+"#(io.Reader).Read", p.InstrPos(c), "Reader.Read called directly with the byte count discarded: a short read yields a truncated record")
			}
		}
	}
	r.Analysed["functions_taking_io_Reader"] = n

	restore := p.Func("(*pkg/local_object_storage/shard.Shard).Restore")
	dump := p.Func("(*pkg/local_object_storage/shard.Shard).Dump")
	if restore == nil || dump == nil {
		r.Fatalf("C46: Shard.Restore / Shard.Dump not found")
		return
	}
	// R2 framing agreement
	r2 := r.Rule("C46.R2", "Dump and Restore agree on framing: same magic variable, 4-byte little-endian record length", 4)
	usesGlobal := func(fn *ssa.Function, name string) bool {
		found := false
		for _, f := range append([]*ssa.Function{fn}, fn.AnonFuncs...) {
			for _, b := range f.Blocks {
				for _, in := range b.Instrs {
					for _, op := range in.Operands(nil) {
						if g, ok := (*op).(*ssa.Global); ok && g.Name() == name {
							found = true
						}
					}
				}
			}
		}
		return found
	}
	calls := func(fn *ssa.Function, name string) int {
		return len(core.CallSites(append([]*ssa.Function{fn}, fn.AnonFuncs...), func(s core.Site) bool { return s.Name == name }))
	}
	r2.Check(usesGlobal(dump, "dumpMagic"), "Dump#magic", p.Pos(dump.Pos()), "Dump writes dumpMagic", "Dump no longer writes dumpMagic")
	r2.Check(usesGlobal(restore, "dumpMagic"), "Restore#magic", p.Pos(restore.Pos()), "Restore compares against dumpMagic", "Restore no longer compares the header with dumpMagic")
	r2.Check(calls(dump, "(encoding/binary.littleEndian).PutUint32") >= 1 && calls(dump, "(encoding/binary.bigEndian).PutUint32") == 0, "Dump#length-le32", p.Pos(dump.Pos()), "record length written as LE uint32", "Dump does not write the record length as little-endian uint32")
	r2.Check(calls(restore, "(encoding/binary.littleEndian).Uint32") >= 1, "Restore#length-le32", p.Pos(restore.Pos()), "record length read as LE uint32", "Restore does not read the record length as little-endian uint32")
	// the header magic must be tested: bytes.Equal(..., dumpMagic) false -> ErrInvalidMagic
	core.CheckEffectsFn(p, r2, restore, core.EffectRule{Min: 1,
		Guards: []core.Guard{core.G("magic-matches", core.IsTrue, "bytes.Equal").Where(func(s core.Site) bool {
			for _, a := range s.Call.Common().Args {
				if u, ok := a.(*ssa.UnOp); ok {
					if g, ok := u.X.(*ssa.Global); ok && g.Name() == "dumpMagic" {
						return true
					}
				}
			}
			return false
		})},
		Effect: core.CallTo("(*pkg/local_object_storage/shard.Shard).Put")})
	// R3 counting
	r3 := r.Rule("C46.R3", "the restored-object counter advances only after Put returned nil, already-removed or expired", 1)
	putOK := core.G("put-ok", core.ErrNil, "(*pkg/local_object_storage/shard.Shard).Put").Accepting(
		"github.com/nspcc-dev/neofs-sdk-go/client/status.ErrObjectAlreadyRemoved", "fn:pkg/local_object_storage/shard.IsErrObjectExpired")
	unm := core.G("decoded", core.ErrNil, "(*github.com/nspcc-dev/neofs-sdk-go/object.Object).Unmarshal")
	core.CheckEffectsFn(p, r3, restore, core.EffectRule{Min: 1, Guards: []core.Guard{putOK, unm}, Effect: func(p *core.Prog, in ssa.Instruction) (string, bool) {
		bo, ok := in.(*ssa.BinOp)
		if !ok || bo.Op != token.ADD {
			return "", false
		}
		// the increment of the value returned as first result
		for _, b := range restore.Blocks {
			if ret, ok := b.Instrs[len(b.Instrs)-1].(*ssa.Return); ok && len(ret.Results) == 3 {
				if flowsTo(bo, ret.Results[0], 4) {
					return "count++", true
				}
			}
		}
		return "", false
	}})
	// decoded guard is required for Put too
	core.CheckEffectsFn(p, r3, restore, core.EffectRule{Min: 1, Guards: []core.Guard{unm}, Effect: core.CallTo("(*pkg/local_object_storage/shard.Shard).Put")})
	// R4 record buffer provenance
	r4 := r.Rule("C46.R4", "the bytes decoded as one record are exactly the bytes read for it in this iteration: a slice of the record's length filled by a successful full read of that same slice, or an accumulating buffer that is empty before each fill of the record's length", 2)
	isSz := func(v ssa.Value) bool {
		c, ok := core.Unwrap(v).(*ssa.Call)
		return ok && core.CalleeName(c) == "(encoding/binary.littleEndian).Uint32"
	}
	var lenIsSz func(v ssa.Value, d int) bool
	lenIsSz = func(v ssa.Value, d int) bool {
		if d > 6 {
			return false
		}
		switch x := v.(type) {
		case *ssa.MakeSlice:
			return isSz(x.Len)
		case *ssa.Slice:
			return x.Low == nil && x.High != nil && isSz(x.High)
		case *ssa.Phi:
			n := 0
			for _, e := range x.Edges {
				if e == v {
					continue
				}
				if !lenIsSz(e, d+1) {
					return false
				}
				n++
			}
			return n > 0
		}
		return false
	}
	for _, s := range core.CallSites([]*ssa.Function{restore}, func(s core.Site) bool {
		return s.Name == "(*github.com/nspcc-dev/neofs-sdk-go/object.Object).Unmarshal"
	}) {
		key := core.FuncName(restore) + "#Unmarshal"
		arg := s.Call.Common().Args[1]
		um := s.Call
		only := func(p *core.Prog, in ssa.Instruction) (string, bool) { return "Unmarshal", in == um.(ssa.Instruction) }
		if bc, ok := arg.(*ssa.Call); ok && core.CalleeName(bc) == "(*bytes.Buffer).Bytes" {
			buf := bc.Call.Args[0]
			touches := func(c ssa.CallInstruction) bool {
				for _, a := range core.Args(c) {
					if core.Unwrap(a) == buf {
						return true
					}
				}
				return false
			}
			eff := func(in ssa.Instruction) int {
				c, ok := in.(ssa.CallInstruction)
				if !ok || !touches(c) {
					return 0
				}
				switch core.CalleeName(c) {
				case "(*bytes.Buffer).Reset":
					return 1
				case "(*bytes.Buffer).Truncate":
					if z, ok := intConstOf(c.Common().Args[1]); ok && z == 0 {
						return 1
					}
					return 0
				case "(*bytes.Buffer).Bytes", "(*bytes.Buffer).Len", "(*bytes.Buffer).String", "(*bytes.Buffer).Cap", "(*bytes.Buffer).Grow":
					return 0
				}
				return -1
			}
			ff := core.NewFlagFlow(restore, true, eff)
			nw := 0
			for _, b := range restore.Blocks {
				for _, in := range b.Instrs {
					if eff(in) != -1 {
						continue
					}
					nw++
					c := in.(ssa.CallInstruction)
					r4.Check(ff.Before(in), key+"#fill["+core.CalleeName(c)+"]!buffer-empty", p.InstrPos(in), "the accumulating buffer is empty (reset since the previous record) on every path to this fill", "the record buffer is filled on a path where the previous record's bytes were not discarded (no Reset on some path between two fills): the next record is decoded together with stale bytes")
					if core.CalleeName(c) == "io.CopyN" && isSz(c.Common().Args[2]) {
						r4.OK(key+"#fill!record-length", p.InstrPos(in), "exactly the record's length is copied")
					} else {
						r4.Unknown(key+"#fill!record-length", p.InstrPos(in), "the rule recognises only io.CopyN(&buf, r, int64(sz)) as the fill of an accumulating record buffer")
					}
				}
			}
			if nw == 0 {
				r4.Bad(key+"!record-read", p.InstrPos(um), "the decoded buffer is never filled from the stream")
			}
			core.CheckEffectsFn(p, r4, restore, core.EffectRule{Min: 1, Effect: only, Guards: []core.Guard{
				core.G("record-read", core.ErrNil, "io.CopyN").Where(func(s core.Site) bool { return touches(s.Call) })}})
			continue
		}
		if stale := staleLenEdge(arg, isSz); stale != "" {
			r4.Bad(key+"!record-length", p.InstrPos(um), "on some path the decoded/filled slice is "+stale+": its length was fixed before this record's length was read, so more or fewer bytes than the record are read and decoded")
			continue
		}
		if !lenIsSz(arg, 0) {
			r4.Unknown(key+"!record-length", p.InstrPos(um), "the decoded value is neither a slice made/resliced to the record length read from the stream nor the contents of an accumulating buffer; the rule does not recognise this shape")
			continue
		}
		r4.OK(key+"!record-length", p.InstrPos(um), "the decoded slice is make([]byte, sz) or data[:sz] with sz the little-endian length just read")
		core.CheckEffectsFn(p, r4, restore, core.EffectRule{Min: 1, Effect: only, Guards: []core.Guard{
			core.G("record-read", core.ErrNil, "io.ReadFull").Where(func(s core.Site) bool { return s.Call.Common().Args[1] == arg })}})
	}
	// ---- R5 readers put between the caller's stream and Restore keep the io.Reader contract
	r5 := r.Rule("C46.R5", "every Read method defined in the shard / engine packages that forwards to an inner Read passes the inner byte count on whenever it is non-zero — also together with an error (io.Reader allows the last bytes to arrive with io.EOF): a wrapper returning (0, err) there drops the tail of a valid dump", 1)
	readWrappersKeepTheCount(p, r, r5)
	r.Explain += " (R5) the stream Restore consumes may be wrapped on its way (counting, limiting): every Read method of the two packages that calls an inner Read returns that call's own count on every path, never a constant zero next to the inner error; and the engine hands Restore its caller's reader or such a wrapper."

}

// flowsTo: v reaches target through phis only.
func flowsTo(v ssa.Value, target ssa.Value, depth int) bool {
	if v == target {
		return true
	}
	if depth == 0 {
		return false
	}
	// defer-spilled results: `return *t1` where t1 is a result cell stored just before
	if u, ok := target.(*ssa.UnOp); ok && u.Op == token.MUL {
		if al, ok := u.X.(*ssa.Alloc); ok {
			for _, ref := range *al.Referrers() {
				if st, ok := ref.(*ssa.Store); ok && st.Addr == al && flowsTo(v, st.Val, depth-1) {
					return true
				}
			}
		}
	}
	if phi, ok := target.(*ssa.Phi); ok {
		for _, e := range phi.Edges {
			if e == v {
				return true
			}
		}
		for _, e := range phi.Edges {
			if e != target && flowsTo(v, e, depth-1) {
				return true
			}
		}
	}
	return false
}

// staleLenEdge: v is a phi one of whose incoming values is defined in a block that
// dominates the block where the record length is read (a loop-carried buffer that is
// neither re-made nor re-sliced in this iteration). Returns a description or "".
func staleLenEdge(v ssa.Value, isSz func(ssa.Value) bool) string {
	phi, ok := v.(*ssa.Phi)
	if !ok {
		return ""
	}
	// the block computing sz
	var szBlock *ssa.BasicBlock
	for _, b := range phi.Parent().Blocks {
		for _, in := range b.Instrs {
			if val, ok := in.(ssa.Value); ok && isSz(val) {
				if _, isCall := in.(*ssa.Call); isCall {
					szBlock = b
				}
			}
		}
	}
	if szBlock == nil {
		return ""
	}
	for _, e := range phi.Edges {
		switch x := e.(type) {
		case *ssa.MakeSlice, *ssa.Slice:
			continue
		case *ssa.Phi:
			if x.Block() != szBlock && x.Block().Dominates(szBlock) {
				return "the buffer carried over from the previous iteration (" + x.Name() + ")"
			}
		case *ssa.Const:
			return "a constant"
		}
	}
	return ""
}

func readWrappersKeepTheCount(p *core.Prog, r *core.Report, h *core.RuleH) {
	n := 0
	fns := append(p.FuncsIn("pkg/local_object_storage/shard"), p.FuncsIn("pkg/local_object_storage/engine")...)
	for _, fn := range fns {
		if fn.Name() != "Read" || fn.Signature.Recv() == nil || fn.Blocks == nil || fn.Signature.Params().Len() != 1 || fn.Signature.Results().Len() != 2 {
			continue
		}
		var inner []*ssa.Extract // result #0 of inner Read calls
		innerErr := map[ssa.Value]bool{}
		for _, b := range fn.Blocks {
			for _, in := range b.Instrs {
				c, ok := in.(ssa.CallInstruction)
				if !ok {
					continue
				}
				nm := ""
				if c.Common().IsInvoke() {
					nm = c.Common().Method.Name()
				} else if cal := core.StaticCallee(c); cal != nil {
					nm = cal.Name()
				}
				if nm != "Read" && nm != "ReadFull" && nm != "ReadAtLeast" {
					continue
				}
				if v := c.Value(); v != nil && v.Referrers() != nil {
					for _, ref := range *v.Referrers() {
						if ex, isEx := ref.(*ssa.Extract); isEx {
							if ex.Index == 0 {
								inner = append(inner, ex)
							} else {
								innerErr[ex] = true
							}
						}
					}
				}
			}
		}
		if len(inner) == 0 {
			continue
		}
		n++
		bad := ""
		for _, b := range fn.Blocks {
			ret, ok := b.Instrs[len(b.Instrs)-1].(*ssa.Return)
			if !ok || len(ret.Results) != 2 {
				continue
			}
			if c, isC := ret.Results[0].(*ssa.Const); isC && innerErr[ret.Results[1]] {
				if k, isK := intConstOf(c); isK && k == 0 {
					bad = p.InstrPos(ret)
				}
			}
		}
		h.Check(bad == "", core.FuncName(fn)+"#count-with-error", p.Pos(fn.Pos()), "the inner count is passed on with the inner error",
			"this Read returns (0, err) with the inner reader's error ("+bad+") whatever count the inner Read reported: bytes delivered together with io.EOF are lost and a valid dump ends in 'unexpected EOF' with its last objects missing")
	}
	// the engine's entry: Restore gets the caller's reader, or a value of a type defined here (checked above)
	if rs := p.Func("(*pkg/local_object_storage/engine.StorageEngine).RestoreShard"); rs == nil {
		r.Fatalf("C46.R5: engine RestoreShard not found")
	} else {
		for _, cs := range core.CallSites([]*ssa.Function{rs}, func(s core.Site) bool { return s.Name == "(*pkg/local_object_storage/shard.Shard).Restore" }) {
			n++
			a := cs.Call.Common().Args[1]
			ok := core.ParamIndex(rs, a) >= 0
			if mi, isMI := a.(*ssa.MakeInterface); isMI && !ok {
				ts := mi.X.Type().String()
				ok = strings.Contains(ts, "pkg/local_object_storage/engine.") || strings.Contains(ts, "pkg/local_object_storage/shard.")
			}
			h.Check(ok, core.FuncName(rs)+"#stream", p.InstrPos(cs.Call), "Restore reads the caller's stream (directly or through a wrapper of these packages)", "the engine hands Restore a reader this rule cannot see into")
		}
	}
	if n == 0 {
		r.Fatalf("C46.R5: nothing to check")
	}
}
