package rules

import (
	"fmt"
	"go/token"
	"go/types"
	"sort"
	"strings"

	"golang.org/x/tools/go/ssa"

	"verif/analyzer/core"
)

// C05 — numeric index encoding is lossless and order-preserving (reader-agreement clause, structurally).
func init() {
	register(&Check{ID: "C05", Level: "other", Pkgs: []string{"./internal/signed256", "./pkg/core/object", "./pkg/local_object_storage/metabase", "./pkg/services/meta"}, Run: runC05})
}

const s256 = "internal/signed256."

func runC05(p *core.Prog, r *core.Report) {
	r.Explain = "Decides the clause 'every place that reads decimal integers accepts exactly the optionally signed digit strings and agrees' structurally, plus the shape symmetry of encode/decode: (R1) every call of uint256's SetFromDecimal — which itself strips one leading '+' — is made on a string already shown sign-free (first byte tested against '+' and '-', or a digits-only loop over the whole string); (R2) in the packages that index or query attributes, integer text is parsed only through signed256 / splitIntString; strconv parsers are limited to the tabled system-field sites and big.Int.SetString is absent; (R3) DecodeBytes accepts exactly the sign bytes FillBytes writes and maps them to the same sign; both invert the magnitude exactly under 'negative'; a zero magnitude is normalised to non-negative in every constructor; (R4) the encoded length constant is the same in signed256, the metabase and the search code; (R5) Cmp orders by sign first and reverses the magnitude order for negatives. Not covered: order preservation and round-trip for all 2^257 values (arithmetic; a prover's job, not static analysis)."
	// ---------------- R1
	r1 := r.Rule("C05.R1", "uint256.SetFromDecimal (strips one '+') is only given sign-free strings", 2)
	const u256set = "(*github.com/holiman/uint256.Int).SetFromDecimal"
	var scope []*ssa.Function
	for _, pk := range []string{"internal/signed256", "pkg/core/object", "pkg/local_object_storage/metabase", "pkg/services/meta"} {
		scope = append(scope, p.FuncsIn(pk)...)
	}
	sites := core.CallSites(scope, func(s core.Site) bool { return s.Name == u256set })
	for _, s := range sites {
		fn, call := s.Fn, s.Call
		arg := call.Common().Args[1]
		key := core.FuncName(fn) + "#uint256.SetFromDecimal"
		if digitsValidated(fn, call, arg) {
			r1.OK(key, p.InstrPos(call), "a digits-only loop over the whole string precedes the call")
			continue
		}
		first := func(_ *ssa.Function, v ssa.Value) bool {
			x, idx, ok := strIndex(v)
			if !ok || x != arg {
				return false
			}
			i, isI := intConstOf(idx)
			return isI && i == 0
		}
		gs := []core.Guard{
			{Name: "first-byte-not-plus", Comps: []core.Comp{{Result: -1, Kind: core.NeConst, Const: '+'}}, Value: first, Pure: true},
			{Name: "first-byte-not-minus", Comps: []core.Comp{{Result: -1, Kind: core.NeConst, Const: '-'}}, Value: first, Pure: true},
		}
		site := call
		core.CheckEffectsFn(p, r1, fn, core.EffectRule{Min: 1, Guards: gs, Effect: func(_ *core.Prog, in ssa.Instruction) (string, bool) {
			return "uint256.SetFromDecimal", in == site.(ssa.Instruction)
		}})
	}
	if len(sites) < 2 {
		r.Fatalf("C05.R1: %d call sites of uint256.SetFromDecimal found, expected 2", len(sites))
	}

	// ---------------- R2 who parses integers
	r2 := r.Rule("C05.R2", "attribute integers are parsed only via signed256 / splitIntString; strconv parsers only at tabled system-field sites; no big.Int.SetString", 8)
	sysSites := map[string]string{
		mb + "get":                           "creation epoch / payload size system fields",
		mb + "isExpired":                     "expiration epoch (uint64 by protocol)",
		mb + "reviveCounters":                "payload size system field",
		mb + "deleteMetadata":                "payload size system field",
		mb + "syncContainerCounters":         "payload size system field",
		mb + "markGarbageInContainer":        "payload size system field",
		mbDB + "resolveECPartWithPayloadLen": "payload size system field",
		mbDB + "resolveECPartInMetaBucket":   "EC part index written by the node itself",
		s256 + "ParseNormalizedDecimal":      "fast path on an already digits-only string (<= 20 digits)",
	}
	n := 0
	for _, s := range core.CallSites(scope, func(s core.Site) bool {
		return strings.HasPrefix(s.Name, "strconv.Parse") || s.Name == "strconv.Atoi" || s.Name == "(*math/big.Int).SetString"
	}) {
		n++
		o := core.FuncName(core.Outer(s.Fn))
		key := o + "#" + s.Name
		if s.Name == "(*math/big.Int).SetString" || s.Name == "strconv.ParseInt" || s.Name == "strconv.ParseFloat" {
			r2.Bad(key, p.InstrPos(s.Call), "integer text is parsed with "+s.Name+" in an indexing/query package: it accepts other spellings than signed256 (underscores, base prefixes, 64-bit range)")
			continue
		}
		why, ok := sysSites[o]
		if !ok && strings.HasPrefix(o, "pkg/services/meta") {
			why, ok = "meta service system fields (sizes, epochs written by the node)", true
		}
		if !ok && strings.HasPrefix(o, "pkg/core/object") {
			why, ok = "header system fields", strings.Contains(o, "erify") || strings.Contains(o, "Expir") || strings.Contains(o, "fmt") || strings.Contains(o, "Format")
		}
		r2.Check(ok, key, p.InstrPos(s.Call), "tabled system-field site: "+why, o+" parses decimal text with "+s.Name+" but is not a tabled system-field site: attribute integers must go through signed256 so that every reader agrees")
	}
	r.Analysed["strconv_sites"] = n
	// wrappers that answer "is this text an integer" must answer exactly what the parser answers
	nw := 0
	for _, fn := range scope {
		if parserWrapperAgrees(p, r2, fn) {
			nw++
		}
	}
	if nw == 0 {
		r.Fatalf("C05.R2: no (text) -> (integer, ok) wrapper of signed256.ParseDecimal found (metabase.parseInt expected)")
	}

	// ---------------- R3 encode/decode symmetry
	r3 := r.Rule("C05.R3", "DecodeBytes accepts exactly the sign bytes FillBytes writes, with the same meaning; both invert the magnitude exactly when negative; zero is normalised", 8)
	fill, dec := p.Func("(*"+s256+"Int).FillBytes"), p.Func(s256+"DecodeBytes")
	if fill == nil || dec == nil {
		r.Fatalf("C05.R3: FillBytes / DecodeBytes not found")
		return
	}
	isNegLoad := func(v ssa.Value) bool {
		u, ok := v.(*ssa.UnOp)
		if !ok || u.Op != token.MUL {
			return false
		}
		fa, ok := u.X.(*ssa.FieldAddr)
		return ok && strings.HasSuffix(core.FieldAddrName(fa), "signed256.Int).neg")
	}
	negT := core.Guard{Name: "negative", Comps: []core.Comp{{Result: -1, Kind: core.IsTrue}}, Pure: true, Value: func(_ *ssa.Function, v ssa.Value) bool { return isNegLoad(v) }}
	negF := core.Guard{Name: "non-negative", Comps: []core.Comp{{Result: -1, Kind: core.IsFalse}}, Pure: true, Value: func(_ *ssa.Function, v ssa.Value) bool { return isNegLoad(v) }}
	written := map[int64]string{}
	core.CheckEffectsFn(p, r3, fill, core.EffectRule{Min: 2, Guards: []core.Guard{negT, negF}, Effect: func(_ *core.Prog, in ssa.Instruction) (string, bool) {
		st, ok := in.(*ssa.Store)
		if !ok {
			return "", false
		}
		ia, ok := st.Addr.(*ssa.IndexAddr)
		if !ok || core.ParamIndex(fill, ia.X) != 1 {
			return "", false
		}
		if i, isI := intConstOf(ia.Index); !isI || i != 0 {
			return "", false
		}
		k, isK := intConstOf(st.Val)
		if !isK {
			return "sign-byte=?", true
		}
		if k == 0 {
			written[k] = "negative"
		} else {
			written[k] = "non-negative"
		}
		return fmt.Sprintf("sign-byte=%d", k), true
	}, Need: func(d string) []string {
		switch d {
		case "sign-byte=0":
			return []string{"negative"}
		case "sign-byte=1":
			return []string{"non-negative"}
		}
		return []string{"negative", "non-negative"}
	}})
	// DecodeBytes: success needs sign byte in the written set; neg=true only under sign==0
	signLoad := func(_ *ssa.Function, v ssa.Value) bool {
		u, ok := v.(*ssa.UnOp)
		if !ok || u.Op != token.MUL {
			return false
		}
		ia, ok := u.X.(*ssa.IndexAddr)
		if !ok || core.ParamIndex(dec, ia.X) != 0 {
			return false
		}
		i, isI := intConstOf(ia.Index)
		return isI && i == 0
	}
	var wk []int64
	for k := range written {
		wk = append(wk, k)
	}
	sort.Slice(wk, func(i, j int) bool { return wk[i] < wk[j] })
	var dg []core.Guard
	var alts [][]string
	for _, k := range wk {
		g := core.Guard{Name: fmt.Sprintf("sign-byte==%d", k), Comps: []core.Comp{{Result: -1, Kind: core.EqConst, Const: k}}, Pure: true, Value: signLoad}
		dg = append(dg, g)
		alts = append(alts, []string{g.Name})
	}
	if len(wk) != 2 {
		r3.Bad("FillBytes#sign-bytes", p.Pos(fill.Pos()), fmt.Sprintf("FillBytes writes %d distinct constant sign bytes, expected 2", len(wk)))
	} else {
		core.CheckSuccessFn(p, r3, dec, core.SuccessRule{ResultIdx: -1, MinReturns: 1, Guards: dg, Derived: []core.Derived{{Name: "sign-byte-is-one-FillBytes-writes", Alts: alts}}, Need: []string{"sign-byte-is-one-FillBytes-writes"}})
		core.CheckEffectsFn(p, r3, dec, core.EffectRule{Min: 1, Guards: dg, Need: func(string) []string { return []string{"sign-byte==0"} }, Effect: func(_ *core.Prog, in ssa.Instruction) (string, bool) {
			st, ok := in.(*ssa.Store)
			if !ok {
				return "", false
			}
			fa, ok := st.Addr.(*ssa.FieldAddr)
			if !ok || !strings.HasSuffix(core.FieldAddrName(fa), "signed256.Int).neg") {
				return "", false
			}
			c, isC := st.Val.(*ssa.Const)
			return "neg=true", isC && constTrue(c)
		}})
	}
	// magnitude inversion under 'negative' in both
	for _, fn := range []*ssa.Function{fill, dec} {
		core.CheckEffectsFn(p, r3, fn, core.EffectRule{Min: 1, Guards: []core.Guard{negT}, Effect: func(_ *core.Prog, in ssa.Instruction) (string, bool) {
			u, ok := in.(*ssa.UnOp)
			return "invert-magnitude-byte", ok && u.Op == token.XOR
		}})
	}
	// zero normalisation: every function that sets neg from an input clears it for a zero magnitude
	for _, name := range []string{"(*" + s256 + "Int).SetFromDecimal", s256 + "DecodeBytes"} {
		fn := p.Func(name)
		if fn == nil {
			r.Fatalf("C05.R3: %s not found", name)
			continue
		}
		z := core.G("magnitude-is-zero", core.IsTrue, "(*github.com/holiman/uint256.Int).IsZero")
		nClear := 0
		for _, b := range fn.Blocks {
			for _, in := range b.Instrs {
				st, ok := in.(*ssa.Store)
				if !ok {
					continue
				}
				fa, ok := st.Addr.(*ssa.FieldAddr)
				if !ok || !strings.HasSuffix(core.FieldAddrName(fa), "signed256.Int).neg") {
					continue
				}
				if c, isC := st.Val.(*ssa.Const); isC && !constTrue(c) {
					gf := core.Flow(fn, []core.Guard{z})
					if gf.Passed(gf.At(in), 0) {
						nClear++
					}
				}
			}
		}
		r3.Check(nClear >= 1, name+"#zero-is-non-negative", p.Pos(fn.Pos()), "the sign is cleared when the magnitude is zero", name+" no longer clears the sign for a zero magnitude: -0 and 0 would encode to different keys")
	}

	// ---------------- R6 the text-level splitter normalises zero too
	r6 := r.Rule("C05.R6", "splitIntString (sign, digits) never pairs a negative sign with the digits \"0\" and has an explicit zero case: compareIntStrings decides by the sign flag first, so a signed zero would compare unequal to zero while signed256 gives both the same key", 1)
	if sp := p.Func("pkg/core/object.splitIntString"); sp == nil {
		r.Fatalf("C05.R6: splitIntString not found")
	} else {
		zeroCase := false
		mr := core.NewMemReach(sp)
		for _, b := range sp.Blocks {
			ret, ok := b.Instrs[len(b.Instrs)-1].(*ssa.Return)
			if !ok || len(ret.Results) != 3 {
				continue
			}
			d, isD := mr.Canon(ret.Results[1]).(*ssa.Const)
			if !isD || d.Value == nil || d.Value.Kind().String() != "String" || d.Value.ExactString() != `"0"` {
				continue
			}
			sg, isS := mr.Canon(ret.Results[0]).(*ssa.Const)
			good := isS && !constTrue(sg)
			r6.Check(good, core.FuncName(sp)+"#return-zero", p.InstrPos(ret), "zero is returned without a sign", "splitIntString returns the digits \"0\" with a sign that may be negative")
			zeroCase = zeroCase || good
		}
		if !zeroCase {
			// accepted alternative: an explicit comparison of the digits with "0" that feeds the sign
			for _, b := range sp.Blocks {
				for _, in := range b.Instrs {
					if bo, ok := in.(*ssa.BinOp); ok && (bo.Op == token.EQL || bo.Op == token.NEQ) {
						if c, isC := bo.Y.(*ssa.Const); isC && c.Value != nil && c.Value.Kind().String() == "String" && c.Value.ExactString() == `"0"` {
							zeroCase = true
						}
					}
				}
			}
			r6.Check(zeroCase, core.FuncName(sp)+"#zero-case", p.Pos(sp.Pos()), "zero is told apart by comparing the digits with \"0\"", "splitIntString has no zero case: \"-0\" comes back as (negative, \"0\") and compares below \"0\"")
		}
	}

	// ---------------- R4 length constant
	r4 := r.Rule("C05.R4", "the encoded integer length is the same constant everywhere it is spelled", 1)
	a, okA := p.ConstInt(s256 + "EncodedLen")
	b, okB := p.ConstInt(mb + "intValLen")
	c, okC := p.ConstInt("pkg/core/object.intValLen")
	r4.Check(okA && okB && okC && a == b && b == c, "EncodedLen==metabase.intValLen==object.intValLen", "-", fmt.Sprintf("all equal %d", a), fmt.Sprintf("encoded integer length constants disagree: signed256=%d metabase=%d core/object=%d", a, b, c))

	// ---------------- R7 the word-sized fast path is taken only when the word parser succeeded
	r7 := r.Rule("C05.R7", "in package signed256 a value produced by a strconv parser is used only on the path where that parser returned no error (the parser of query bounds must not keep the clamped value of an out-of-range 20-digit number)", 1)
	parsedValueOnlyAfterErrCheck(p, r, r7)
	r.Explain += " (R7) in package signed256 the value of a strconv parser is used only behind its err == nil test: strconv returns the clamped maximum together with a range error, and the two parsers of the package (stored values / query bounds) must give one number for one digit string."
	// ---------------- R8 no wrapping word arithmetic on a magnitude
	r8 := r.Rule("C05.R8", "package signed256 builds no number with native-width multiplication or shifting of non-constant operands (such arithmetic wraps silently and the usual n < v test does not detect every overflow of v*10+d): magnitudes are made by uint256 and strconv only, so every reader gives the same integer for the same digits", 8)
	nScanned := 0
	for _, fn := range p.FuncsIn("internal/signed256") {
		nScanned++
		bad := false
		for _, b := range fn.Blocks {
			for _, in := range b.Instrs {
				bo, ok := in.(*ssa.BinOp)
				if !ok || bo.Op != token.MUL && bo.Op != token.SHL {
					continue
				}
				if bt, isB := bo.Type().Underlying().(*types.Basic); !isB || bt.Info()&types.IsInteger == 0 {
					continue
				}
				_, cx := bo.X.(*ssa.Const)
				_, cy := bo.Y.(*ssa.Const)
				if cx && cy || bo.Op == token.SHL && cx {
					continue
				}
				if bo.Op == token.MUL && !cx && !cy {
					// index arithmetic of two variables does not occur in this package either
				}
				bad = true
				r8.Bad(core.FuncName(fn)+"#native-"+bo.Op.String(), p.InstrPos(bo), "a word-sized "+bo.Op.String()+" of a non-constant operand in signed256: the product wraps modulo 2^64 without a sound overflow test, so a 20-digit value above the word range can be taken for a small number by one reader and not by the other")
			}
		}
		if !bad {
			r8.OK(core.FuncName(fn)+"#no-native-mul", p.Pos(fn.Pos()), "no native multiplication / shift of a non-constant operand")
		}
	}
	if nScanned == 0 {
		r.Fatalf("C05.R8: package internal/signed256 not loaded")
	}
	// ---------------- R5 Cmp shape
	r5 := r.Rule("C05.R5", "Cmp: different signs decide the order (negative first); equal signs compare magnitudes, reversed for negatives", 3)
	if cmp := p.Func("(*" + s256 + "Int).Cmp"); cmp == nil {
		r.Fatalf("C05.R5: Cmp not found")
	} else {
		isOwnNeg := func(v ssa.Value) bool {
			u, ok := v.(*ssa.UnOp)
			if !ok || u.Op != token.MUL {
				return false
			}
			fa, ok := u.X.(*ssa.FieldAddr)
			return ok && strings.HasSuffix(core.FieldAddrName(fa), "signed256.Int).neg") && core.ParamIndex(cmp, fa.X) == 0
		}
		differ := core.Guard{Name: "signs-differ", Comps: []core.Comp{{Result: -1, Kind: core.IsTrue}}, Pure: true, Value: func(_ *ssa.Function, v ssa.Value) bool {
			bo, ok := v.(*ssa.BinOp)
			return ok && bo.Op == token.NEQ && isNegLoad(bo.X) && isNegLoad(bo.Y)
		}}
		same := differ
		same.Name, same.Comps = "signs-equal", []core.Comp{{Result: -1, Kind: core.IsFalse}}
		ownNeg := core.Guard{Name: "receiver-negative", Comps: []core.Comp{{Result: -1, Kind: core.IsTrue}}, Pure: true, Value: func(_ *ssa.Function, v ssa.Value) bool { return isOwnNeg(v) }}
		ownPos := core.Guard{Name: "receiver-non-negative", Comps: []core.Comp{{Result: -1, Kind: core.IsFalse}}, Pure: true, Value: func(_ *ssa.Function, v ssa.Value) bool { return isOwnNeg(v) }}
		core.CheckEffectsFn(p, r5, cmp, core.EffectRule{Min: 4, Guards: []core.Guard{differ, same, ownNeg, ownPos}, Effect: func(_ *core.Prog, in ssa.Instruction) (string, bool) {
			ret, ok := in.(*ssa.Return)
			if !ok {
				return "", false
			}
			if k, isK := intConstOf(ret.Results[0]); isK {
				return fmt.Sprintf("return %d", k), true
			}
			if u, isU := ret.Results[0].(*ssa.UnOp); isU && u.Op == token.SUB {
				return "return -magcmp", true
			}
			if c, isC := ret.Results[0].(*ssa.Call); isC && strings.HasSuffix(core.CalleeName(c), "uint256.Int).Cmp") {
				return "return magcmp", true
			}
			return "return ?", true
		}, Need: func(d string) []string {
			switch d {
			case "return -1":
				return []string{"signs-differ", "receiver-negative"}
			case "return 1":
				return []string{"signs-differ", "receiver-non-negative"}
			case "return -magcmp":
				return []string{"signs-equal", "receiver-negative"}
			case "return magcmp":
				return []string{"signs-equal", "receiver-non-negative"}
			}
			return []string{"signs-differ", "signs-equal"}
		}})
	}
}

// digitsValidated: before call, a loop over the whole string arg rejects every byte outside '0'..'9'.
func digitsValidated(fn *ssa.Function, call ssa.CallInstruction, arg ssa.Value) bool {
	var lo, hi *ssa.BinOp
	for _, b := range fn.Blocks {
		for _, in := range b.Instrs {
			bo, ok := in.(*ssa.BinOp)
			if !ok {
				continue
			}
			x, idx, isL := strIndex(bo.X)
			if !isL || x != arg {
				continue
			}
			if _, isC := idx.(*ssa.Const); isC {
				continue
			}
			k, isK := intConstOf(bo.Y)
			switch {
			case bo.Op == token.LSS && isK && k == '0':
				lo = bo
			case bo.Op == token.GTR && isK && k == '9':
				hi = bo
			}
		}
	}
	if lo == nil || hi == nil {
		return false
	}
	mr := core.NewMemReach(fn)
	rejects := func(bo *ssa.BinOp) bool {
		for _, ref := range *bo.Referrers() {
			ifi, ok := ref.(*ssa.If)
			if !ok {
				continue
			}
			t := ifi.Block().Succs[0]
			if ret, isRet := t.Instrs[len(t.Instrs)-1].(*ssa.Return); isRet {
				if core.KnownNonNil(mr, ret.Results[len(ret.Results)-1], t) {
					return true
				}
			}
		}
		return false
	}
	if !rejects(lo) || !rejects(hi) {
		return false
	}
	// the loop header: dominates both tests and the call; the call is outside the loop; the loop is bounded by len(arg)
	for _, h := range fn.Blocks {
		back := false
		for _, pred := range h.Preds {
			if h.Dominates(pred) {
				back = true
			}
		}
		if !back || !h.Dominates(lo.Block()) || !h.Dominates(call.Block()) || reaches(call.Block(), h) {
			continue
		}
		for _, b := range fn.Blocks {
			if !b.Dominates(h) && b != h {
				continue
			}
			for _, in := range b.Instrs {
				if c, ok := in.(*ssa.Call); ok && core.CalleeName(c) == "builtin.len" && c.Call.Args[0] == arg {
					return true
				}
				if rg, ok := in.(*ssa.Range); ok && rg.X == arg { // `for i := range s` over a string
					return true
				}
			}
		}
	}
	return false
}

// strIndex: v is s[i] on a string/slice value (go/ssa models it as Index, older versions as Lookup).
func strIndex(v ssa.Value) (x, idx ssa.Value, ok bool) {
	switch t := v.(type) {
	case *ssa.Index:
		return t.X, t.Index, true
	case *ssa.Lookup:
		if !t.CommaOk {
			return t.X, t.Index, true
		}
	}
	return nil, nil, false
}

// parserWrapperAgrees: fn is a `(text) -> (Int, bool)` wrapper of signed256.ParseDecimal applied to its own parameter;
// then every return must hand back the parser's verdict: (n, err == nil), or (n, true) after err == nil, or (_, false)
// after err != nil. Any other return (a pre-filter, a post-filter) makes this reader accept a different set of strings
// than the other readers. Reports whether fn is such a wrapper.
func parserWrapperAgrees(p *core.Prog, h *core.RuleH, fn *ssa.Function) bool {
	res := fn.Signature.Results()
	if fn.Blocks == nil || res.Len() != 2 || res.At(1).Type().String() != "bool" || !strings.HasSuffix(res.At(0).Type().String(), "signed256.Int") {
		return false
	}
	var call *ssa.Call
	for _, s := range core.CallSites([]*ssa.Function{fn}, func(s core.Site) bool { return s.Name == s256+"ParseDecimal" }) {
		if c, ok := s.Call.(*ssa.Call); ok && core.ParamIndex(fn, c.Call.Args[0]) >= 0 {
			call = c
		}
	}
	if call == nil {
		return false
	}
	var num, errv ssa.Value
	for _, ref := range *call.Referrers() {
		if ex, ok := ref.(*ssa.Extract); ok {
			if ex.Index == 0 {
				num = ex
			} else {
				errv = ex
			}
		}
	}
	name := core.FuncName(fn)
	for _, b := range fn.Blocks {
		ret, ok := b.Instrs[len(b.Instrs)-1].(*ssa.Return)
		if !ok {
			continue
		}
		verdict, okRet := ret.Results[1], false
		why := "a return whose verdict is not the parser's"
		switch v := verdict.(type) {
		case *ssa.BinOp:
			if c, isC := v.Y.(*ssa.Const); isC && c.IsNil() && v.X == errv && v.Op.String() == "==" && ret.Results[0] == num {
				okRet = true
			}
		case *ssa.Const:
			if v.Value != nil && errv != nil {
				isTrue := v.Value.String() == "true"
				for _, ref := range *errv.Referrers() {
					bo, isB := ref.(*ssa.BinOp)
					if !isB {
						continue
					}
					// err != nil: true edge = rejected; err == nil: true edge = accepted
					accEdge := bo.Op.String() == "=="
					if isTrue && branchDominates(bo, accEdge, b) && ret.Results[0] == num {
						okRet = true
					}
					if !isTrue && branchDominates(bo, !accEdge, b) {
						okRet = true
					}
				}
				if !okRet && !isTrue {
					why = "answers 'not an integer' on a path where the parser was not asked or did not reject"
				}
			}
		}
		h.Check(okRet, name+"#return!parser-verdict", p.InstrPos(ret), "hands back signed256.ParseDecimal's own verdict", name+" "+why+": this reader accepts a different set of strings than the other integer readers (index written / removed / queried inconsistently)")
	}
	return true
}

// parsedValueOnlyAfterErrCheck: shared by C05.R7 and C03.R8. For every strconv.Parse*/Atoi call in package signed256, each
// use of the parsed value sits on the err == nil side of a test of that call's error (or returns it together with the error).
func parsedValueOnlyAfterErrCheck(p *core.Prog, r *core.Report, h *core.RuleH) {
	n := 0
	for _, fn := range p.FuncsIn("internal/signed256") {
		for _, cs := range core.CallSites([]*ssa.Function{fn}, func(s core.Site) bool {
			return strings.HasPrefix(s.Name, "strconv.Parse") || s.Name == "strconv.Atoi"
		}) {
			c, ok := cs.Call.(*ssa.Call)
			if !ok || c.Referrers() == nil {
				continue
			}
			n++
			var val, errv *ssa.Extract
			for _, ref := range *c.Referrers() {
				if ex, isEx := ref.(*ssa.Extract); isEx {
					if ex.Index == 0 {
						val = ex
					} else {
						errv = ex
					}
				}
			}
			key := core.FuncName(fn) + "#" + cs.Name
			if val == nil || val.Referrers() == nil {
				h.Check(true, key, p.InstrPos(c), "the parsed value is not used", "")
				continue
			}
			okEdge := func(b *ssa.BasicBlock) bool {
				if errv == nil || errv.Referrers() == nil {
					return false
				}
				for _, ref := range *errv.Referrers() {
					bo, isBo := ref.(*ssa.BinOp)
					if !isBo {
						continue
					}
					k, isK := bo.Y.(*ssa.Const)
					if !isK || !k.IsNil() {
						continue
					}
					if bo.Op == token.EQL && branchDominates(bo, true, b) || bo.Op == token.NEQ && branchDominates(bo, false, b) {
						return true
					}
				}
				return false
			}
			bad := ""
			for _, ref := range *val.Referrers() {
				in, isIn := ref.(ssa.Instruction)
				if !isIn {
					continue
				}
				if _, isDbg := in.(*ssa.DebugRef); isDbg {
					continue
				}
				if ret, isRet := in.(*ssa.Return); isRet && errv != nil {
					passes := false
					for _, rv := range ret.Results {
						if rv == ssa.Value(errv) {
							passes = true
						}
					}
					if passes {
						continue
					}
				}
				if !okEdge(in.Block()) {
					bad = p.InstrPos(in)
					break
				}
			}
			h.Check(bad == "", key, p.InstrPos(c), "every use of the parsed value is behind err == nil",
				"the value of "+cs.Name+" is used at "+bad+" without (or regardless of) its error: for an out-of-range input strconv returns the clamped maximum together with the error, so a 20-digit bound above 2^64-1 silently becomes 18446744073709551615 and the filter compares against the wrong number")
		}
	}
	if n == 0 {
		// nothing to check is fine (the generic 256-bit parser alone), but say so
		h.Check(true, "internal/signed256#no-word-parser", "", "package signed256 uses no strconv parser", "")
	}
}
