package rules

import (
	"go/token"
	"strings"

	"golang.org/x/tools/go/ssa"

	"verif/analyzer/core"
)

// C47 — container data is discarded only when the container is gone or long unpaid.
func init() {
	register(&Check{ID: "C47", Level: "other", Pkgs: []string{"./pkg/local_object_storage/...", "./pkg/services/policer", "./pkg/services/control/server", "./pkg/core/container", "./cmd/neofs-node"}, Run: runC47})
}

// sameOperand: two SSA values denote the same program quantity: identical value after
// stripping conversions, or loads of the same field path from the same root.
func sameOperand(a, b ssa.Value) bool {
	a, b = core.Unwrap(a), core.Unwrap(b)
	if a == b {
		return true
	}
	ra, pa := core.AccessPath(a)
	rb, pb := core.AccessPath(b)
	return len(pa) > 0 && ra == rb && strings.Join(pa, ".") == strings.Join(pb, ".")
}

func runC47(p *core.Prog, r *core.Report) {
	r.Explain = "Decides, on all CFG paths: (R1) in the shard's new-epoch handler the container removal is dominated by payments-enabled, a nil error from the payment check, a non-negative unpaid-since value and the grace comparison (epoch − unpaidSince ≥ const ≥ 3); (R2) that unsigned subtraction cannot wrap: it is dominated by epoch ≥ unpaidSince; (R3) the engine start-up cleanup inhumes a container only when the container source's error is ContainerNotFound (errors.As), and the policer deletes a local object on the placement-error path only under containercore.IsErrNotFound; (R4) IsErrNotFound tests that same status type; (R5) nothing else calls the container-discarding entry points (table of callers). Not covered: the values the payment contract / container source return."
	const handler = "(*pkg/local_object_storage/shard.Shard).setEpochEventHandler"
	fn := p.Func(handler)
	if fn == nil {
		r.Fatalf("C47: %s not found", handler)
		return
	}
	const unpaidCallee = "(pkg/local_object_storage/shard.ContainerPayments).UnpaidSince"
	isUnpaid := func(v ssa.Value) bool {
		ex, ok := core.Unwrap(v).(*ssa.Extract)
		if !ok || ex.Index != 0 {
			return false
		}
		c, ok := ex.Tuple.(*ssa.Call)
		return ok && core.CalleeName(c) == unpaidCallee
	}
	isEpoch := func(v ssa.Value) bool {
		_, path := core.AccessPath(core.Unwrap(v))
		return len(path) > 0 && path[len(path)-1] == "epoch"
	}
	isDiff := func(v ssa.Value) (a, b ssa.Value, ok bool) {
		bo, isB := v.(*ssa.BinOp)
		if !isB || bo.Op != token.SUB || !isEpoch(bo.X) || !isUnpaid(bo.Y) {
			return nil, nil, false
		}
		return bo.X, bo.Y, true
	}
	cmp := func(ops ...token.Token) func(fn *ssa.Function, v ssa.Value) bool { return nil }
	_ = cmp
	guards := []core.Guard{
		core.G("payments-enabled", core.IsFalse, "(pkg/local_object_storage/shard.ContainerPayments).PaymentsDisabled"),
		core.G("payment-check-ok", core.ErrNil, unpaidCallee),
		{Name: "unpaid-since-nonneg", Match: func(s core.Site) bool { return s.Name == unpaidCallee }, Comps: []core.Comp{{Result: 0, Kind: core.NonNeg}}},
		// grace: (epoch - unpaid) >= c  (c >= 3)  or  > c (c >= 2)
		{Name: "grace-period-elapsed", Comps: []core.Comp{{Result: -1, Kind: core.IsTrue}}, Value: func(_ *ssa.Function, v ssa.Value) bool {
			bo, ok := v.(*ssa.BinOp)
			if !ok {
				return false
			}
			if _, _, isD := isDiff(bo.X); !isD {
				return false
			}
			c, isC := bo.Y.(*ssa.Const)
			if !isC || c.Value == nil {
				return false
			}
			n := c.Uint64()
			return bo.Op == token.GEQ && n >= 3 || bo.Op == token.GTR && n >= 2
		}},
		// no-wrap: epoch >= unpaid   (true edge)   |   unpaid > epoch (false edge) ...
		{Name: "epoch>=unpaid(true-form)", Comps: []core.Comp{{Result: -1, Kind: core.IsTrue}}, Value: func(_ *ssa.Function, v ssa.Value) bool {
			bo, ok := v.(*ssa.BinOp)
			if !ok {
				return false
			}
			return bo.Op == token.GEQ && isEpoch(bo.X) && isUnpaid(bo.Y) || bo.Op == token.LEQ && isUnpaid(bo.X) && isEpoch(bo.Y)
		}},
		{Name: "epoch>=unpaid(false-form)", Comps: []core.Comp{{Result: -1, Kind: core.IsFalse}}, Value: func(_ *ssa.Function, v ssa.Value) bool {
			bo, ok := v.(*ssa.BinOp)
			if !ok {
				return false
			}
			return bo.Op == token.LSS && isEpoch(bo.X) && isUnpaid(bo.Y) || bo.Op == token.GTR && isUnpaid(bo.X) && isEpoch(bo.Y)
		}},
	}
	der := []core.Derived{{Name: "epoch>=unpaidSince", Alts: [][]string{{"epoch>=unpaid(true-form)"}, {"epoch>=unpaid(false-form)"}}}}
	r1 := r.Rule("C47.R1", "Shard.setEpochEventHandler: DeleteContainer is dominated by payments enabled, payment check ok, unpaidSince >= 0 and (epoch - unpaidSince) >= grace (>= 3)", 4)
	core.CheckEffectsFn(p, r1, fn, core.EffectRule{Min: 1, Guards: guards, Derived: der,
		Effect: func(pp *core.Prog, in ssa.Instruction) (string, bool) {
			c, ok := in.(ssa.CallInstruction)
			if !ok {
				return "", false
			}
			n := core.CalleeName(c)
			switch n {
			case "(*pkg/local_object_storage/shard.Shard).DeleteContainer", "(*pkg/local_object_storage/shard.Shard).InhumeContainer", "(*pkg/local_object_storage/metabase.DB).InhumeContainer":
				return n, true
			}
			// a helper of the same package that ends in the metabase's container removal
			if cal := core.StaticCallee(c); cal != nil && cal.Blocks != nil && core.FuncPkg(cal) == core.FuncPkg(fn) &&
				pp.Reaches("C47.container-removal", cal, func(x ssa.Instruction) bool {
					cc, isC := x.(ssa.CallInstruction)
					return isC && core.CalleeName(cc) == "(*pkg/local_object_storage/metabase.DB).InhumeContainer"
				}) {
				return "container removal via " + n, true
			}
			return "", false
		},
		Need: func(string) []string {
			return []string{"payments-enabled", "payment-check-ok", "unpaid-since-nonneg", "grace-period-elapsed"}
		}})
	r2 := r.Rule("C47.R2", "the unsigned subtraction epoch - unpaidSince is dominated by epoch >= unpaidSince (no wrap-around for marks newer than the processed epoch)", 1)
	core.CheckEffectsFn(p, r2, fn, core.EffectRule{Min: 1, Guards: guards, Derived: der,
		Effect: func(p *core.Prog, in ssa.Instruction) (string, bool) {
			if v, ok := in.(ssa.Value); ok {
				if _, _, isD := isDiff(v); isD {
					return "epoch-unpaidSince", true
				}
			}
			return "", false
		},
		Need: func(string) []string { return []string{"epoch>=unpaidSince", "unpaid-since-nonneg"} }})

	// R3
	r3 := r.Rule("C47.R3", "engine cleanup inhumes a container only on ContainerNotFound; the policer deletes on the placement-error path only under IsErrNotFound", 2)
	const cnfType = "type:github.com/nspcc-dev/neofs-sdk-go/client/status.ContainerNotFound"
	efn := p.Func("(*pkg/local_object_storage/engine.StorageEngine).deleteNotFoundContainers$1")
	if efn == nil {
		r.Fatalf("C47.R3: engine deleteNotFoundContainers closure not found")
	} else {
		core.CheckEffectsFn(p, r3, efn, core.EffectRule{Min: 1,
			Guards: []core.Guard{{Name: "container-not-found", Match: func(s core.Site) bool { return s.Name == "(pkg/core/container.Source).Get" },
				Comps: []core.Comp{{Result: -1, Kind: core.ErrIs, Accept: []string{cnfType}}}}},
			Effect: core.CallTo("(*pkg/local_object_storage/shard.Shard).InhumeContainer", "(*pkg/local_object_storage/shard.Shard).DeleteContainer")})
	}
	const pfnName = "(*pkg/services/policer.Policer).processObject"
	if pfn := p.Func(pfnName); pfn == nil {
		r.Fatalf("C47.R3: %s not found", pfnName)
	} else {
		nodes := func(s core.Site) bool { return strings.HasSuffix(s.Name, ").GetNodesForObject") }
		core.CheckEffectsFn(p, r3, pfn, core.EffectRule{Min: 1,
			Guards: []core.Guard{
				{Name: "placement-ok", Match: nodes, Comps: []core.Comp{{Result: -1, Kind: core.ErrNil}}},
				{Name: "container-not-found", Match: nodes, Comps: []core.Comp{{Result: -1, Kind: core.ErrIs, Accept: []string{"fn:pkg/core/container.IsErrNotFound", cnfType}}}},
			},
			Derived: []core.Derived{{Name: "placement-ok-or-container-gone", Alts: [][]string{{"placement-ok"}, {"container-not-found"}}}},
			Effect:  core.CallTo("(*pkg/services/policer.Policer).deleteLocalObject"),
			Need:    func(string) []string { return []string{"placement-ok-or-container-gone"} }})
	}
	// R4
	r4 := r.Rule("C47.R4", "containercore.IsErrNotFound is errors.As(err, *apistatus.ContainerNotFound) on its own argument", 1)
	if ifn := p.Func("pkg/core/container.IsErrNotFound"); ifn == nil {
		r.Fatalf("C47.R4: IsErrNotFound not found")
	} else {
		ok := false
		for _, s := range core.CallSites([]*ssa.Function{ifn}, func(s core.Site) bool { return s.Name == "errors.As" }) {
			a := s.Call.Common().Args
			if core.ParamIndex(ifn, a[0]) == 0 {
				if al, isA := core.Unwrap(a[1]).(*ssa.Alloc); isA && strings.HasSuffix(al.Type().String(), "client/status.ContainerNotFound") {
					// and the result is what is returned
					for _, ref := range *s.Call.Value().Referrers() {
						if _, isRet := ref.(*ssa.Return); isRet {
							ok = true
						}
					}
				}
			}
		}
		r4.Check(ok, "pkg/core/container.IsErrNotFound", p.Pos(ifn.Pos()), "returns errors.As(err, new(ContainerNotFound))", "IsErrNotFound no longer returns errors.As(err, *ContainerNotFound): transient errors may be classified as 'container gone'")
	}
	// R5
	r5 := r.Rule("C47.R5", "container-discarding entry points are called only from the tabled callers", 7)
	core.CheckCallers(p, r5, p.Funcs(), []core.CallerRule{
		{Sink: "(*pkg/local_object_storage/metabase.DB).InhumeContainer", MinSites: 2, Allowed: map[string]string{
			"(*pkg/local_object_storage/shard.Shard).DeleteContainer": "shard-level removal of an unpaid container",
			"(*pkg/local_object_storage/shard.Shard).InhumeContainer": "shard-level removal of a missing container",
		}},
		{Sink: "(*pkg/local_object_storage/shard.Shard).InhumeContainer", MinSites: 2, Allowed: map[string]string{
			"(*pkg/local_object_storage/engine.StorageEngine).deleteNotFoundContainers": "start-up cleanup, guarded by R3",
			"(*pkg/local_object_storage/engine.StorageEngine).InhumeContainer":          "engine API used by the container-removal event handler",
		}},
		{Sink: "(*pkg/local_object_storage/shard.Shard).DeleteContainer", MinSites: 2, Allowed: map[string]string{
			handler: "new-epoch handler, guarded by R1/R2",
			"(*pkg/local_object_storage/engine.StorageEngine).DeleteContainer": "engine API (no production caller)",
		}},
		{Sink: "(*pkg/local_object_storage/engine.StorageEngine).InhumeContainer", MinSites: 1, Allowed: map[string]string{
			"cmd/neofs-node.initLocalStorage": "container removal event from the FS chain (the container is definitively gone)",
		}},
		{Sink: "(*pkg/local_object_storage/engine.StorageEngine).DeleteContainer", Allowed: map[string]string{}},
	})
	// R6: what UnpaidSince answers from
	r6 := r.Rule("C47.R6", "the node's payment-status cache (paymentChecker.statuses, the source of every UnpaidSince answer) is written only with a value the FS chain returned without error (UnpaidSince, after GetUnpaidContainerEpoch err == nil, that call's own result) or by the ChangePaymentStatus notification handler (the event's epoch when unpaid, -1 when paid)", 3)
	const stField = "(cmd/neofs-node.paymentChecker).statuses"
	const getUnpaid = "(*pkg/morph/client/balance.Client).GetUnpaidContainerEpoch"
	isStatusesUpdate := func(in ssa.Instruction) (*ssa.MapUpdate, bool) {
		mu, ok := in.(*ssa.MapUpdate)
		if !ok {
			return nil, false
		}
		_, path := core.AccessPath(mu.Map)
		if len(path) == 0 || path[len(path)-1] != "statuses" {
			return nil, false
		}
		u, ok := mu.Map.(*ssa.UnOp)
		if !ok {
			return nil, false
		}
		fa, ok := u.X.(*ssa.FieldAddr)
		return mu, ok && core.FieldAddrName(fa) == stField
	}
	nUpd := 0
	for _, f := range p.FuncsIn("cmd/neofs-node") {
		f := f
		has := false
		for _, b := range f.Blocks {
			for _, in := range b.Instrs {
				if _, ok := isStatusesUpdate(in); ok {
					has = true
				}
			}
		}
		if !has {
			continue
		}
		switch core.FuncName(f) {
		case "(*cmd/neofs-node.paymentChecker).UnpaidSince":
			core.CheckEffectsFn(p, r6, f, core.EffectRule{Min: 1, Guards: []core.Guard{core.G("chain-answered", core.ErrNil, getUnpaid)},
				Effect: func(_ *core.Prog, in ssa.Instruction) (string, bool) {
					if _, ok := isStatusesUpdate(in); ok {
						nUpd++
						return "statuses[cID]=", true
					}
					return "", false
				}})
			for _, b := range f.Blocks {
				for _, in := range b.Instrs {
					if mu, ok := isStatusesUpdate(in); ok {
						ex, isEx := core.Unwrap(mu.Value).(*ssa.Extract)
						good := false
						if isEx && ex.Index == 0 {
							if c, isC := ex.Tuple.(*ssa.Call); isC && core.CalleeName(c) == getUnpaid {
								good = true
							}
						}
						r6.Check(good, core.FuncName(f)+"#statuses[cID]=!value-from-chain", p.InstrPos(in), "the cached value is the chain call's own result", "the cached value is not the result of GetUnpaidContainerEpoch")
					}
				}
			}
		case "cmd/neofs-node.initPaymentChecker$1":
			unpaidFlag := core.Guard{Name: "event-says-unpaid", Comps: []core.Comp{{Result: -1, Kind: core.IsTrue}}, Value: func(_ *ssa.Function, v ssa.Value) bool {
				_, path := core.AccessPath(v)
				_, isLoad := v.(*ssa.UnOp)
				_, isField := v.(*ssa.Field)
				return (isLoad || isField) && len(path) > 0 && path[len(path)-1] == "Unpaid"
			}, Pure: true}
			paidFlag := unpaidFlag
			paidFlag.Name, paidFlag.Comps = "event-says-paid", []core.Comp{{Result: -1, Kind: core.IsFalse}}
			core.CheckEffectsFn(p, r6, f, core.EffectRule{Min: 2, Guards: []core.Guard{unpaidFlag, paidFlag},
				Effect: func(_ *core.Prog, in ssa.Instruction) (string, bool) {
					mu, ok := isStatusesUpdate(in)
					if !ok {
						return "", false
					}
					nUpd++
					if c, isC := intConstOf(mu.Value); isC {
						if c < 0 {
							return "statuses[cID]=paid", true
						}
						return "statuses[cID]=const", true
					}
					_, path := core.AccessPath(core.Unwrap(mu.Value))
					if len(path) > 0 && path[len(path)-1] == "Epoch" {
						return "statuses[cID]=event-epoch", true
					}
					return "statuses[cID]=other", true
				},
				Need: func(desc string) []string {
					switch desc {
					case "statuses[cID]=paid":
						return []string{"event-says-paid"}
					case "statuses[cID]=event-epoch":
						return []string{"event-says-unpaid"}
					}
					return []string{"event-says-paid", "event-says-unpaid"} // unsatisfiable: unrecognised value
				}})
		default:
			for _, b := range f.Blocks {
				for _, in := range b.Instrs {
					if _, ok := isStatusesUpdate(in); ok {
						nUpd++
						r6.Bad(core.FuncName(f)+"#statuses[cID]=", p.InstrPos(in), "the payment-status cache is written outside UnpaidSince and the ChangePaymentStatus handler")
					}
				}
			}
		}
	}
	if nUpd < 3 {
		r.Fatalf("C47.R6: %d writes of %s found, expected at least 3", nUpd, stField)
	}

}
