package rules

import (
	"fmt"
	"go/token"
	"sort"
	"strings"

	"golang.org/x/tools/go/ssa"

	"verif/analyzer/core"
)

// C42 — upgrading an older metadata database preserves every object's status (chain structure).
func init() {
	register(&Check{ID: "C42", Level: "other", Pkgs: []string{"./pkg/local_object_storage/metabase"}, Run: runC42})
}

func runC42(p *core.Prog, r *core.Report) {
	r.Explain = "Decides the structure of the upgrade chain, not what a migration does to the contents: (R1) the migration table's keys form a contiguous range that ends at currentMetaVersion-1, so every supported stored version reaches the current one; (R2) the function registered for version N records version N+1, exactly once, as the returned result of its LAST write transaction, after every earlier step of the migration returned nil — so a crash or error leaves the stored version unchanged and the migration is re-run; (R3) checkVersion reports success only when the stored version equals the current one, for a fresh database after recording the current version, or after its loop ran the registered migration of every version from the stored one up to current-1 with a nil result (a missing table entry is an error); (R4) the batched (interruptible) migration driver checks the initialisation context before every batch and carries its position between batches only from a successful transaction. Not covered: that statuses before and after a migration are equal (needs old-format databases and is behavioural)."
	cur, ok := p.ConstInt(mb + "currentMetaVersion")
	if !ok {
		r.Fatalf("C42: currentMetaVersion not found")
		return
	}
	// ---------------- R1 table keys
	r1 := r.Rule("C42.R1", "migrateFrom keys are a contiguous range ending at currentMetaVersion-1; each maps to a distinct function", 2)
	var initFn *ssa.Function
	if sp := p.SSAPkg["pkg/local_object_storage/metabase"]; sp != nil {
		initFn = sp.Func("init")
	}
	table := map[int64]*ssa.Function{}
	if initFn == nil {
		r.Fatalf("C42.R1: package init not found")
		return
	}
	var mk ssa.Value
	for _, b := range initFn.Blocks {
		for _, in := range b.Instrs {
			if st, ok := in.(*ssa.Store); ok {
				if g, isG := st.Addr.(*ssa.Global); isG && g.Name() == "migrateFrom" {
					mk = st.Val
				}
			}
		}
	}
	for _, b := range initFn.Blocks {
		for _, in := range b.Instrs {
			mu, ok := in.(*ssa.MapUpdate)
			if !ok || mk == nil || mu.Map != mk {
				continue
			}
			k, isK := mu.Key.(*ssa.Const)
			fn, isF := core.Unwrap(mu.Value).(*ssa.Function)
			if isK && isF && k.Value != nil {
				table[int64(k.Uint64())] = fn
			}
		}
	}
	if len(table) == 0 {
		r.Fatalf("C42.R1: migration table not resolved")
		return
	}
	var keys []int64
	for k := range table {
		keys = append(keys, k)
	}
	sort.Slice(keys, func(i, j int) bool { return keys[i] < keys[j] })
	contiguous := keys[len(keys)-1] == cur-1
	for i := 1; i < len(keys); i++ {
		if keys[i] != keys[i-1]+1 {
			contiguous = false
		}
	}
	r1.Check(contiguous, "migrateFrom#keys", p.Pos(initFn.Pos()), fmt.Sprintf("keys %v end at current-1=%d without gaps", keys, cur-1), fmt.Sprintf("migration table keys %v are not a contiguous range ending at currentMetaVersion-1 = %d: some stored version cannot reach the current one", keys, cur-1))
	seenFn := map[*ssa.Function]bool{}
	distinct := true
	for _, fn := range table {
		if seenFn[fn] {
			distinct = false
		}
		seenFn[fn] = true
	}
	r1.Check(distinct, "migrateFrom#distinct-functions", p.Pos(initFn.Pos()), "one function per version", "two versions share one migration function")

	// ---------------- R2 each migration
	r2 := r.Rule("C42.R2", "migration N records version N+1 once, as the result of its last write transaction, after all earlier steps returned nil", 8)
	const upd = "(*github.com/nspcc-dev/bbolt.DB).Update"
	for _, n := range keys {
		fn := table[n]
		name := core.FuncName(fn)
		all := append([]*ssa.Function{fn}, fn.AnonFuncs...)
		uv := core.CallSites(all, func(s core.Site) bool { return s.Name == mb+"updateVersion" })
		okOne := len(uv) == 1
		if okOne {
			v, isV := uv[0].Call.Common().Args[1].(*ssa.Const)
			okOne = isV && v.Value != nil && int64(v.Uint64()) == n+1
		}
		r2.Check(okOne, name+"#updateVersion", p.Pos(fn.Pos()), fmt.Sprintf("records version %d exactly once", n+1), fmt.Sprintf("the migration registered for version %d does not record version %d exactly once", n, n+1))
		if !okOne {
			continue
		}
		clo := uv[0].Fn
		// the recording closure is the argument of an Update whose result the migration returns
		var last ssa.CallInstruction
		for _, s := range core.CallSites([]*ssa.Function{fn}, func(s core.Site) bool { return s.Name == upd }) {
			if closureFn(s.Call.Common().Args[1]) == clo {
				last = s.Call
			}
		}
		if last == nil {
			r2.Bad(name+"#last-transaction", p.Pos(fn.Pos()), "the version is not recorded inside a write transaction started by the migration function itself")
			continue
		}
		returned := false
		for _, b := range fn.Blocks {
			if ret, isRet := b.Instrs[len(b.Instrs)-1].(*ssa.Return); isRet && ret.Results[0] == last.Value() {
				returned = true
			}
		}
		r2.Check(returned, name+"#last-transaction", p.InstrPos(last), "the recording transaction's result is the migration's result", "the result of the transaction that records the new version is not what the migration returns: later failures would leave a recorded version behind")
		// nothing mutating starts after it: no other Update/Batch call is reachable after `last`
		later := 0
		for _, s := range core.CallSites([]*ssa.Function{fn}, func(s core.Site) bool {
			return s.Name == upd || s.Name == mb+"updateContainersInterruptable" || s.Name == "(*github.com/nspcc-dev/bbolt.DB).Batch"
		}) {
			if s.Call != last && (last.Block().Dominates(s.Call.Block()) && last.Block() != s.Call.Block()) {
				later++
			}
		}
		r2.Check(later == 0, name+"#nothing-after", p.InstrPos(last), "no migration step follows the recording transaction", "a migration step runs after the transaction that records the new version")
		// every earlier step returned nil at `last`
		steps := core.G("earlier-step-ok", core.ErrNil, mb+"updateContainersInterruptable", upd)
		nSteps := 0
		for _, s := range core.CallSites([]*ssa.Function{fn}, steps.Match) {
			if s.Call != last {
				nSteps++
			}
		}
		if nSteps > 0 {
			// each earlier step individually: a guard per call site
			for i, s := range core.CallSites([]*ssa.Function{fn}, steps.Match) {
				if s.Call == last {
					continue
				}
				site := s.Call
				g := core.Guard{Name: fmt.Sprintf("step[%d]-ok", i), Match: func(x core.Site) bool { return x.Call == site }, Comps: []core.Comp{{Result: -1, Kind: core.ErrNil}}}
				core.CheckEffectsFn(p, r2, fn, core.EffectRule{Min: 1, Guards: []core.Guard{g}, Effect: func(_ *core.Prog, in ssa.Instruction) (string, bool) {
					return "recording-transaction", in == last.(ssa.Instruction)
				}})
			}
		}
		// inside the closure: success only through updateVersion()==nil, and every other error-returning call passed
		core.CheckSuccessFn(p, r2, clo, core.SuccessRule{ResultIdx: -1, MinReturns: 1, Guards: []core.Guard{core.G("version-recorded", core.ErrNil, mb+"updateVersion")}})
		for _, s := range core.CallSites([]*ssa.Function{clo}, func(s core.Site) bool {
			v := s.Call.Value()
			return v != nil && v.Type().String() == "error" && s.Name != mb+"updateVersion" && s.Name != "fmt.Errorf"
		}) {
			site := s.Call
			g := core.Guard{Name: "step-ok:" + s.Name, Match: func(x core.Site) bool { return x.Call == site }, Comps: []core.Comp{{Result: -1, Kind: core.ErrNil}}}
			if s.Name == "(*github.com/nspcc-dev/bbolt.Tx).DeleteBucket" {
				g = g.Accepting("github.com/nspcc-dev/bbolt/errors.ErrBucketNotFound")
			}
			core.CheckEffectsFn(p, r2, clo, core.EffectRule{Min: 1, Guards: []core.Guard{g}, Effect: core.CallTo(mb + "updateVersion")})
		}
	}

	// ---------------- R3 checkVersion
	r3 := r.Rule("C42.R3", "checkVersion succeeds only for stored==current, a fresh database, or after the loop ran every registered migration from stored to current-1 with nil results", 5)
	if cv := p.Func(mbDB + "checkVersion"); cv == nil {
		r.Fatalf("C42.R3: checkVersion not found")
	} else {
		isMigrateCall := func(s core.Site) bool {
			return s.Name == "dynamic" && strings.HasSuffix(s.Call.Common().Value.Type().String(), "metabase.DB) error")
		}
		gs := []core.Guard{
			{Name: "migration-ok", Match: isMigrateCall, Comps: []core.Comp{{Result: -1, Kind: core.ErrNil}}},
			{Name: "migration-registered", Comps: []core.Comp{{Result: -1, Kind: core.IsTrue}}, Value: func(_ *ssa.Function, v ssa.Value) bool {
				ex, ok := v.(*ssa.Extract)
				if !ok || ex.Index != 1 {
					return false
				}
				lk, ok := ex.Tuple.(*ssa.Lookup)
				return ok && lk.CommaOk
			}},
		}
		gf := core.Flow(cv, gs)
		calls := core.CallSites([]*ssa.Function{cv}, isMigrateCall)
		r3.Check(len(calls) == 1, core.FuncName(cv)+"#migrate-call", p.Pos(cv.Pos()), "one call site runs the registered migration", fmt.Sprintf("expected one migration call site, found %d", len(calls)))
		var hdr *ssa.BasicBlock
		for _, h := range cv.Blocks {
			for _, pred := range h.Preds {
				if h.Dominates(pred) && len(calls) == 1 && h.Dominates(calls[0].Call.Block()) {
					hdr = h
				}
			}
		}
		if hdr == nil {
			r3.Bad(core.FuncName(cv)+"#loop", p.Pos(cv.Pos()), "no migration loop found")
		} else {
			for _, pred := range hdr.Preds {
				if hdr.Dominates(pred) {
					f := gf.OnEdge(pred, hdr)
					r3.Check(gf.Passed(f, 0) && gf.Passed(f, 1), core.FuncName(cv)+"#next-version", p.InstrPos(pred.Instrs[len(pred.Instrs)-1]), "the loop advances only after a registered migration returned nil", "the upgrade loop moves to the next version without a registered migration having returned nil")
				}
			}
			// loop variable: starts at the stored version, steps by one, runs while < currentMetaVersion
			shape := false
			for _, in := range hdr.Instrs {
				phi, isPhi := in.(*ssa.Phi)
				if !isPhi {
					continue
				}
				step, start := false, false
				for _, e := range phi.Edges {
					if bo, isB := e.(*ssa.BinOp); isB && bo.Op == token.ADD && bo.X == phi {
						if k, isK := bo.Y.(*ssa.Const); isK && k.Value != nil && k.Uint64() == 1 {
							step = true
						}
					} else if _, isC := e.(*ssa.Const); !isC {
						start = true // the stored version (a load / extract), not a constant
					}
				}
				cond := false
				if ifi, isIf := hdr.Instrs[len(hdr.Instrs)-1].(*ssa.If); isIf {
					if bo, isB := ifi.Cond.(*ssa.BinOp); isB && bo.Op == token.LSS && bo.X == phi {
						if k, isK := bo.Y.(*ssa.Const); isK && k.Value != nil && int64(k.Uint64()) == cur {
							cond = true
						}
					}
				}
				if step && start && cond {
					shape = true
				}
			}
			r3.Check(shape, core.FuncName(cv)+"#loop-shape", p.Pos(cv.Pos()), "for i := stored; i < currentMetaVersion; i++", "the upgrade loop is not `for i := stored; i < currentMetaVersion; i++`")
			// the migration is looked up under the loop variable
			keyed := false
			for _, b := range cv.Blocks {
				for _, in := range b.Instrs {
					if lk, isL := in.(*ssa.Lookup); isL && lk.CommaOk {
						if _, isPhi := lk.Index.(*ssa.Phi); isPhi {
							keyed = true
						}
					}
				}
			}
			r3.Check(keyed, core.FuncName(cv)+"#lookup-by-version", p.Pos(cv.Pos()), "the migration is looked up by the loop's version", "the migration is not looked up by the version being upgraded")
		}
		// nil-constant returns: either under stored==current, or after the loop
		mr := core.NewMemReach(cv)
		eq := core.Guard{Name: "stored==current", Comps: []core.Comp{{Result: -1, Kind: core.IsTrue}}, Value: func(_ *ssa.Function, v ssa.Value) bool {
			bo, ok := v.(*ssa.BinOp)
			if !ok || bo.Op != token.EQL {
				return false
			}
			k, isK := bo.Y.(*ssa.Const)
			return isK && k.Value != nil && k.Value.Kind().String() == "Int" && int64(k.Uint64()) == cur
		}}
		gf2 := core.Flow(cv, []core.Guard{eq})
		for _, b := range cv.Blocks {
			ret, isRet := b.Instrs[len(b.Instrs)-1].(*ssa.Return)
			if !isRet {
				continue
			}
			v := mr.Canon(ret.Results[0])
			if c, isC := v.(*ssa.Const); isC && c.IsNil() {
				after := hdr != nil && hdr.Dominates(b) && !reaches(b, hdr)
				r3.Check(gf2.Passed(gf2.At(ret), 0) || after, core.FuncName(cv)+"#return-nil", p.InstrPos(ret), "nil only for an up-to-date version or after the whole upgrade loop", "checkVersion returns nil although the stored version is not the current one and the upgrade loop has not completed")
			}
		}
	}

	// ---------------- R5 resume cursor of batched migration steps
	r5 := r.Rule("C42.R5", "a batched migration step that resumes after a remembered key steps over that key only when the seek landed exactly on it (the key may have been deleted by the previous batch)", 1)
	nRes := 0
	for _, fn := range p.FuncsIn("pkg/local_object_storage/metabase") {
		// migration steps: functions with the step signature (…, afterKey []byte, rem uint) (uint, []byte, error)
		sig := fn.Signature
		if sig.Params().Len() != 6 || sig.Results().Len() != 3 || sig.Results().At(0).Type().String() != "uint" {
			continue
		}
		for _, s := range core.CallSites([]*ssa.Function{fn}, func(s core.Site) bool { return s.Name == "(*github.com/nspcc-dev/bbolt.Cursor).Next" }) {
			if inCycle(s.Call.Block()) {
				continue // the scan loop's own advance
			}
			nRes++
			site := s.Call
			core.CheckEffectsFn(p, r5, fn, core.EffectRule{Min: 1, Guards: []core.Guard{core.G("seek-hit-the-remembered-key", core.IsTrue, "bytes.Equal")}, Effect: func(_ *core.Prog, in ssa.Instruction) (string, bool) {
				return "resume:Cursor.Next", in == site.(ssa.Instruction)
			}})
		}
	}
	if nRes == 0 {
		r5.OKTrivial("metabase#migration-steps", "-", "no migration step resumes with an extra Cursor.Next")
	}

	// ---------------- R4 interruptible driver
	r4 := r.Rule("C42.R4", "the batched driver checks the init context before every batch and advances its position only from a successful transaction", 2)
	if dr := p.Func(mb + "updateContainersInterruptable"); dr == nil {
		r.Fatalf("C42.R4: updateContainersInterruptable not found")
	} else {
		var sel *ssa.Select
		for _, b := range dr.Blocks {
			for _, in := range b.Instrs {
				if s, ok := in.(*ssa.Select); ok {
					for _, st := range s.States {
						if c, isC := st.Chan.(*ssa.Call); isC && strings.HasSuffix(core.CalleeName(c), "context.Context).Done") {
							sel = s
						}
					}
				}
			}
		}
		ups := core.CallSites([]*ssa.Function{dr}, func(s core.Site) bool { return s.Name == upd })
		good := sel != nil && len(ups) == 1 && sel.Block().Dominates(ups[0].Call.Block()) && reaches(ups[0].Call.Block(), sel.Block())
		r4.Check(good, core.FuncName(dr)+"#ctx-check-per-batch", p.Pos(dr.Pos()), "the context is polled inside the loop before each write transaction", "the batched migration does not poll the initialisation context before every batch: it cannot be interrupted between batches")
		if len(ups) == 1 {
			if cf := closureFn(ups[0].Call.Common().Args[1]); cf != nil {
				it := core.G("batch-ok", core.ErrNil, mb+"iterateContainerBuckets")
				core.CheckSuccessFn(p, r4, cf, core.SuccessRule{ResultIdx: -1, MinReturns: 1, Guards: []core.Guard{it}})
			}
		}
	}
	// ---------------- R6 the recount that ends both migration steps agrees with the incremental accounting
	r6 := r.Rule("C42.R6", "the counter recount run at the end of the migration uses the same availability predicate as the incremental accounting (shared with C02.R9): the upgrade does not change what the counters report", 1)
	recountAgreesWithMarking(p, r, r6)
	// ---------------- R7 no way into read-write around the version check
	r7 := r.Rule("C42.R7", "DB.SetMode succeeds for a read-write target only after a call whose every success has passed checkVersion()==nil — whatever mode was recorded before (an init that is a no-op in the OLD mode does not count)", 1)
	if sm := p.Func(mbDB + "SetMode"); sm == nil {
		r.Fatalf("C42.R7: DB.SetMode not found")
	} else {
		isCV := func(s core.Site) bool { return s.Name == mbDB+"checkVersion" }
		checksVersion := func(cal *ssa.Function) bool {
			if cal == nil || cal.Blocks == nil {
				return false
			}
			gs := []core.Guard{
				{Name: "version-checked", Match: isCV, Comps: []core.Comp{{Result: -1, Kind: core.ErrNil}}},
				{Name: "explicit-reset", Pure: true, Comps: []core.Comp{{Result: -1, Kind: core.IsTrue}}, Value: func(f *ssa.Function, v ssa.Value) bool {
					return core.ParamIndex(f, v) >= 0 && v.Type().String() == "bool"
				}},
			}
			return len(core.CallSites([]*ssa.Function{cal}, isCV)) > 0 && core.SuccessHolds(p, cal, core.SuccessRule{ResultIdx: -1, Guards: gs,
				Derived: []core.Derived{{Name: "checked-or-reset", Alts: [][]string{{"version-checked"}, {"explicit-reset"}}}}, Need: []string{"checked-or-reset"}})
		}
		// (1) a call that cannot succeed without the version check
		var vc *ssa.Call
		for _, cs := range core.CallSites([]*ssa.Function{sm}, func(s core.Site) bool { return isCV(s) || checksVersion(core.StaticCallee(s.Call)) }) {
			if c, ok := cs.Call.(*ssa.Call); ok {
				vc = c
			}
		}
		id := core.FuncName(sm) + "#read-write-target"
		if vc == nil {
			r7.Bad(id+"!version-checked", p.Pos(sm.Pos()), "SetMode contains no call whose success implies checkVersion()==nil independently of the recorded mode (an init that returns early in the OLD mode does not count): a database of an older format opened read-only or degraded is switched to read-write without the upgrade")
		} else {
			// (2) it is conditional only on: earlier errors, the target mode, 'mode unchanged'
			allowed := func(v ssa.Value) bool {
				var ok func(v ssa.Value, d int) bool
				ok = func(v ssa.Value, d int) bool {
					if d == 0 {
						return false
					}
					switch x := v.(type) {
					case *ssa.BinOp:
						if c, isC := x.Y.(*ssa.Const); isC && c.IsNil() {
							return true
						}
						return core.ParamIndex(sm, x.X) == 1 || core.ParamIndex(sm, x.Y) == 1
					case *ssa.Call:
						n := core.CalleeName(x)
						return (n == "(pkg/local_object_storage/shard/mode.Mode).NoMetabase" || n == "(pkg/local_object_storage/shard/mode.Mode).ReadOnly") && core.ParamIndex(sm, x.Call.Args[0]) == 1
					case *ssa.UnOp:
						return x.Op.String() == "!" && ok(x.X, d-1)
					case *ssa.Phi:
						for _, e := range x.Edges {
							if _, isK := e.(*ssa.Const); !isK && !ok(e, d-1) {
								return false
							}
						}
						return true
					}
					return false
				}
				return ok(v, 4)
			}
			bad := ""
			for _, b := range sm.Blocks {
				iff, isIf := b.Instrs[len(b.Instrs)-1].(*ssa.If)
				if !isIf || !b.Dominates(vc.Block()) || b == vc.Block() {
					continue
				}
				ctl := false
				for _, sc := range b.Succs {
					if len(sc.Preds) == 1 && sc.Dominates(vc.Block()) {
						ctl = true
					}
				}
				if ctl && !allowed(iff.Cond) {
					bad = "the version check is made conditional on " + iff.Cond.String() + " at " + p.InstrPos(iff)
				}
			}
			r7.Check(bad == "", id+"!version-checked", p.InstrPos(vc), "the version check depends only on earlier errors and on the TARGET mode", bad+": it can be skipped for a read-write target")
			// (3) its error decides the outcome
			okFlow := false
			for _, blk := range sm.Blocks {
				ifi, isIf := blk.Instrs[len(blk.Instrs)-1].(*ssa.If)
				if !isIf {
					continue
				}
				bo, isB := ifi.Cond.(*ssa.BinOp)
				if !isB {
					continue
				}
				if c, isC := bo.Y.(*ssa.Const); !isC || !c.IsNil() {
					continue
				}
				if reaches(vc.Block(), blk) && flowsTo(vc, bo.X, 6) {
					okFlow = true
				}
			}
			r7.Check(okFlow, id+"!version-check-error-decides", p.InstrPos(vc), "the version check's error is tested before success is reported", "the error of the version check is not tested: a failed upgrade is reported as a successful mode switch")
		}
	}
}

// closureFn: the function behind a func-typed argument (closure with or without captures).
func closureFn(v ssa.Value) *ssa.Function {
	switch x := core.Unwrap(v).(type) {
	case *ssa.MakeClosure:
		return x.Fn.(*ssa.Function)
	case *ssa.Function:
		return x
	}
	return nil
}
