package rules

import (
	"fmt"
	"go/constant"
	"go/token"
	"go/types"
	"strings"

	"golang.org/x/tools/go/ssa"

	"verif/analyzer/core"
)

// C11 — payload range reads return exactly the requested bytes or out-of-range (no-wrap clause).
func init() {
	register(&Check{ID: "C11", Level: "other", Pkgs: []string{"./pkg/local_object_storage/blobstor/...", "./pkg/services/object"}, Run: runC11})
}

func runC11(p *core.Prog, r *core.Report) {
	r.Explain = "Decides the absence of integer wrap-around and of unchecked narrowing in the range arithmetic (a wrapped offset or length makes 'out-of-range exactly when unsatisfiable' false and truncates or shifts the returned bytes): (R1) in the tabled range functions every subtraction a-b of range quantities is dominated by facts that imply b <= a (difference-bound reasoning over the branch conditions on the dominator chain, min/max and x-const definitions; no solver); (R2) every conversion of an offset/length to a signed type in those functions is dominated by checkTooBigRange()==nil on those operands or is bounded by a buffer length; (R3) PayloadRange.Resolve's mode switch handles every declared mode and rejects unknown ones, and its final bounds test dominates every successful return; (R4) the request-level range check rejects offset+length overflow with the `x+y <= x` idiom before the range is used. (R6) the stream that readHeader cuts out of a combined file for the matched entry is always length-limited. Not covered: that the returned bytes are the right ones (value-level), behaviour of the streams' Read implementations."
	table := []string{
		"(pkg/local_object_storage/blobstor/common.PayloadRange).Resolve",
		fst + "shiftPayloadRangeStream",
		"(*" + fst + "limitedFileReader).Read",
		"(*" + fst + "limitedFileReader).Seek",
		"(*" + fst + "prefixedReadSeekCloser).Seek",
		"(*" + fst + "prefixedReadSeekCloser).Read",
	}
	r1 := r.Rule("C11.R1", "every subtraction of range quantities in the tabled functions is dominated by facts implying subtrahend <= minuend", 8)
	r2 := r.Rule("C11.R2", "conversions of offsets/lengths to signed types are preceded by the too-big check or bounded by a buffer length", 3)
	for _, name := range table {
		fn := p.Func(name)
		if fn == nil {
			r.Fatalf("C11: anchor %s not found", name)
			continue
		}
		n := 0
		for _, b := range fn.Blocks {
			for _, in := range b.Instrs {
				switch x := in.(type) {
				case *ssa.BinOp:
					if x.Op != token.SUB || !isInt(x.Type()) {
						continue
					}
					n++
					oc := core.NewOrderCtx(in)
					key := fmt.Sprintf("%s#%s-%s", name, core.SrcName(x.X), core.SrcName(x.Y))
					if oc.ProveLE(x.Y, x.X, 0) {
						r1.OK(key, p.InstrPos(in), "subtrahend <= minuend follows from: "+oc.Facts())
					} else if why, ok := readCountWithinClampedBuffer(fn, x, oc); ok {
						r1.OK(key, p.InstrPos(in), why)
					} else {
						r1.Bad(key, p.InstrPos(in), "nothing on the paths to this subtraction implies subtrahend <= minuend (facts: "+oc.Facts()+"): for some range the difference wraps / goes negative and the reader returns too few or foreign bytes")
					}
				case *ssa.Convert:
					// unsigned 64-bit -> signed
					src, dst := basicOf(x.X.Type()), basicOf(x.Type())
					if src == nil || dst == nil || src.Info()&types.IsUnsigned == 0 || dst.Info()&types.IsUnsigned != 0 || dst.Info()&types.IsInteger == 0 {
						continue
					}
					if src.Kind() != types.Uint64 && src.Kind() != types.Uint {
						continue
					}
					key := fmt.Sprintf("%s#%s(%s)", name, dst.Name(), core.SrcName(x.X))
					gf := core.Flow(fn, []core.Guard{core.G("not-too-big", core.ErrNil, fst+"checkTooBigRange")})
					if gf.Passed(gf.At(in), 0) {
						r2.OK(key, p.InstrPos(in), "dominated by checkTooBigRange()==nil")
						continue
					}
					// bounded by a buffer length: x <= len(something)
					oc := core.NewOrderCtx(in)
					bounded := false
					for _, bb := range fn.Blocks {
						for _, i2 := range bb.Instrs {
							if c, ok := i2.(*ssa.Call); ok && core.CalleeName(c) == "builtin.len" && oc.ProveLE(x.X, c, 0) {
								bounded = true
							}
						}
					}
					r2.Check(bounded, key, p.InstrPos(in), "bounded by a buffer length", "an unsigned offset/length is converted to a signed type without the too-big check: values >= 2^63 turn negative")
				}
			}
		}
		r.Analysed["subtractions:"+name] = n
	}
	// ---------------- R5 prefixed reader: the tail is consulted only when it can contribute
	r5 := r.Rule("C11.R5", "prefixedReadSeekCloser asks its tail reader only when the caller's buffer has room left after the buffered part (a tail's EOF must not end a stream that still has buffered bytes) and forwards only a non-zero remainder of a Seek", 2)
	if rd := p.Func("(*" + fst + "prefixedReadSeekCloser).Read"); rd == nil {
		r.Fatalf("C11.R5: prefixedReadSeekCloser.Read not found")
	} else {
		isLenB := func(v ssa.Value) bool {
			c, ok := core.Unwrap(v).(*ssa.Call)
			return ok && core.CalleeName(c) == "builtin.len" && core.ParamIndex(rd, c.Call.Args[0]) == 1
		}
		// accepted spellings of "room left": n == len(b) false, n != len(b) true, n < len(b) true, n >= len(b) false (n = bytes served from the prefix)
		room := []core.Guard{
			{Name: "room-left(eq-false)", Comps: []core.Comp{{Result: -1, Kind: core.IsFalse}}, Pure: true, Value: func(_ *ssa.Function, v ssa.Value) bool {
				bo, ok := v.(*ssa.BinOp)
				return ok && (bo.Op == token.EQL || bo.Op == token.GEQ) && (isLenB(bo.Y) || isLenB(bo.X))
			}},
			{Name: "room-left(lt-true)", Comps: []core.Comp{{Result: -1, Kind: core.IsTrue}}, Pure: true, Value: func(_ *ssa.Function, v ssa.Value) bool {
				bo, ok := v.(*ssa.BinOp)
				return ok && (bo.Op == token.NEQ || bo.Op == token.LSS) && isLenB(bo.Y)
			}},
			{Name: "nothing-buffered", Comps: []core.Comp{{Result: -1, Kind: core.IsFalse}}, Pure: true, Value: func(_ *ssa.Function, v ssa.Value) bool {
				bo, ok := v.(*ssa.BinOp) // prefBytes > 0 false: nothing was served from the prefix
				if !ok || bo.Op != token.GTR {
					return false
				}
				z, isZ := intConstOf(bo.Y)
				return isZ && z == 0
			}},
		}
		core.CheckEffectsFn(p, r5, rd, core.EffectRule{Min: 1, Guards: room, Derived: []core.Derived{{Name: "tail-can-contribute", Alts: [][]string{{"room-left(eq-false)"}, {"room-left(lt-true)"}, {"nothing-buffered"}}}},
			Need: func(string) []string { return []string{"tail-can-contribute"} }, Effect: func(_ *core.Prog, in ssa.Instruction) (string, bool) {
				c, ok := in.(ssa.CallInstruction)
				if !ok || !c.Common().IsInvoke() || c.Common().Method.Name() != "Read" {
					return "", false
				}
				_, path := core.AccessPath(c.Common().Value)
				return "rest.Read", len(path) > 0 && path[len(path)-1] == "rest"
			}})
	}
	if sk := p.Func("(*" + fst + "prefixedReadSeekCloser).Seek"); sk == nil {
		r.Fatalf("C11.R5: prefixedReadSeekCloser.Seek not found")
	} else {
		n := 0
		for _, b := range sk.Blocks {
			for _, in := range b.Instrs {
				c, ok := in.(ssa.CallInstruction)
				if !ok || !c.Common().IsInvoke() || c.Common().Method.Name() != "Seek" {
					continue
				}
				if _, path := core.AccessPath(c.Common().Value); len(path) == 0 || path[len(path)-1] != "rest" {
					continue
				}
				n++
				oc := core.NewOrderCtx(in)
				rem, isSub := c.Common().Args[0].(*ssa.BinOp)
				good := isSub && rem.Op == token.SUB && (oc.ProveLE(rem.Y, rem.X, -1) || nonZeroByDisequality(sk, in, rem))
				r5.Check(good, core.FuncName(sk)+"#rest.Seek", p.InstrPos(in), "only a positive remainder is forwarded to the tail", "a zero remainder may be forwarded to the tail reader's Seek: an exhausted/empty tail answers io.EOF although the position is valid")
			}
		}
		if n == 0 {
			r5.Bad(core.FuncName(sk)+"#rest.Seek", p.Pos(sk.Pos()), "Seek no longer forwards to the tail")
		}
	}

	// ---------------- R3 Resolve
	r3 := r.Rule("C11.R3", "Resolve handles every range mode, rejects unknown ones, and every success passes the final bounds test", 3)
	if rs := p.Func("(pkg/local_object_storage/blobstor/common.PayloadRange).Resolve"); rs != nil {
		pk := p.All[core.Mod+"pkg/local_object_storage/blobstor/common"]
		var modes []int64
		names := map[int64]string{}
		if pk != nil {
			for _, n := range pk.Types.Scope().Names() {
				if strings.HasPrefix(n, "PayloadRangeMode") {
					if v, ok := p.ConstInt("pkg/local_object_storage/blobstor/common." + n); ok {
						modes = append(modes, v)
						names[v] = n
					}
				}
			}
		}
		seen := map[int64]bool{}
		for _, b := range rs.Blocks {
			for _, in := range b.Instrs {
				if bo, ok := in.(*ssa.BinOp); ok && bo.Op == token.EQL {
					if k, isK := intConstOf(bo.Y); isK {
						if _, path := core.AccessPath(bo.X); len(path) > 0 && path[len(path)-1] == "Mode" {
							seen[k] = true
						}
					}
				}
			}
		}
		var miss []string
		for _, m := range modes {
			if !seen[m] {
				miss = append(miss, names[m])
			}
		}
		r3.Check(len(modes) >= 5 && len(miss) == 0, core.FuncName(rs)+"#modes", p.Pos(rs.Pos()), fmt.Sprintf("all %d modes handled", len(modes)), "range modes without a case: "+strings.Join(miss, ","))
		// success returns: dominated by the final test (ln == 0, or off < payloadLen and payloadLen-off >= ln)
		mr := core.NewMemReach(rs)
		nOK := 0
		for _, b := range rs.Blocks {
			ret, ok := b.Instrs[len(b.Instrs)-1].(*ssa.Return)
			if !ok {
				continue
			}
			ev := mr.Canon(ret.Results[2])
			if c, isC := ev.(*ssa.Const); !isC || !c.IsNil() {
				continue
			}
			nOK++
			oc := core.NewOrderCtx(ret)
			off, ln := ret.Results[0], ret.Results[1]
			// either ln == 0, or off+ln <= payloadLen expressed as ln <= payloadLen-off with off < payloadLen
			good := oc.ProveLE(ln, ssaZero(rs), 0)
			if !good {
				for _, bb := range rs.Blocks {
					for _, i2 := range bb.Instrs {
						if sub, isS := i2.(*ssa.BinOp); isS && sub.Op == token.SUB && oc.OrdKey(sub.Y) == oc.OrdKey(off) && core.ParamIndex(rs, sub.X) == 1 {
							if oc.ProveLE(ln, sub, 0) && oc.ProveLE(off, sub.X, -1) {
								good = true
							}
						}
					}
				}
			}
			// the disjunction (ln==0 or in-bounds) is established by one If with a short-circuit condition: accept when the
			// return block is reached only through the failing edges of `ln != 0 && (off >= len || len-off < ln)`
			if !good {
				good = resolveFinalTestDominates(rs, b)
			}
			r3.Check(good, core.FuncName(rs)+"#success-in-bounds", p.InstrPos(ret), "success only for an empty length or off < len && len-off >= ln", "Resolve can succeed without the final bounds test having rejected an out-of-bounds (off, ln)")
		}
		if nOK == 0 {
			r3.Bad(core.FuncName(rs)+"#success-in-bounds", p.Pos(rs.Pos()), "no success return found")
		}
		// default rejects
		rej := false
		for _, b := range rs.Blocks {
			if ret, ok := b.Instrs[len(b.Instrs)-1].(*ssa.Return); ok {
				if c, isC := ret.Results[2].(*ssa.Call); isC && core.CalleeName(c) == "fmt.Errorf" {
					rej = true
				}
			}
		}
		r3.Check(rej, core.FuncName(rs)+"#default-rejects", p.Pos(rs.Pos()), "unknown modes are rejected", "no rejecting default for unknown range modes")
	} else {
		r.Fatalf("C11.R3: Resolve not found")
	}
	// ---------------- R4 request-level overflow idiom
	r4 := r.Rule("C11.R4", "request-level range checks reject offset+length overflow (x+y <= x) before the range is used", 2)
	n4 := 0
	for _, fn := range p.FuncsIn("pkg/services/object") {
		for _, b := range fn.Blocks {
			for _, in := range b.Instrs {
				bo, ok := in.(*ssa.BinOp)
				if !ok || bo.Op != token.LEQ {
					continue
				}
				add, isAdd := bo.X.(*ssa.BinOp)
				if !isAdd || add.Op != token.ADD || !isInt(add.Type()) {
					continue
				}
				oc := core.NewOrderCtx(in)
				if oc.OrdKey(add.X) != oc.OrdKey(bo.Y) && oc.OrdKey(add.Y) != oc.OrdKey(bo.Y) {
					continue
				}
				n4++
				// its true edge must leave with an error / status (not continue to the service)
				var ifi *ssa.If
				for _, ref := range *bo.Referrers() {
					if i, isIf := ref.(*ssa.If); isIf {
						ifi = i
					}
				}
				good := false
				if ifi != nil {
					t := ifi.Block().Succs[0]
					for _, i2 := range t.Instrs {
						if _, isRet := i2.(*ssa.Return); isRet {
							good = true
						}
					}
					if !good && len(t.Succs) == 1 { // error assembled then jump to a common return
						for _, i2 := range t.Succs[0].Instrs {
							if _, isRet := i2.(*ssa.Return); isRet {
								good = true
							}
						}
					}
				}
				r4.Check(good, core.FuncName(fn)+"#offset+length-overflow", p.InstrPos(in), "overflowing ranges are rejected", "the overflow test's true branch does not leave the handler")
			}
		}
	}
	if n4 < 2 {
		r.Fatalf("C11.R4: %d overflow idioms found in pkg/services/object, expected 2", n4)
	}
	// ---------------- R7 the streaming decoder reads from bytes nobody else writes
	r7 := r.Rule("C11.R7", "the bytes handed to a streaming zstd decoder as the head of its input are a private copy, never a view of a caller's buffer: the decoder reads ahead lazily while the caller's buffer is refilled with the decoded head", 1)
	decoderInputPrivate(p, r, r7)
	// ---------------- R8 the two readings of 'the whole payload' agree
	r8 := r.Rule("C11.R8", "a range that PayloadRange.IsFull calls the whole payload (served as a plain read by ReadObjectParts and the GET service) is never refused by PayloadRange.Resolve (used by the resolving readers): in the cases of those modes Resolve answers out-of-range only after finding the first position non-zero", 2)
	fullRangeNeverRefused(p, r, r8)
	// ---------------- R6 a stream cut out of a combined file never runs into the next entry
	r6 := r.Rule("C11.R6", "readHeader: the stream returned for an entry found in a combined file is always the length-limited reader, never the bare file (which continues with other objects)", 1)
	if rh := p.Func("(*pkg/local_object_storage/blobstor/fstree.FSTree).readHeader"); rh == nil {
		r.Fatalf("C11.R6: readHeader not found")
	} else {
		n := 0
		for _, cs := range core.CallSites([]*ssa.Function{rh}, func(s core.Site) bool { return s.Name == "bytes.Equal" }) {
			c, ok := cs.Call.(*ssa.Call)
			if !ok {
				continue
			}
			for _, b := range rh.Blocks {
				ret, isRet := b.Instrs[len(b.Instrs)-1].(*ssa.Return)
				if !isRet || len(ret.Results) != 3 || !branchDominates(c, true, b) {
					continue
				}
				if k, isK := ret.Results[2].(*ssa.Const); !isK || !k.IsNil() {
					continue
				}
				n++
				var limited func(v ssa.Value, d int) bool
				limited = func(v ssa.Value, d int) bool {
					switch x := v.(type) {
					case *ssa.MakeInterface:
						return strings.HasSuffix(x.X.Type().String(), "fstree.limitedFileReader")
					case *ssa.ChangeInterface:
						return d > 0 && limited(x.X, d-1)
					case *ssa.Phi:
						if d == 0 {
							return false
						}
						for _, e := range x.Edges {
							if !limited(e, d-1) {
								return false
							}
						}
						return true
					}
					return false
				}
				r6.Check(limited(ret.Results[1], 4), core.FuncName(rh)+"#matched-entry-stream!limited", p.InstrPos(ret), "the returned stream is the length-limited reader on every path", "for an entry found in a combined file readHeader can return the bare file as the stream: when the entry is buffered completely but not recognisably short (exactly the window size) the reader runs on into the following objects' bytes")
			}
		}
		if n == 0 {
			r.Fatalf("C11.R6: no success return for a matched combined entry found in readHeader")
		}
	}

}

func isInt(t types.Type) bool {
	b := basicOf(t)
	return b != nil && b.Info()&types.IsInteger != 0
}

func basicOf(t types.Type) *types.Basic {
	b, _ := t.Underlying().(*types.Basic)
	return b
}

// ssaZero returns a zero constant value usable as an ordering node.
func ssaZero(fn *ssa.Function) ssa.Value {
	return ssa.NewConst(constant.MakeUint64(0), types.Typ[types.Uint64])
}

// resolveFinalTestDominates: block b is reached only via the "pass" edges of a
// `ln != 0 && (off >= payloadLen || payloadLen-off < ln)` test whose failing edge returns an error.
func resolveFinalTestDominates(fn *ssa.Function, b *ssa.BasicBlock) bool {
	// find the subtraction payloadLen - off compared with ln
	for _, blk := range fn.Blocks {
		ifi, ok := blk.Instrs[len(blk.Instrs)-1].(*ssa.If)
		if !ok {
			continue
		}
		bo, ok := ifi.Cond.(*ssa.BinOp)
		if !ok || bo.Op != token.LSS {
			continue
		}
		sub, ok := bo.X.(*ssa.BinOp)
		if !ok || sub.Op != token.SUB || core.ParamIndex(fn, sub.X) != 1 {
			continue
		}
		// its false edge (in bounds) must lead to b, its true edge to an error return; every predecessor of b must be one of the
		// pass edges of the compound test (ln == 0, or this in-bounds edge)
		pass := blk.Succs[1]
		if pass != b {
			continue
		}
		okPreds := true
		for _, pr := range b.Preds {
			if pr == blk {
				continue
			}
			pi, isIf := pr.Instrs[len(pr.Instrs)-1].(*ssa.If)
			if !isIf {
				okPreds = false
				continue
			}
			c, isB := pi.Cond.(*ssa.BinOp)
			if !isB || c.Op != token.NEQ { // ln != 0 false edge
				okPreds = false
				continue
			}
			if z, isZ := intConstOf(c.Y); !isZ || z != 0 || pr.Succs[1] != b {
				okPreds = false
			}
		}
		return okPreds
	}
	return false
}

// readCountWithinClampedBuffer discharges `limit - n` where n is the byte count returned by a Read
// into a buffer that was clamped to `limit` beforehand: n <= len(buf) by the io.Reader contract, and
// buf is either the original buffer on the edge where len(buf) <= limit, or buf[:limit].
func readCountWithinClampedBuffer(fn *ssa.Function, sub *ssa.BinOp, oc *core.OrderCtx) (string, bool) {
	ex, ok := core.Unwrap(sub.Y).(*ssa.Extract)
	if !ok || ex.Index != 0 {
		return "", false
	}
	call, ok := ex.Tuple.(*ssa.Call)
	if !ok || !strings.HasSuffix(core.CalleeName(call), ").Read") {
		return "", false
	}
	args := core.Args(call)
	buf := args[len(args)-1]
	phi, ok := buf.(*ssa.Phi)
	if !ok || len(phi.Edges) != 2 {
		return "", false
	}
	limKey := oc.OrdKey(sub.X)
	var orig ssa.Value
	var sl *ssa.Slice
	for _, e := range phi.Edges {
		if s, isS := e.(*ssa.Slice); isS {
			sl = s
		} else {
			orig = e
		}
	}
	if sl == nil || orig == nil || sl.X != orig || sl.Low != nil || sl.High == nil || oc.OrdKey(sl.High) != limKey {
		return "", false
	}
	// the clamp is taken exactly when len(orig) > limit
	blk := sl.Block()
	if len(blk.Preds) != 1 {
		return "", false
	}
	ifi, ok := blk.Preds[0].Instrs[len(blk.Preds[0].Instrs)-1].(*ssa.If)
	if !ok || blk.Preds[0].Succs[0] != blk {
		return "", false
	}
	bo, ok := ifi.Cond.(*ssa.BinOp)
	if !ok || bo.Op != token.GTR || oc.OrdKey(bo.Y) != limKey {
		return "", false
	}
	c, ok := core.Unwrap(bo.X).(*ssa.Call)
	if !ok || core.CalleeName(c) != "builtin.len" || c.Call.Args[0] != orig {
		return "", false
	}
	return "the count comes from a Read into a buffer clamped to the limit (len(b) > limit → b[:limit]); n <= len(b) by the io.Reader contract", true
}

// nonZeroByDisequality: the call is dominated by the false edge of `x == y` for the operands of rem = x - y
// (together with y <= x this makes the remainder positive).
func nonZeroByDisequality(fn *ssa.Function, in ssa.Instruction, rem *ssa.BinOp) bool {
	oc := core.NewOrderCtx(in)
	if !oc.ProveLE(rem.Y, rem.X, 0) {
		return false
	}
	kx, ky := oc.OrdKey(rem.X), oc.OrdKey(rem.Y)
	g := core.Guard{Name: "operands-differ", Comps: []core.Comp{{Result: -1, Kind: core.IsFalse}}, Pure: true, Value: func(_ *ssa.Function, v ssa.Value) bool {
		bo, ok := v.(*ssa.BinOp)
		if !ok || bo.Op != token.EQL {
			return false
		}
		a, b := oc.OrdKey(bo.X), oc.OrdKey(bo.Y)
		return a == kx && b == ky || a == ky && b == kx
	}}
	gf := core.Flow(fn, []core.Guard{g})
	return gf.Passed(gf.At(in), 0)
}

// feedsCall: v reaches an argument of a call to target, through interface conversions, variadic packing and
// reader-wrapping calls (each wrapper's result stands for its arguments).
func feedsCall(v ssa.Value, target string, depth int, seen map[ssa.Value]bool) bool {
	if depth == 0 || seen[v] || v.Referrers() == nil {
		return false
	}
	seen[v] = true
	for _, u := range *v.Referrers() {
		switch x := u.(type) {
		case *ssa.Call:
			if core.CalleeName(x) == target {
				return true
			}
			if feedsCall(x, target, depth-1, seen) {
				return true
			}
		case *ssa.MakeInterface, *ssa.ChangeInterface, *ssa.ChangeType, *ssa.Slice, *ssa.Phi:
			if feedsCall(x.(ssa.Value), target, depth-1, seen) {
				return true
			}
		case *ssa.Store:
			if x.Val != v {
				continue
			}
			// varargs: stored into an element of a local array that is then sliced
			if ia, ok := x.Addr.(*ssa.IndexAddr); ok {
				if feedsCall(ia.X, target, depth-1, seen) {
					return true
				}
			} else if feedsCall(x.Addr, target, depth-1, seen) {
				return true
			}
		}
	}
	return false
}

// fullRangeNeverRefused: modes for which IsFull can answer true are read off IsFull itself; in Resolve every
// out-of-range return inside the case of such a mode must be dominated by 'First != 0'.
func fullRangeNeverRefused(p *core.Prog, r *core.Report, h *core.RuleH) {
	const prT = "(pkg/local_object_storage/blobstor/common.PayloadRange)"
	isFull, res := p.Func(prT+".IsFull"), p.Func(prT+".Resolve")
	if isFull == nil || res == nil {
		r.Fatalf("C11.R8: PayloadRange.IsFull / Resolve not found")
		return
	}
	fieldOf := func(v ssa.Value) string {
		u, ok := v.(*ssa.UnOp)
		if !ok || u.Op != token.MUL {
			return ""
		}
		fa, ok := u.X.(*ssa.FieldAddr)
		if !ok {
			return ""
		}
		n := core.FieldAddrName(fa)
		return n[strings.LastIndex(n, ".")+1:]
	}
	// mode case a block belongs to: the true edge of `Mode == k`
	modeOf := func(fn *ssa.Function, b *ssa.BasicBlock) (int64, bool) {
		for _, blk := range fn.Blocks {
			for _, in := range blk.Instrs {
				bo, ok := in.(*ssa.BinOp)
				if !ok || bo.Op != token.EQL || fieldOf(bo.X) != "Mode" {
					continue
				}
				if k, isK := intConstOf(bo.Y); isK && branchDominates(bo, true, b) {
					return k, true
				}
			}
		}
		return 0, false
	}
	full := map[int64]bool{}
	for _, b := range isFull.Blocks {
		ret, ok := b.Instrs[len(b.Instrs)-1].(*ssa.Return)
		if !ok || len(ret.Results) != 1 {
			continue
		}
		if c, isC := ret.Results[0].(*ssa.Const); isC {
			if bv, isB := constBool(c); isB && !bv {
				continue
			}
		}
		// the value may come through a phi of the short-circuit: take the case of every predecessor chain
		if k, okM := modeOf(isFull, b); okM {
			full[k] = true
			continue
		}
		for _, blk := range isFull.Blocks {
			if k, okM := modeOf(isFull, blk); okM && reaches(blk, b) {
				full[k] = true
			}
		}
	}
	if len(full) == 0 {
		r.Fatalf("C11.R8: IsFull never answers true")
		return
	}
	// and IsFull answers true only for a range that starts at position zero: every value it returns other than
	// the constant false is the test 'First == 0' itself or is computed behind its true edge
	firstIsZero := func(v ssa.Value) bool {
		bo, ok := v.(*ssa.BinOp)
		if !ok || bo.Op != token.EQL || fieldOf(bo.X) != "First" {
			return false
		}
		k, isK := intConstOf(bo.Y)
		return isK && k == 0
	}
	behindFirstZero := func(b *ssa.BasicBlock) bool {
		for _, blk := range isFull.Blocks {
			for _, in := range blk.Instrs {
				if bo, ok := in.(*ssa.BinOp); ok && firstIsZero(bo) && branchDominates(bo, true, b) {
					return true
				}
			}
		}
		return false
	}
	for _, b := range isFull.Blocks {
		ret, ok := b.Instrs[len(b.Instrs)-1].(*ssa.Return)
		if !ok || len(ret.Results) != 1 {
			continue
		}
		var contrib []ssa.Value
		var blocks []*ssa.BasicBlock
		if phi, isPhi := ret.Results[0].(*ssa.Phi); isPhi {
			for i, e := range phi.Edges {
				contrib = append(contrib, e)
				blocks = append(blocks, phi.Block().Preds[i])
			}
		} else {
			contrib, blocks = []ssa.Value{ret.Results[0]}, []*ssa.BasicBlock{b}
		}
		for i, v := range contrib {
			if c, isC := v.(*ssa.Const); isC {
				if bv, isB := constBool(c); isB && !bv {
					continue
				}
			}
			okv := firstIsZero(v) || behindFirstZero(blocks[i])
			if in, isIn := v.(ssa.Instruction); isIn && !okv {
				okv = behindFirstZero(in.Block())
			}
			h.Check(okv, core.FuncName(isFull)+"#true-only-from-position-zero@"+fmt.Sprint(i), p.InstrPos(ret), "'the whole payload' requires first position zero",
				"IsFull can answer true for a range that does not start at position zero: the plain-read shortcut then serves the whole object where the resolving readers answer out-of-range")
		}
	}
	nonZero := []core.Guard{
		{Name: "first-nonzero(ne-form)", Comps: []core.Comp{{Result: -1, Kind: core.IsTrue}}, Value: func(_ *ssa.Function, v ssa.Value) bool {
			bo, ok := v.(*ssa.BinOp)
			k, isK := intConstOf(bo0(bo, ok))
			return ok && bo.Op == token.NEQ && fieldOf(bo.X) == "First" && isK && k == 0
		}},
		{Name: "first-nonzero(eq-form)", Comps: []core.Comp{{Result: -1, Kind: core.IsFalse}}, Value: func(_ *ssa.Function, v ssa.Value) bool {
			bo, ok := v.(*ssa.BinOp)
			k, isK := intConstOf(bo0(bo, ok))
			return ok && bo.Op == token.EQL && fieldOf(bo.X) == "First" && isK && k == 0
		}},
	}
	core.CheckEffectsFn(p, h, res, core.EffectRule{Min: len(full), Guards: nonZero,
		Derived: []core.Derived{{Name: "not-the-whole-payload", Alts: [][]string{{"first-nonzero(ne-form)"}, {"first-nonzero(eq-form)"}}}},
		Effect: func(_ *core.Prog, in ssa.Instruction) (string, bool) {
			ret, ok := in.(*ssa.Return)
			if !ok || len(ret.Results) != 3 || !strings.HasSuffix(core.ErrTargetName(ret.Results[2]), "ErrObjectOutOfRange") {
				return "", false
			}
			k, okM := modeOf(res, ret.Block())
			if !okM || !full[k] {
				return "", false
			}
			return fmt.Sprintf("out-of-range@mode%d", k), true
		}, Need: func(string) []string { return []string{"not-the-whole-payload"} }})
}

func bo0(bo *ssa.BinOp, ok bool) ssa.Value {
	if !ok {
		return nil
	}
	return bo.Y
}

// decoderInputPrivate: shared by C11.R7 and C10.R4.
func decoderInputPrivate(p *core.Prog, r *core.Report, r7 *core.RuleH) {
	nDec := 0
	for _, fn := range p.FuncsIn("pkg/local_object_storage/blobstor/fstree") {
		decs := core.CallSites([]*ssa.Function{fn}, func(s core.Site) bool { return s.Name == "github.com/klauspost/compress/zstd.NewReader" })
		if len(decs) == 0 {
			continue
		}
		nDec += len(decs)
		n := 0
		for _, cs := range core.CallSites([]*ssa.Function{fn}, func(s core.Site) bool { return s.Name == "bytes.NewReader" || s.Name == "bytes.NewBuffer" }) {
			c, ok := cs.Call.(*ssa.Call)
			if !ok || !feedsCall(c, "github.com/klauspost/compress/zstd.NewReader", 8, map[ssa.Value]bool{}) {
				continue
			}
			n++
			arg := c.Call.Args[0]
			r7.Check(core.RootParam(fn, arg) < 0, core.FuncName(fn)+"#decoder-input", p.InstrPos(c), "the decoder's head input is a fresh copy",
				"the streaming decoder reads its first bytes straight from a caller's buffer ("+arg.Name()+"): the decoder consumes its input lazily, so refilling that buffer with decoded data corrupts the compressed blocks not yet consumed and the range read fails or returns wrong bytes")
		}
		if n == 0 {
			// decoder reading the file only: nothing shared
			r7.Check(true, core.FuncName(fn)+"#decoder-input", p.Pos(fn.Pos()), "the decoder reads from the file only", "")
		}
	}
	if nDec == 0 {
		r.Fatalf("%s: no streaming decoder found in fstree", r7.ID())
	}
}
