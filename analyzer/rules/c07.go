package rules

import (
	"go/token"
	"strings"

	"golang.org/x/tools/go/ssa"

	"verif/analyzer/core"
)

// C07 — a live lock protects its object from tombstones, expiry and garbage collection.
func init() {
	register(&Check{ID: "C07", Level: "other", Pkgs: []string{"./pkg/local_object_storage/metabase", "./pkg/local_object_storage/shard", "./pkg/local_object_storage/engine"}, Run: runC07})
}

const mb = "pkg/local_object_storage/metabase."

func runC07(p *core.Prog, r *core.Report) {
	r.Explain = "Decides, on all CFG paths of the metabase status machinery and its GC callers: the tombstone branch of the put path writes garbage marks / counts a tombstone only after objectLocked(target)==false and after rejecting LOCK targets, and the lock branch counts a lock only after the target's status was tested against 'tombstoned'; the direct status function reports a non-available status only where objectLocked was false (or the garbage status was 'available' anyway); the expiry iterator hands an object to its handler only where objectLocked was false; the lock lookup stops at the first LIVE lock only (an expired lock must not end the search) and treats a lock that is itself removed as absent; the engine deletes an expired object only after its engine-wide lock check said 'not locked' (or failed, the documented exception); Shard.deleteObjs has only the tabled callers. Not covered: interleavings of GC with epoch changes, concurrent lock/tombstone arrival."
	tLock, ok1 := p.ConstInt("github.com/nspcc-dev/neofs-sdk-go/object.TypeLock")
	stTomb, ok2 := p.ConstInt(mb + "statusTombstoned")
	stAvail, ok3 := p.ConstInt(mb + "statusAvailable")
	if !ok1 || !ok2 || !ok3 {
		r.Fatalf("C07: constants TypeLock/statusTombstoned/statusAvailable not resolved")
		return
	}
	// ---- R1 put path
	r1 := r.Rule("C07.R1", "handleObjectWithAssociation: garbage marks and the tombstone counter only after objectLocked(target)==false and target is not a LOCK; lock counter only after status != tombstoned", 6)
	hfn := p.Func(mb + "handleObjectWithAssociation")
	if hfn == nil {
		r.Fatalf("C07.R1: handleObjectWithAssociation not found")
		return
	}
	fetch := func(s core.Site) bool { return s.Name == mb+"fetchTypeForID" }
	guards := []core.Guard{
		core.G("target-not-locked", core.IsFalse, mb+"objectLocked"),
		{Name: "target-type-unknown", Match: fetch, Comps: []core.Comp{{Result: 1, Kind: core.NonNil}}},
		{Name: "target-type-not-lock", Match: fetch, Comps: []core.Comp{{Result: 0, Kind: core.NeConst, Const: tLock}}},
		{Name: "target-not-tombstoned", Match: func(s core.Site) bool { return s.Name == mb+"objectStatus" }, Comps: []core.Comp{{Result: -1, Kind: core.NeConst, Const: stTomb}}},
	}
	der := []core.Derived{{Name: "target-is-not-a-lock", Alts: [][]string{{"target-type-unknown"}, {"target-type-not-lock"}}}}
	storeField := func(in ssa.Instruction, field string) bool {
		st, ok := in.(*ssa.Store)
		if !ok {
			return false
		}
		fa, ok := st.Addr.(*ssa.FieldAddr)
		return ok && core.FieldAddrName(fa) == field
	}
	core.CheckEffectsFn(p, r1, hfn, core.EffectRule{Guards: guards, Derived: der, Min: 3, Effect: func(p *core.Prog, in ssa.Instruction) (string, bool) {
		if c, ok := in.(ssa.CallInstruction); ok && core.CalleeName(c) == "(*github.com/nspcc-dev/bbolt.Bucket).Put" {
			return "garbage-mark", true
		}
		if storeField(in, "("+mb+"CountersDiff).TS") {
			return "diff.TS", true
		}
		if storeField(in, "("+mb+"CountersDiff).Lock") {
			return "diff.Lock", true
		}
		return "", false
	}, Need: func(desc string) []string {
		if desc == "diff.Lock" {
			return []string{"target-not-tombstoned"}
		}
		return []string{"target-not-locked", "target-is-not-a-lock"}
	}})
	// objectLocked in that function must be asked about the current epoch and the tombstone's target
	for _, s := range core.CallSites([]*ssa.Function{hfn}, func(s core.Site) bool { return s.Name == mb+"objectLocked" }) {
		a := s.Call.Common().Args
		r1.Check(core.ParamIndex(hfn, a[0]) == 2, core.FuncName(hfn)+"#objectLocked#epoch-arg", p.InstrPos(s.Call), "lock liveness is judged at the put's current epoch", "objectLocked is not called with the function's currEpoch")
	}

	// ---- R2 status + expiry iterator
	r2 := r.Rule("C07.R2", "objectStatusDirect reports expired/garbage only where objectLocked was false; iterateExpired yields only where objectLocked was false", 4)
	if sfn := p.Func(mb + "objectStatusDirect"); sfn == nil {
		r.Fatalf("C07.R2: objectStatusDirect not found")
	} else {
		sg := []core.Guard{
			core.G("not-locked", core.IsFalse, mb+"objectLocked"),
			{Name: "garbage-status-available", Match: func(s core.Site) bool { return s.Name == mb+"inGarbage" }, Comps: []core.Comp{{Result: -1, Kind: core.EqConst, Const: stAvail}}},
			core.G("expired", core.IsTrue, mb+"isExpired"),
		}
		sd := []core.Derived{{Name: "not-locked-or-available-anyway", Alts: [][]string{{"not-locked"}, {"garbage-status-available"}}}}
		core.CheckEffectsFn(p, r2, sfn, core.EffectRule{Guards: sg, Derived: sd, Min: 2, Effect: func(p *core.Prog, in ssa.Instruction) (string, bool) {
			ret, ok := in.(*ssa.Return)
			if !ok {
				return "", false
			}
			if c, ok := intConstOf(ret.Results[0]); ok {
				if c == stAvail {
					return "", false
				}
				return "return-const-nonavailable", true
			}
			return "return-garbage-status", true
		}, Need: func(desc string) []string {
			if desc == "return-const-nonavailable" {
				return []string{"not-locked", "expired"}
			}
			return []string{"not-locked-or-available-anyway"}
		}})
	}
	itfn := p.Func("(*" + mb + "DB).iterateExpired$1")
	if itfn == nil {
		r.Fatalf("C07.R2: iterateExpired closure not found")
	} else {
		core.CheckEffectsFn(p, r2, itfn, core.EffectRule{Guards: []core.Guard{core.G("not-locked", core.IsFalse, mb+"objectLocked")}, Min: 1,
			Effect: func(p *core.Prog, in ssa.Instruction) (string, bool) {
				c, ok := in.(ssa.CallInstruction)
				if !ok || core.CalleeName(c) != "dynamic" {
					return "", false
				}
				if strings.HasSuffix(c.Common().Value.Type().String(), "ExpiredObjectHandler") {
					return "expired-handler", true
				}
				return "", false
			}})
	}
	// ---- R5 lock lookup
	r5 := r.Rule("C07.R5", "the lock lookup ends its search only at a LIVE object of the wanted type; objectLocked asks for LOCKs at the caller's epoch and ignores removed locks", 4)
	lockLookupRule(p, r, r5, tLock, stAvail)
	// ---- R3 engine
	r3 := r.Rule("C07.R3", "engine.processExpiredObjects deletes only after isLocked said false, or failed (documented exception)", 1)
	if efn := p.Func("(*pkg/local_object_storage/engine.StorageEngine).processExpiredObjects"); efn == nil {
		r.Fatalf("C07.R3: processExpiredObjects not found")
	} else {
		il := func(s core.Site) bool { return s.Name == "(*pkg/local_object_storage/engine.StorageEngine).isLocked" }
		core.CheckEffectsFn(p, r3, efn, core.EffectRule{Min: 1, Guards: []core.Guard{
			{Name: "not-locked", Match: il, Comps: []core.Comp{{Result: 0, Kind: core.IsFalse}}},
			{Name: "lock-check-failed", Match: il, Comps: []core.Comp{{Result: 1, Kind: core.NonNil}}},
		}, Derived: []core.Derived{{Name: "not-locked-or-check-failed", Alts: [][]string{{"not-locked"}, {"lock-check-failed"}}}},
			Effect: core.CallTo("(*pkg/local_object_storage/engine.StorageEngine).processAddrDelete"),
			Need:   func(string) []string { return []string{"not-locked-or-check-failed"} }})
	}
	// ---- R4 callers of deleteObjs
	r4 := r.Rule("C07.R4", "Shard.deleteObjs (physical removal) is called only from Delete, removeGarbage, collectExpiredObjects (expired tombstones) and ReviveObject", 4)
	core.CheckCallers(p, r4, p.FuncsIn("pkg/local_object_storage/..."), []core.CallerRule{{Sink: "(*pkg/local_object_storage/shard.Shard).deleteObjs", MinSites: 4, Allowed: map[string]string{
		"(*pkg/local_object_storage/shard.Shard).Delete":                "operator / engine request (force)",
		"(*pkg/local_object_storage/shard.Shard).removeGarbage":         "objects the metabase lists as garbage (marked, tombstoned, dead container)",
		"(*pkg/local_object_storage/shard.Shard).collectExpiredObjects": "expired TOMBSTONE objects only (R4b)",
		"(*pkg/local_object_storage/shard.Shard).ReviveObject":          "removes the tombstone being reverted",
	}}})
	// R4b: in collectExpiredObjects' iterator callback only TypeTombstone goes to the bins given to deleteObjs
	if cb := p.Func("(*pkg/local_object_storage/shard.Shard).collectExpiredObjects$1"); cb == nil {
		r.Fatalf("C07.R4: collectExpiredObjects callback not found")
	} else {
		tTomb, _ := p.ConstInt("github.com/nspcc-dev/neofs-sdk-go/object.TypeTombstone")
		g := core.Guard{Name: "type-is-tombstone", Comps: []core.Comp{{Result: -1, Kind: core.IsTrue}}, Value: func(fn *ssa.Function, v ssa.Value) bool {
			bo, ok := v.(*ssa.BinOp)
			if !ok || bo.Op != token.EQL {
				return false
			}
			k, isK := intConstOf(bo.Y)
			return isK && k == tTomb && core.ParamIndex(fn, bo.X) == 1
		}}
		core.CheckEffectsFn(p, r4, cb, core.EffectRule{Guards: []core.Guard{g}, Min: 1, Effect: func(p *core.Prog, in ssa.Instruction) (string, bool) {
			st, ok := in.(*ssa.Store)
			if !ok {
				return "", false
			}
			if fv, ok := st.Addr.(*ssa.FreeVar); ok && fv.Name() == "tombBins" {
				return "append-to-tombBins", true
			}
			if fa, ok := st.Addr.(*ssa.FieldAddr); ok && core.FieldAddrName(fa) == "("+mb+"TrashBin).Objects" {
				return "append-to-tombBins", true
			}
			return "", false
		}})
	}
}

func intConstOf(v ssa.Value) (int64, bool) {
	c, ok := v.(*ssa.Const)
	if !ok || c.Value == nil || c.Value.Kind().String() != "Int" {
		return 0, false
	}
	return c.Int64(), true
}

// lockLookupRule: shared by C07.R5 and C01.R5.
func lockLookupRule(p *core.Prog, r *core.Report, r5 *core.RuleH, tLock, stAvail int64) {
	if yfn := p.Func(mb + "associatedWithTypedObject$1"); yfn == nil {
		r.Fatalf("C07.R5: associatedWithTypedObject range body not found")
	} else {
		isEpochLoad := func(v ssa.Value) bool {
			u, ok := v.(*ssa.UnOp)
			if !ok || u.Op != token.MUL {
				return false
			}
			fv, ok := u.X.(*ssa.FreeVar)
			return ok && fv.Name() == "currEpoch"
		}
		yg := []core.Guard{
			core.G("is-wanted-type", core.IsTrue, mb+"isObjectType"),
			core.G("not-expired", core.IsFalse, mb+"isExpired"),
			{Name: "expiry-ignored", Comps: []core.Comp{{Result: -1, Kind: core.IsFalse}}, Value: func(_ *ssa.Function, v ssa.Value) bool {
				bo, ok := v.(*ssa.BinOp)
				if !ok {
					return false
				}
				z, isZ := intConstOf(bo.Y)
				return bo.Op == token.GTR && isEpochLoad(bo.X) && isZ && z == 0
			}},
		}
		yd := []core.Derived{{Name: "live", Alts: [][]string{{"not-expired"}, {"expiry-ignored"}}}}
		core.CheckEffectsFn(p, r5, yfn, core.EffectRule{Guards: yg, Derived: yd, Min: 1, Effect: func(p *core.Prog, in ssa.Instruction) (string, bool) {
			ret, ok := in.(*ssa.Return)
			if !ok || len(ret.Results) != 1 {
				return "", false
			}
			if c, ok := ret.Results[0].(*ssa.Const); ok {
				if b, isB := constBool(c); isB && !b {
					return "stop-iteration", true
				}
				return "", false
			}
			return "stop-iteration?", true
		}, Need: func(string) []string { return []string{"is-wanted-type", "live"} }})
	}
	if lfn := p.Func(mb + "objectLocked"); lfn == nil {
		r.Fatalf("C07.R5: objectLocked not found")
	} else {
		sites := core.CallSites([]*ssa.Function{lfn}, func(s core.Site) bool { return s.Name == mb+"associatedWithTypedObject" })
		for _, s := range sites {
			a := s.Call.Common().Args
			if len(a) != 4 {
				r5.Bad(core.FuncName(lfn)+"#lookup-args", p.InstrPos(s.Call), "objectLocked no longer passes (epoch, cursor, id, LOCK) to the lookup: the lookup cannot skip expired locks at the caller's epoch")
				continue
			}
			tc, isC := intConstOf(a[3])
			r5.Check(core.ParamIndex(lfn, a[0]) == 0 && core.ParamIndex(lfn, a[2]) == 2 && isC && tc == tLock, core.FuncName(lfn)+"#lookup-args", p.InstrPos(s.Call),
				"looks for LOCK objects of the given id at the caller's epoch", "objectLocked does not look for LOCKs of its own id at its own epoch")
		}
		if len(sites) == 0 {
			r5.Bad(core.FuncName(lfn)+"#lookup-args", p.Pos(lfn.Pos()), "objectLocked no longer uses associatedWithTypedObject")
		}
		// returns true only if found and the lock itself is available
		lg := []core.Guard{
			{Name: "lock-found", Match: func(s core.Site) bool { return s.Name == mb+"associatedWithTypedObject" }, Comps: []core.Comp{{Result: 0, Kind: core.IsTrue}}},
			core.Never("returns-whether-the-lock-itself-is-available"),
		}
		core.CheckEffectsFn(p, r5, lfn, core.EffectRule{Guards: lg, Min: 1, Effect: func(p *core.Prog, in ssa.Instruction) (string, bool) {
			ret, ok := in.(*ssa.Return)
			if !ok {
				return "", false
			}
			if c, ok := ret.Results[0].(*ssa.Const); ok {
				if b, isB := constBool(c); isB && !b {
					return "", false
				}
				return "return-true", true
			}
			// must be `inGarbage(cursor, lockID) == statusAvailable`
			bo, ok := ret.Results[0].(*ssa.BinOp)
			if ok && bo.Op == token.EQL {
				if c, isC := bo.X.(*ssa.Call); isC && core.CalleeName(c) == mb+"inGarbage" {
					if k, isK := intConstOf(bo.Y); isK && k == stAvail {
						return "return-lock-available", true
					}
				}
			}
			return "return-unrecognised", true
		}, Need: func(desc string) []string {
			if desc == "return-lock-available" {
				return []string{"lock-found"}
			}
			return []string{"lock-found", "returns-whether-the-lock-itself-is-available"}
		}})
	}
}
