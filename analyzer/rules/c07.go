package rules

import (
	"fmt"
	"go/token"
	"strings"

	"golang.org/x/tools/go/ssa"

	"verif/analyzer/core"
)

// C07 — a live lock protects its object from tombstones, expiry and garbage collection.
func init() {
	register(&Check{ID: "C07", Level: "other", Pkgs: []string{"./pkg/local_object_storage/metabase", "./pkg/local_object_storage/shard", "./pkg/local_object_storage/engine"}, Run: runC07})
}

const mb = "pkg/local_object_storage/metabase."

func runC07(p *core.Prog, r *core.Report) {
	r.Explain = "Decides, on all CFG paths of the metabase status machinery and its GC callers: the tombstone branch of the put path writes garbage marks / counts a tombstone only after objectLocked(target)==false and after rejecting LOCK targets, and the lock branch counts a lock only after the target's status was tested against 'tombstoned'; the direct status function reports a non-available status only where objectLocked was false (or the garbage status was 'available' anyway); the expiry iterator hands an object to its handler only where objectLocked was false; the lock lookup stops at the first LIVE lock only (an expired lock must not end the search) and treats a lock that is itself removed as absent; the engine deletes an expired object only after its engine-wide lock check said 'not locked' (or failed, the documented exception); Shard.deleteObjs has only the tabled callers. Not covered: interleavings of GC with epoch changes, concurrent lock/tombstone arrival."
	tLock, ok1 := p.ConstInt("github.com/nspcc-dev/neofs-sdk-go/object.TypeLock")
	stTomb, ok2 := p.ConstInt(mb + "statusTombstoned")
	stAvail, ok3 := p.ConstInt(mb + "statusAvailable")
	if !ok1 || !ok2 || !ok3 {
		r.Fatalf("C07: constants TypeLock/statusTombstoned/statusAvailable not resolved")
		return
	}
	// ---- R1 put path
	r1 := r.Rule("C07.R1", "handleObjectWithAssociation: garbage marks and the tombstone counter only after objectLocked(target)==false and target is not a LOCK; lock counter only after status != tombstoned and, for an expired target (whose status hides the tombstone), no tombstone of its own", 6)
	tombstoneRefusedWhileLocked(p, r, r1, tLock, stTomb)

	// ---- R2 status + expiry iterator
	r2 := r.Rule("C07.R2", "objectStatusDirect reports expired/garbage only where objectLocked was false; iterateExpired yields only where objectLocked was false", 4)
	if sfn := p.Func(mb + "objectStatusDirect"); sfn == nil {
		r.Fatalf("C07.R2: objectStatusDirect not found")
	} else {
		sg := []core.Guard{
			core.G("not-locked", core.IsFalse, mb+"objectLocked"),
			{Name: "garbage-status-available", Match: func(s core.Site) bool { return s.Name == mb+"inGarbage" }, Comps: []core.Comp{{Result: -1, Kind: core.EqConst, Const: stAvail}}},
			core.G("expired", core.IsTrue, mb+"isExpired"),
		}
		sd := []core.Derived{{Name: "not-locked-or-available-anyway", Alts: [][]string{{"not-locked"}, {"garbage-status-available"}}}}
		core.CheckEffectsFn(p, r2, sfn, core.EffectRule{Guards: sg, Derived: sd, Min: 2, Effect: func(p *core.Prog, in ssa.Instruction) (string, bool) {
			ret, ok := in.(*ssa.Return)
			if !ok {
				return "", false
			}
			if c, ok := intConstOf(ret.Results[0]); ok {
				if c == stAvail {
					return "", false
				}
				return "return-const-nonavailable", true
			}
			return "return-garbage-status", true
		}, Need: func(desc string) []string {
			if desc == "return-const-nonavailable" {
				return []string{"not-locked", "expired"}
			}
			return []string{"not-locked-or-available-anyway"}
		}})
	}
	itfn := p.Func("(*" + mb + "DB).iterateExpired$1")
	if itfn == nil {
		r.Fatalf("C07.R2: iterateExpired closure not found")
	} else {
		core.CheckEffectsFn(p, r2, itfn, core.EffectRule{Guards: []core.Guard{core.G("not-locked", core.IsFalse, mb+"objectLocked")}, Min: 1,
			Effect: func(p *core.Prog, in ssa.Instruction) (string, bool) {
				c, ok := in.(ssa.CallInstruction)
				if !ok || core.CalleeName(c) != "dynamic" {
					return "", false
				}
				if strings.HasSuffix(c.Common().Value.Type().String(), "ExpiredObjectHandler") {
					return "expired-handler", true
				}
				return "", false
			}})
	}
	// ---- R5 lock lookup
	r5 := r.Rule("C07.R5", "the lock lookup ends its search only at a LIVE object of the wanted type; objectLocked asks for LOCKs at the caller's epoch and ignores removed locks", 4)
	lockLookupRule(p, r, r5, tLock, stAvail)
	// ---- R3 engine
	r3 := r.Rule("C07.R3", "engine.processExpiredObjects deletes only after isLocked said false, or failed (documented exception)", 1)
	if efn := p.Func("(*pkg/local_object_storage/engine.StorageEngine).processExpiredObjects"); efn == nil {
		r.Fatalf("C07.R3: processExpiredObjects not found")
	} else {
		il := func(s core.Site) bool { return s.Name == "(*pkg/local_object_storage/engine.StorageEngine).isLocked" }
		core.CheckEffectsFn(p, r3, efn, core.EffectRule{Min: 1, Guards: []core.Guard{
			{Name: "not-locked", Match: il, Comps: []core.Comp{{Result: 0, Kind: core.IsFalse}}},
			{Name: "lock-check-failed", Match: il, Comps: []core.Comp{{Result: 1, Kind: core.NonNil}}},
		}, Derived: []core.Derived{{Name: "not-locked-or-check-failed", Alts: [][]string{{"not-locked"}, {"lock-check-failed"}}}},
			Effect: core.CallTo("(*pkg/local_object_storage/engine.StorageEngine).processAddrDelete"),
			Need:   func(string) []string { return []string{"not-locked-or-check-failed"} }})
	}
	// ---- R6 the engine-wide lock check asks every shard
	r6 := r.Rule("C07.R6", "StorageEngine.isLocked says 'no lock' only after every shard was asked: the walk over the shards is left early only with 'locked' (a shard that cannot answer does not end it)", 1)
	lockCheckAsksEveryShard(p, r, r6)
	r.Explain += " (R6) the engine-wide lock check walks all shards and leaves the walk early only with the answer 'locked': a shard that fails to answer (no metabase) does not hide a lock another shard knows."
	// ---- R4 callers of deleteObjs
	r4 := r.Rule("C07.R4", "Shard.deleteObjs (physical removal) is called only from Delete, removeGarbage, collectExpiredObjects (expired tombstones) and ReviveObject", 4)
	core.CheckCallers(p, r4, p.FuncsIn("pkg/local_object_storage/..."), []core.CallerRule{{Sink: "(*pkg/local_object_storage/shard.Shard).deleteObjs", MinSites: 4, Allowed: map[string]string{
		"(*pkg/local_object_storage/shard.Shard).Delete":                "operator / engine request (force)",
		"(*pkg/local_object_storage/shard.Shard).removeGarbage":         "objects the metabase lists as garbage (marked, tombstoned, dead container)",
		"(*pkg/local_object_storage/shard.Shard).collectExpiredObjects": "expired TOMBSTONE objects only (R4b)",
		"(*pkg/local_object_storage/shard.Shard).ReviveObject":          "removes the tombstone being reverted",
	}}})
	// R4b: in collectExpiredObjects' iterator callback only TypeTombstone goes to the bins given to deleteObjs
	if cb := p.Func("(*pkg/local_object_storage/shard.Shard).collectExpiredObjects$1"); cb == nil {
		r.Fatalf("C07.R4: collectExpiredObjects callback not found")
	} else {
		tTomb, _ := p.ConstInt("github.com/nspcc-dev/neofs-sdk-go/object.TypeTombstone")
		g := core.Guard{Name: "type-is-tombstone", Comps: []core.Comp{{Result: -1, Kind: core.IsTrue}}, Value: func(fn *ssa.Function, v ssa.Value) bool {
			bo, ok := v.(*ssa.BinOp)
			if !ok || bo.Op != token.EQL {
				return false
			}
			k, isK := intConstOf(bo.Y)
			return isK && k == tTomb && core.ParamIndex(fn, bo.X) == 1
		}}
		core.CheckEffectsFn(p, r4, cb, core.EffectRule{Guards: []core.Guard{g}, Min: 1, Effect: func(p *core.Prog, in ssa.Instruction) (string, bool) {
			st, ok := in.(*ssa.Store)
			if !ok {
				return "", false
			}
			if fv, ok := st.Addr.(*ssa.FreeVar); ok && fv.Name() == "tombBins" {
				return "append-to-tombBins", true
			}
			if fa, ok := st.Addr.(*ssa.FieldAddr); ok && core.FieldAddrName(fa) == "("+mb+"TrashBin).Objects" {
				return "append-to-tombBins", true
			}
			return "", false
		}})
	}
}

func intConstOf(v ssa.Value) (int64, bool) {
	c, ok := v.(*ssa.Const)
	if !ok || c.Value == nil || c.Value.Kind().String() != "Int" {
		return 0, false
	}
	return c.Int64(), true
}

// lockLookupRule: shared by C07.R5 and C01.R5.
func lockLookupRule(p *core.Prog, r *core.Report, r5 *core.RuleH, tLock, stAvail int64) {
	// the generic lookup skips expired associates only when some caller asks at a real epoch (today every caller passes 0:
	// tombstones never expire for this purpose), so the liveness clause is demanded only then
	epochMatters := false
	for _, s := range core.CallSites(p.Funcs(), func(s core.Site) bool { return s.Name == mb+"associatedWithTypedObject" }) {
		if a := s.Call.Common().Args; len(a) > 0 {
			if z, isZ := intConstOf(a[0]); !isZ || z != 0 {
				epochMatters = true
			}
		}
	}
	if yfn := p.Func(mb + "associatedWithTypedObject$1"); yfn == nil {
		r.Fatalf("C07.R5: associatedWithTypedObject range body not found")
	} else {
		isEpochLoad := func(v ssa.Value) bool {
			u, ok := v.(*ssa.UnOp)
			if !ok || u.Op != token.MUL {
				return false
			}
			fv, ok := u.X.(*ssa.FreeVar)
			return ok && fv.Name() == "currEpoch"
		}
		yg := []core.Guard{
			core.G("is-wanted-type", core.IsTrue, mb+"isObjectType"),
			core.G("not-expired", core.IsFalse, mb+"isExpired"),
			{Name: "expiry-ignored", Comps: []core.Comp{{Result: -1, Kind: core.IsFalse}}, Value: func(_ *ssa.Function, v ssa.Value) bool {
				bo, ok := v.(*ssa.BinOp)
				if !ok {
					return false
				}
				z, isZ := intConstOf(bo.Y)
				return bo.Op == token.GTR && isEpochLoad(bo.X) && isZ && z == 0
			}},
		}
		yd := []core.Derived{{Name: "live", Alts: [][]string{{"not-expired"}, {"expiry-ignored"}}}}
		core.CheckEffectsFn(p, r5, yfn, core.EffectRule{Guards: yg, Derived: yd, Min: 1, Effect: func(p *core.Prog, in ssa.Instruction) (string, bool) {
			ret, ok := in.(*ssa.Return)
			if !ok || len(ret.Results) != 1 {
				return "", false
			}
			if c, ok := ret.Results[0].(*ssa.Const); ok {
				if b, isB := constBool(c); isB && !b {
					return "stop-iteration", true
				}
				return "", false
			}
			return "stop-iteration?", true
		}, Need: func(string) []string {
			if !epochMatters {
				return []string{"is-wanted-type"}
			}
			return []string{"is-wanted-type", "live"}
		}})
	}
	lfn := p.Func(mb + "objectLocked")
	if lfn == nil {
		r.Fatalf("C07.R5: objectLocked not found")
		return
	}
	if body := p.Func(mb + "objectLocked$1"); body != nil {
		// objectLocked walks the associated objects itself: the walk ends only at a LOCK that is live and not removed
		isEpochLoad := func(v ssa.Value) bool {
			u, ok := v.(*ssa.UnOp)
			if !ok || u.Op != token.MUL {
				return false
			}
			fv, ok := u.X.(*ssa.FreeVar)
			if !ok {
				return false
			}
			rv := core.ResolveFreeVar(fv)
			return rv != nil && core.ParamIndex(lfn, rv) == 0
		}
		ofCandidate := func(c ssa.CallInstruction, i int) bool {
			a := c.Common().Args
			return len(a) > i && len(body.Params) == 1 && a[i] == ssa.Value(body.Params[0])
		}
		bg := []core.Guard{
			{Name: "is-lock", Match: func(s core.Site) bool {
				if s.Name != mb+"isObjectType" || !ofCandidate(s.Call, 1) {
					return false
				}
				k, isK := intConstOf(s.Call.Common().Args[2])
				return isK && k == tLock
			}, Comps: []core.Comp{{Result: -1, Kind: core.IsTrue}}},
			{Name: "not-expired", Match: func(s core.Site) bool {
				return s.Name == mb+"isExpired" && ofCandidate(s.Call, 1) && isEpochLoad(s.Call.Common().Args[2])
			}, Comps: []core.Comp{{Result: -1, Kind: core.IsFalse}}},
			{Name: "expiry-ignored", Comps: []core.Comp{{Result: -1, Kind: core.IsFalse}}, Value: func(_ *ssa.Function, v ssa.Value) bool {
				bo, ok := v.(*ssa.BinOp)
				if !ok {
					return false
				}
				z, isZ := intConstOf(bo.Y)
				return bo.Op == token.GTR && isEpochLoad(bo.X) && isZ && z == 0
			}},
			{Name: "lock-not-removed", Match: func(s core.Site) bool { return s.Name == mb+"inGarbage" && ofCandidate(s.Call, 1) },
				Comps: []core.Comp{{Result: -1, Kind: core.EqConst, Const: stAvail}}},
		}
		bd := []core.Derived{{Name: "live", Alts: [][]string{{"not-expired"}, {"expiry-ignored"}}}}
		core.CheckEffectsFn(p, r5, body, core.EffectRule{Guards: bg, Derived: bd, Min: 1, Effect: func(p *core.Prog, in ssa.Instruction) (string, bool) {
			ret, ok := in.(*ssa.Return)
			if !ok || len(ret.Results) != 1 {
				return "", false
			}
			if c, ok := ret.Results[0].(*ssa.Const); ok {
				if b, isB := constBool(c); isB && !b {
					return "stop-iteration", true
				}
				return "", false
			}
			return "stop-iteration?", true
		}, Need: func(string) []string { return []string{"is-lock", "live", "lock-not-removed"} }})
		// the walk is over the objects associated with the asked id
		its := core.CallSites([]*ssa.Function{lfn}, func(s core.Site) bool { return s.Name == mb+"iterAttrVal" })
		for _, s := range its {
			a := s.Call.Common().Args
			r5.Check(len(a) == 3 && core.RootParam(lfn, a[2]) == 2, core.FuncName(lfn)+"#lookup-args", p.InstrPos(s.Call),
				"walks the objects associated with the asked id", "objectLocked does not walk the associates of its own id")
		}
		if len(its) == 0 {
			r5.Bad(core.FuncName(lfn)+"#lookup-args", p.Pos(lfn.Pos()), "objectLocked walks nothing")
		}
		// and answers true only through the walk
		for _, b := range lfn.Blocks {
			ret, ok := b.Instrs[len(b.Instrs)-1].(*ssa.Return)
			if !ok || len(ret.Results) != 1 {
				continue
			}
			if c, isC := ret.Results[0].(*ssa.Const); isC {
				bv, _ := constBool(c)
				r5.Check(!bv, core.FuncName(lfn)+"#return-const", p.InstrPos(ret), "answers false when the walk found nothing", "objectLocked answers true without having found a lock")
			}
		}
		return
	}
	{
		sites := core.CallSites([]*ssa.Function{lfn}, func(s core.Site) bool { return s.Name == mb+"associatedWithTypedObject" })
		if len(sites) > 0 {
			// the lookup ends at the first live LOCK whether or not that lock is removed, so asking afterwards whether
			// the one it returned is removed lets a removed lock hide the live ones behind it
			r5.Bad(core.FuncName(lfn)+"#first-lock-only", p.InstrPos(sites[0].Call), "objectLocked takes the first live lock the generic lookup returns and only then asks whether that lock is removed: a force-removed lock that sorts first hides every other live lock of the object")
		}
		for _, s := range sites {
			a := s.Call.Common().Args
			if len(a) != 4 {
				r5.Bad(core.FuncName(lfn)+"#lookup-args", p.InstrPos(s.Call), "objectLocked no longer passes (epoch, cursor, id, LOCK) to the lookup: the lookup cannot skip expired locks at the caller's epoch")
				continue
			}
			tc, isC := intConstOf(a[3])
			r5.Check(core.ParamIndex(lfn, a[0]) == 0 && core.ParamIndex(lfn, a[2]) == 2 && isC && tc == tLock, core.FuncName(lfn)+"#lookup-args", p.InstrPos(s.Call),
				"looks for LOCK objects of the given id at the caller's epoch", "objectLocked does not look for LOCKs of its own id at its own epoch")
		}
		if len(sites) == 0 {
			r5.Bad(core.FuncName(lfn)+"#lookup-args", p.Pos(lfn.Pos()), "objectLocked no longer uses associatedWithTypedObject")
		}
		// returns true only if found and the lock itself is available
		lg := []core.Guard{
			{Name: "lock-found", Match: func(s core.Site) bool { return s.Name == mb+"associatedWithTypedObject" }, Comps: []core.Comp{{Result: 0, Kind: core.IsTrue}}},
			core.Never("returns-whether-the-lock-itself-is-available"),
		}
		core.CheckEffectsFn(p, r5, lfn, core.EffectRule{Guards: lg, Min: 1, Effect: func(p *core.Prog, in ssa.Instruction) (string, bool) {
			ret, ok := in.(*ssa.Return)
			if !ok {
				return "", false
			}
			if c, ok := ret.Results[0].(*ssa.Const); ok {
				if b, isB := constBool(c); isB && !b {
					return "", false
				}
				return "return-true", true
			}
			// must be `inGarbage(cursor, lockID) == statusAvailable`
			bo, ok := ret.Results[0].(*ssa.BinOp)
			if ok && bo.Op == token.EQL {
				if c, isC := bo.X.(*ssa.Call); isC && core.CalleeName(c) == mb+"inGarbage" {
					if k, isK := intConstOf(bo.Y); isK && k == stAvail {
						return "return-lock-available", true
					}
				}
			}
			return "return-unrecognised", true
		}, Need: func(desc string) []string {
			if desc == "return-lock-available" {
				return []string{"lock-found"}
			}
			return []string{"lock-found", "returns-whether-the-lock-itself-is-available"}
		}})
	}
}

// lockCheckAsksEveryShard: shared by C07.R6 and C08.R6. In StorageEngine.isLocked every return whose first result is
// not the constant true is reached from the per-shard call only through the loop header (i.e. after the walk ended).
func lockCheckAsksEveryShard(p *core.Prog, r *core.Report, h *core.RuleH) {
	fn := p.Func("(*pkg/local_object_storage/engine.StorageEngine).isLocked")
	if fn == nil {
		r.Fatalf("%s: StorageEngine.isLocked not found", h.ID())
		return
	}
	name := core.FuncName(fn)
	asks := core.CallSites([]*ssa.Function{fn}, func(s core.Site) bool { return strings.HasSuffix(s.Name, "shard.Shard).IsLocked") })
	if len(asks) != 1 {
		h.Bad(name+"#walk", p.Pos(fn.Pos()), fmt.Sprintf("expected one per-shard IsLocked call, found %d", len(asks)))
		return
	}
	cb := asks[0].Call.Block()
	var hdr *ssa.BasicBlock
	for _, b := range fn.Blocks {
		if !b.Dominates(cb) {
			continue
		}
		for _, pr := range b.Preds {
			if b.Dominates(pr) && (hdr == nil || hdr.Dominates(b)) {
				hdr = b
			}
		}
	}
	if hdr == nil || !inCycle(cb) {
		h.Bad(name+"#walk", p.InstrPos(asks[0].Call), "the per-shard lock question is not asked in a loop over the shards")
		return
	}
	n := 0
	for _, b := range fn.Blocks {
		ret, ok := b.Instrs[len(b.Instrs)-1].(*ssa.Return)
		if !ok || len(ret.Results) != 2 {
			continue
		}
		if c, isC := ret.Results[0].(*ssa.Const); isC {
			if bv, isB := constBool(c); isB && bv {
				continue
			}
		}
		n++
		early := b == cb || reachesAvoiding(cb, b, map[*ssa.BasicBlock]bool{hdr: true}, nil)
		h.Check(!early, name+"#no-lock-answer", p.InstrPos(ret), "given only after the walk over the shards ended",
			"StorageEngine.isLocked answers 'no lock' (or gives up) in the middle of the walk: shards are visited in random order, so a shard that cannot answer hides a lock a healthy shard knows and expired objects handling removes the locked object")
	}
	if n == 0 {
		h.Bad(name+"#no-lock-answer", p.Pos(fn.Pos()), "no 'not locked' return found")
	}
}

// tombstoneRefusedWhileLocked: shared by C07.R1 and C08.R7.
func tombstoneRefusedWhileLocked(p *core.Prog, r *core.Report, r1 *core.RuleH, tLock, stTomb int64) {
	hfn := p.Func(mb + "handleObjectWithAssociation")
	if hfn == nil {
		r.Fatalf("%s: handleObjectWithAssociation not found", r1.ID())
		return
	}
	fetch := func(s core.Site) bool { return s.Name == mb+"fetchTypeForID" }
	guards := []core.Guard{
		core.G("target-not-locked", core.IsFalse, mb+"objectLocked"),
		{Name: "target-type-unknown", Match: fetch, Comps: []core.Comp{{Result: 1, Kind: core.NonNil}}},
		{Name: "target-type-not-lock", Match: fetch, Comps: []core.Comp{{Result: 0, Kind: core.NeConst, Const: tLock}}},
		{Name: "target-not-tombstoned", Match: func(s core.Site) bool { return s.Name == mb+"objectStatus" }, Comps: []core.Comp{{Result: -1, Kind: core.NeConst, Const: stTomb}}},
	}
	stExp, okE := p.ConstInt(mb + "statusExpired")
	if !okE {
		r.Fatalf("%s: statusExpired not found", r1.ID())
		return
	}
	guards = append(guards,
		core.Guard{Name: "target-not-expired", Match: func(s core.Site) bool { return s.Name == mb+"objectStatus" }, Comps: []core.Comp{{Result: -1, Kind: core.NeConst, Const: stExp}}},
		core.Guard{Name: "target-has-no-tombstone", Match: func(s core.Site) bool { return s.Name == mb+"inGarbage" }, Comps: []core.Comp{{Result: -1, Kind: core.NeConst, Const: stTomb}}},
	)
	der := []core.Derived{{Name: "target-is-not-a-lock", Alts: [][]string{{"target-type-unknown"}, {"target-type-not-lock"}}},
		// the status of an expired object says 'expired' whether or not it also has a tombstone
		{Name: "no-tombstone-hidden-by-expiry", Alts: [][]string{{"target-not-expired"}, {"target-has-no-tombstone"}}}}
	storeField := func(in ssa.Instruction, field string) bool {
		st, ok := in.(*ssa.Store)
		if !ok {
			return false
		}
		fa, ok := st.Addr.(*ssa.FieldAddr)
		return ok && core.FieldAddrName(fa) == field
	}
	core.CheckEffectsFn(p, r1, hfn, core.EffectRule{Guards: guards, Derived: der, Min: 3, Effect: func(p *core.Prog, in ssa.Instruction) (string, bool) {
		if c, ok := in.(ssa.CallInstruction); ok && core.CalleeName(c) == "(*github.com/nspcc-dev/bbolt.Bucket).Put" {
			return "garbage-mark", true
		}
		if storeField(in, "("+mb+"CountersDiff).TS") {
			return "diff.TS", true
		}
		if storeField(in, "("+mb+"CountersDiff).Lock") {
			return "diff.Lock", true
		}
		return "", false
	}, Need: func(desc string) []string {
		if desc == "diff.Lock" {
			return []string{"target-not-tombstoned", "no-tombstone-hidden-by-expiry"}
		}
		return []string{"target-not-locked", "target-is-not-a-lock"}
	}})
	// objectLocked in that function must be asked about the current epoch and the tombstone's target
	for _, s := range core.CallSites([]*ssa.Function{hfn}, func(s core.Site) bool { return s.Name == mb+"objectLocked" }) {
		a := s.Call.Common().Args
		r1.Check(core.ParamIndex(hfn, a[0]) == 2, core.FuncName(hfn)+"#objectLocked#epoch-arg", p.InstrPos(s.Call), "lock liveness is judged at the put's current epoch", "objectLocked is not called with the function's currEpoch")
	}

}
