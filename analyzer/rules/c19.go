package rules

import (
	"strings"

	"golang.org/x/tools/go/ssa"

	"verif/analyzer/core"
)

// C19 — evacuation keeps every available object available on the remaining shards (structure).
func init() {
	register(&Check{ID: "C19", Level: "other", Pkgs: []string{"./pkg/local_object_storage/engine", "./pkg/local_object_storage/metabase"}, Run: runC19})
}

const engT = "(*pkg/local_object_storage/engine.StorageEngine)."

func runC19(p *core.Prog, r *core.Report) {
	r.Explain = "Decides, on all CFG paths of StorageEngine.Evacuate: (R1) the shard being drained is only listed and read (ListWithCursor, Get) — nothing that mutates it is called on it; (R2) every listed address leaves the per-object loop through exactly the accounted outcomes: moved (putToShard nil), already present on the target (errExists), handed to the fault handler with a nil result, or — only when the caller asked to ignore errors — unreadable; no other path reaches the next object, and Evacuate returns nil only after the loop over all drained shards; (R3) a shard is used as a target only after a membership test against the WHOLE set of shards being evacuated said 'not a member' (a target that is itself being drained would swallow the copy or answer 'exists' and the object would be lost with it); (R4) evacuation starts only if every named shard is read-only. Not covered: byte identity of moved objects, lock/tombstone semantics on the target shard (C07/C08), shards changing mode during evacuation."
	ev := p.Func(engT + "Evacuate")
	if ev == nil {
		r.Fatalf("C19: Evacuate not found")
		return
	}
	const shardT2 = "(*pkg/local_object_storage/shard.Shard)."
	// the drained shard value: result of a lookup in a map[string]*shard.Shard / element of a []*shard.Shard (not a shardWrapper)
	isDrained := func(v ssa.Value) bool {
		v = core.Unwrap(v)
		if v.Type().String() != "*github.com/nspcc-dev/neofs-node/pkg/local_object_storage/shard.Shard" {
			return false
		}
		switch x := v.(type) {
		case *ssa.Lookup:
			return true
		case *ssa.Extract:
			_, isLk := x.Tuple.(*ssa.Lookup)
			_, isNext := x.Tuple.(*ssa.Next)
			return isLk || isNext
		case *ssa.UnOp:
			_, isIdx := x.X.(*ssa.IndexAddr)
			return isIdx
		case *ssa.Phi:
			return true
		}
		return false
	}
	// ---------------- R1
	r1 := r.Rule("C19.R1", "the shard being drained is only listed and read", 2)
	allowed := map[string]bool{shardT2 + "ListWithCursor": true, shardT2 + "Get": true, shardT2 + "ID": true, shardT2 + "GetMode": true}
	nDr := 0
	for _, s := range core.CallSites([]*ssa.Function{ev}, func(s core.Site) bool { return strings.HasPrefix(s.Name, shardT2) }) {
		a := core.Args(s.Call)
		if len(a) == 0 || !isDrained(a[0]) {
			continue
		}
		nDr++
		r1.Check(allowed[s.Name], core.FuncName(ev)+"#drained."+strings.TrimPrefix(s.Name, shardT2), p.InstrPos(s.Call), "read-only use of the drained shard", "the shard being evacuated is modified during evacuation by "+s.Name)
	}
	if nDr < 2 {
		r.Fatalf("C19.R1: %d calls on the drained shard found, expected ListWithCursor and Get", nDr)
	}
	// ---------------- R3 target membership test
	r3 := r.Rule("C19.R3", "a shard becomes a target only after a membership test against the whole evacuated set said no", 2)
	notMember := []core.Guard{
		{Name: "not-in-evacuated-set(map)", Comps: []core.Comp{{Result: -1, Kind: core.IsFalse}}, Value: func(_ *ssa.Function, v ssa.Value) bool {
			ex, ok := v.(*ssa.Extract)
			if !ok || ex.Index != 1 {
				return false
			}
			lk, ok := ex.Tuple.(*ssa.Lookup)
			return ok && lk.CommaOk
		}},
		core.G("not-in-evacuated-set(slice)", core.IsFalse, "slices.Contains", "slices.ContainsFunc", "slices.Index"),
	}
	core.CheckEffectsFn(p, r3, ev, core.EffectRule{Min: 1, Guards: notMember, Derived: []core.Derived{{Name: "target-is-not-being-evacuated", Alts: [][]string{{"not-in-evacuated-set(map)"}, {"not-in-evacuated-set(slice)"}}}},
		Need: func(string) []string { return []string{"target-is-not-being-evacuated"} }, Effect: core.CallTo(engT + "putToShard")})
	// the set is filled from ALL requested ids: a MapUpdate / append inside a loop over the id list, before the main loop
	filled := false
	for _, b := range ev.Blocks {
		for _, in := range b.Instrs {
			if mu, ok := in.(*ssa.MapUpdate); ok && strings.HasSuffix(mu.Map.Type().String(), "shard.Shard") {
				// key is an element of the id-string list
				if u, isU := mu.Key.(*ssa.UnOp); isU {
					if _, isIdx := u.X.(*ssa.IndexAddr); isIdx {
						filled = true
					}
				}
			}
		}
	}
	r3.Check(filled, core.FuncName(ev)+"#evacuated-set", p.Pos(ev.Pos()), "the set is keyed by every requested shard id", "the evacuated set is no longer filled from every requested shard id")

	evacuationAccountsEveryObject(p, r, "C19.R2")
	// ---------------- R4 precondition
	r5 := r.Rule("C19.R5", "an object counts as moved only where it becomes readable: putToShard stores only after the target shard's Exists answered (false, nil) (shared with C20.R6)", 1)
	putOnlyWhereAbsent(p, r, r5)
	r6 := r.Rule("C19.R6", "the listing Evacuate enumerates the source shard with leaves an object out only because inGarbage says it is not available (a redundant-copy mark still is) AND no live lock overrides that, or its type is unknown: every other path through the loop body appends it", 1)
	listingSkipsOnlyUnavailable(p, r, r6)
	r4 := r.Rule("C19.R4", "evacuation proceeds only if every named shard is read-only", 1)
	ro := core.G("shard-read-only", core.IsTrue, "(pkg/local_object_storage/shard/mode.Mode).ReadOnly")
	gfr := core.Flow(ev, []core.Guard{ro})
	// the loop that checks modes: its back edges need the fact
	roSites := core.CallSites([]*ssa.Function{ev}, ro.Match)
	if len(roSites) == 0 {
		r4.Bad(core.FuncName(ev)+"#read-only-precondition", p.Pos(ev.Pos()), "Evacuate no longer checks that the shards are read-only")
	}
	for _, s := range roSites {
		var h2 *ssa.BasicBlock
		for _, h := range ev.Blocks {
			for _, pr := range h.Preds {
				if h.Dominates(pr) && h.Dominates(s.Call.Block()) && reaches(s.Call.Block(), h) {
					h2 = h
				}
			}
		}
		if h2 == nil {
			r4.Bad(core.FuncName(ev)+"#read-only-precondition", p.InstrPos(s.Call), "the read-only check is not inside a loop over the requested shards")
			continue
		}
		good := true
		for _, pr := range h2.Preds {
			if h2.Dominates(pr) && !gfr.Passed(gfr.OnEdge(pr, h2), 0) {
				good = false
			}
		}
		r4.Check(good, core.FuncName(ev)+"#read-only-precondition", p.InstrPos(s.Call), "the check loop advances only past read-only shards", "the precondition loop moves on past a shard that is not read-only")
	}
	// ---------------- R7 a shard that cannot be listed is refused, not 'done'
	r7 := r.Rule("C19.R7", "Evacuate treats only the end-of-listing error of the source shard's listing as 'this shard is done'; any other listing error (a shard without metabase in particular) fails the evacuation", 1)
	nIs := 0
	for _, ls := range core.CallSites([]*ssa.Function{ev}, func(s core.Site) bool { return strings.HasSuffix(s.Name, "shard.Shard).ListWithCursor") }) {
		v := ls.Call.Value()
		if v == nil || v.Referrers() == nil {
			continue
		}
		for _, ref := range *v.Referrers() {
			ex, ok := ref.(*ssa.Extract)
			if !ok || ex.Type().String() != "error" || ex.Referrers() == nil {
				continue
			}
			for _, u := range *ex.Referrers() {
				c, isC := u.(*ssa.Call)
				if !isC || core.CalleeName(c) != "errors.Is" {
					continue
				}
				nIs++
				tgt := core.ErrTargetName(c.Call.Args[1])
				r7.Check(strings.HasSuffix(tgt, "ErrEndOfListing"), core.FuncName(ev)+"#listing-error-is-"+tgt[strings.LastIndex(tgt, ".")+1:], p.InstrPos(c), "the end of the listing", "a listing error other than the end of the listing ("+tgt+") is accepted as 'nothing more to move': Evacuate reports success for a shard it could not list, and the objects the engine still serves from it are lost with the shard")
			}
		}
	}
	if nIs == 0 {
		r.Fatalf("C19.R7: the listing error is not classified with errors.Is in Evacuate")
	}
	// ---------------- R8 the target's 'is it there?' answer does not hide a pending mark
	r8 := r.Rule("C19.R8", "the metabase existence test putToShard relies on (R5) answers a GC-marked, tombstoned or expired id with the matching error, never with a plain 'absent': the put path does not clear marks, so an object written over a stale garbage mark is invisible at once and collected later, while Evacuate counts it as moved (shared with C01.R3)", 3)
	if ex := p.Func(mbDB + "exists"); ex == nil {
		r.Fatalf("C19.R8: DB.exists not found")
	} else {
		statusSwitchMapping(p, r8, ex)
	}
	r.Explain += " (R8) DB.exists maps every non-available status of the asked id to its error (a stale garbage mark without an object record included); putToShard then refuses the shard and Evacuate goes on to the next one or to the fault handler."
}

// evacuationAccountsEveryObject: shared by C19.R2 and C08.R4.
func evacuationAccountsEveryObject(p *core.Prog, r *core.Report, ruleID string) {
	ev := p.Func(engT + "Evacuate")
	if ev == nil {
		r.Fatalf("%s: Evacuate not found", ruleID)
		return
	}
	const shardT2 = "(*pkg/local_object_storage/shard.Shard)."
	// ---------------- R2 accounted outcomes
	r2 := r.Rule(ruleID, "every listed object — whatever its type: a LOCK must follow the object it protects — leaves the per-object loop through an accounted outcome; nil only after all drained shards", 3)
	getS := func(s core.Site) bool { return s.Name == shardT2+"Get" }
	putS := func(s core.Site) bool { return s.Name == engT+"putToShard" }
	fh := func(s core.Site) bool {
		return s.Name == "dynamic" && core.ParamIndex(ev, s.Call.Common().Value) == 4
	}
	gs := []core.Guard{
		{Name: "moved", Match: putS, Comps: []core.Comp{{Result: -1, Kind: core.ErrNil}}},
		{Name: "already-on-target", Match: putS, Comps: []core.Comp{{Result: -1, Kind: core.ErrIs, Accept: []string{"pkg/local_object_storage/engine.errExists"}}}},
		{Name: "fault-handler-took-it", Match: fh, Comps: []core.Comp{{Result: -1, Kind: core.ErrNil}}},
		{Name: "unreadable", Match: getS, Comps: []core.Comp{{Result: 1, Kind: core.NonNil}}},
		{Name: "caller-ignores-errors", Comps: []core.Comp{{Result: -1, Kind: core.IsTrue}}, Pure: true, Value: func(fn *ssa.Function, v ssa.Value) bool { return core.ParamIndex(fn, v) == 3 }},
	}
	der := []core.Derived{{Name: "accounted", Alts: [][]string{{"moved"}, {"already-on-target"}, {"fault-handler-took-it"}, {"unreadable", "caller-ignores-errors"}}}}
	gf := core.Flow(ev, gs, der...)
	gets := core.CallSites([]*ssa.Function{ev}, getS)
	if len(gets) != 1 {
		r.Fatalf("C19.R2: %d Get calls on shards in Evacuate, expected 1", len(gets))
		return
	}
	gb := gets[0].Call.Block()
	// innermost loop header containing the Get call
	var hdr *ssa.BasicBlock
	for _, h := range ev.Blocks {
		back := false
		for _, pr := range h.Preds {
			if h.Dominates(pr) {
				back = true
			}
		}
		if back && h.Dominates(gb) && reaches(gb, h) {
			if hdr == nil || hdr.Dominates(h) {
				hdr = h
			}
		}
	}
	if hdr == nil {
		r2.Bad(core.FuncName(ev)+"#per-object-loop", p.Pos(ev.Pos()), "no loop around the per-object Get found")
	} else {
		for _, pr := range hdr.Preds {
			if !hdr.Dominates(pr) {
				continue
			}
			r2.Check(gf.DerivedPassed(gf.OnEdge(pr, hdr), "accounted"), core.FuncName(ev)+"#next-object", p.InstrPos(pr.Instrs[len(pr.Instrs)-1]),
				"the next object is taken only after an accounted outcome", "a path reaches the next listed object although the current one was neither moved, found on the target, taken by the fault handler, nor unreadable with ignoreErrors: the object is skipped silently")
		}
	}
	// success return only after the outermost loop
	var outer *ssa.BasicBlock
	for _, h := range ev.Blocks {
		back := false
		for _, pr := range h.Preds {
			if h.Dominates(pr) {
				back = true
			}
		}
		if back && h.Dominates(gb) && (outer == nil || h.Dominates(outer)) {
			outer = h
		}
	}
	mr := core.NewMemReach(ev)
	for _, b := range ev.Blocks {
		ret, ok := b.Instrs[len(b.Instrs)-1].(*ssa.Return)
		if !ok {
			continue
		}
		v := mr.Canon(ret.Results[1])
		if c, isC := v.(*ssa.Const); isC && c.IsNil() {
			r2.Check(outer != nil && outer.Dominates(b) && !reaches(b, outer), core.FuncName(ev)+"#return-nil", p.InstrPos(ret), "success only after the loop over all drained shards", "Evacuate reports success from inside the evacuation loops")
		}
	}
}

// listingSkipsOnlyUnavailable: see C19.R6.
func listingSkipsOnlyUnavailable(p *core.Prog, r *core.Report, h *core.RuleH) {
	stAvail, _ := p.ConstInt(mb + "statusAvailable")
	sel := p.Func(mb + "selectNFromBucket")
	if sel == nil {
		r.Fatalf("%s: selectNFromBucket not found", h.ID())
		return
	}
	var body *ssa.Function
	for _, a := range sel.AnonFuncs {
		for _, b := range a.Blocks {
			for _, in := range b.Instrs {
				if storeToFreeVar(in, "to") {
					body = a
				}
			}
		}
	}
	if body == nil {
		h.Bad(core.FuncName(sel)+"#loop-body", p.Pos(sel.Pos()), "the listing loop body that appends to the result was not found")
		return
	}
	gs := []core.Guard{
		{Name: "appended", Comps: []core.Comp{{Result: -1, Kind: core.Executed}}, Instr: func(in ssa.Instruction) bool { return storeToFreeVar(in, "to") }},
		{Name: "status-says-not-available", Comps: []core.Comp{{Result: -1, Kind: core.NeConst, Const: stAvail}}, Match: func(s core.Site) bool {
			return s.Name == mb+"inGarbage" && core.ParamIndex(body, s.Call.Common().Args[1]) == 0
		}},
		{Name: "type-unknown", Comps: []core.Comp{{Result: 1, Kind: core.NonNil}}, Match: func(s core.Site) bool {
			return s.Name == mb+"fetchTypeForIDWBuf" || s.Name == mb+"fetchTypeForID"
		}},
		{Name: "no-live-lock", Comps: []core.Comp{{Result: -1, Kind: core.IsFalse}}, Match: func(s core.Site) bool { return s.Name == mb+"objectLocked" }},
	}
	n := core.CheckEffectsFn(p, h, body, core.EffectRule{Guards: gs,
		Derived: []core.Derived{{Name: "listed-or-rightly-skipped", Alts: [][]string{{"appended"}, {"status-says-not-available", "no-live-lock"}, {"type-unknown"}}}},
		Need:    func(string) []string { return []string{"listed-or-rightly-skipped"} },
		Effect: func(_ *core.Prog, in ssa.Instruction) (string, bool) {
			// `continue` in a range-over-func body is `return true`
			switch x := in.(type) {
			case *ssa.Return:
				if len(x.Results) == 1 {
					if c, ok := x.Results[0].(*ssa.Const); ok && c.Value != nil && c.Value.String() == "true" {
						return "next-object", true
					}
				}
			case *ssa.Store:
				// defer-spilled result cell
				if c, ok := x.Val.(*ssa.Const); ok && x.Val.Type().String() == "bool" && c.Value != nil && c.Value.String() == "true" {
					if al, isAl := x.Addr.(*ssa.Alloc); isAl && al.Comment == "" {
						return "next-object", true
					}
				}
			}
			return "", false
		}})
	if n == 0 {
		r.Fatalf("%s: no 'next object' exit found in the listing loop body", h.ID())
	}
}
