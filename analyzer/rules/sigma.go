package rules

import (
	"fmt"
	"go/token"
	"sort"
	"strings"

	"golang.org/x/tools/go/ssa"

	"verif/analyzer/core"
)

// E6 — Σ-invariant. For a struct with a running total (sizeField) and a map
// (mapField), every path through fn must change the total by exactly the change of
// the sum of the map's values: +new−old for m[k]=new, −old for delete(m,k), where old
// is the previous value under k (0 on a path that established k is absent).
//
// The function's effect is extracted symbolically over all acyclic paths: stores to
// the total are expressed as signed sums of leaf terms ("T" = current total, "old(k)" =
// m[k] lookup, other leaves by SSA name); map writes contribute the required delta.

type terms map[string]int

func (t terms) add(o terms, sign int) {
	for k, v := range o {
		t[k] += sign * v
		if t[k] == 0 {
			delete(t, k)
		}
	}
}

func (t terms) String() string {
	var ks []string
	for k := range t {
		ks = append(ks, k)
	}
	sort.Strings(ks)
	var sb strings.Builder
	for _, k := range ks {
		fmt.Fprintf(&sb, "%+d*%s ", t[k], k)
	}
	return strings.TrimSpace(sb.String())
}

func sigmaInvariant(fn *ssa.Function, sizeField, mapField string) (bool, string) {
	isFieldLoad := func(v ssa.Value, f string) bool {
		u, ok := v.(*ssa.UnOp)
		if !ok || u.Op != token.MUL {
			return false
		}
		fa, ok := u.X.(*ssa.FieldAddr)
		return ok && core.FieldAddrName(fa) == f
	}
	keyName := func(v ssa.Value) string { return core.Unwrap(v).Name() }
	var expr func(v ssa.Value, depth int) terms
	expr = func(v ssa.Value, depth int) terms {
		if depth > 12 {
			return terms{"?": 1}
		}
		switch x := v.(type) {
		case *ssa.BinOp:
			if x.Op == token.ADD || x.Op == token.SUB {
				t := terms{}
				t.add(expr(x.X, depth+1), 1)
				s := 1
				if x.Op == token.SUB {
					s = -1
				}
				t.add(expr(x.Y, depth+1), s)
				return t
			}
		case *ssa.Lookup:
			if isFieldLoad(x.X, mapField) && !x.CommaOk {
				return terms{"old(" + keyName(x.Index) + ")": 1}
			}
		case *ssa.Extract:
			if lk, ok := x.Tuple.(*ssa.Lookup); ok && lk.CommaOk && x.Index == 0 && isFieldLoad(lk.X, mapField) {
				return terms{"old(" + keyName(lk.Index) + ")": 1}
			}
		case *ssa.UnOp:
			if isFieldLoad(x, sizeField) {
				return terms{"T": 1}
			}
		case *ssa.Const:
			if x.Value != nil && x.Uint64() == 0 {
				return terms{}
			}
		}
		return terms{v.Name(): 1}
	}
	type pathState struct {
		delta    terms           // accumulated change of the total
		required terms           // accumulated change of the map sum
		absent   map[string]bool // keys known absent on this path
	}
	var fail string
	var walk func(b *ssa.BasicBlock, st pathState, visited map[*ssa.BasicBlock]bool, depth int)
	npaths := 0
	walk = func(b *ssa.BasicBlock, st pathState, visited map[*ssa.BasicBlock]bool, depth int) {
		if fail != "" || visited[b] || depth > 40 {
			return
		}
		visited[b] = true
		defer delete(visited, b)
		for _, in := range b.Instrs {
			switch x := in.(type) {
			case *ssa.Store:
				if fa, ok := x.Addr.(*ssa.FieldAddr); ok && core.FieldAddrName(fa) == sizeField {
					e := expr(x.Val, 0)
					e.add(terms{"T": 1}, -1) // new total − old total
					st.delta.add(e, 1)
				}
			case *ssa.MapUpdate:
				if isMapWrite(x, mapField) != "" {
					k := keyName(x.Key)
					st.required.add(expr(x.Value, 0), 1)
					if !st.absent[k] {
						st.required.add(terms{"old(" + k + ")": 1}, -1)
					}
				}
			case *ssa.Call:
				if isMapWrite(x, mapField) == "delete" {
					k := keyName(x.Call.Args[1])
					if !st.absent[k] {
						st.required.add(terms{"old(" + k + ")": 1}, -1)
					}
				}
			case *ssa.Return:
				npaths++
				// compare, treating old(k) as 0 for keys known absent
				d, q := terms{}, terms{}
				d.add(st.delta, 1)
				q.add(st.required, 1)
				for k := range st.absent {
					delete(d, "old("+k+")")
					delete(q, "old("+k+")")
				}
				d.add(q, -1)
				if len(d) != 0 {
					fail = fmt.Sprintf("on a path of %s the running total changes by [%s] while the sum of the map changes by [%s]", fn.Name(), st.delta, st.required)
				}
				return
			case *ssa.If:
				for i, s := range b.Succs {
					ns := pathState{delta: terms{}, required: terms{}, absent: map[string]bool{}}
					ns.delta.add(st.delta, 1)
					ns.required.add(st.required, 1)
					for k := range st.absent {
						ns.absent[k] = true
					}
					// comma-ok presence test: `_, ok := m[k]; if ok`
					c := x.Cond
					neg := false
					if u, ok := c.(*ssa.UnOp); ok && u.Op == token.NOT {
						c, neg = u.X, true
					}
					if ex, ok := c.(*ssa.Extract); ok && ex.Index == 1 {
						if lk, ok := ex.Tuple.(*ssa.Lookup); ok && lk.CommaOk && isFieldLoad(lk.X, mapField) {
							presentOnTrue := !neg
							if (i == 0) != presentOnTrue {
								ns.absent[keyName(lk.Index)] = true
							}
						}
					}
					walk(s, ns, visited, depth+1)
				}
				return
			}
		}
		for _, s := range b.Succs {
			walk(s, st, visited, depth+1)
		}
	}
	walk(fn.Blocks[0], pathState{delta: terms{}, required: terms{}, absent: map[string]bool{}}, map[*ssa.BasicBlock]bool{}, 0)
	if fail != "" {
		return false, fail
	}
	if npaths == 0 {
		return false, "no complete path analysed"
	}
	return true, ""
}
