package rules

import (
	"go/token"
	"go/types"
	"sort"
	"strings"

	"golang.org/x/tools/go/ssa"

	"verif/analyzer/core"
)

// Shared machinery for the object service (C29, C33, C45).

const objSrv = "(*pkg/services/object.Server)"

// objPrimitiveEffect: calls through which an object RPC handler reads, writes or forwards object data.
func objPrimitiveEffect(in ssa.Instruction) (string, bool) {
	c, ok := in.(ssa.CallInstruction)
	if !ok {
		return "", false
	}
	n := core.CalleeName(c)
	switch {
	case strings.HasPrefix(n, "(pkg/services/object.Handlers)."):
		if n == "(pkg/services/object.Handlers).Put" {
			return "", false // constructs a put stream object; shown effect-free by C29.R4
		}
		return n, true
	case strings.HasPrefix(n, "(pkg/services/object.Storage)."), strings.HasPrefix(n, "(pkg/services/object.sessions)."):
		return n, true
	case strings.HasPrefix(n, "(pkg/services/object.ClientConstructor)."):
		return n, true
	case strings.HasPrefix(n, "(*pkg/services/meta.Meta)."):
		return n, true
	case n == "(*pkg/services/object/put.Streamer).Init", n == "(*pkg/services/object/put.Streamer).SendChunk":
		return n, true
	case n == "(google.golang.org/grpc.ServerStream).SendMsg", n == "(google.golang.org/grpc.Stream).SendMsg":
		return n, true
	case strings.HasPrefix(n, "(pkg/core/client.MultiAddressClient)."), strings.HasPrefix(n, "(pkg/core/client.Client)."):
		return n, true
	case strings.HasPrefix(n, "(github.com/nspcc-dev/neofs-sdk-go/proto/object.ObjectServiceClient)."):
		return n, true
	case strings.HasPrefix(n, "(*google.golang.org/grpc.ClientConn)."), strings.HasPrefix(n, "(google.golang.org/grpc.ClientConnInterface)."):
		return n, true
	case strings.HasPrefix(n, "(github.com/nspcc-dev/neofs-sdk-go/proto/object.ObjectService_") && (strings.HasSuffix(n, ").Send") || strings.HasSuffix(n, ").SendAndClose")):
		return n, true // typed server stream send; status wrappers are cut below
	}
	return "", false
}

// objStatusWrappers: functions of the object server that only build / send a
// status-only response from an error. Effects reached *only* through them are not
// object data effects. (Reason per entry: reads req.MetaHeader and the error, sets MetaHeader.Status.)
var objStatusWrappers = map[string]bool{
	objSrv + ".sendStatusPutResponse":       true,
	objSrv + ".sendStatusGetResponse":       true,
	objSrv + ".sendStatusRangeResponse":     true,
	objSrv + ".makeStatusDeleteResponse":    true,
	objSrv + ".makeStatusHeadResponse":      true,
	objSrv + ".signSearchResponse":          true, // called with a nil body on rejection paths; body non-nil only after processSearchRequest
	objSrv + ".signDeleteResponse":          true,
	objSrv + ".signHeadResponse":            true,
	objSrv + ".makeStatusReplicateResponse": true,
}

// reachesObjEffect: fn (transitively via static calls/closures, not through status wrappers) performs a primitive effect.
func reachesObjEffect(p *core.Prog, fn *ssa.Function) bool {
	if fn == nil || objStatusWrappers[core.FuncName(fn)] {
		return false
	}
	return p.Reaches("objeffect", fn, func(in ssa.Instruction) bool {
		if c, ok := in.(ssa.CallInstruction); ok {
			if cal := core.StaticCallee(c); cal != nil && objStatusWrappers[core.FuncName(cal)] {
				return false
			}
		}
		_, ok := objPrimitiveEffect(in)
		return ok
	})
}

// objEffect is the EffectRule predicate for handler bodies.
func objEffect(p *core.Prog, in ssa.Instruction) (string, bool) {
	if d, ok := objPrimitiveEffect(in); ok {
		return d, true
	}
	switch x := in.(type) {
	case ssa.CallInstruction:
		cal := core.StaticCallee(x)
		if cal == nil {
			return "", false
		}
		name := core.FuncName(cal)
		if objStatusWrappers[name] {
			return "", false
		}
		// the put stream's own close() is judged by C29.R3 (errNotInit before any init)
		if name == "(*pkg/services/object.putStream).close" || name == objSrv+".sendPutResponse" {
			return "", false
		}
		if reachesObjEffect(p, cal) {
			return "call " + name, true
		}
	case *ssa.MakeClosure:
		if reachesObjEffect(p, x.Fn.(*ssa.Function)) {
			return "closure " + core.FuncName(x.Fn.(*ssa.Function)), true
		}
	}
	return "", false
}

// objHandlers enumerates the object service entry points: every method of the generated
// ObjectServiceServer interface implemented by *Server, plus every exported *Server method
// with a parameter of a protoobject *XRequest type (HeadBuffered, SearchV2Buffered).
func objHandlers(p *core.Prog, r *core.Report) []*ssa.Function {
	seen := map[string]bool{}
	var out []*ssa.Function
	for _, m := range p.IfaceMethods("github.com/nspcc-dev/neofs-sdk-go/proto/object.ObjectServiceServer") {
		fn := p.Func(objSrv + "." + m)
		if fn == nil {
			r.Fatalf("object service method %s has no implementation on *object.Server", m)
			continue
		}
		seen[m] = true
		out = append(out, fn)
	}
	// the *Buffered variants cmd/neofs-node installs with replaceUnaryMethodHandler
	for m := range seen {
		if fn := p.Func(objSrv + "." + m + "Buffered"); fn != nil {
			out = append(out, fn)
		}
	}
	sort.Slice(out, func(i, j int) bool { return out[i].Name() < out[j].Name() })
	return out
}

// ownRequest: the guard call's request argument is the handler's own request:
// a parameter of *XRequest type, or (streaming Put) the value just received from the stream.
func ownRequest(mr *core.MemReach, fn *ssa.Function, v ssa.Value) bool {
	v = core.Unwrap(mr.Canon(core.Unwrap(v)))
	if i := core.ParamIndex(fn, v); i >= 0 {
		return strings.HasSuffix(fn.Params[i].Type().String(), "Request")
	}
	if ex, ok := v.(*ssa.Extract); ok && ex.Index == 0 {
		if c, ok := ex.Tuple.(*ssa.Call); ok {
			return strings.HasSuffix(core.CalleeName(c), ".Recv")
		}
	}
	return false
}

func isPtrToNamed(t types.Type, suffix string) bool {
	return strings.HasSuffix(t.String(), suffix)
}

const (
	gSig   = "signature"
	gMaint = "not-in-maintenance"
	gMeta  = "meta-header-and-tokens"
	gInfo  = "request-info"
	gBasic = "basic-acl"
	gStick = "sticky-bit"
	gEACL  = "eacl"
	gSkip  = "request-info-skip"
	dACL   = "access-checks"
)

const errNotMatched = "pkg/services/object/acl/v2.ErrNotMatched"
const errSkipRequest = "pkg/services/object/acl/v2.ErrSkipRequest"

// objGuards builds the guard set for one handler.
func objGuards(fn *ssa.Function) ([]core.Guard, []core.Derived) {
	mr := core.NewMemReach(fn)
	sig := core.Guard{Name: gSig, Comps: []core.Comp{{Result: -1, Kind: core.ErrNil}}, Match: func(s core.Site) bool {
		if !strings.HasPrefix(s.Name, "internal/crypto.VerifyRequestSignatures") {
			return false
		}
		a := s.Call.Common().Args
		return len(a) >= 2 && ownRequest(mr, s.Fn, a[1])
	}}
	maint := core.G(gMaint, core.IsFalse, "(pkg/services/object.FSChain).LocalNodeUnderMaintenance")
	meta := core.G(gMeta, core.ErrNil, objSrv+".handleRequestMetaHeader")
	infoMatch := func(s core.Site) bool {
		return strings.HasPrefix(s.Name, "(pkg/services/object.ACLInfoExtractor).") && strings.HasSuffix(s.Name, "RequestToInfo")
	}
	info := core.Guard{Name: gInfo, Match: infoMatch, Comps: []core.Comp{{Result: -1, Kind: core.ErrNil}}}
	skip := core.Guard{Name: gSkip, Match: infoMatch, Comps: []core.Comp{{Result: -1, Kind: core.ErrIs, Accept: []string{errSkipRequest}}}}
	basic := core.G(gBasic, core.IsTrue, "(pkg/services/object/acl/v2.ACLChecker).CheckBasicACL")
	stick := core.G(gStick, core.IsTrue, "(pkg/services/object/acl/v2.ACLChecker).StickyBitCheck")
	eacl := core.G(gEACL, core.ErrNil, "(pkg/services/object/acl/v2.ACLChecker).CheckEACL").Accepting(errNotMatched)
	guards := []core.Guard{sig, maint, meta, info, skip, basic, stick, eacl}
	var der core.Derived
	if fn.Name() == "Put" {
		// a put may skip ACL only when the info extractor says so (ErrSkipRequest: forwarded
		// request from a container node with an already-checked session)
		der = core.Derived{Name: dACL, Alts: [][]string{{gInfo, gBasic, gStick, gEACL}, {gSkip}}}
	} else {
		der = core.Derived{Name: dACL, Alts: [][]string{{gInfo, gBasic, gEACL}}}
	}
	return guards, []core.Derived{der}
}

// clientOps: handlers that serve client object operations (C45 title) vs node-to-node ones.
var objNonClientOps = map[string]string{
	"Replicate": "node-to-node replication: own signature scheme (C31); docs/maintenance.md: not refused in maintenance",
}

func runObjHandlers(p *core.Prog, r *core.Report, h *core.RuleH, need func(fn *ssa.Function, desc string) []string) {
	for _, fn := range objHandlers(p, r) {
		if _, ok := objNonClientOps[fn.Name()]; ok {
			continue
		}
		guards, der := objGuards(fn)
		n := core.CheckEffectsFn(p, h, fn, core.EffectRule{Guards: guards, Derived: der, Effect: objEffect, Need: func(desc string) []string { return need(fn, desc) }})
		if n == 0 {
			// stubs (Head, Search, SearchV2, GetRangeHash): no effect at all
			h.OKTrivial(core.FuncName(fn)+"#no-effect", p.Pos(fn.Pos()), "handler body contains no effect site (unimplemented / replaced by its Buffered variant)")
		}
	}
}

func init() {
	register(&Check{ID: "C29", Level: "proof", Pkgs: []string{"./pkg/services/object"}, Run: runC29})
	register(&Check{ID: "C45", Level: "proof", Pkgs: []string{"./pkg/services/object", "./cmd/neofs-node"}, Run: runC45})
}

func runC29(p *core.Prog, r *core.Report) {
	r.Explain = "Decides, for every object RPC entry point (enumerated from the generated ObjectServiceServer interface plus the *Buffered variants), that every call that reads, writes or forwards object data (derived: any call that transitively reaches the handlers/storage/client/stream-send primitives, not counting status-only responses) is dominated on all CFG paths by: request signature verification of the handler's own request, meta-header/token validation, request-info extraction, basic ACL (+ sticky bit for Put) and eACL with only ErrNotMatched tolerated; chunk forwarding in the Put stream needs signature verification per message, and the put stream refuses chunks/close before a successful init. Tokens are attached to the request metadata only after their Verify* call succeeded; the V2 session check re-evaluates the token's lifetime against chain time on every request and its cached part is time- and request-independent (R6). Not covered: the semantics of each guard, and the dynamic half (recording fakes)."
	r1 := r.Rule("C29.R1", "every object-data effect in an object RPC handler is dominated by signature, meta-header/token, request-info, basic ACL(+sticky for Put) and eACL guards", 25)
	runObjHandlers(p, r, r1, func(fn *ssa.Function, desc string) []string {
		if strings.HasSuffix(desc, "putStream).forwardChunkRequest") {
			return []string{gSig} // subsequent stream messages: authenticated per message; access was decided at init (R3)
		}
		return []string{gSig, gMeta, dACL}
	})
	// R3: put stream refuses chunk/close before init
	r3 := r.Rule("C29.R3", "putsvc.Streamer.SendChunk/Close reach the target only after the target != nil test; target is assigned only in initTarget", 3)
	for _, m := range []string{"SendChunk", "Close"} {
		fn := p.Func("(*pkg/services/object/put.Streamer)." + m)
		if fn == nil {
			r.Fatalf("C29.R3: Streamer.%s not found", m)
			continue
		}
		// effect: any invoke on the target interface; guard: p.target != nil test — expressed as field load compare
		checkFieldNonNilBeforeUse(p, r3, fn, "(pkg/services/object/put.Streamer).target")
	}
	writers := fieldWriters(p, p.FuncsIn("pkg/services/object/put"), "(pkg/services/object/put.Streamer).target")
	for _, w := range writers {
		r3.Check(w == "(*pkg/services/object/put.Streamer).initTarget", "write:"+w, "-", "target assigned in initTarget", "Streamer.target is assigned outside initTarget")
	}
	if len(writers) == 0 {
		r.Fatalf("C29.R3: no writer of Streamer.target found")
	}
	// R2: late eACL evaluation against the object's header
	r2 := r.Rule("C29.R2", "wherever the deferred eACL re-check flag (getStream.recheckEACL) is consulted, every return and every response send is preceded by: flag false, or CheckEACL on the header passed (ErrNotMatched tolerated); a return may also follow a failed CheckEACL (error propagated)", 6)
	runLateEACL(p, r, r2)
	// R8: the closure holding the deferred check is entered on every way through the heading part of a proxied GET
	r8 := r.Rule("C29.R8", "a function that runs the deferred eACL re-check inside a once-closure (the proxied GET's handleInitResponse) hands every header it accepted to that closure: each return that is not a failure is dominated by the Once.Do call (a payload-only request has its heading message dropped, not its header's eACL evaluation)", 1)
	nOnce := 0
	for _, fn := range p.FuncsIn("pkg/services/object") {
		if fn.Parent() == nil {
			continue
		}
		reads := false
		for _, b := range fn.Blocks {
			for _, in := range b.Instrs {
				if fa, ok := in.(*ssa.FieldAddr); ok && core.FieldAddrName(fa) == "(pkg/services/object.getStream).recheckEACL" {
					reads = true
				}
			}
		}
		if !reads {
			continue
		}
		par := fn.Parent()
		var do ssa.CallInstruction
		for _, s := range core.CallSites([]*ssa.Function{par}, func(s core.Site) bool { return s.Name == "(*sync.Once).Do" }) {
			if mc, ok := s.Call.Common().Args[1].(*ssa.MakeClosure); ok && mc.Fn == fn {
				do = s.Call
			}
		}
		if do == nil {
			continue
		}
		nOnce++
		mr := core.NewMemReach(par)
		for _, b := range par.Blocks {
			ret, ok := b.Instrs[len(b.Instrs)-1].(*ssa.Return)
			if !ok || len(ret.Results) == 0 {
				continue
			}
			last := ret.Results[len(ret.Results)-1]
			if last.Type().String() != "error" || core.KnownNonNil(mr, last, b) || failureThroughCell(last, b) {
				continue
			}
			r8.Check(do.Block().Dominates(b), core.FuncName(par)+"#non-failure-return!header-given-to-recheck", p.InstrPos(ret), "the once-closure with the deferred eACL check was entered", "the heading part of a proxied GET can be accepted without entering the closure that evaluates the deferred eACL against the received header: the payload chunks that follow are relayed with no header-based eACL decision")
		}
	}
	if nOnce == 0 {
		r.Fatalf("C29.R8: no once-closure consulting recheckEACL found")
	}
	// R5: tokens attached only after verification
	r5 := r.Rule("C29.R5", "request tokens are recorded only after the corresponding Verify*TokenMessage returned nil; handleRequestMetaHeader succeeds only if _handleRequestMetaHeader did", 4)
	tokGuards := []core.Guard{
		core.G("VerifySessionTokenMessage", core.ErrNil, "(pkg/services/object.ACLInfoExtractor).VerifySessionTokenMessage"),
		core.G("VerifySessionV1TokenMessage", core.ErrNil, "(pkg/services/object.ACLInfoExtractor).VerifySessionV1TokenMessage"),
		core.G("VerifyBearerTokenMessage", core.ErrNil, "(pkg/services/object.ACLInfoExtractor).VerifyBearerTokenMessage"),
	}
	core.CheckEffects(p, r5, core.EffectRule{Fn: objSrv + "._handleRequestMetaHeader", Guards: tokGuards, Min: 3,
		Effect: func(p *core.Prog, in ssa.Instruction) (string, bool) {
			st, ok := in.(*ssa.Store)
			if !ok {
				return "", false
			}
			fa, ok := st.Addr.(*ssa.FieldAddr)
			if !ok {
				return "", false
			}
			switch core.FieldAddrName(fa) {
			case "(pkg/services/object/acl/v2.RequestTokens).Session", "(pkg/services/object/common.RequestTokens).Session":
				return "store tokens.Session", true
			case "(pkg/services/object/acl/v2.RequestTokens).SessionV1", "(pkg/services/object/common.RequestTokens).SessionV1":
				return "store tokens.SessionV1", true
			case "(pkg/services/object/acl/v2.RequestTokens).Bearer", "(pkg/services/object/common.RequestTokens).Bearer":
				return "store tokens.Bearer", true
			}
			return "", false
		},
		Need: func(desc string) []string {
			switch desc {
			case "store tokens.Session":
				return []string{"VerifySessionTokenMessage"}
			case "store tokens.SessionV1":
				return []string{"VerifySessionV1TokenMessage"}
			}
			return []string{"VerifyBearerTokenMessage"}
		}})
	core.CheckSuccess(p, r5, core.SuccessRule{Fn: objSrv + ".handleRequestMetaHeader", ResultIdx: -1, MinReturns: 1,
		Guards: []core.Guard{core.G("_handleRequestMetaHeader", core.ErrNil, objSrv+"._handleRequestMetaHeader")}})
	// R6: the token validation the handlers rely on re-checks the V2 lifetime on every request
	r7 := r.Rule("C29.R7", "the signature gate at every handler's entry can be skipped only for a request WITHOUT a verification header (TTL 1, authenticated peer): a header that is present always gets verified, because the access check behind it takes the requester's identity from that header (shared with C33.R1)", 2)
	signatureExemptionRule(p, r, r7)
	r.Explain += " (R7, shared with C33.R1) the gate itself: requestNeedsSignature answers 'no' only for a request without a verification header, with a meta header, TTL 1 and an authenticated peer — a header that is present is always verified, since the access check takes the requester's key from it."
	r6 := r.Rule("C29.R6", "the V2 session check behind handleRequestMetaHeader returns nil only after the per-request lifetime and verb checks, and caches nothing request- or time-dependent (shared with C30.R1/R6)", 9)
	sessionV2PerRequestRule(p, r, r6)
	if n := sessionCacheOnMissPurity(p, r6, p.FuncsIn("pkg/services/object/acl/v2")); n < 2 {
		r.Fatalf("C29.R6: expected 2 sessions-cache call sites in acl/v2, found %d", n)
	}
	r.Trusted = append(r.Trusted, "the effect table (objPrimitiveEffect) and the status-wrapper cut list in rules/objsrv.go", "gRPC dispatch reaches only the enumerated methods (cmd/neofs-node replaceUnaryMethodHandler installs HeadBuffered/SearchV2Buffered)")
}

func runC45(p *core.Prog, r *core.Report) {
	r.Explain = "Decides, for every client object RPC entry point (Get, Head/HeadBuffered, GetRange, Put per received message, Delete, Search/SearchV2Buffered; enumerated from the generated interface), that every call that touches local storage or other nodes is dominated on all CFG paths by LocalNodeUnderMaintenance()==false, and that Replicate (node-to-node) does not consult the maintenance flag. (R3) the flag LocalNodeUnderMaintenance answers with has exactly two writers, the operator's start/stop switches, reachable only from the operator's status command — a network-map update or any other event cannot end (or start) maintenance. Not covered: the control service's own authorisation (C32)."
	r1 := r.Rule("C45.R1", "every object-data effect in a client object RPC handler is dominated by LocalNodeUnderMaintenance()==false", 8)
	runObjHandlers(p, r, r1, func(fn *ssa.Function, desc string) []string { return []string{gMaint} })
	r2 := r.Rule("C45.R2", "the maintenance outcome returns a response built from apistatus.ErrNodeUnderMaintenance; Replicate is not refused", 6)
	for _, fn := range objHandlers(p, r) {
		if why, ok := objNonClientOps[fn.Name()]; ok {
			sites := core.CallSites([]*ssa.Function{fn}, func(s core.Site) bool {
				return s.Name == "(pkg/services/object.FSChain).LocalNodeUnderMaintenance"
			})
			r2.Check(len(sites) == 0, core.FuncName(fn)+"#no-maintenance-check", p.Pos(fn.Pos()), why, "non-client operation is refused during maintenance")
			continue
		}
		// every call of LocalNodeUnderMaintenance: its true-edge must lead to a status wrapper fed with ErrNodeUnderMaintenance
		for _, s := range core.CallSites([]*ssa.Function{fn}, func(s core.Site) bool {
			return s.Name == "(pkg/services/object.FSChain).LocalNodeUnderMaintenance"
		}) {
			ok := false
			v := s.Call.Value()
			if v != nil {
				for _, ref := range *v.Referrers() {
					if ifi, isIf := ref.(*ssa.If); isIf {
						tb := ifi.Block().Succs[0]
						for _, in := range tb.Instrs {
							if c, isC := in.(ssa.CallInstruction); isC {
								for _, a := range c.Common().Args {
									if strings.Contains(errTargetNameOf(a), "ErrNodeUnderMaintenance") {
										ok = true
									}
								}
							}
						}
					}
				}
			}
			r2.Check(ok, core.FuncName(fn)+"#maintenance-status", p.InstrPos(s.Call), "maintenance outcome answers with ErrNodeUnderMaintenance", "the maintenance outcome does not answer with apistatus.ErrNodeUnderMaintenance")
		}
	}
	// ---------------- R3 the flag the handlers ask has only the operator's writers
	r3 := r.Rule("C45.R3", "the flag behind LocalNodeUnderMaintenance is written only by startMaintenance / stopMaintenance, and those are called only from the operator's status command, the switch-off only where ONLINE was asked for (SetNetmapStatus / setMaintenanceStatus): nothing else — e.g. a network map update — can end maintenance", 4)
	nodeFns := p.FuncsIn("cmd/neofs-node")
	if len(nodeFns) == 0 {
		r.Fatalf("C45.R3: cmd/neofs-node is not loaded")
		return
	}
	writers := map[string]string{"(*cmd/neofs-node.cfg).startMaintenance": "operator starts maintenance", "(*cmd/neofs-node.internals).stopMaintenance": "operator stops maintenance"}
	nW := 0
	for _, s := range core.CallSites(nodeFns, func(s core.Site) bool {
		switch s.Name {
		case "(*sync/atomic.Bool).Store", "(*sync/atomic.Bool).Swap", "(*sync/atomic.Bool).CompareAndSwap":
			_, path := core.AccessPath(s.Call.Common().Args[0])
			return len(path) > 0 && path[len(path)-1] == "isMaintenance"
		}
		return false
	}) {
		nW++
		o := core.FuncName(core.Outer(s.Fn))
		why, ok := writers[o]
		r3.Check(ok, o+"#writes-maintenance-flag", p.InstrPos(s.Call), "tabled writer: "+why, o+" writes the maintenance flag but is not one of the operator's two switches: object operations can be served again although the operator never stopped maintenance (or refused although it never started)")
	}
	if nW < 2 {
		r.Fatalf("C45.R3: %d writers of the maintenance flag found, expected the two switches", nW)
	}
	core.CheckCallers(p, r3, nodeFns, []core.CallerRule{
		{Sink: "(*cmd/neofs-node.cfg).startMaintenance", MinSites: 1, Allowed: map[string]string{"(*cmd/neofs-node.cfg).setMaintenanceStatus": "the operator's 'set status maintenance'"}},
		{Sink: "(*cmd/neofs-node.internals).stopMaintenance", MinSites: 1, Allowed: map[string]string{"(*cmd/neofs-node.cfg).SetNetmapStatus": "the operator's 'set status online'"}},
		{Sink: "(*cmd/neofs-node.cfg).setMaintenanceStatus", MinSites: 1, Allowed: map[string]string{"(*cmd/neofs-node.cfg).SetNetmapStatus": "the operator's status command"}},
	})
	// the switch-off happens only on the operator's ONLINE command
	if sn := p.Func("(*cmd/neofs-node.cfg).SetNetmapStatus"); sn == nil {
		r.Fatalf("C45.R3: SetNetmapStatus not found")
	} else if online, okK := p.ConstInt("github.com/nspcc-dev/neofs-node/pkg/services/control.NetmapStatus_ONLINE"); !okK {
		r.Fatalf("C45.R3: control.NetmapStatus_ONLINE not found")
	} else {
		asked := core.Guard{Name: "online-was-asked-for", Comps: []core.Comp{{Result: -1, Kind: core.IsTrue}}, Value: func(f *ssa.Function, v ssa.Value) bool {
			bo, ok := v.(*ssa.BinOp)
			if !ok || bo.Op != token.EQL {
				return false
			}
			k, isK := intConstOf(bo.Y)
			return isK && k == online && core.ParamIndex(f, bo.X) == 1
		}}
		core.CheckEffectsFn(p, r3, sn, core.EffectRule{Min: 1, Guards: []core.Guard{asked}, Effect: core.CallTo("(*cmd/neofs-node.internals).stopMaintenance")})
	}
	// and the FSChain implementation the object service is given reads that very flag
	if lm := p.Func("(*cmd/neofs-node.fsChainForObjects).LocalNodeUnderMaintenance"); lm == nil {
		r.Fatalf("C45.R3: fsChainForObjects.LocalNodeUnderMaintenance not found")
	} else {
		okLoad := false
		for _, s := range core.CallSites([]*ssa.Function{lm}, func(s core.Site) bool { return s.Name == "(*sync/atomic.Bool).Load" }) {
			if _, path := core.AccessPath(s.Call.Common().Args[0]); len(path) > 0 && path[len(path)-1] == "isMaintenance" {
				okLoad = true
			}
		}
		r3.Check(okLoad, core.FuncName(lm)+"#reads-the-flag", p.Pos(lm.Pos()), "answers with the operator's flag", "LocalNodeUnderMaintenance no longer answers with the maintenance flag")
	}
}

func errTargetNameOf(v ssa.Value) string {
	v = core.Unwrap(v)
	if u, ok := v.(*ssa.UnOp); ok {
		if g, ok := u.X.(*ssa.Global); ok {
			return g.Pkg.Pkg.Path() + "." + g.Name()
		}
	}
	return ""
}

// fieldWriters lists (sorted, unique) the names of functions among fns that store to the named field.
func fieldWriters(p *core.Prog, fns []*ssa.Function, field string) []string {
	set := map[string]bool{}
	for _, fn := range fns {
		for _, b := range fn.Blocks {
			for _, in := range b.Instrs {
				if st, ok := in.(*ssa.Store); ok {
					if fa, ok := st.Addr.(*ssa.FieldAddr); ok && core.FieldAddrName(fa) == field {
						set[core.FuncName(fn)] = true
					}
				}
			}
		}
	}
	var out []string
	for k := range set {
		out = append(out, k)
	}
	sort.Strings(out)
	return out
}

// checkFieldNonNilBeforeUse: in fn, every invoke on a value loaded from the named
// field is dominated by a `field != nil` test of a load of the same field.
func checkFieldNonNilBeforeUse(p *core.Prog, h *core.RuleH, fn *ssa.Function, field string) {
	isLoad := func(v ssa.Value) bool {
		u, ok := v.(*ssa.UnOp)
		if !ok {
			return false
		}
		fa, ok := u.X.(*ssa.FieldAddr)
		return ok && core.FieldAddrName(fa) == field
	}
	// blocks dominated by the true edge of `load != nil` or false edge of `load == nil`
	dom := map[*ssa.BasicBlock]bool{}
	for _, b := range fn.Blocks {
		ifi, ok := b.Instrs[len(b.Instrs)-1].(*ssa.If)
		if !ok {
			continue
		}
		bo, ok := ifi.Cond.(*ssa.BinOp)
		if !ok {
			continue
		}
		var other ssa.Value
		if isLoad(bo.X) {
			other = bo.Y
		} else if isLoad(bo.Y) {
			other = bo.X
		} else {
			continue
		}
		if c, ok := other.(*ssa.Const); !ok || !c.IsNil() {
			continue
		}
		var good *ssa.BasicBlock
		if bo.Op.String() == "!=" {
			good = b.Succs[0]
		} else if bo.Op.String() == "==" {
			good = b.Succs[1]
		}
		if good != nil && len(good.Preds) == 1 {
			for _, x := range fn.Blocks {
				if good.Dominates(x) {
					dom[x] = true
				}
			}
		}
	}
	n := 0
	for _, b := range fn.Blocks {
		for _, in := range b.Instrs {
			c, ok := in.(ssa.CallInstruction)
			if !ok || !c.Common().IsInvoke() || !isLoad(c.Common().Value) {
				continue
			}
			n++
			h.Check(dom[b], core.FuncName(fn)+"#"+core.CalleeName(c), p.InstrPos(in), "use dominated by the non-nil test", "use of "+field+" is not dominated by a non-nil test (stream not initialised)")
		}
	}
	if n == 0 {
		h.Bad(core.FuncName(fn)+"#no-use", p.Pos(fn.Pos()), "no use of "+field+" found: anchor changed")
	}
}

// runLateEACL implements C29.R2.
func runLateEACL(p *core.Prog, r *core.Report, h *core.RuleH) {
	const flagField = "(pkg/services/object.getStream).recheckEACL"
	isFlagLoad := func(_ *ssa.Function, v ssa.Value) bool {
		u, ok := v.(*ssa.UnOp)
		if !ok {
			return false
		}
		fa, ok := u.X.(*ssa.FieldAddr)
		return ok && core.FieldAddrName(fa) == flagField
	}
	eaclCall := func(s core.Site) bool { return s.Name == "(pkg/services/object/acl/v2.ACLChecker).CheckEACL" }
	guards := []core.Guard{
		{Name: "recheck-not-required", Comps: []core.Comp{{Result: -1, Kind: core.IsFalse}}, Value: isFlagLoad},
		{Name: "header-eacl-passed", Match: eaclCall, Comps: []core.Comp{{Result: -1, Kind: core.ErrNil, Accept: []string{errNotMatched}}}},
		{Name: "header-eacl-failed", Match: eaclCall, Comps: []core.Comp{{Result: -1, Kind: core.NonNil}, {Result: -1, Kind: core.ErrNotIs, Accept: []string{errNotMatched}}}},
		{Name: "header-validated", Match: func(s core.Site) bool { return s.Name == "(*pkg/services/object.getStream).ValidateHeader" }, Comps: []core.Comp{{Result: -1, Kind: core.ErrNil}}},
	}
	der := []core.Derived{
		{Name: "eacl-decided", Alts: [][]string{{"recheck-not-required"}, {"header-eacl-passed"}, {"header-eacl-failed"}, {"header-validated"}}},
		{Name: "eacl-allows", Alts: [][]string{{"recheck-not-required"}, {"header-eacl-passed"}, {"header-validated"}}},
	}
	n := 0
	for _, fn := range p.FuncsIn("pkg/services/object") {
		reads, propagates := false, false
		for _, b := range fn.Blocks {
			for _, in := range b.Instrs {
				if v, ok := in.(ssa.Value); ok && isFlagLoad(fn, v) {
					reads = true
				}
				if c, ok := in.(ssa.CallInstruction); ok && strings.HasSuffix(core.CalleeName(c), ").RequireEACLRecheck") {
					propagates = true
				}
			}
		}
		calls := len(core.CallSites([]*ssa.Function{fn}, func(s core.Site) bool { return s.Name == "(*pkg/services/object.getStream).ValidateHeader" })) > 0
		if !reads && !calls {
			continue
		}
		if propagates {
			// convertGetPrm hands the flag to the get service (RequireEACLRecheck): the call must happen whenever the flag is set
			pg := []core.Guard{{Name: "recheck-required", Comps: []core.Comp{{Result: -1, Kind: core.IsTrue}}, Value: isFlagLoad}}
			gf := core.Flow(fn, pg)
			for _, s := range core.CallSites([]*ssa.Function{fn}, func(s core.Site) bool { return strings.HasSuffix(s.Name, ").RequireEACLRecheck") }) {
				n++
				h.Check(gf.Passed(gf.At(s.Call), 0), core.FuncName(fn)+"#RequireEACLRecheck", p.InstrPos(s.Call), "re-check request is propagated exactly under the flag", "RequireEACLRecheck is not tied to the recheckEACL flag")
				// and no path with the flag true skips it: the true edge block must contain the call
				blk := s.Call.Block()
				ok := false
				for _, pr := range blk.Preds {
					if ifi, isIf := pr.Instrs[len(pr.Instrs)-1].(*ssa.If); isIf && isFlagLoad(fn, ifi.Cond) && pr.Succs[0] == blk {
						ok = true
					}
				}
				h.Check(ok, core.FuncName(fn)+"#RequireEACLRecheck#unconditional-under-flag", p.InstrPos(s.Call), "the flag's true edge leads straight to RequireEACLRecheck", "a path with recheckEACL set may skip RequireEACLRecheck")
			}
			continue
		}
		n++
		isWriteHeaderLike := calls && !reads
		core.CheckEffectsFn(p, h, fn, core.EffectRule{Guards: guards, Derived: der, Effect: func(p *core.Prog, in ssa.Instruction) (string, bool) {
			switch x := in.(type) {
			case *ssa.Return:
				if isWriteHeaderLike {
					return "", false
				}
				// a value-returning function: only success returns matter
				if len(x.Results) > 0 {
					last := x.Results[len(x.Results)-1]
					if last.Type().String() == "error" {
						if c, ok := last.(*ssa.Const); !ok || !c.IsNil() {
							return "", false
						}
					}
				}
				return "return", true
			case ssa.CallInstruction:
				nm := core.CalleeName(x)
				if strings.HasSuffix(nm, ").SendMsg") || nm == objSrv+".sendGetResponse" || strings.HasSuffix(nm, ").Send") {
					return "send " + nm, true
				}
			}
			return "", false
		}, Need: func(desc string) []string {
			if desc == "return" {
				return []string{"eacl-decided"}
			}
			return []string{"eacl-allows"}
		}})
	}
	if n < 3 {
		r.Fatalf("C29.R2: only %d functions consult the deferred eACL flag (expected ValidateHeader, WriteHeader, handleInitResponse closure, convertGetPrm)", n)
	}
}

// failureThroughCell: `if err != nil { return ..., err }` where err is a variable captured by a closure (every use is a
// fresh load of the cell): the return block is the true successor of a test `load(cell) != nil`, it is entered only
// from there and neither stores to the cell nor calls anything before returning another load of it.
func failureThroughCell(v ssa.Value, b *ssa.BasicBlock) bool {
	ld, ok := v.(*ssa.UnOp)
	if !ok || ld.Op != token.MUL || len(b.Preds) != 1 {
		return false
	}
	ifi, ok := b.Preds[0].Instrs[len(b.Preds[0].Instrs)-1].(*ssa.If)
	if !ok || b.Preds[0].Succs[0] != b {
		return false
	}
	bo, ok := ifi.Cond.(*ssa.BinOp)
	if !ok || bo.Op != token.NEQ {
		return false
	}
	t, ok := bo.X.(*ssa.UnOp)
	if c, isC := bo.Y.(*ssa.Const); !ok || !isC || !c.IsNil() || t.Op != token.MUL || t.X != ld.X {
		return false
	}
	// nothing between the test and the return may change the cell
	after := false
	for _, in := range b.Preds[0].Instrs {
		if in == ssa.Instruction(t) {
			after = true
			continue
		}
		if !after {
			continue
		}
		switch in.(type) {
		case *ssa.Store, ssa.CallInstruction:
			return false
		}
	}
	for _, in := range b.Instrs {
		switch in.(type) {
		case *ssa.Store, *ssa.Call, *ssa.Go, *ssa.Defer:
			return false
		}
	}
	return true
}
