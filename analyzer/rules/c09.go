package rules

import (
	"strings"

	"golang.org/x/tools/go/ssa"

	"verif/analyzer/core"
)

// C09 — a removed object never becomes readable again without a new upload (re-indexing clause).
func init() {
	register(&Check{ID: "C09", Level: "other", Pkgs: []string{"./pkg/local_object_storage/metabase", "./pkg/local_object_storage/shard"}, Run: runC09})
}

func runC09(p *core.Prog, r *core.Report) {
	r.Explain = "Decides that (re-)indexing consults the removal state and that removal marks are not lost, on all CFG paths: (R1) DB.put writes metadata and counters only after the container was seen not removed and db.exists answered 'absent' with nil or a not-found-class error — tombstoned, expired and locked outcomes return; (R2) the batch put used by the metabase rebuild continues after a failed put only for the three tolerated outcomes (already removed, expired, locked) and otherwise aborts; the rebuild inserts only through that batch put, and db.put has only the tabled callers; (R3) a tombstone writes the garbage mark of every target on every path through its loop (stored or not — this is what lets GC collect a leftover blob and keeps a late or re-indexed target removed); (R4) garbage keys are built / deleted only in the tabled functions (a mark disappears only together with the object's metadata or by explicit revival); (R5) the shard deletes from blob storage every id whose metadata the metabase removed — no path through that loop skips the blob Delete — so that no orphan blob is left for a later resync to re-index. (R6) deleteMetadata removes a garbage mark only with the entry it marks; (R7) the resync handler queues every decoded object before it returns. Not covered: GC / flush / crash interleavings; the write-cache flush-versus-delete window (flushSingle and deleteObjs share no lock, so no static exclusion argument exists)."
	fns := p.FuncsIn("pkg/local_object_storage/metabase")
	put := p.Func(mbDB + "put")
	if put == nil {
		r.Fatalf("C09: DB.put not found")
		return
	}
	// ---------------- R1
	r1 := r.Rule("C09.R1", "DB.put indexes an object only after container-not-removed and exists()==(false, nil|not-found)", 4)
	exists := func(s core.Site) bool {
		if s.Name != mbDB+"exists" {
			return false
		}
		a := s.Call.Common().Args
		c, ok := a[2].(*ssa.Call) // obj.Address()
		return ok && strings.HasSuffix(core.CalleeName(c), "object.Object).Address") && core.RootParam(put, c.Call.Args[0]) == 2
	}
	const nf = "type:github.com/nspcc-dev/neofs-sdk-go/client/status.ObjectNotFound"
	guards := []core.Guard{
		{Name: "absent", Match: exists, Comps: []core.Comp{{Result: 0, Kind: core.IsFalse}}},
		{Name: "exists-nil-or-not-found", Match: exists, Comps: []core.Comp{{Result: 1, Kind: core.ErrNil, Accept: []string{nf}}}},
		cnrNotGC(),
		{Name: "no-container-bucket", Comps: []core.Comp{{Result: -1, Kind: core.IsNil}}, Match: func(s core.Site) bool { return s.Name == "(*github.com/nspcc-dev/bbolt.Tx).Bucket" }},
	}
	der := []core.Derived{{Name: "container-live", Alts: [][]string{{"container-not-removed"}, {"no-container-bucket"}}}}
	core.CheckEffectsFn(p, r1, put, core.EffectRule{Min: 2, Guards: guards, Derived: der, Effect: core.CallTo(mb+"PutMetadataForObject", mb+"applyDiff"),
		Need: func(string) []string { return []string{"absent", "exists-nil-or-not-found", "container-live"} }})

	// ---------------- R2 batch tolerance + callers
	r2 := r.Rule("C09.R2", "PutBatch continues after a failed put only for {already removed, expired, locked}; rebuild inserts only through PutBatch; db.put caller table", 6)
	if pb := p.Func(mbDB + "PutBatch$1"); pb == nil {
		r.Fatalf("C09.R2: PutBatch closure not found")
	} else {
		isPut := func(s core.Site) bool { return s.Name == mbDB+"put" }
		tol := []string{"github.com/nspcc-dev/neofs-sdk-go/client/status.ErrObjectAlreadyRemoved", mb + "ErrObjectIsExpired", "github.com/nspcc-dev/neofs-sdk-go/client/status.ErrObjectLocked"}
		gs := []core.Guard{
			{Name: "put-ok", Match: isPut, Comps: []core.Comp{{Result: 1, Kind: core.ErrNil}}},
			{Name: "put-failed-tolerably", Match: isPut, Comps: []core.Comp{{Result: 1, Kind: core.ErrIs, Accept: tol}}},
		}
		d := []core.Derived{{Name: "put-ok-or-tolerated", Alts: [][]string{{"put-ok"}, {"put-failed-tolerably"}}}}
		gf := core.Flow(pb, gs, d...)
		// loop headers = blocks with a predecessor they dominate
		n := 0
		for _, h := range pb.Blocks {
			for _, pred := range h.Preds {
				if !h.Dominates(pred) {
					continue
				}
				n++
				ok := gf.DerivedPassed(gf.OnEdge(pred, h), "put-ok-or-tolerated")
				pos := p.InstrPos(pred.Instrs[len(pred.Instrs)-1])
				r2.Check(ok, core.FuncName(pb)+"#next-object", pos, "the batch moves to the next object only after a successful or tolerated put", "the batch loop continues after a put that failed with an error outside {already removed, expired, locked}: a failed insert is silently skipped during rebuild")
			}
		}
		if n == 0 {
			r2.Bad(core.FuncName(pb)+"#next-object", p.Pos(pb.Pos()), "no loop found in PutBatch")
		}
		core.CheckEffectsFn(p, r2, pb, core.EffectRule{Min: 1, Guards: gs, Need: func(string) []string { return []string{"put-ok"} }, Effect: func(_ *core.Prog, in ssa.Instruction) (string, bool) {
			return "record-success", storeToFreeVar(in, "successIndices")
		}})
	}
	core.CheckCallers(p, r2, fns, []core.CallerRule{
		{Sink: mbDB + "put", MinSites: 3, Allowed: map[string]string{mbDB + "PutCounted": "single put", mbDB + "PutBatch": "batch put (rebuild)", mbDB + "put": "parent header of the object being put"}},
		{Sink: mb + "PutMetadataForObject", MinSites: 1, Allowed: map[string]string{mbDB + "put": "the ruled put path (R1)"}},
		{Sink: mbDB + "PutBatch", MinSites: 1, Allowed: map[string]string{
			"(*" + mb + "resyncHandler).flush":     "metabase rebuild",
			"(*pkg/services/meta.Meta).PutObjects": "the metadata service's own header database (a separate DB instance, not a shard's metabase; seen in the whole-program tier only)",
			"pkg/services/meta.batchWriter":        "same: the metadata service's batching writer",
		}},
	})
	// the rebuild handler reaches the DB only through PutBatch / logging
	for _, name := range []string{"(*" + mb + "resyncHandler).handle", "(*" + mb + "resyncHandler).flush"} {
		fn := p.Func(name)
		if fn == nil {
			r.Fatalf("C09.R2: %s not found", name)
			continue
		}
		for _, s := range core.CallSites([]*ssa.Function{fn}, func(s core.Site) bool { return strings.HasPrefix(s.Name, mbDB) }) {
			r2.Check(s.Name == mbDB+"PutBatch", name+"#"+s.Name, p.InstrPos(s.Call), "inserts through PutBatch", "the rebuild handler calls "+s.Name+" on the metabase, bypassing the ruled batch put")
		}
	}

	// ---------------- R3 every target is marked
	r3 := r.Rule("C09.R3", "a tombstone writes the garbage mark of every target on every path through its loop", 1)
	if h := p.Func(mb + "handleObjectWithAssociation"); h == nil {
		r.Fatalf("C09.R3: handleObjectWithAssociation not found")
	} else {
		isMarkPut := func(in ssa.Instruction) bool {
			c, ok := in.(ssa.CallInstruction)
			if !ok || core.CalleeName(c) != "(*github.com/nspcc-dev/bbolt.Bucket).Put" {
				return false
			}
			k, isC := c.Common().Args[1].(*ssa.Call)
			return isC && core.CalleeName(k) == mb+"mkGarbageKey"
		}
		n := 0
		for _, s := range core.CallSites([]*ssa.Function{h}, func(s core.Site) bool { return s.Name == mb+"get" }) {
			n++
			r3.Check(core.MustFollow(s.Call.(ssa.Instruction), isMarkPut), core.FuncName(h)+"#get→Put(garbage key)", p.InstrPos(s.Call),
				"every path from reading the target to the end of the iteration writes the target's garbage mark", "some path through the tombstone's target loop leaves a target without a garbage mark (e.g. when the target is not stored): its blob is never collected and it is indexed again as available once the tombstone is gone")
		}
		if n == 0 {
			r3.Bad(core.FuncName(h)+"#get→Put(garbage key)", p.Pos(h.Pos()), "the target loop no longer reads the target with get")
		}
	}

	// ---------------- R4 who touches garbage keys
	r4 := r.Rule("C09.R4", "garbage keys are built and deleted only in the tabled functions", 6)
	gP, _ := p.ConstInt(mb + "metaPrefixGarbage")
	builders := map[string]string{
		mb + "mkGarbageKey": "the key constructor", mb + "deleteMetadata": "removes the mark together with the object's metadata",
		mbDB + "iterateIDs": "GC listing", mbDB + "GetGarbage": "GC listing", mb + "syncContainerCounters": "recount of marks",
	}
	for _, fn := range fns {
		for _, b := range fn.Blocks {
			for _, in := range b.Instrs {
				st, ok := in.(*ssa.Store)
				if !ok {
					continue
				}
				ia, ok := st.Addr.(*ssa.IndexAddr)
				if !ok {
					continue
				}
				if i, isI := intConstOf(ia.Index); !isI || i != 0 {
					continue
				}
				// a named-constant metaPrefixGarbage stored at byte 0 (value equality with the constant of byte type)
				cv, isC := intConstOf(st.Val)
				if !isC || cv != gP || !strings.HasSuffix(st.Val.Type().String(), "byte") && st.Val.Type().String() != "uint8" {
					continue
				}
				o := core.FuncName(core.Outer(fn))
				r4.Check(builders[o] != "", o+"#builds-garbage-key", p.InstrPos(in), "tabled: "+builders[o], o+" builds a key with the garbage prefix but is not a tabled garbage-key user")
			}
		}
	}
	delAllowed := map[string]string{mbDB + "ReviveObject": "explicit revival by the operator"}
	for _, s := range core.CallSites(fns, func(s core.Site) bool { return s.Name == "(*github.com/nspcc-dev/bbolt.Bucket).Delete" }) {
		k, isC := s.Call.Common().Args[1].(*ssa.Call)
		if !isC || core.CalleeName(k) != mb+"mkGarbageKey" {
			continue
		}
		o := core.FuncName(core.Outer(s.Fn))
		r4.Check(delAllowed[o] != "", o+"#deletes-garbage-key", p.InstrPos(s.Call), "tabled: "+delAllowed[o], o+" deletes a garbage mark but is not a tabled un-marker")
	}
	core.CheckCallers(p, r4, append(fns, p.FuncsIn("pkg/local_object_storage/shard")...), []core.CallerRule{
		{Sink: mbDB + "ReviveObject", MinSites: 1, Allowed: map[string]string{"(*pkg/local_object_storage/shard.Shard).ReviveObject": "operator request through the control service"}},
	})
	// ---------------- R5 no orphan blob is left to be re-indexed
	r5 := r.Rule("C09.R5", "Shard.deleteObjs deletes from blob storage every id the metabase removed (a blob left behind is re-indexed by the next resync once the tombstone is gone)", 2)
	blobDeleteForEveryRemoved(p, r, r5)
	// ---------------- R6 a mark goes only together with what it marks
	r6 := r.Rule("C09.R6", "deleteMetadata removes a garbage mark only when the marked entry goes with it (shared with C01.R7): a removed split object's parent does not come back while its parts are still stored", 1)
	markGoesWithEntry(p, r, r6)
	// ---------------- R7 the rebuild indexes every blob it is handed
	r7 := r.Rule("C09.R7", "the resync handler puts every decoded object into the batch before it returns (the only returns without it hand the object's error to the iteration-error callback): no blob — a tombstone in particular — is left out of the rebuilt metabase", 2)
	if hf := p.Func("(*" + mb + "resyncHandler).handle"); hf == nil {
		r.Fatalf("C09.R7: resyncHandler.handle not found")
	} else {
		queued := core.Guard{Name: "object-queued", Comps: []core.Comp{{Result: -1, Kind: core.Executed}}, Instr: func(in ssa.Instruction) bool {
			st, ok := in.(*ssa.Store)
			if !ok {
				return false
			}
			fa, ok := st.Addr.(*ssa.FieldAddr)
			if !ok || core.FieldAddrName(fa) != "("+mb+"resyncHandler).batch" {
				return false
			}
			c, isC := st.Val.(*ssa.Call)
			return isC && core.CalleeName(c) == "builtin.append"
		}}
		n := core.CheckEffectsFn(p, r7, hf, core.EffectRule{Guards: []core.Guard{queued}, Effect: func(_ *core.Prog, in ssa.Instruction) (string, bool) {
			ret, ok := in.(*ssa.Return)
			if !ok || len(ret.Results) != 1 {
				return "", false
			}
			if c, isC := ret.Results[0].(*ssa.Call); isC && strings.HasSuffix(core.CalleeName(c), ".onError") {
				return "", false // the object could not be decoded: reported to the caller's error handler
			}
			return "return", true
		}})
		if n == 0 {
			r.Fatalf("C09.R7: resyncHandler.handle has no ordinary return")
		}
	}
	// ---------------- R8 a mark without an index record still brings GC to the blob (shared with C44.R8)
	r8 := r.Rule("C09.R8", "GC is given every garbage mark, also one with nothing indexed under its id: a resync that meets a tombstone before its target leaves the target with a blob and a mark but no index record, and only GC acting on that mark removes the blob — a blob that stays is indexed as an ordinary object by the next resync once the tombstone has expired", 1)
	listerListsEveryMark(p, r, r8)
	r.Explain += " (R8, shared with C44.R8) the garbage lister skips no mark."

}
