package rules

import (
	"fmt"
	"strings"

	"golang.org/x/tools/go/ssa"

	"verif/analyzer/core"
)

// C10 — file-tree storage behaves as a map (addressing structure only).
func init() {
	register(&Check{ID: "C10", Level: "other", Pkgs: []string{"./pkg/local_object_storage/blobstor/fstree"}, Run: runC10})
}

func runC10(p *core.Prog, r *core.Report) {
	r.Explain = "Byte-for-byte map semantics over operation sequences is a data-value property and is not decided. Decided are structural NECESSARY conditions of 'one address, one slot': (R1) every file the per-address operations create, open, stat, remove or hand to the writer is named by treePath of THE OPERATION'S OWN address (one path function; in a batch each unit gets the path, id and bytes of one map entry); (R2) from a combined (multi-object) file an entry's bytes are handed out only after its id was compared equal to the requested id — in the full reader (extractCombinedObject) and in the header fast path (readHeader); (R3) the combined writer frames every unit with that unit's own id and the length of that unit's own bytes. Not covered: that the bytes round-trip (compression, framing arithmetic), iteration completeness and the inverse of the path function, interleavings."
	const fstP = "pkg/local_object_storage/blobstor/fstree."
	tp := p.Func("(*" + fstP + "FSTree).treePath")
	if tp == nil {
		r.Fatalf("C10: treePath not found")
		return
	}
	fns := p.FuncsIn("pkg/local_object_storage/blobstor/fstree")
	// ---------------- R1
	r1 := r.Rule("C10.R1", "per-address operations name their file by treePath(own address): paths given to os.Open/OpenFile/Stat/Remove/ReadFile and to the writer come from treePath of the function's own address parameter (or are a path parameter filled that way by every caller)", 8)
	isAddr := func(v ssa.Value) bool { return strings.HasSuffix(v.Type().String(), "object/id.Address") }
	var dirWalkers map[string]string
	var pathOK func(fn *ssa.Function, v ssa.Value, depth int) (bool, string)
	pathOK = func(fn *ssa.Function, v ssa.Value, depth int) (bool, string) {
		v = core.NewMemReach(fn).Canon(v)
		switch x := v.(type) {
		case *ssa.Call:
			if core.StaticCallee(x) == tp {
				a := x.Call.Args[1]
				if core.ParamIndex(fn, a) >= 0 && isAddr(a) {
					return true, "treePath(own address parameter)"
				}
				// an address taken from the map being ranged over (PutBatch)
				if ex, isEx := a.(*ssa.Extract); isEx {
					if _, isNext := ex.Tuple.(*ssa.Next); isNext {
						return true, "treePath(key of the batch map entry)"
					}
				}
				return false, "treePath of something else than the operation's own address"
			}
			// getPath(addr) = treePath + stat
			if cal := core.StaticCallee(x); cal != nil && core.FuncName(cal) == "(*"+fstP+"FSTree).getPath" {
				if a := x.Call.Args[1]; core.ParamIndex(fn, a) >= 0 {
					return true, "getPath(own address parameter)"
				}
			}
		case *ssa.Extract:
			if c, ok := x.Tuple.(*ssa.Call); ok && x.Index == 0 {
				return pathOK(fn, c, depth)
			}
		case *ssa.Parameter:
			if x.Type().String() == "string" && depth > 0 {
				// a path parameter: every caller in the package must pass an OK path
				pi := core.ParamIndex(fn, x)
				n := 0
				for _, cf := range fns {
					for _, cs := range core.CallSites([]*ssa.Function{cf}, func(s core.Site) bool { return core.StaticCallee(s.Call) == fn }) {
						n++
						if _, isWalk := dirWalkers[core.FuncName(core.Outer(cf))]; isWalk {
							continue // the walker decodes the address from the very name it opens
						}
						if ok, why := pathOK(cf, cs.Call.Common().Args[pi], depth-1); !ok {
							return false, "caller " + core.FuncName(cf) + ": " + why
						}
					}
				}
				if n > 0 {
					return true, "path parameter; every caller passes treePath(own address)"
				}
				return false, "path parameter of a function without callers in the package"
			}
		case *ssa.FieldAddr, *ssa.UnOp:
			// a unit's path field: checked by R1's batch clause
			if _, path := core.AccessPath(v); len(path) > 0 && path[len(path)-1] == "path" {
				return true, "path of a write unit (built in PutBatch from the entry's own address)"
			}
		}
		return false, "not derived from treePath"
	}
	dirWalkers = map[string]string{
		"(*" + fstP + "FSTree).iterate":           "directory walk: the address is decoded from the name of the file it opens",
		"(*" + fstP + "FSTree).walkObjectFiles":   "directory walk of the compressed-file rewrite",
		"(*" + fstP + "FSTree).RewriteCompressed": "hands each walked (path, address) pair on",
	}
	ops := map[string]int{"os.Open": 0, "os.OpenFile": 0, "os.Stat": 0, "os.Remove": 0, "os.ReadFile": 0, "os.Lstat": 0}
	perAddr := func(fn *ssa.Function) bool {
		o := core.Outer(fn)
		if !strings.HasPrefix(core.FuncName(o), "(*"+fstP+"FSTree).") {
			return false
		}
		for _, prm := range o.Params {
			if isAddr(prm) {
				return true
			}
		}
		// helpers that take (id, path)
		n := o.Name()
		return n == "getObjectBytesByPath"
	}
	nOps := 0
	for _, fn := range fns {
		if !perAddr(fn) {
			continue
		}
		for _, cs := range core.CallSites([]*ssa.Function{fn}, func(s core.Site) bool { _, ok := ops[s.Name]; return ok }) {
			nOps++
			ok, why := pathOK(fn, cs.Call.Common().Args[0], 2)
			r1.Check(ok, core.FuncName(fn)+"#"+cs.Name, p.InstrPos(cs.Call), why, core.FuncName(fn)+" accesses a file whose name is "+why+": the operation reads or changes another address's slot")
		}
		// the writer gets (id, path, data) of the same address
		for _, cs := range core.CallSites([]*ssa.Function{fn}, func(s core.Site) bool { return strings.HasSuffix(s.Name, "fstree.writer).writeData") }) {
			nOps++
			a := cs.Call.Common().Args
			ok, why := pathOK(fn, a[1], 2)
			idOK := false
			if c, isC := a[0].(*ssa.Call); isC && strings.HasSuffix(core.CalleeName(c), "id.Address).Object") && core.ParamIndex(fn, c.Call.Args[0]) >= 0 {
				idOK = true
			}
			r1.Check(ok && idOK, core.FuncName(fn)+"#writer.writeData", p.InstrPos(cs.Call), "the writer gets the id and the path of the operation's own address", "the writer is given an id or a path that does not belong to the operation's own address ("+why+")")
		}
	}
	if nOps < 5 {
		r.Fatalf("C10.R1: only %d file accesses found in the per-address operations", nOps)
	}
	// batch units: id, path and data of one map entry
	if pb := p.Func("(*" + fstP + "FSTree).PutBatch"); pb == nil {
		r.Fatalf("C10.R1: PutBatch not found")
	} else {
		var keyV, valV ssa.Value
		for _, b := range pb.Blocks {
			for _, in := range b.Instrs {
				if ex, ok := in.(*ssa.Extract); ok {
					if _, isNext := ex.Tuple.(*ssa.Next); isNext {
						switch ex.Index {
						case 1:
							keyV = ex
						case 2:
							valV = ex
						}
					}
				}
			}
		}
		okU, n := keyV != nil && valV != nil, 0
		for _, b := range pb.Blocks {
			for _, in := range b.Instrs {
				st, ok := in.(*ssa.Store)
				if !ok {
					continue
				}
				fa, ok := st.Addr.(*ssa.FieldAddr)
				if !ok || !strings.HasPrefix(core.FieldAddrName(fa), "("+fstP+"writeDataUnit).") {
					continue
				}
				n++
				switch core.FieldAddrName(fa) {
				case "(" + fstP + "writeDataUnit).data":
					if st.Val != valV {
						okU = false
					}
				case "(" + fstP + "writeDataUnit).id":
					c, isC := st.Val.(*ssa.Call)
					if !isC || c.Call.Args[0] != keyV {
						okU = false
					}
				case "(" + fstP + "writeDataUnit).path":
					c, isC := st.Val.(*ssa.Call)
					if !isC || core.StaticCallee(c) != tp || c.Call.Args[1] != keyV {
						okU = false
					}
				}
			}
		}
		r1.Check(okU && n >= 3, core.FuncName(pb)+"#unit", p.Pos(pb.Pos()), "each write unit carries the id, the path and the bytes of one and the same map entry", "a batch write unit mixes the id / path / bytes of different map entries")
	}
	// ---------------- R2
	r2 := r.Rule("C10.R2", "an entry of a combined file is handed out only after its id compared equal to the requested id", 2)
	for _, name := range []string{"extractCombinedObject", "readHeader"} {
		fn := p.Func("(*" + fstP + "FSTree)." + name)
		if fn == nil {
			r.Fatalf("C10.R2: %s not found", name)
			continue
		}
		// the id comparison: bytes.Equal(entry id from parseCombinedPrefix, id parameter)
		idEq := core.Guard{Name: "entry-id==requested-id", Comps: []core.Comp{{Result: -1, Kind: core.IsTrue}}, Match: func(s core.Site) bool {
			if s.Name != "bytes.Equal" {
				return false
			}
			a := s.Call.Common().Args
			fromPrefix := func(v ssa.Value) bool {
				ok := false
				walkOperands(v, 6, func(x ssa.Value) {
					if c, isC := x.(*ssa.Call); isC && core.CalleeName(c) == fstP+"parseCombinedPrefix" {
						ok = true
					}
				})
				return ok
			}
			return fromPrefix(a[0]) && core.RootParam(fn, a[1]) == 1 || fromPrefix(a[1]) && core.RootParam(fn, a[0]) == 1
		}}
		notCombined := core.Guard{Name: "file-is-not-combined", Pure: true, Comps: []core.Comp{{Result: 0, Kind: core.IsNil}}, Match: func(s core.Site) bool { return s.Name == fstP+"parseCombinedPrefix" }}
		short := core.Guard{Name: "shorter-than-a-prefix", Pure: true, Comps: []core.Comp{{Result: -1, Kind: core.IsTrue}}, Value: func(_ *ssa.Function, v ssa.Value) bool {
			bo, ok := v.(*ssa.BinOp)
			if !ok || bo.Op.String() != "<" {
				return false
			}
			_, isK := intConstOf(bo.Y)
			return isK
		}}
		eof := core.Guard{Name: "read-hit-the-end", Comps: []core.Comp{{Result: 1, Kind: core.ErrIs, Accept: []string{"io.EOF", "io.ErrUnexpectedEOF"}}}, Match: func(s core.Site) bool { return s.Name == "io.ReadFull" }}
		core.CheckSuccessFn(p, r2, fn, core.SuccessRule{ResultIdx: -1, MinReturns: 1, Guards: []core.Guard{idEq, notCombined, short, eof},
			Derived: []core.Derived{{Name: "bytes-belong-to-the-requested-id", Alts: [][]string{{"entry-id==requested-id"}, {"file-is-not-combined"}, {"shorter-than-a-prefix"}, {"read-hit-the-end"}}}},
			Need:    []string{"bytes-belong-to-the-requested-id"}})
	}
	// ---------------- R3
	r3 := r.Rule("C10.R3", "the combined writer frames each unit with that unit's own id and the length of that unit's own bytes", 3)
	nFr := 0
	for _, fn := range fns {
		for _, cs := range core.CallSites([]*ssa.Function{fn}, func(s core.Site) bool { return s.Name == "(encoding/binary.bigEndian).PutUint32" }) {
			var lenOf ssa.Value
			walkOperands(cs.Call.Common().Args[len(cs.Call.Common().Args)-1], 3, func(x ssa.Value) {
				if c, isC := x.(*ssa.Call); isC && core.CalleeName(c) == "builtin.len" {
					lenOf = c.Call.Args[0]
				}
			})
			if lenOf == nil {
				continue
			}
			di := core.RootParam(fn, lenOf)
			ii := -1
			for _, cp := range core.CallSites([]*ssa.Function{fn}, func(s core.Site) bool { return s.Name == "builtin.copy" }) {
				if j := core.RootParam(fn, cp.Call.Common().Args[1]); j >= 0 && strings.HasSuffix(fn.Params[j].Type().String(), "object/id.ID") {
					ii = j
				}
			}
			nFr++
			r3.Check(di >= 0 && ii >= 0, core.FuncName(fn)+"#frame", p.InstrPos(cs.Call), "the frame is built from the function's own (id, bytes) parameters", "the frame's id or length does not come from the framing function's own parameters")
			if di < 0 || ii < 0 {
				continue
			}
			// callers hand over the id and the bytes of one unit
			for _, cf := range fns {
				for _, cc := range core.CallSites([]*ssa.Function{cf}, func(s core.Site) bool { return core.StaticCallee(s.Call) == fn }) {
					nFr++
					a := cc.Call.Common().Args
					pi, pd := core.RootParam(cf, a[ii]), core.RootParam(cf, a[di])
					same := false
					switch {
					case pi >= 0 && pd >= 0 && pi != pd && core.ParamIndex(cf, a[ii]) >= 0 && core.ParamIndex(cf, a[di]) >= 0:
						same = true // passes its own (id, bytes) parameters on
					default:
						bi, pathI := core.AccessPath(a[ii])
						bd, pathD := core.AccessPath(a[di])
						same = bi != nil && bi == bd && len(pathI) > 0 && len(pathD) > 0 && pathI[len(pathI)-1] == "id" && pathD[len(pathD)-1] == "data"
					}
					r3.Check(same, core.FuncName(cf)+"#frame-arguments", p.InstrPos(cc.Call), "id and bytes handed to the framing function belong to one unit", "the framing function is called with the id of one unit and the bytes of another")
				}
			}
		}
	}
	if nFr == 0 {
		r.Fatalf("C10.R3: no length-prefix write found in the combined writer")
	}
	// R5 the header window of a combined entry stays inside the buffer
	r5 := r.Rule("C10.R5", "readHeader: the end of the window read for the entry that was found (min(offset+length, offset+window)) is provably within the buffer wherever the buffer is sliced up to it: an entry can be found at any offset up to the refill threshold, so the window is re-based when it would not fit", 2)
	windowInsideBuffer(p, r, r5)
	r.Explain += " (R5) in readHeader every slicing of the caller's buffer whose upper bound is the found entry's window end is preceded, on every path, by facts implying bound <= cap(buffer) (the not-fitting case moves the bytes read so far to the buffer start); decided by the difference-bound engine with a case split over the incoming edges. A bound beyond the buffer is a run-time panic in ReadObject / Head / GetStream for a stored object."
	// R6 moving the window keeps the count of valid bytes
	r6 := r.Rule("C10.R6", "readHeader: when the bytes read so far are moved to the start of the caller's buffer (copy within the buffer, its result becoming the count of valid bytes), the source ends at the count of valid bytes, not at the end of the buffer: otherwise stale bytes of the previous window are taken for object data by Head / GetStream / ReadObject while Get still returns the stored bytes", 2)
	if fn := p.Func("(*pkg/local_object_storage/blobstor/fstree.FSTree).readHeader"); fn != nil {
		for _, s := range core.CallSites([]*ssa.Function{fn}, func(s core.Site) bool { return s.Name == "builtin.copy" }) {
			a := s.Call.Common().Args
			sl, ok := a[1].(*ssa.Slice)
			if !ok || core.ParamIndex(fn, a[0]) < 0 || core.ParamIndex(fn, sl.X) != core.ParamIndex(fn, a[0]) {
				continue
			}
			bounded := sl.High != nil
			if c, isC := sl.High.(*ssa.Call); isC {
				if nm := core.CalleeName(c); nm == "builtin.len" || nm == "builtin.cap" {
					bounded = false
				}
			}
			r6.Check(bounded, core.FuncName(fn)+"#window-moved!valid-bytes-only", p.InstrPos(s.Call), "the moved part ends at an explicit bound (the valid-byte count)", "the window is moved with a source that runs to the end of the buffer: the returned count then includes bytes that were never read for this position")
		}
	}
	r4 := r.Rule("C10.R4", "the compressed head handed to the streaming decoder is a private copy, never a view of the caller's buffer (which the same read refills with decoded bytes while the decoder is still reading ahead): otherwise ReadObject / ReadHeader return other bytes than were stored although Get and GetBytes look healthy", 1)
	decoderInputPrivate(p, r, r4)
	r.Explain += " (R4, shared with C11.R7) the bytes a streaming zstd decoder starts from are a copy of the file's head, not a slice of the caller-owned buffer that is overwritten with the decoded head during the same call."
}

func windowInsideBuffer(p *core.Prog, r *core.Report, h *core.RuleH) {
	fn := p.Func("(*pkg/local_object_storage/blobstor/fstree.FSTree).readHeader")
	if fn == nil {
		r.Fatalf("C10.R5: readHeader not found")
		return
	}
	n := 0
	for _, b := range fn.Blocks {
		for _, in := range b.Instrs {
			sl, ok := in.(*ssa.Slice)
			if !ok || sl.High == nil || core.ParamIndex(fn, sl.X) < 0 {
				continue
			}
			c, isC := sl.High.(*ssa.Call)
			if !isC {
				continue
			}
			if bi, isB := c.Call.Value.(*ssa.Builtin); !isB || bi.Name() != "min" {
				continue
			}
			n++
			oc := core.NewOrderCtx(in)
			h.Check(oc.ProveLEKey(sl.High, oc.CapKey(sl.X), 0), core.FuncName(fn)+"#window-end@"+fmt.Sprint(n), p.InstrPos(in), "window end <= cap(buffer) ("+oc.Facts()+")",
				"nothing on the paths to this slicing bounds the found entry's window end by the buffer ("+oc.Facts()+"): an entry found at an offset above one window (the buffer is refilled only when less than an entry prefix is left) makes the slice end behind the buffer and the read of a stored object panics")
		}
	}
	if n == 0 {
		h.Bad(core.FuncName(fn)+"#window-end", p.Pos(fn.Pos()), "no slicing of the buffer up to the entry's window end found")
	}
}
