package rules

import (
	"fmt"
	"go/token"
	"strings"

	"golang.org/x/tools/go/ssa"

	"verif/analyzer/core"
)

// C15 / C16 / C17 — cross-component step order, write-cache flushing and accounting.
func init() {
	pk := []string{"./pkg/local_object_storage/shard", "./pkg/local_object_storage/writecache"}
	register(&Check{ID: "C15", Level: "other", Pkgs: append([]string{"./pkg/local_object_storage/blobstor/fstree"}, pk...), Run: runC15})
	register(&Check{ID: "C16", Level: "other", Pkgs: pk, Run: runC16})
	register(&Check{ID: "C17", Level: "other", Pkgs: pk, Run: runC17})
}

const (
	wcT       = "(*pkg/local_object_storage/writecache.cache)"
	wcI       = "(pkg/local_object_storage/writecache.Cache)"
	storI     = "(pkg/local_object_storage/blobstor/common.Storage)"
	mbT       = "(*pkg/local_object_storage/metabase.DB)"
	errNF     = "github.com/nspcc-dev/neofs-sdk-go/client/status.ErrObjectNotFound"
	errNFType = "type:github.com/nspcc-dev/neofs-sdk-go/client/status.ObjectNotFound"
)

// flushOrder: C15.R2 = C16.R1 — an object leaves the write-cache only after the main storage accepted it.
func flushOrder(p *core.Prog, r *core.Report, h *core.RuleH) {
	for _, f := range []struct{ fn, put string }{{wcT + ".flushSingle", "(pkg/local_object_storage/writecache.stor).Put"}, {wcT + ".flushBatch", "(pkg/local_object_storage/writecache.stor).PutBatch"}} {
		core.CheckEffects(p, h, core.EffectRule{Fn: f.fn, Min: 1,
			Guards: []core.Guard{core.G("main-storage-put-ok", core.ErrNil, f.put)},
			Effect: core.CallTo(wcT+".delete", "(*pkg/local_object_storage/blobstor/fstree.FSTree).Delete")})
	}
}

func runC15(p *core.Prog, r *core.Report) {
	r.Explain = "Decides the order of cross-component steps on every CFG path (a stop between two steps leaves only states in which listed objects are readable): Shard.Put indexes the object in the metabase only after the write-cache or the blob storage accepted its bytes; the write-cache removes an object (flushSingle, flushBatch) only after the main storage's Put/PutBatch returned nil; Shard.deleteObjs removes bytes from the blob storage only after the metabase delete that unlists them returned nil, and the write-cache copies of linked children only after it too; Shard.MarkGarbage drops the cached copy only after the metabase mark succeeded; the data step itself is atomic at the file level: the writers publish the final name only after the complete data write (R6, shared with C12) — otherwise a stop inside the data step leaves a truncated file that a retried put takes for the stored object. Not covered: enumeration of stop points, torn bbolt commits, and the order write-cache-delete → metabase-delete at the start of deleteObjs (either order has a crash window: the existing one can leave a listed-but-unreadable object for addresses the metabase still reports available, the opposite one can resurrect a removed object through a later flush; recorded in DESIGN.md as an observation, not claimed)."
	r1 := r.Rule("C15.R1", "Shard.Put: metabase PutCounted only after write-cache Put or blob storage Put returned nil", 1)
	core.CheckEffects(p, r1, core.EffectRule{Fn: shardT + ".Put", Min: 1,
		Guards:  []core.Guard{core.G("write-cache-put-ok", core.ErrNil, wcI+".Put"), core.G("blobstor-put-ok", core.ErrNil, storI+".Put")},
		Derived: []core.Derived{{Name: "bytes-stored", Alts: [][]string{{"write-cache-put-ok"}, {"blobstor-put-ok"}}}},
		Effect:  core.CallTo(mbT+".PutCounted", mbT+".Put", mbT+".PutBatch"),
		Need:    func(string) []string { return []string{"bytes-stored"} }})
	r2 := r.Rule("C15.R2", "write-cache flush: the cached copy is deleted only after the main storage Put/PutBatch returned nil", 2)
	flushOrder(p, r, r2)
	r3 := r.Rule("C15.R3", "Shard.deleteObjs: blob storage Delete (and write-cache Delete of linked children) only after metabase Delete returned nil", 2)
	dfn := p.Func(shardT + ".deleteObjs")
	if dfn == nil {
		r.Fatalf("C15.R3: deleteObjs not found")
	} else {
		mdel := core.G("metabase-delete-ok", core.ErrNil, mbT+".Delete")
		// every blob storage Delete of the package (in deleteObjs itself or in a helper: then at every call site of the
		// helper) follows a successful metabase Delete; Shard.Put's rollback of its own write is R5's subject
		shardFns := p.FuncsIn("pkg/local_object_storage/shard")
		nBlob := 0
		for _, fn := range shardFns {
			if core.FuncName(core.Outer(fn)) == shardT+".Put" {
				continue
			}
			nBlob += core.CheckEffectsFn(p, r3, fn, core.EffectRule{Guards: []core.Guard{mdel}, LiftDepth: 3, CallerScope: shardFns, Effect: core.CallTo(storI + ".Delete")})
		}
		if nBlob == 0 {
			r.Fatalf("C15.R3: no blob storage Delete found in package shard")
		}
		// write-cache deletes that iterate over the metabase's result (children) must follow it too
		core.CheckEffectsFn(p, r3, dfn, core.EffectRule{Min: 1, Guards: []core.Guard{mdel}, Effect: func(p *core.Prog, in ssa.Instruction) (string, bool) {
			c, ok := in.(ssa.CallInstruction)
			if !ok {
				return "", false
			}
			var addrArg ssa.Value
			if core.CalleeName(c) == wcI+".Delete" {
				addrArg = c.Common().Args[0]
			} else if i := wcDeleteWrapperParam(core.StaticCallee(c), dfn); i >= 0 && i < len(c.Common().Args) {
				addrArg = c.Common().Args[i] // a helper of the same package that deletes its parameter from the write-cache
			} else {
				return "", false
			}
			// address built from an element of the metabase Delete result?
			fromRes := false
			walkOperands(addrArg, 10, func(x ssa.Value) {
				if ex, ok := x.(*ssa.Extract); ok && ex.Index == 0 {
					if cc, ok := ex.Tuple.(*ssa.Call); ok && core.CalleeName(cc) == mbT+".Delete" {
						fromRes = true
					}
				}
			})
			if fromRes {
				return "write-cache delete of a linked child", true
			}
			return "", false
		}})
	}
	r4 := r.Rule("C15.R4", "marking is not removing: Shard.MarkGarbage and Shard.InhumeContainer change metadata only — no data is deleted from the write-cache or the blob storage while the mark can still be taken back (ReviveObject) and the metabase would list the object as available again; data goes only with the metadata, in deleteObjs (R3)", 2)
	for _, name := range []string{shardT + ".MarkGarbage", shardT + ".InhumeContainer"} {
		fn := p.Func(name)
		if fn == nil {
			r.Fatalf("C15.R4: %s not found", name)
			continue
		}
		del := ""
		for _, cs := range core.CallSites([]*ssa.Function{fn}, func(s core.Site) bool {
			return s.Name == wcI+".Delete" || strings.HasSuffix(s.Name, "common.Storage).Delete") || strings.HasSuffix(s.Name, "fstree.FSTree).Delete")
		}) {
			del = p.InstrPos(cs.Call)
		}
		r4.Check(del == "", name+"#data-untouched", p.Pos(fn.Pos()), "no data store deletion", name+" deletes object data ("+del+") although it only marks: after the mark is taken back (ReviveObject before GC) the metabase lists the object as available and the only copy — an object not flushed from the write-cache yet — is gone")
	}
	r6 := r.Rule("C15.R6", "the data step itself cannot be caught half-done: every file-tree writer (blob storage and write-cache use it) makes the object visible under its final name only after the complete, successful data write (shared with C12.R1)", 5)
	publishAfterCompleteWrite(p, r, r6)
	r7 := r.Rule("C15.R7", "FSTree.PutBatch hands every element of the batch that has bytes to the writer or fails: no iteration of its loop over the batch ends without the element being appended to the written units, except for an element with no data — the write-cache deletes every object of a batch whose PutBatch returned nil (R2)", 1)
	batchElementsAllWritten(p, r, r7)
	r.Explain += " (R7) the other half of R2's 'PutBatch returned nil': in FSTree.PutBatch no iteration over the batch gets back to the loop head without appending the element to the units handed to the writer, other than through the 'element has no bytes' test; a skipped element would be deleted from the write-cache without ever reaching the blob storage while the metabase lists it."
	r5 := r.Rule("C15.R5", "Shard.Put: on a metabase failure the bytes just written are rolled back (write-cache and blob storage delete on the metaErr path) before the error is returned", 1)
	// the failure return after PutCounted must be preceded by blobStor.Delete (Executed) — must-follow from the failing edge
	if pfn := p.Func(shardT + ".Put"); pfn != nil {
		g := []core.Guard{
			core.G("metabase-put-ok", core.ErrNil, mbT+".PutCounted"),
			{Name: "blob-rollback-done", Match: func(s core.Site) bool { return s.Name == storI+".Delete" }, Comps: []core.Comp{{Result: -1, Kind: core.Executed}}},
			{Name: "metabase-put-not-attempted", Match: func(s core.Site) bool { return s.Name == mbT+".PutCounted" }, Comps: []core.Comp{{Result: -1, Kind: core.Executed}}},
		}
		gf := core.Flow(pfn, g)
		n := 0
		for _, b := range pfn.Blocks {
			ret, ok := b.Instrs[len(b.Instrs)-1].(*ssa.Return)
			if !ok {
				continue
			}
			f := gf.At(ret)
			// returns reached after PutCounted was attempted and did not pass need the rollback
			if gf.Passed(f, 2) && !gf.Passed(f, 0) && b.Index != 0 {
				// distinguish the recover/defer epilogue: it has no position
				if !ret.Pos().IsValid() && len(b.Preds) == 0 {
					continue
				}
				n++
				r5.Check(gf.Passed(f, 1), core.FuncName(pfn)+"#return-after-metabase-failure", p.InstrPos(ret), "blob storage rollback executed on every path to this return", "Put can return after a failed metabase step without removing the bytes it just stored (unlisted garbage / resurrectable object)")
			}
		}
		if n == 0 {
			r.Fatalf("C15.R5: no return after a failed PutCounted found in Shard.Put")
		}
	}
}

func runC16(p *core.Prog, r *core.Report) {
	r.Explain = "Decides: (R1) an object leaves the write-cache only after the main storage accepted it (same rule as C15.R2); (R2) the write-cache switches to a no-metabase mode only after a successful full flush, unless it already was in such a mode; (R3) shard reads fall through to the blob storage whenever the write-cache does not have the object: Shard.fetchObjectData returns before consulting the blob storage only when the write-cache answered nil or out-of-range, when the metabase returned an error, or when metadata says the object does not exist; (R4) the flush worker reads the mode and flushes under modeMtx.RLock and releases it on every path. Not covered: the read-versus-flush-delete window under real schedules, byte identity."
	r1 := r.Rule("C16.R1", "write-cache flush: the cached copy is deleted only after the main storage Put/PutBatch returned nil", 2)
	flushOrder(p, r, r1)
	// R2
	r2 := r.Rule("C16.R2", "cache.SetMode: the mode becomes a no-metabase mode only after flush(true)==nil, or if the cache already was in a no-metabase mode", 2)
	fn := p.Func(wcT + ".SetMode")
	if fn == nil {
		r.Fatalf("C16.R2: SetMode not found")
	} else {
		cMode := fieldLoadOf("(pkg/local_object_storage/writecache.cache).mode")
		g := []core.Guard{
			core.G("flushed", core.ErrNil, wcT+".flush"),
			{Name: "already-no-metabase", Match: func(s core.Site) bool { return s.Name == modeNM && cMode(s.Call.Common().Args[0]) }, Comps: []core.Comp{{Result: -1, Kind: core.IsTrue}}},
			{Name: "target-has-metabase", Pure: true, Match: func(s core.Site) bool { return s.Name == modeNM && core.ParamIndex(s.Fn, s.Call.Common().Args[0]) == 1 }, Comps: []core.Comp{{Result: -1, Kind: core.IsFalse}}},
		}
		core.CheckEffectsFn(p, r2, fn, core.EffectRule{Min: 1, Guards: g,
			Derived: []core.Derived{{Name: "safe-to-detach", Alts: [][]string{{"flushed"}, {"already-no-metabase"}, {"target-has-metabase"}}}},
			Effect: func(p *core.Prog, in ssa.Instruction) (string, bool) {
				st, ok := in.(*ssa.Store)
				if !ok {
					return "", false
				}
				fa, ok := st.Addr.(*ssa.FieldAddr)
				if ok && core.FieldAddrName(fa) == "(pkg/local_object_storage/writecache.cache).mode" {
					return "c.mode = m", true
				}
				return "", false
			}, Need: func(string) []string { return []string{"safe-to-detach"} }})
		// the flush must be the error-reporting one: flush(true)? No: ignoreErrors=true hides read errors; only its presence and result test are required.
	}
	// R3
	r3 := r.Rule("C16.R3", "Shard.fetchObjectData: every return that did not consult the blob storage is justified (write-cache hit / out-of-range, metabase error, metadata says absent), and the blob storage is read only after the write-cache was asked (if the shard has one, in every mode)", 5)
	ffn := p.Func(shardT + ".fetchObjectData")
	if ffn == nil {
		r.Fatalf("C16.R3: fetchObjectData not found")
	} else {
		wcCall := func(s core.Site) bool { // wc(s.writeCache): dynamic call of the 4th parameter
			return s.Name == "dynamic" && core.ParamIndex(s.Fn, s.Call.Common().Value) == 4
		}
		stCall := func(s core.Site) bool {
			return s.Name == "dynamic" && core.ParamIndex(s.Fn, s.Call.Common().Value) == 3
		}
		g := []core.Guard{
			{Name: "blobstor-consulted", Match: stCall, Comps: []core.Comp{{Result: -1, Kind: core.Executed}}},
			{Name: "write-cache-answered", Match: wcCall, Comps: []core.Comp{{Result: -1, Kind: core.ErrNil, Accept: []string{"github.com/nspcc-dev/neofs-sdk-go/client/status.ErrObjectOutOfRange"}}}},
			{Name: "metabase-failed", Match: func(s core.Site) bool { return s.Name == mbT+".Exists" }, Comps: []core.Comp{{Result: 1, Kind: core.NonNil}}},
			{Name: "metadata-says-absent", Comps: []core.Comp{{Result: -1, Kind: core.IsFalse}}, Value: func(_ *ssa.Function, v ssa.Value) bool {
				// the `exists` variable: Exists()'s first result, possibly merged with its zero initial value
				isEx := func(x ssa.Value) bool {
					ex, ok := x.(*ssa.Extract)
					if !ok || ex.Index != 0 {
						return false
					}
					c, ok := ex.Tuple.(*ssa.Call)
					return ok && core.CalleeName(c) == mbT+".Exists"
				}
				if isEx(v) {
					return true
				}
				phi, ok := v.(*ssa.Phi)
				if !ok {
					return false
				}
				n := 0
				for _, e := range phi.Edges {
					if _, isC := e.(*ssa.Const); isC {
						continue
					}
					if !isEx(e) {
						return false
					}
					n++
				}
				return n > 0
			}},
		}
		core.CheckEffectsFn(p, r3, ffn, core.EffectRule{Min: 3, Guards: g,
			Derived: []core.Derived{{Name: "justified-return", Alts: [][]string{{"blobstor-consulted"}, {"write-cache-answered"}, {"metabase-failed"}, {"metadata-says-absent"}}}},
			Effect: func(p *core.Prog, in ssa.Instruction) (string, bool) {
				ret, ok := in.(*ssa.Return)
				if !ok || !ret.Pos().IsValid() {
					return "", false
				}
				// `return true, storageFunc(...)` consults the storage in the return itself
				for _, res := range ret.Results {
					if c, ok := res.(*ssa.Call); ok && core.ParamIndex(ffn, c.Call.Value) == 3 {
						return "", false
					}
				}
				return "return", true
			}, Need: func(string) []string { return []string{"justified-return"} }})
		// and the other way round: the blob storage (or a 'not found') answers only after the write-cache was asked,
		// whenever the shard has one — whatever the mode: a degraded shard still accepts puts into the cache
		asked := core.Guard{Name: "write-cache-asked", Match: wcCall, Comps: []core.Comp{{Result: -1, Kind: core.Executed}}}
		noWC := core.Guard{Name: "shard-has-no-write-cache", Pure: true, Match: func(s core.Site) bool { return s.Name == shardT+".hasWriteCache" }, Comps: []core.Comp{{Result: -1, Kind: core.IsFalse}}}
		mbFail := core.Guard{Name: "metabase-failed", Match: func(s core.Site) bool { return s.Name == mbT+".Exists" }, Comps: []core.Comp{{Result: 1, Kind: core.NonNil}}}
		core.CheckEffectsFn(p, r3, ffn, core.EffectRule{Min: 2, Guards: []core.Guard{asked, noWC, mbFail},
			Derived: []core.Derived{{Name: "cache-looked-at-first", Alts: [][]string{{"write-cache-asked"}, {"shard-has-no-write-cache"}}}},
			Need:    func(string) []string { return []string{"cache-looked-at-first"} },
			Effect: func(_ *core.Prog, in ssa.Instruction) (string, bool) {
				if c, ok := in.(*ssa.Call); ok && core.ParamIndex(ffn, c.Call.Value) == 3 {
					return "blob-storage-read", true
				}
				return "", false
			}})
	}
	// R4
	r4 := r.Rule("C16.R4", "flushWorker: modeMtx.RLock is released on every path, and flushing happens between RLock and RUnlock under readOnly()==false", 2)
	wfn := p.Func(wcT + ".flushWorker")
	if wfn == nil {
		r.Fatalf("C16.R4: flushWorker not found")
	} else {
		for _, s := range core.CallSites([]*ssa.Function{wfn}, func(s core.Site) bool { return s.Name == "(*sync.RWMutex).RLock" }) {
			r4.Check(core.MustFollow(s.Call, func(in ssa.Instruction) bool {
				c, ok := in.(*ssa.Call)
				return ok && core.CalleeName(c) == "(*sync.RWMutex).RUnlock"
			}), core.FuncName(wfn)+"#RLock", p.InstrPos(s.Call), "RUnlock follows on every path", "modeMtx.RLock can be left held: every later mode change blocks forever")
		}
		core.CheckEffectsFn(p, r4, wfn, core.EffectRule{Min: 2, Guards: []core.Guard{
			{Name: "mode-lock-held", Match: func(s core.Site) bool { return s.Name == "(*sync.RWMutex).RLock" }, Comps: []core.Comp{{Result: -1, Kind: core.Executed}}},
			core.G("cache-writable", core.IsFalse, wcT+".readOnly"),
		}, Effect: core.CallTo(wcT+".flushSingle", wcT+".flushBatch")})
	}
	// ---------------- R5 the read gate
	r5 := r.Rule("C16.R5", "reads of the write-cache are gated by the counters' address table: an address leaves that table only in cache.delete after the cached file was removed, and the table is rebuilt only at initialisation", 1)
	allowedDel := map[string]string{wcT + ".delete": "the cached file was removed (flush completed or object deleted)"}
	allowedReset := map[string]string{wcT + ".initCounters": "start-up recount from the files actually present"}
	nGate := 0
	for _, s := range core.CallSites(p.FuncsIn("pkg/local_object_storage/writecache"), func(s core.Site) bool {
		return s.Name == "(*pkg/local_object_storage/writecache.counters).Delete" || s.Name == "(*pkg/local_object_storage/writecache.counters).Reset"
	}) {
		nGate++
		o := core.FuncName(core.Outer(s.Fn))
		tbl := allowedDel
		if strings.HasSuffix(s.Name, ".Reset") {
			tbl = allowedReset
		}
		why, ok := tbl[o]
		r5.Check(ok, o+"#"+s.Name, p.InstrPos(s.Call), "tabled: "+why, o+" removes an address from the counters although it is not the tabled remover: if the address was already cached (a repeated put), the acknowledged copy's file stays in the cache but becomes invisible to reads (HasAddress gate) and to the flush scheduler")
	}
	if nGate == 0 {
		r.Fatalf("C16.R5: no counters.Delete / Reset call found in the write-cache")
	}
	// ---------------- R6 the batch flush removes exactly what it wrote
	r6 := r.Rule("C16.R6", "flushBatch removes from the cache only addresses taken from the very collection it handed to PutBatch (an address of the batch whose read failed was not written; removing it destroys a copy that a concurrent re-put has just acknowledged)", 1)
	if fb := p.Func(wcT + ".flushBatch"); fb == nil {
		r.Fatalf("C16.R6: flushBatch not found")
	} else {
		var written ssa.Value
		for _, s := range core.CallSites([]*ssa.Function{fb}, func(s core.Site) bool { return strings.HasSuffix(s.Name, ".PutBatch") }) {
			if len(s.Call.Common().Args) > 0 {
				written = s.Call.Common().Args[len(s.Call.Common().Args)-1]
			}
		}
		dels := core.CallSites([]*ssa.Function{fb}, func(s core.Site) bool { return s.Name == wcT+".delete" })
		if written == nil || len(dels) == 0 {
			r.Fatalf("C16.R6: PutBatch or cache.delete call not found in flushBatch")
		}
		for _, d := range dels {
			args := d.Call.Common().Args
			src := rangeSourceOf(args[len(args)-1])
			r6.Check(src != nil && src == written, core.FuncName(fb)+"#delete!address-was-written", p.InstrPos(d.Call), "the removed address is a key of the map given to PutBatch", "flushBatch removes from the write-cache an address that does not come from the collection handed to PutBatch: an object that was not written to the main storage loses its cached (only) copy")
		}
	}
}

// rangeSourceOf: for a value that is the key/element variable of a `for ... range X` loop, X; else nil.
func rangeSourceOf(v ssa.Value) ssa.Value {
	for i := 0; i < 6 && v != nil; i++ {
		switch x := v.(type) {
		case *ssa.Extract:
			if nx, ok := x.Tuple.(*ssa.Next); ok {
				if rg, ok := nx.Iter.(*ssa.Range); ok {
					return rg.X
				}
			}
			return nil
		case *ssa.UnOp:
			if x.Op != token.MUL {
				return nil
			}
			switch a := x.X.(type) {
			case *ssa.IndexAddr:
				return a.X
			case *ssa.Alloc:
				var st ssa.Value
				n := 0
				for _, ref := range *a.Referrers() {
					if s, ok := ref.(*ssa.Store); ok && s.Addr == a {
						st = s.Val
						n++
					}
				}
				if n != 1 {
					return nil
				}
				v = st
			default:
				return nil
			}
		case *ssa.ChangeType:
			v = x.X
		case *ssa.Index:
			return x.X
		default:
			return nil
		}
	}
	return nil
}

func runC17(p *core.Prog, r *core.Report) {
	r.Explain = "Decides the accounting half structurally and one pairing clause of the flushing half: (R1) Σ-invariant of writecache.counters — on every path of every function that updates objMap, the running total changes by exactly (new value − old value of that key) for an assignment and by −(old value) for a delete (symbolic effect extraction over all acyclic paths; a comma-ok miss counts as old value 0); (R2) only counters' own methods write size/objMap; (R3) put/delete update the counters exactly when the FSTree operation succeeded; (R4) the flush worker un-marks every address it received on every path, and the scheduler's abandon path (flush error while a batch is pending) un-marks the pending batch before giving up the round; (R5) the scheduler never returns except on close. Not covered: liveness proper (that flushing eventually happens), scheduling of marked addresses that are not in the pending batch."
	// R1
	r1 := r.Rule("C17.R1", "Σ-invariant: Δsize == Δ(sum of objMap) on every path of every function that writes objMap", 2)
	const (
		fSize = "(pkg/local_object_storage/writecache.counters).size"
		fMap  = "(pkg/local_object_storage/writecache.counters).objMap"
	)
	nWriters := 0
	for _, fn := range p.FuncsIn("pkg/local_object_storage/writecache") {
		writes := false
		for _, b := range fn.Blocks {
			for _, in := range b.Instrs {
				if isMapWrite(in, fMap) != "" {
					writes = true
				}
			}
		}
		if !writes {
			continue
		}
		nWriters++
		ok, why := sigmaInvariant(fn, fSize, fMap)
		r1.Check(ok, core.FuncName(fn), p.Pos(fn.Pos()), "Δsize equals Δ(sum of objMap) on every path", why)
	}
	if nWriters < 2 {
		r.Fatalf("C17.R1: only %d writers of counters.objMap found", nWriters)
	}
	// R2 writers
	r2 := r.Rule("C17.R2", "counters.size / counters.objMap are written only by methods of counters (and the constructor)", 3)
	for _, fn := range p.FuncsIn("pkg/local_object_storage/writecache") {
		for _, b := range fn.Blocks {
			for _, in := range b.Instrs {
				what := isMapWrite(in, fMap)
				if st, ok := in.(*ssa.Store); ok {
					if fa, ok := st.Addr.(*ssa.FieldAddr); ok && (core.FieldAddrName(fa) == fSize || core.FieldAddrName(fa) == fMap) {
						what = "store " + core.FieldAddrName(fa)
					}
				}
				if what == "" {
					continue
				}
				name := core.FuncName(core.Outer(fn))
				okw := strings.HasPrefix(name, "(*pkg/local_object_storage/writecache.counters).") || name == "pkg/local_object_storage/writecache.New"
				r2.Check(okw, name+"#"+what, p.InstrPos(in), "owner method", "the write-cache accounting is modified outside counters' methods")
			}
		}
	}
	// R3
	r3 := r.Rule("C17.R3", "cache.put adds to the counters only after FSTree.Put returned nil; cache.delete removes from them only after FSTree.Delete returned nil", 2)
	// "adds to the counters" = calls any method of counters that assigns into objMap (Add today; whatever it is called tomorrow)
	addsEntry := func(_ *core.Prog, in ssa.Instruction) (string, bool) {
		c, ok := in.(ssa.CallInstruction)
		if !ok {
			return "", false
		}
		cal := core.StaticCallee(c)
		if cal == nil || cal.Blocks == nil || !strings.HasPrefix(core.FuncName(cal), "(*pkg/local_object_storage/writecache.counters).") {
			return "", false
		}
		for _, b := range cal.Blocks {
			for _, i2 := range b.Instrs {
				if _, isMU := i2.(*ssa.MapUpdate); isMU {
					return core.FuncName(cal), true
				}
			}
		}
		return "", false
	}
	core.CheckEffects(p, r3, core.EffectRule{Fn: wcT + ".put", Min: 1, Guards: []core.Guard{core.G("file-written", core.ErrNil, "(*pkg/local_object_storage/blobstor/fstree.FSTree).Put")},
		Effect: addsEntry})
	core.CheckEffects(p, r3, core.EffectRule{Fn: wcT + ".delete", Min: 1, Guards: []core.Guard{core.G("file-removed", core.ErrNil, "(*pkg/local_object_storage/blobstor/fstree.FSTree).Delete")},
		Effect: core.CallTo("(*pkg/local_object_storage/writecache.counters).Delete")})
	// and the other direction: a successful FSTree.Put is always followed by counters.Add
	if pfn := p.Func(wcT + ".put"); pfn != nil {
		for _, s := range core.CallSites([]*ssa.Function{pfn}, func(s core.Site) bool { return s.Name == "(*pkg/local_object_storage/blobstor/fstree.FSTree).Put" }) {
			gf := core.Flow(pfn, []core.Guard{core.G("file-written", core.ErrNil, "(*pkg/local_object_storage/blobstor/fstree.FSTree).Put"),
				{Name: "counted", Match: func(s core.Site) bool { return s.Name == "(*pkg/local_object_storage/writecache.counters).Add" }, Comps: []core.Comp{{Result: -1, Kind: core.Executed}}}})
			okAll := true
			for _, b := range pfn.Blocks {
				if ret, ok := b.Instrs[len(b.Instrs)-1].(*ssa.Return); ok {
					f := gf.At(ret)
					if gf.Passed(f, 0) && !gf.Passed(f, 1) {
						okAll = false
					}
				}
			}
			r3.Check(okAll, core.FuncName(pfn)+"#counted-after-write", p.InstrPos(s.Call), "every return after a successful file write has counted the object", "an object can be written to the cache without being counted")
		}
	}
	// R4
	r4 := r.Rule("C17.R4", "in-flight marks: the worker un-marks every received address on every path; the scheduler's abandon path un-marks the pending batch and the address it stopped at", 3)
	isUnmark := func(in ssa.Instruction) bool {
		c, ok := in.(ssa.CallInstruction)
		if !ok || core.CalleeName(c) != "(*sync.Map).Delete" {
			return false
		}
		_, path := core.AccessPath(c.Common().Args[0])
		return len(path) > 0 && path[len(path)-1] == "flushObjs"
	}
	if wfn := p.Func(wcT + ".flushWorker"); wfn == nil {
		r.Fatalf("C17.R4: flushWorker not found")
	} else {
		hdrs := loopHeadersContaining(wfn, isUnmark)
		pred := func(in ssa.Instruction) bool { return isUnmark(in) || hdrs[in.Block()] }
		n := 0
		for _, s := range core.CallSites([]*ssa.Function{wfn}, func(s core.Site) bool {
			return s.Name == wcT+".flushSingle" || s.Name == wcT+".flushBatch"
		}) {
			n++
			r4.Check(core.MustFollow(s.Call, pred), core.FuncName(wfn)+"#"+s.Name, p.InstrPos(s.Call), "followed by the un-marking loop on every path", "a flushed batch may stay marked in-flight: its addresses are skipped by every later scheduling round")
		}
		if n == 0 {
			r.Fatalf("C17.R4: no flush call in flushWorker")
		}
	}
	if sfn := p.Func(wcT + ".flushScheduler"); sfn == nil {
		r.Fatalf("C17.R4: flushScheduler not found")
	} else {
		hdrs := loopHeadersContaining(sfn, isUnmark)
		pred := func(in ssa.Instruction) bool { return isUnmark(in) || hdrs[in.Block()] }
		// selects that can both send a batch and receive a flush error: the error case abandons the round
		n := 0
		for _, b := range sfn.Blocks {
			for _, in := range b.Instrs {
				sel, ok := in.(*ssa.Select)
				if !ok {
					continue
				}
				sendsBatch, errCase := false, -1
				for i, st := range sel.States {
					_, path := core.AccessPath(st.Chan)
					last := ""
					if len(path) > 0 {
						last = path[len(path)-1]
					}
					if st.Dir == 1 /* SendOnly */ && last == "flushCh" {
						sendsBatch = true
					}
					if st.Dir == 2 /* RecvOnly */ && last == "flushErrCh" {
						errCase = i
					}
				}
				if !sendsBatch || errCase < 0 {
					continue
				}
				blk := selectCaseBlock(sel, errCase)
				if blk == nil {
					r4.Bad(core.FuncName(sfn)+"#abandon-path", p.InstrPos(sel), "cannot locate the flush-error case of the batch hand-over select")
					continue
				}
				n++
				// the address being looked at is marked before it joins a batch: the abandon path un-marks it too
				curUnmarked := false
				for _, b2 := range sfn.Blocks {
					if b2 != blk && !blk.Dominates(b2) {
						continue
					}
					for _, i2 := range b2.Instrs {
						if !isUnmark(i2) {
							continue
						}
						key := i2.(ssa.CallInstruction).Common().Args[1]
						if mi, isMI := key.(*ssa.MakeInterface); isMI {
							key = mi.X
						}
						if u, isU := key.(*ssa.UnOp); isU {
							if ia, isIA := u.X.(*ssa.IndexAddr); isIA {
								if phi, isPhi := ia.X.(*ssa.Phi); isPhi && phi.Comment == "sortedAddrs" {
									curUnmarked = true
								}
							}
						}
					}
				}
				r4.Check(curUnmarked, core.FuncName(sfn)+"#abandon-path!current-address", p.InstrPos(blk.Instrs[0]), "the address the scheduler stopped at is un-marked too (where it is in no batch yet)",
					"when the round is given up, the address the scheduler has just marked — a big object waiting for the small batch before it to be handed over — stays in the in-flight set: it is in no batch, nobody flushes it and every later round skips it")
				r4.Check(core.MustFollow(blk.Instrs[0], pred) || pred(blk.Instrs[0]), core.FuncName(sfn)+"#abandon-path", p.InstrPos(blk.Instrs[0]), "the pending batch is un-marked before the round is abandoned", "when a flush error arrives while a batch is pending, the batch stays marked in-flight and is never scheduled again")
			}
		}
		if n == 0 {
			r.Fatalf("C17.R4: the batch hand-over select with a flush-error case was not found in flushScheduler")
		}
		// R5
		r5 := r.Rule("C17.R5", "flushScheduler returns only when closeCh fired", 1)
		for _, b := range sfn.Blocks {
			ret, ok := b.Instrs[len(b.Instrs)-1].(*ssa.Return)
			if !ok || !ret.Pos().IsValid() {
				continue
			}
			// the return block must be a select case of closeCh
			okc := false
			for _, pb := range b.Preds {
				_ = pb
			}
			for _, bb := range sfn.Blocks {
				for _, in := range bb.Instrs {
					if sel, ok := in.(*ssa.Select); ok {
						for i, st := range sel.States {
							_, path := core.AccessPath(st.Chan)
							if len(path) > 0 && path[len(path)-1] == "closeCh" {
								if cb := selectCaseBlock(sel, i); cb != nil && (cb == b || cb.Dominates(b)) {
									okc = true
								}
							}
						}
					}
				}
			}
			r5.Check(okc, core.FuncName(sfn)+"#return", p.InstrPos(ret), "return on close only", "the flush scheduler can stop while the cache is still open: nothing is flushed afterwards")
		}
	}
	// R8 batches partition the round
	r8 := r.Rule("C17.R8", "flushScheduler cuts the sorted address list into consecutive batches: when the list is re-based for the next batch after a hand-over that already contained the current address the new start is the NEXT index, and only a hand-over made before the current address was added re-bases at the current index (otherwise every later batch lags by one and the round's last address is never handed over, yet stays marked as in flight)", 2)
	schedulerBatchesPartition(p, r, r8)
	r.Explain += " (R8) the scheduler's batches are sub-slices of the round's address list; each empty re-base `list[k:k]` is at k = i+1 on the path where the current address i has been handled, and at k = i only where it has not: together with R4/R5 every address of a round reaches a worker."
	// R6 put-time and recount-time sizes are sizes of the same thing
	r6 := r.Rule("C17.R6", "put accounts len(data) and the recount on open accounts the length of each file (FSTree.IterateSizes): the cache's own tree is therefore configured to write one plain file per object (combined-write count limit below 2), so a file's length is its object's length", 1)
	cacheFilesArePlain(p, r, r6)
	r.Explain += " (R6) the size accounted at put is len(data), the size accounted when counters are rebuilt on open is the length of each file; the cache's FSTree is constructed with a combined-write count limit below 2, so each object is one plain file of exactly that length (with combined writes a file carries a prefix and possibly other objects, and the recount over-reports)."
}

// cacheFilesArePlain: as long as the recount goes by file length, every fstree.New in package writecache gets
// WithCombinedCountLimit(k) with a constant k < 2.
func cacheFilesArePlain(p *core.Prog, r *core.Report, h *core.RuleH) {
	fns := p.FuncsIn("pkg/local_object_storage/writecache")
	bySize := core.CallSites(fns, func(s core.Site) bool { return s.Name == "(*"+fst+"FSTree).IterateSizes" })
	news := core.CallSites(fns, func(s core.Site) bool { return s.Name == fst+"New" })
	if len(news) == 0 {
		r.Fatalf("C17.R6: the write-cache no longer constructs an FSTree")
		return
	}
	for _, s := range news {
		key := core.FuncName(core.Outer(s.Fn)) + "#tree-options"
		if len(bySize) == 0 {
			h.Check(true, key, p.InstrPos(s.Call), "the recount does not go by file length", "")
			continue
		}
		plain := false
		for _, o := range core.CallSites([]*ssa.Function{s.Fn}, func(o core.Site) bool { return o.Name == fst+"WithCombinedCountLimit" }) {
			c, ok := o.Call.(*ssa.Call)
			if !ok || !feedsCall(c, fst+"New", 6, map[ssa.Value]bool{}) {
				continue
			}
			k, isK := intConstOf(c.Call.Args[0])
			plain = isK && k < 2
			if !plain {
				break
			}
		}
		h.Check(plain, key, p.InstrPos(s.Call), "one plain file per object",
			"the write-cache's tree may write combined files (no constant combined-write count limit below 2) while the recount on open ("+core.FuncName(core.Outer(bySize[0].Fn))+") takes each file's length as the object's size: after a restart the reported size exceeds what the cache holds and puts are refused early")
	}
}

// isMapWrite: "assign"/"delete" when in writes the map stored in the named field.
func isMapWrite(in ssa.Instruction, field string) string {
	isMap := func(v ssa.Value) bool {
		u, ok := v.(*ssa.UnOp)
		if !ok || u.Op != token.MUL {
			return false
		}
		fa, ok := u.X.(*ssa.FieldAddr)
		return ok && core.FieldAddrName(fa) == field
	}
	switch x := in.(type) {
	case *ssa.MapUpdate:
		if isMap(x.Map) {
			return "assign"
		}
	case *ssa.Call:
		if b, ok := x.Call.Value.(*ssa.Builtin); ok && b.Name() == "delete" && isMap(x.Call.Args[0]) {
			return "delete"
		}
	}
	return ""
}

// loopHeadersContaining returns, for every instruction satisfying pred that sits in a
// loop, the header block of its INNERMOST natural loop.
func loopHeadersContaining(fn *ssa.Function, pred func(ssa.Instruction) bool) map[*ssa.BasicBlock]bool {
	type loop struct {
		header *ssa.BasicBlock
		body   map[*ssa.BasicBlock]bool
	}
	var loops []loop
	for _, b := range fn.Blocks {
		for _, s := range b.Succs {
			if s.Dominates(b) { // back edge b -> s
				body := map[*ssa.BasicBlock]bool{}
				for _, x := range fn.Blocks {
					if s.Dominates(x) && reaches(x, b) {
						body[x] = true
					}
				}
				loops = append(loops, loop{s, body})
			}
		}
	}
	out := map[*ssa.BasicBlock]bool{}
	for _, x := range fn.Blocks {
		for _, in := range x.Instrs {
			if !pred(in) {
				continue
			}
			var best *loop
			for i := range loops {
				if loops[i].body[x] && (best == nil || len(loops[i].body) < len(best.body)) {
					best = &loops[i]
				}
			}
			if best != nil {
				out[best.header] = true
			}
		}
	}
	return out
}

// wcDeleteWrapperParam: cal (same package as ref) calls the write-cache Delete on one of its own parameters; returns that parameter's index or -1.
func wcDeleteWrapperParam(cal, ref *ssa.Function) int {
	if cal == nil || cal.Blocks == nil || core.FuncPkg(cal) != core.FuncPkg(ref) {
		return -1
	}
	for _, s := range core.CallSites([]*ssa.Function{cal}, func(s core.Site) bool { return s.Name == wcI+".Delete" }) {
		if i := core.RootParam(cal, s.Call.Common().Args[0]); i >= 0 {
			return i
		}
	}
	return -1
}

// blobDeleteForEveryRemoved: in Shard.deleteObjs every id the metabase reports as removed is deleted from blob storage:
// the blob Delete sits in a loop over the WHOLE result of metabase Delete and no path through the loop body skips it.
func blobDeleteForEveryRemoved(p *core.Prog, r *core.Report, h *core.RuleH) {
	fn := p.Func(shardT + ".deleteObjs")
	if fn == nil {
		r.Fatalf("%s: deleteObjs not found", h.ID())
		return
	}
	name := core.FuncName(fn)
	var res ssa.Value
	for _, s := range core.CallSites([]*ssa.Function{fn}, func(s core.Site) bool { return s.Name == mbT+".Delete" }) {
		if v := s.Call.Value(); v != nil && v.Referrers() != nil {
			for _, ref := range *v.Referrers() {
				if ex, ok := ref.(*ssa.Extract); ok && ex.Index == 0 {
					res = ex
				}
			}
		}
	}
	sites := core.CallSites([]*ssa.Function{fn}, func(s core.Site) bool { return s.Name == storI+".Delete" })
	if res != nil && len(sites) == 0 {
		// the loop may live in a helper of the same package that receives the whole result
		for _, cs := range core.CallSites([]*ssa.Function{fn}, func(s core.Site) bool {
			cal := core.StaticCallee(s.Call)
			return cal != nil && cal.Blocks != nil && core.FuncPkg(cal) == core.FuncPkg(fn)
		}) {
			cal := core.StaticCallee(cs.Call)
			for i, a := range cs.Call.Common().Args {
				if a != res || i >= len(cal.Params) {
					continue
				}
				hs := core.CallSites([]*ssa.Function{cal}, func(s core.Site) bool { return s.Name == storI+".Delete" })
				if len(hs) == 1 {
					// the helper must be reached on every path from the metabase Delete's success edge to the exit
					reached := false
					helperCall := cs.Call.(ssa.Instruction)
					if ex, isEx := res.(*ssa.Extract); isEx {
						if mc, isC := ex.Tuple.(*ssa.Call); isC && mc.Referrers() != nil {
							for _, ref := range *mc.Referrers() {
								er, isE := ref.(*ssa.Extract)
								if !isE || er.Type().String() != "error" || er.Referrers() == nil {
									continue
								}
								for _, u := range *er.Referrers() {
									bo, isB := u.(*ssa.BinOp)
									if !isB || bo.Referrers() == nil {
										continue
									}
									for _, iu := range *bo.Referrers() {
										iff, isIf := iu.(*ssa.If)
										if !isIf {
											continue
										}
										succ := iff.Block().Succs[1]
										if bo.Op.String() == "==" {
											succ = iff.Block().Succs[0]
										}
										reached = succ.Instrs[0] == helperCall || core.MustFollow(succ.Instrs[0], func(in ssa.Instruction) bool { return in == helperCall })
									}
								}
							}
						}
					}
					h.Check(reached, name+"#blob-delete!helper-always-called", p.InstrPos(cs.Call), "the helper that deletes the blobs is called on every path after a successful metabase Delete", "after a successful metabase Delete some path returns without calling the helper that deletes the blobs")
					fn, res, sites = cal, cal.Params[i], hs
					name = core.FuncName(cal)
				}
			}
		}
	}
	if res == nil || len(sites) != 1 {
		h.Bad(name+"#blob-delete-loop", p.Pos(fn.Pos()), "expected one metabase Delete result and one blob storage Delete in deleteObjs (or in one helper it hands the whole result to)")
		return
	}
	call := sites[0].Call.(ssa.Instruction)
	// the deleted address is built from an element of the whole result
	whole := false
	walkOperands(sites[0].Call.Common().Args[0], 10, func(x ssa.Value) {
		if ia, ok := x.(*ssa.IndexAddr); ok && ia.X == res {
			whole = true
		}
	})
	h.Check(whole, name+"#blob-delete!over-whole-result", p.InstrPos(call), "blob Delete is applied to elements of the metabase's whole result", "the blob storage Delete is not applied to the elements of the metabase Delete result (whole slice)")
	// loop header
	b := call.Block()
	var hdr *ssa.BasicBlock
	for _, hb := range fn.Blocks {
		if hb.Dominates(b) && hb != b && reaches(b, hb) && (hdr == nil || hdr.Dominates(hb)) {
			for _, pr := range hb.Preds {
				if hb.Dominates(pr) {
					hdr = hb
				}
			}
		}
	}
	if hdr == nil {
		h.Bad(name+"#blob-delete!every-element", p.InstrPos(call), "the blob storage Delete is not in a loop")
		return
	}
	var body *ssa.BasicBlock
	for _, sc := range hdr.Succs {
		if sc.Dominates(b) {
			body = sc
		}
	}
	skip := body == nil || body != b && reachesAvoiding(body, hdr, map[*ssa.BasicBlock]bool{b: true}, nil)
	h.Check(!skip, name+"#blob-delete!every-element", p.InstrPos(call), "no path through the loop body skips the blob Delete", "some path through the loop over the removed ids skips the blob storage Delete: the metadata is gone but the blob stays (orphan; re-indexed by a later resync, never collected by GC)")
}

func reaches(from, to *ssa.BasicBlock) bool {
	seen := map[*ssa.BasicBlock]bool{}
	var rec func(b *ssa.BasicBlock) bool
	rec = func(b *ssa.BasicBlock) bool {
		if b == to {
			return true
		}
		if seen[b] {
			return false
		}
		seen[b] = true
		for _, s := range b.Succs {
			if rec(s) {
				return true
			}
		}
		return false
	}
	return rec(from)
}

// inCycle: block b lies on a CFG cycle (some successor reaches b again).
func inCycle(b *ssa.BasicBlock) bool {
	for _, s := range b.Succs {
		if reaches(s, b) {
			return true
		}
	}
	return false
}

// selectCaseBlock finds the block executed when select state idx fires: the true
// successor of `if extract(sel,0) == idx`.
func selectCaseBlock(sel *ssa.Select, idx int) *ssa.BasicBlock {
	for _, ref := range *sel.Referrers() {
		ex, ok := ref.(*ssa.Extract)
		if !ok || ex.Index != 0 {
			continue
		}
		for _, r2 := range *ex.Referrers() {
			bo, ok := r2.(*ssa.BinOp)
			if !ok || bo.Op != token.EQL {
				continue
			}
			k, isK := intConstOf(bo.Y)
			if !isK || int(k) != idx {
				continue
			}
			for _, r3 := range *bo.Referrers() {
				if ifi, ok := r3.(*ssa.If); ok {
					return ifi.Block().Succs[0]
				}
			}
		}
	}
	return nil
}

func batchElementsAllWritten(p *core.Prog, r *core.Report, h *core.RuleH) {
	fn := p.Func("(*" + fst + "FSTree).PutBatch")
	if fn == nil {
		r.Fatalf("C15.R7: FSTree.PutBatch not found")
		return
	}
	var head *ssa.BasicBlock
	stop := map[*ssa.BasicBlock]bool{}
	skipEdge := map[[2]*ssa.BasicBlock]bool{}
	for _, b := range fn.Blocks {
		for _, in := range b.Instrs {
			switch x := in.(type) {
			case *ssa.Next:
				head = b
			case *ssa.Call:
				if core.CalleeName(x) == "builtin.append" && strings.HasSuffix(x.Type().String(), "fstree.writeDataUnit") {
					stop[b] = true
				}
			case *ssa.If:
				bo, ok := x.Cond.(*ssa.BinOp)
				if !ok || bo.Op != token.EQL {
					continue
				}
				if k, isK := intConstOf(bo.Y); !isK || k != 0 {
					continue
				}
				if c, isC := bo.X.(*ssa.Call); isC && core.CalleeName(c) == "builtin.len" {
					skipEdge[[2]*ssa.BasicBlock{b, b.Succs[0]}] = true
				}
			}
		}
	}
	if head == nil || len(stop) == 0 {
		h.Bad(core.FuncName(fn)+"#loop", p.Pos(fn.Pos()), "the loop over the batch or the append of its units was not found")
		return
	}
	h.Check(!reachesAvoiding(head, head, stop, skipEdge), core.FuncName(fn)+"#every-element", p.Pos(fn.Pos()), "every element with bytes is appended or the call fails",
		"an iteration over the batch can end without the element being handed to the writer (and without failing the call): PutBatch then returns nil for a batch it has not fully written, and the write-cache deletes the skipped object, the only copy of data the metabase lists as available")
}

func schedulerBatchesPartition(p *core.Prog, r *core.Report, h *core.RuleH) {
	fn := p.Func(wcT + ".flushScheduler")
	if fn == nil {
		r.Fatalf("C17.R8: flushScheduler not found")
		return
	}
	// the flag 'current address already added to the batch'
	isHandled := func(v ssa.Value) bool {
		phi, ok := v.(*ssa.Phi)
		return ok && phi.Comment == "handledAddr"
	}
	handledEdge := func(b *ssa.BasicBlock, want bool) bool {
		for _, blk := range fn.Blocks {
			ifi, ok := blk.Instrs[len(blk.Instrs)-1].(*ssa.If)
			if !ok || !isHandled(ifi.Cond) {
				continue
			}
			s := blk.Succs[0]
			if !want {
				s = blk.Succs[1]
			}
			if len(s.Preds) == 1 && (s == b || s.Dominates(b)) {
				return true
			}
		}
		return false
	}
	n := 0
	for _, b := range fn.Blocks {
		for _, in := range b.Instrs {
			sl, ok := in.(*ssa.Slice)
			if !ok || sl.Low == nil || sl.High == nil || sl.Max != nil {
				continue
			}
			if phi, isPhi := sl.X.(*ssa.Phi); !isPhi || phi.Comment != "sortedAddrs" {
				continue
			}
			// an empty re-base: low and high are the same index expression
			same := sl.Low == sl.High
			if bl, isB := sl.Low.(*ssa.BinOp); isB && !same {
				if bh, isH := sl.High.(*ssa.BinOp); isH && bl.Op == bh.Op && bl.X == bh.X {
					kl, okl := intConstOf(bl.Y)
					kh, okh := intConstOf(bh.Y)
					same = okl && okh && kl == kh
				}
			}
			if !same {
				continue
			}
			n++
			// the loop index itself is `rangeindex-phi + 1` in SSA; the next index is that plus one
			isIdx := func(v ssa.Value) bool {
				bo, isB := v.(*ssa.BinOp)
				if !isB || bo.Op != token.ADD {
					return false
				}
				phi, isPhi := bo.X.(*ssa.Phi)
				k, isK := intConstOf(bo.Y)
				return isPhi && phi.Comment == "rangeindex" && isK && k == 1
			}
			next := false
			if bo, isB := sl.Low.(*ssa.BinOp); isB && bo.Op == token.ADD && isIdx(bo.X) {
				if k, isK := intConstOf(bo.Y); isK && k == 1 {
					next = true
				}
			}
			if !next && !isIdx(sl.Low) {
				h.Bad(fmt.Sprintf("%s#re-base@%d", core.FuncName(fn), n), p.InstrPos(in), "the address list is re-based at an index that is neither the current one nor the next")
				continue
			}
			key := fmt.Sprintf("%s#re-base@%d", core.FuncName(fn), n)
			if next {
				h.Check(handledEdge(b, true), key, p.InstrPos(in), "re-based behind the current address where it has been handed over", "the list is re-based at the next index on a path where the current address has not been added to a batch yet: that address is skipped")
			} else {
				h.Check(handledEdge(b, false), key, p.InstrPos(in), "re-based at the current address where it has not been handed over yet",
					"after a hand-over the address list is re-based at the CURRENT index also on the path where the current address was part of the batch just sent: the next batch starts with it again, every later batch of the round lags by one and the last address is never handed to a worker (it stays in the in-flight set and is skipped by every later round)")
			}
		}
	}
	if n == 0 {
		h.Bad(core.FuncName(fn)+"#re-base", p.Pos(fn.Pos()), "no re-base of the address list found in the scheduler")
	}
}
