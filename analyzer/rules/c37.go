package rules

import (
	"go/constant"
	"go/token"
	"go/types"
	"strings"

	"golang.org/x/tools/go/ssa"

	"verif/analyzer/core"
)

// C37 — the inner ring approves container changes only when the owner authorised them.
func init() {
	register(&Check{ID: "C37", Level: "other", Pkgs: []string{"./pkg/innerring/processors/container", "./internal/crypto"}, Run: runC37})
}

const cpT = "(*pkg/innerring/processors/container.Processor)"

// constNames maps integer values of the named constants of a type to their names.
func constNames(p *core.Prog, pkgPath, typeName, prefix string) map[int64]string {
	out := map[int64]string{}
	pk := p.All[pkgPath]
	if pk == nil || pk.Types == nil {
		return out
	}
	for _, n := range pk.Types.Scope().Names() {
		c, ok := pk.Types.Scope().Lookup(n).(*types.Const)
		if !ok || !strings.HasPrefix(n, prefix) {
			continue
		}
		if nt, ok := c.Type().(*types.Named); !ok || nt.Obj().Name() != typeName {
			continue
		}
		if v, ok := constant.Int64Val(constant.ToInt(c.Val())); ok {
			out[v] = n
		}
	}
	return out
}

func runC37(p *core.Prog, r *core.Report) {
	r.Explain = "Decides, on all CFG paths of the container processor: (R1) every approval (notary co-signature) is dominated by the alphabet test and by the nil result of the operation's own check function; (R2) each check function returns nil only after verifySignature returned nil, and additionally: creation — placement policy Verify()==nil and a system-attribute allow-list lookup whose miss returns an error; eACL — validateEACL()==nil and the basic ACL's Extendable()==true; validateEACL rejects the system role; (R3) both token branches of verifySignature return nil only after: token authenticated, issuer == container owner, lifetime valid, the verb of the enclosing operation asserted unconditionally, and the container asserted when an ID is given (V1: AssertVerb + AppliedTo under idContainerSet; V2: AssertContainer(verbV2, idContainer) unconditionally) — sibling agreement of obligation classes; (R4) in every signatureVerificationData literal the V1 and V2 verbs name the same operation, and it is the operation of the enclosing check. Not covered: token cryptography and eACL table contents."
	// ---- R1
	r1 := r.Rule("C37.R1", "every approve* call is dominated by IsAlphabet()==true and the nil result of the operation's check function", 10)
	pairs := map[string][]string{ // process function -> approve callee -> required checks
		cpT + ".processContainerPut":           {cpT + ".approvePutContainer", cpT + ".checkPutContainer"},
		cpT + ".processCreateContainerRequest": {cpT + ".approvePutContainer", cpT + ".checkPutContainer"},
		cpT + ".processContainerDelete":        {cpT + ".approveDeleteContainer", cpT + ".checkDeleteContainer"},
		cpT + ".processPutEACLRequest":         {cpT + ".approveSetEACL", cpT + ".checkSetEACL"},
		cpT + ".processSetAttributeRequest":    {cpT + ".approveSetAttributeRequest", cpT + ".checkSetAttributeRequest"},
		cpT + ".processRemoveAttributeRequest": {cpT + ".approveRemoveAttributeRequest", cpT + ".checkRemoveAttributeRequest"},
	}
	alpha := core.Guard{Name: "is-alphabet", Match: func(s core.Site) bool { return strings.HasSuffix(s.Name, ".IsAlphabet") }, Comps: []core.Comp{{Result: -1, Kind: core.IsTrue}}}
	seenApprove := map[string]bool{}
	for fnName, pr := range pairs {
		fn := p.Func(fnName)
		if fn == nil {
			r.Fatalf("C37.R1: %s not found", fnName)
			continue
		}
		seenApprove[pr[0]] = true
		core.CheckEffectsFn(p, r1, fn, core.EffectRule{Min: 1, Guards: []core.Guard{alpha, core.G("checked", core.ErrNil, pr[1])}, Effect: core.CallTo(pr[0])})
	}
	// every approve* function is called only from its tabled process function, and NotarySignAndInvokeTX only from approve* functions
	for _, s := range core.CallSites(p.FuncsIn("pkg/innerring/processors/container"), func(s core.Site) bool {
		return strings.HasPrefix(s.Name, cpT+".approve") || s.Name == "(*pkg/morph/client.Client).NotarySignAndInvokeTX"
	}) {
		outer := core.FuncName(core.Outer(s.Fn))
		if strings.HasPrefix(s.Name, cpT+".approve") {
			_, ok := pairs[outer]
			r1.Check(ok && pairs[outer][0] == s.Name, outer+"#"+s.Name, p.InstrPos(s.Call), "approval reached only from its guarded process function", "approval function called from an untabled place")
		} else {
			r1.Check(strings.HasPrefix(outer, cpT+".approve") || outer == cpT+".processAnnounceLoad" || strings.Contains(outer, "AnnounceLoad"), outer+"#NotarySignAndInvokeTX", p.InstrPos(s.Call), "co-signature only inside approve*", "notary co-signature outside the approve* functions")
		}
	}
	// the eACL that may accompany a creation request is checked before the creation approval
	if fn := p.Func(cpT + ".processCreateContainerRequest"); fn != nil {
		// when an eACL table comes with the request (req.EACLTable != nil) it must pass checkSetEACL first
		g := []core.Guard{
			core.G("eacl-checked", core.ErrNil, cpT+".checkSetEACL"),
			{Name: "no-eacl-attached", Comps: []core.Comp{{Result: -1, Kind: core.IsNil}}, Value: func(f *ssa.Function, v ssa.Value) bool {
				_, path := core.AccessPathM(core.NewMemReach(f), v)
				return len(path) == 1 && path[0] == "EACLTable"
			}},
		}
		core.CheckEffectsFn(p, r1, fn, core.EffectRule{Min: 1, Guards: g, Derived: []core.Derived{{Name: "attached-eacl-checked", Alts: [][]string{{"eacl-checked"}, {"no-eacl-attached"}}}},
			Effect: core.CallTo(cpT + ".approvePutContainer"), Need: func(string) []string { return []string{"attached-eacl-checked"} }})
	}
	// ---- R2
	r2 := r.Rule("C37.R2", "check functions return nil only after verifySignature()==nil (+ policy / allow-list / eACL validation where applicable)", 8)
	vs := core.G("signature-verified", core.ErrNil, cpT+".verifySignature")
	for _, c := range []struct {
		fn     string
		guards []core.Guard
	}{
		{cpT + ".checkPutContainer", []core.Guard{vs, {Name: "policy-valid", Match: func(s core.Site) bool { return strings.HasSuffix(s.Name, "netmap.PlacementPolicy).Verify") }, Comps: []core.Comp{{Result: -1, Kind: core.ErrNil}}}}},
		{cpT + ".checkDeleteContainer", []core.Guard{vs}},
		{cpT + ".checkSetEACL", []core.Guard{vs, core.G("eacl-valid", core.ErrNil, "pkg/innerring/processors/container.validateEACL"),
			{Name: "acl-extendable", Match: func(s core.Site) bool { return strings.HasSuffix(s.Name, "acl.Basic).Extendable") }, Comps: []core.Comp{{Result: -1, Kind: core.IsTrue}}}}},
		{cpT + ".checkSetAttributeRequest", []core.Guard{vs}},
		{cpT + ".checkRemoveAttributeRequest", []core.Guard{vs}},
	} {
		core.CheckSuccess(p, r2, core.SuccessRule{Fn: c.fn, ResultIdx: -1, MinReturns: 1, Guards: c.guards})
	}
	// allow-list: a miss in allowedSystemAttributes returns an error
	if fn := p.Func(cpT + ".checkPutContainer"); fn != nil {
		n := 0
		var blocks []*ssa.BasicBlock
		for _, f := range append([]*ssa.Function{fn}, fn.AnonFuncs...) {
			blocks = append(blocks, f.Blocks...)
		}
		for _, b := range blocks {
			ifi, ok := b.Instrs[len(b.Instrs)-1].(*ssa.If)
			if !ok {
				continue
			}
			ex, ok := ifi.Cond.(*ssa.Extract)
			if !ok || ex.Index != 1 {
				continue
			}
			lk, ok := ex.Tuple.(*ssa.Lookup)
			if !ok || !lk.CommaOk {
				continue
			}
			if u, ok := lk.X.(*ssa.UnOp); !ok || u.X.Name() != "allowedSystemAttributes" {
				continue
			}
			n++
			miss := b.Succs[1]
			// inside a range-over-func body the rejection is: store a non-nil error into the result cell, stop iterating
			good := false
			for _, in := range miss.Instrs {
				switch x := in.(type) {
				case *ssa.Return:
					if b.Parent() == fn && core.KnownNonNil(core.NewMemReach(fn), x.Results[len(x.Results)-1], miss) {
						good = true
					}
				case *ssa.Store:
					if x.Val.Type().String() == "error" && core.KnownNonNil(core.NewMemReach(b.Parent()), x.Val, miss) {
						good = true
					}
				}
			}
			r2.Check(good, core.FuncName(fn)+"#system-attribute-allow-list", p.InstrPos(ifi), "a system attribute outside the allow-list is rejected", "a system attribute missing from the allow-list does not fail the check")
		}
		if n == 0 {
			r2.Bad(core.FuncName(fn)+"#system-attribute-allow-list", p.Pos(fn.Pos()), "the allow-list lookup of system attributes is gone")
		}
	}
	// validateEACL rejects the system role
	if fn := p.Func("pkg/innerring/processors/container.validateEACL"); fn == nil {
		r.Fatalf("C37.R2: validateEACL not found")
	} else {
		sysRole, _ := p.ConstInt("github.com/nspcc-dev/neofs-sdk-go/eacl.RoleSystem")
		g := core.Guard{Name: "not-system-role", Match: func(s core.Site) bool { return strings.HasSuffix(s.Name, "eacl.Target).Role") }, Comps: []core.Comp{{Result: -1, Kind: core.NeConst, Const: sysRole}}}
		// every path that finishes examining a target (reaches the next loop iteration / return nil) passed the test:
		// modelled as: the success return is not reachable from a Role() call's "== RoleSystem" edge — i.e. that edge returns an error
		ok := false
		for _, s := range core.CallSites([]*ssa.Function{fn}, g.Match) {
			for _, ref := range *s.Call.Value().Referrers() {
				bo, isB := ref.(*ssa.BinOp)
				if !isB || bo.Op != token.EQL {
					continue
				}
				for _, r3 := range *bo.Referrers() {
					if ifi, isIf := r3.(*ssa.If); isIf {
						tb := ifi.Block().Succs[0]
						if ret, isRet := tb.Instrs[len(tb.Instrs)-1].(*ssa.Return); isRet && core.KnownNonNil(core.NewMemReach(fn), ret.Results[0], tb) {
							ok = true
						}
					}
				}
			}
		}
		r2.Check(ok, core.FuncName(fn)+"#system-role-rejected", p.Pos(fn.Pos()), "a record targeting the system role is rejected", "validateEACL no longer rejects records that touch the system role")
	}
	// ---- R3
	r3 := r.Rule("C37.R3", "both token branches assert: authenticated, issuer == owner, lifetime, verb (unconditionally), container when given", 8)
	vsf := p.Func(cpT + ".verifySignature")
	v2f := p.Func(cpT + ".verifySessionV2")
	if vsf == nil || v2f == nil {
		r.Fatalf("C37.R3: verifySignature / verifySessionV2 not found")
		return
	}
	fieldOfParam := func(fn *ssa.Function, v ssa.Value, field string) bool {
		_, path := core.AccessPathM(core.NewMemReach(fn), v)
		return core.RootParam(fn, v) == len(fn.Params)-1 && len(path) == 1 && path[0] == field
	}
	v1 := []core.Guard{
		{Name: "v1-authenticated", Match: func(s core.Site) bool { return s.Name == "internal/crypto.AuthenticateToken" }, Comps: []core.Comp{{Result: -1, Kind: core.ErrNil}}},
		{Name: "v1-verb", Match: func(s core.Site) bool {
			return strings.HasSuffix(s.Name, "session.Container).AssertVerb") && fieldOfParam(s.Fn, s.Call.Common().Args[len(s.Call.Common().Args)-1], "verb")
		}, Comps: []core.Comp{{Result: -1, Kind: core.IsTrue}}},
		{Name: "v1-container", Match: func(s core.Site) bool {
			return strings.HasSuffix(s.Name, "session.Container).AppliedTo") && fieldOfParam(s.Fn, s.Call.Common().Args[len(s.Call.Common().Args)-1], "idContainer")
		}, Comps: []core.Comp{{Result: -1, Kind: core.IsTrue}}},
		{Name: "no-container-given", Comps: []core.Comp{{Result: -1, Kind: core.IsFalse}}, Value: func(fn *ssa.Function, v ssa.Value) bool { return fieldOfParam(fn, v, "idContainerSet") }},
		{Name: "v1-issuer", Match: func(s core.Site) bool { return strings.HasSuffix(s.Name, "session.IssuedBy") }, Comps: []core.Comp{{Result: -1, Kind: core.IsTrue}}},
		core.G("v1-lifetime", core.ErrNil, cpT+".checkTokenLifetime"),
		{Name: "v1-data-signature", Match: func(s core.Site) bool {
			return strings.HasSuffix(s.Name, "session.Container).VerifySessionDataSignature")
		}, Comps: []core.Comp{{Result: -1, Kind: core.IsTrue}}},
		core.G("v2-verified", core.ErrNil, cpT+".verifySessionV2"),
		core.G("owner-signature", core.ErrNil, "internal/crypto.AuthenticateContainerRequest"),
	}
	core.CheckSuccessFn(p, r3, vsf, core.SuccessRule{ResultIdx: -1, MinReturns: 1, Guards: v1,
		Derived: []core.Derived{
			{Name: "v1-container-if-given", Alts: [][]string{{"v1-container"}, {"no-container-given"}}},
			{Name: "authorised", Alts: [][]string{
				{"v1-authenticated", "v1-verb", "v1-issuer", "v1-lifetime", "v1-data-signature"},
				{"v2-verified"}, {"owner-signature"}}},
		}, Need: []string{"authorised"}})
	// the V1 container clause needs its own pass: on V1 success returns (those that passed v1-authenticated)
	gfV1 := core.Flow(vsf, v1, core.Derived{Name: "v1-container-if-given", Alts: [][]string{{"v1-container"}, {"no-container-given"}}})
	for _, b := range vsf.Blocks {
		ret, ok := b.Instrs[len(b.Instrs)-1].(*ssa.Return)
		if !ok {
			continue
		}
		f := gfV1.At(ret)
		if gfV1.Passed(f, 0) && gfV1.Passed(f, 6) { // a V1 success path
			r3.Check(gfV1.DerivedPassed(f, "v1-container-if-given"), core.FuncName(vsf)+"#v1-success!container", p.InstrPos(ret), "container asserted when an ID is given", "V1 session accepted for a container it is not applied to")
		}
	}
	v2 := []core.Guard{
		{Name: "v2-valid", Match: func(s core.Site) bool { return strings.HasSuffix(s.Name, "session/v2.Token).Validate") }, Comps: []core.Comp{{Result: -1, Kind: core.ErrNil}}},
		core.G("v2-authenticated", core.ErrNil, "internal/crypto.AuthenticateTokenV2"),
		{Name: "v2-verb-and-container", Match: func(s core.Site) bool {
			a := s.Call.Common().Args
			return strings.HasSuffix(s.Name, "session/v2.Token).AssertContainer") && len(a) == 3 && fieldOfParam(s.Fn, a[1], "verbV2") && fieldOfParam(s.Fn, a[2], "idContainer")
		}, Comps: []core.Comp{{Result: -1, Kind: core.IsTrue}}},
		{Name: "v2-issuer", Comps: []core.Comp{{Result: -1, Kind: core.IsFalse}}, Value: func(fn *ssa.Function, v ssa.Value) bool {
			bo, ok := v.(*ssa.BinOp)
			if !ok || bo.Op != token.NEQ {
				return false
			}
			isIss := func(x ssa.Value) bool {
				c, ok := x.(*ssa.Call)
				return ok && strings.HasSuffix(core.CalleeName(c), "session/v2.Token).OriginalIssuer")
			}
			return isIss(bo.X) && fieldOfParam(fn, bo.Y, "ownerContainer") || isIss(bo.Y) && fieldOfParam(fn, bo.X, "ownerContainer")
		}},
		{Name: "v2-lifetime", Match: func(s core.Site) bool {
			return (strings.HasSuffix(s.Name, "session/v2.Token).ValidAt") || strings.HasSuffix(s.Name, "session/v2.Lifetime).ValidAt"))
		}, Comps: []core.Comp{{Result: -1, Kind: core.IsTrue}}},
	}
	core.CheckSuccessFn(p, r3, v2f, core.SuccessRule{ResultIdx: -1, MinReturns: 1, Guards: v2})
	// ---- R6 sibling agreement: the request itself is bound to the token in BOTH branches
	r6 := r.Rule("C37.R6", "in both token branches the operation data is witnessed by a party the token names: V1 — VerifySessionDataSignature(signed data, invocation script) with the session key; V2 — the request's signer is asserted to be one of the token's subjects (AssertAuthority) and the operation data is authenticated against that signer. A token is copied around in requests and notary transactions; without this clause whoever holds a copy acts for the owner", 2)
	v1bound := core.Guard{Name: "v1-data-signature", Match: func(s core.Site) bool {
		a := s.Call.Common().Args
		return strings.HasSuffix(s.Name, "session.Container).VerifySessionDataSignature") && len(a) == 3 && fieldOfParam(s.Fn, a[1], "signedData") && fieldOfParam(s.Fn, a[2], "invocScript")
	}, Comps: []core.Comp{{Result: -1, Kind: core.IsTrue}}}
	gfB := core.Flow(vsf, []core.Guard{v1[0], v1bound})
	nV1 := 0
	for _, b := range vsf.Blocks {
		ret, ok := b.Instrs[len(b.Instrs)-1].(*ssa.Return)
		if !ok || len(ret.Results) != 1 {
			continue
		}
		if c, isC := ret.Results[0].(*ssa.Const); !isC || !c.IsNil() {
			continue
		}
		f := gfB.At(ret)
		if gfB.Passed(f, 0) { // a V1 success path
			nV1++
			r6.Check(gfB.Passed(f, 1), core.FuncName(vsf)+"#v1-success!request-bound-to-token", p.InstrPos(ret), "operation data signed with the session key", "a V1 session is accepted without the operation data being signed with the session key")
		}
	}
	if nV1 == 0 {
		r6.Bad(core.FuncName(vsf)+"#v1-success!request-bound-to-token", p.Pos(vsf.Pos()), "no V1 success path found")
	}
	v2bound := []core.Guard{
		{Name: "v2-signer-is-a-subject", Match: func(s core.Site) bool { return strings.HasSuffix(s.Name, "session/v2.Token).AssertAuthority") }, Comps: []core.Comp{{Result: 0, Kind: core.IsTrue}}},
		{Name: "v2-data-authenticated", Match: func(s core.Site) bool {
			if s.Name != "internal/crypto.AuthenticateContainerRequest" {
				return false
			}
			for _, a := range s.Call.Common().Args {
				if fieldOfParam(s.Fn, a, "signedData") {
					return true
				}
			}
			return false
		}, Comps: []core.Comp{{Result: -1, Kind: core.ErrNil}}},
	}
	gfV2 := core.Flow(v2f, v2bound)
	nV2 := 0
	for _, b := range v2f.Blocks {
		ret, ok := b.Instrs[len(b.Instrs)-1].(*ssa.Return)
		if !ok || len(ret.Results) != 1 {
			continue
		}
		if c, isC := ret.Results[0].(*ssa.Const); !isC || !c.IsNil() {
			continue
		}
		nV2++
		f := gfV2.At(ret)
		r6.Check(gfV2.Passed(f, 0) && gfV2.Passed(f, 1), core.FuncName(v2f)+"#v2-success!request-bound-to-token", p.InstrPos(ret), "signer is a subject of the token and the operation data is authenticated against it",
			"a V2 session is accepted without looking at who signed the operation data (its sibling, the V1 branch, demands the session key's signature): anybody holding a copy of a valid owner-issued token gets any request within the token's verbs approved")
	}
	if nV2 == 0 {
		r6.Bad(core.FuncName(v2f)+"#v2-success!request-bound-to-token", p.Pos(v2f.Pos()), "no V2 success path found")
	}
	r.Explain += " (R6) sibling agreement on the one obligation R3 does not list: the request is bound to the token. The V1 branch verifies the operation data with the session key on every success path; the V2 branch must assert that the request's signer is a subject of the token and authenticate the operation data against that signer. On the current tree the V2 branch does neither (known finding)."
	// ---- R4
	r4 := r.Rule("C37.R4", "verb and verbV2 of every signatureVerificationData literal name the same operation, the one of the enclosing check", 5)
	v1names := constNames(p, "github.com/nspcc-dev/neofs-sdk-go/session", "ContainerVerb", "VerbContainer")
	v2names := constNames(p, "github.com/nspcc-dev/neofs-sdk-go/session/v2", "Verb", "VerbContainer")
	wantOp := map[string]string{
		cpT + ".checkPutContainer": "VerbContainerPut", cpT + ".checkDeleteContainer": "VerbContainerDelete", cpT + ".checkSetEACL": "VerbContainerSetEACL",
		cpT + ".checkSetAttributeRequest": "VerbContainerSetAttribute", cpT + ".checkRemoveAttributeRequest": "VerbContainerRemoveAttribute",
	}
	for fnName, want := range wantOp {
		fn := p.Func(fnName)
		if fn == nil {
			r.Fatalf("C37.R4: %s not found", fnName)
			continue
		}
		var got1, got2 string
		for _, b := range fn.Blocks {
			for _, in := range b.Instrs {
				st, ok := in.(*ssa.Store)
				if !ok {
					continue
				}
				fa, ok := st.Addr.(*ssa.FieldAddr)
				if !ok {
					continue
				}
				k, isK := intConstOf(st.Val)
				switch core.FieldAddrName(fa) {
				case "(pkg/innerring/processors/container.signatureVerificationData).verb":
					if isK {
						got1 = v1names[k]
					} else {
						got1 = "<non-constant>"
					}
				case "(pkg/innerring/processors/container.signatureVerificationData).verbV2":
					if isK {
						got2 = v2names[k]
					} else {
						got2 = "<non-constant>"
					}
				}
			}
		}
		r4.Check(got1 == want && got2 == want, fnName+"#verbs", p.Pos(fn.Pos()), "V1 and V2 verbs are "+want, "session verbs of this check are V1="+got1+" V2="+got2+", expected "+want+" for both")
	}
	// ---- R5 'issued by the owner' is read from an authenticated chain (shared with C30.R7)
	r5 := r.Rule("C37.R5", "the token authentication verifySessionV2 relies on walks the whole delegation chain: AuthenticateTokenV2 returns nil only if the token has no origin or the same check passed for its origin — the issuer compared with the container owner is the ORIGINAL issuer, read from the innermost token", 2)
	delegationChainAuthenticated(p, r, r5)
	r.Explain += " (R5, shared with C30.R7) verifySessionV2 compares the container owner with the token's original issuer, i.e. with a field of the innermost token of a delegation chain; the authentication it calls returns nil on no path that skips the same check for the origin token, so an outer token signed by anybody cannot carry a forged owner-issued origin."
}
