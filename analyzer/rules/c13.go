package rules

import (
	"fmt"
	"go/token"
	"strings"

	"golang.org/x/tools/go/ssa"

	"verif/analyzer/core"
)

// C12 / C13 — file-tree writers: publish-after-write ordering, clean failure.
func init() {
	pk := []string{"./pkg/local_object_storage/blobstor/fstree"}
	register(&Check{ID: "C13", Level: "other", Pkgs: pk, Run: runC13})
	register(&Check{ID: "C12", Level: "other", Pkgs: pk, Run: runC12})
}

const fst = "pkg/local_object_storage/blobstor/fstree."

// errors.Is target rendering of unix.EEXIST (a syscall.Errno constant; 17 on linux)
const errEEXIST = "const:syscall.Errno=17"

func lockKey(c ssa.CallInstruction) (string, int) {
	n := core.CalleeName(c)
	d := 0
	switch n {
	case "(*sync.Mutex).Lock", "(*sync.RWMutex).Lock", "(*sync.RWMutex).RLock":
		d = 1
	case "(*sync.Mutex).Unlock", "(*sync.RWMutex).Unlock", "(*sync.RWMutex).RUnlock":
		d = -1
	default:
		return "", 0
	}
	_, path := core.AccessPath(c.Common().Args[0])
	if len(path) == 0 {
		return "lock:?", d
	}
	// key by the owning struct type and field, not by instance
	fa, _ := c.Common().Args[0].(*ssa.FieldAddr)
	if fa != nil {
		return "lock:" + core.FieldAddrName(fa), d
	}
	return "lock:" + strings.Join(path, "."), d
}

// Summaries of the two helpers whose outcome decides what the caller still owes.
// They are VERIFIED on the helper's own body first (R0) and then applied at call sites.
var c13Summaries = map[string][]core.Outcome{
	"(*" + fst + "linuxWriter).newSyncBatch": {
		{Label: "ok(holds sb.lock)", HasErr: true, ErrNil: true, Delta: map[string]int{"lock:(" + fst + "syncBatch).lock": 1}},
		{Label: "fail", HasErr: true, ErrNil: false},
	},
	"(*" + fst + "syncBatch).write": {
		{Label: "ok", HasErr: true, ErrNil: true},
		{Label: "fail(batch finalized)", HasErr: true, ErrNil: false, Delta: map[string]int{"finalize": 1}},
	},
}

// b.err is only ever set to a non-nil error (checked by C13.R4), so a value stored on a path survives later calls.
var c13Sticky = map[string]bool{"(" + fst + "syncBatch).err": true}

func c13Step(in ssa.Instruction) map[string]int {
	c, ok := in.(ssa.CallInstruction)
	if !ok {
		return nil
	}
	if k, d := lockKey(c); k != "" {
		return map[string]int{k: d}
	}
	if core.CalleeName(c) == "(*"+fst+"syncBatch).intSync" {
		return map[string]int{"finalize": 1}
	}
	return nil
}

func c13Fork(self *ssa.Function) func(c ssa.CallInstruction) []core.Outcome {
	return func(c ssa.CallInstruction) []core.Outcome {
		n := core.CalleeName(c)
		if outs, ok := c13Summaries[n]; ok && core.FuncName(self) != n {
			return outs
		}
		switch n {
		case "golang.org/x/sys/unix.Writev", "golang.org/x/sys/unix.Write", "golang.org/x/sys/unix.Open", "golang.org/x/sys/unix.Close", "golang.org/x/sys/unix.Fdatasync",
			"(*" + fst + "linuxWriter).createBatch", "os.OpenFile", "(*os.File).Write", "(*os.File).Close", "os.Rename", "(*" + fst + "genericWriter).writeFile":
			return []core.Outcome{{Label: "ok", HasErr: true, ErrNil: true}, {Label: "fail", HasErr: true, ErrNil: false, Is: map[string]bool{}}}
		case "golang.org/x/sys/unix.Linkat":
			return []core.Outcome{{Label: "ok", HasErr: true, ErrNil: true},
				{Label: "fail(EEXIST)", HasErr: true, ErrNil: false, Is: map[string]bool{errEEXIST: true}},
				{Label: "fail(other)", HasErr: true, ErrNil: false, Is: map[string]bool{}}}
		}
		return nil
	}
}

func runC13(p *core.Prog, r *core.Report) {
	r.Explain = "Decides, by path-sensitive enumeration of every control-flow path of the two file-tree writers (each block at most twice per path, phis resolved by the edge taken, branches pruned by the outcomes chosen for the failing/succeeding system calls — no solver): (R0) the helper summaries used below hold on the helpers' own bodies (newSyncBatch returns holding the batch lock exactly on success; syncBatch.write has finalized the batch exactly once on every error return and not at all on nil); (R1) lock balance — every exit of every writer function has released every mutex it took (so one failed write cannot block the unaffected ones); (R2) single-shot finalization — on no path is a batch finalized (intSync: closes the descriptor and the ready channel) more than once, so a fault cannot panic the process with a double close; (R3) no success without the bytes — a writer returns nil only on paths where open, write (full length), link/rename and close all succeeded (EEXIST from link tolerated: the object is already there). Not covered: double faults under concurrency between batched writers, kernel behaviour."
	walkFn := func(name string) *ssa.Function {
		fn := p.Func(name)
		if fn == nil {
			r.Fatalf("C13: %s not found", name)
		}
		return fn
	}
	// ---- R0 summaries
	r0 := r.Rule("C13.R0", "helper summaries hold on the helpers' bodies: newSyncBatch holds sb.lock iff it succeeds; syncBatch.write finalizes the batch exactly once iff it fails", 4)
	if fn := walkFn("(*" + fst + "linuxWriter).newSyncBatch"); fn != nil {
		key := "lock:(" + fst + "syncBatch).lock"
		np, trunc := core.PathWalk(fn, core.Hooks{Fork: c13Fork(fn), Step: c13Step, StickyFields: c13Sticky, Exit: func(e core.ExitInfo) {
			want := 0
			if e.ErrKnown && e.ErrNil {
				want = 1
			}
			c := fmt.Sprintf("%s#exit[%s]", core.FuncName(fn), strings.Join(e.Trace, ","))
			if !e.ErrKnown {
				r0.Bad(c, p.InstrPos(e.Ret), "cannot decide whether this exit reports an error")
				return
			}
			r0.Check(e.Counters[key] == want, c, p.InstrPos(e.Ret), "lock held iff success", fmt.Sprintf("newSyncBatch returns with sb.lock count %d on this path (want %d)", e.Counters[key], want))
		}})
		if np == 0 || trunc {
			r.Fatalf("C13.R0: newSyncBatch: %d paths, truncated=%v", np, trunc)
		}
	}
	if fn := walkFn("(*" + fst + "syncBatch).write"); fn != nil {
		np, trunc := core.PathWalk(fn, core.Hooks{Fork: c13Fork(fn), Step: c13Step, StickyFields: c13Sticky, Exit: func(e core.ExitInfo) {
			c := fmt.Sprintf("%s#exit[%s]", core.FuncName(fn), strings.Join(e.Trace, ","))
			if !e.ErrKnown {
				r0.Bad(c, p.InstrPos(e.Ret), "cannot decide whether this exit reports an error")
				return
			}
			want := 1
			if e.ErrNil {
				want = 0
			}
			r0.Check(e.Counters["finalize"] == want, c, p.InstrPos(e.Ret), "batch finalized exactly once iff the write failed",
				fmt.Sprintf("syncBatch.write returns (error nil=%v) having finalized the batch %d times (want %d): waiting writers of the batch are not failed / the batch keeps accepting objects after a torn record", e.ErrNil, e.Counters["finalize"], want))
		}})
		if np == 0 || trunc {
			r.Fatalf("C13.R0: write: %d paths, truncated=%v", np, trunc)
		}
	}
	// ---- R1/R2 over all functions of the writers
	r1 := r.Rule("C13.R1", "lock balance: every exit of every writer function has released every mutex it acquired (wrapper newSyncBatch excepted by its verified summary)", 6)
	r2 := r.Rule("C13.R2", "single-shot: no path finalizes a batch (intSync) more than once", 6)
	nfn := 0
	for _, fn := range p.FuncsIn("pkg/local_object_storage/blobstor/fstree") {
		file := p.Fset.Position(fn.Pos()).Filename
		if !strings.HasSuffix(file, "fstree_write_linux.go") && !strings.HasSuffix(file, "fstree_write_generic.go") {
			continue
		}
		if core.FuncName(fn) == "(*"+fst+"linuxWriter).newSyncBatch" {
			continue // wrapper: judged by R0
		}
		nfn++
		type res struct {
			bad   string
			pos   string
			trace string
		}
		var lockBad, finBad *res
		np, trunc := core.PathWalk(fn, core.Hooks{Fork: c13Fork(fn), Step: c13Step, StickyFields: c13Sticky, Exit: func(e core.ExitInfo) {
			for k, v := range e.Counters {
				if strings.HasPrefix(k, "lock:") && v != 0 && lockBad == nil {
					lockBad = &res{fmt.Sprintf("%s held %+d at exit", k, v), p.InstrPos(e.Ret), strings.Join(e.Trace, ",")}
				}
			}
			if e.Counters["finalize"] > 1 && finBad == nil {
				finBad = &res{fmt.Sprintf("batch finalized %d times", e.Counters["finalize"]), p.InstrPos(e.Ret), strings.Join(e.Trace, ",")}
			}
		}})
		if trunc {
			r.Fatalf("C13: path enumeration of %s truncated", core.FuncName(fn))
		}
		r.Analysed["paths:"+fn.Name()] = np
		if lockBad != nil {
			r1.Bad(core.FuncName(fn), lockBad.pos, lockBad.bad+" on path ["+lockBad.trace+"]: later writes block forever")
		} else {
			r1.OK(core.FuncName(fn), p.Pos(fn.Pos()), fmt.Sprintf("all %d paths balanced", np))
		}
		if finBad != nil {
			r2.Bad(core.FuncName(fn), finBad.pos, finBad.bad+" on path ["+finBad.trace+"]: close of a closed channel / descriptor (process panic)")
		} else {
			r2.OK(core.FuncName(fn), p.Pos(fn.Pos()), fmt.Sprintf("at most one finalization on each of %d paths", np))
		}
	}
	if nfn < 8 {
		r.Fatalf("C13: only %d writer functions analysed", nfn)
	}
	// ---- R3
	r3 := r.Rule("C13.R3", "a writer returns nil only on paths where every file-system step succeeded (link EEXIST tolerated)", 4)
	for _, name := range []string{"(*" + fst + "syncBatch).write", "(*" + fst + "linuxWriter).writeFile", "(*" + fst + "genericWriter).writeFile", "(*" + fst + "genericWriter).writeAndRename", "(*" + fst + "linuxWriter).writeBatch"} {
		fn := walkFn(name)
		if fn == nil {
			continue
		}
		var bad string
		var badPos string
		nOK := 0
		core.PathWalk(fn, core.Hooks{Fork: c13Fork(fn), Step: c13Step, StickyFields: c13Sticky, Exit: func(e core.ExitInfo) {
			if e.ErrKnown && !e.ErrNil {
				return
			}
			// nil (or undecided) return: no failing outcome may be on the path
			for _, t := range e.Trace {
				if strings.Contains(t, "→fail") && !strings.Contains(t, "EEXIST") && bad == "" {
					bad = "returns success on path [" + strings.Join(e.Trace, ",") + "]"
					badPos = p.InstrPos(e.Ret)
				}
			}
			if !e.ErrKnown && bad == "" && fn.Name() != "writeBatch" {
				bad = "cannot decide whether the return on path [" + strings.Join(e.Trace, ",") + "] reports an error"
				badPos = p.InstrPos(e.Ret)
			}
			nOK++
		}})
		if bad != "" {
			r3.Bad(name, badPos, bad+": a write reports success for an object that cannot be read back")
		} else if nOK == 0 {
			r3.Bad(name, p.Pos(fn.Pos()), "no success path found: anchor changed")
		} else {
			r3.OK(name, p.Pos(fn.Pos()), fmt.Sprintf("%d success paths, all fault-free", nOK))
		}
	}
	// ---- R4: the batch error is sticky
	r4 := r.Rule("C13.R4", "syncBatch.err is only ever assigned a non-nil error (a recorded failure is never cleared)", 3)
	for _, fn := range p.FuncsIn("pkg/local_object_storage/blobstor/fstree") {
		mr := core.NewMemReach(fn)
		for _, b := range fn.Blocks {
			for _, in := range b.Instrs {
				st, ok := in.(*ssa.Store)
				if !ok {
					continue
				}
				fa, ok := st.Addr.(*ssa.FieldAddr)
				if !ok || core.FieldAddrName(fa) != "("+fst+"syncBatch).err" {
					continue
				}
				r4.Check(core.KnownNonNil(mr, st.Val, b), core.FuncName(fn)+"#store b.err", p.InstrPos(in), "stored value is non-nil on every path", "b.err may be overwritten with nil: writers waiting on the batch would see success after a failure")
			}
		}
	}
	// ---------------- R5 who may remove files of the tree
	r5 := r.Rule("C13.R5", "files of the tree are removed only by the delete operation and by the tabled removers of temporary names; no writer removes anything at a final object path", 4)
	fileRemoversTabled(p, r, r5)
	// ---------------- R6 'no space' is said only by a call that met it
	r6 := r.Rule("C13.R6", "package fstree produces common.ErrNoSpace only on the true edge of an errors.Is(<error of this call>, ENOSPC) test: a write is refused as 'no space' only because one of its own file-system calls got ENOSPC, never because an earlier write did (writes that were not affected still succeed)", 2)
	nNS := 0
	for _, fn := range p.FuncsIn("pkg/local_object_storage/blobstor/fstree") {
		for _, b := range fn.Blocks {
			for _, in := range b.Instrs {
				u, ok := in.(*ssa.UnOp)
				if !ok || u.Op != token.MUL {
					continue
				}
				g, isG := u.X.(*ssa.Global)
				if !isG || g.Name() != "ErrNoSpace" || !strings.HasSuffix(g.Pkg.Pkg.Path(), "blobstor/common") {
					continue
				}
				// a load used only as the target of errors.Is is a test, not a produced error
				produced := false
				if u.Referrers() != nil {
					for _, ref := range *u.Referrers() {
						if c, isC := ref.(*ssa.Call); isC && core.CalleeName(c) == "errors.Is" && len(c.Call.Args) == 2 && c.Call.Args[1] == ssa.Value(u) {
							continue
						}
						if mi, isMI := ref.(*ssa.MakeInterface); isMI && mi.Referrers() != nil {
							onlyTest := true
							for _, r2 := range *mi.Referrers() {
								if c, isC := r2.(*ssa.Call); !isC || core.CalleeName(c) != "errors.Is" || c.Call.Args[1] != ssa.Value(mi) {
									onlyTest = false
								}
							}
							if onlyTest {
								continue
							}
						}
						produced = true
					}
				}
				if !produced {
					continue
				}
				nNS++
				met := false
				for _, cs := range core.CallSites([]*ssa.Function{fn}, func(s core.Site) bool { return s.Name == "errors.Is" }) {
					c, isC := cs.Call.(*ssa.Call)
					if isC && isENOSPC(core.ErrTargetName(c.Call.Args[1])) && branchDominates(c, true, b) {
						met = true
					}
				}
				r6.Check(met, core.FuncName(fn)+"#ErrNoSpace", p.InstrPos(in), "produced where this call's own error was ENOSPC",
					"common.ErrNoSpace is produced without an ENOSPC test of an error obtained in this call: a write that met no file-system failure is refused (for example because an earlier write ran out of space)")
			}
		}
	}
	if nNS == 0 {
		r.Fatalf("C13.R6: package fstree no longer produces common.ErrNoSpace anywhere")
	}
	r.Explain += " (R6) every place of the package that produces common.ErrNoSpace is on the true edge of errors.Is(err, ENOSPC) for an error of the same call."
}

// fileRemoversTabled: shared by C13.R5 and C12.R5.
func fileRemoversTabled(p *core.Prog, r *core.Report, r5 *core.RuleH) {
	removers := map[string]string{
		"(*" + fst + "FSTree).Delete":                "the delete operation: removes the object's own file",
		"(*" + fst + "FSTree).CleanUpTmp":            "start-up cleaner: only names containing the temporary-name separator",
		"(*" + fst + "genericWriter).writeAndRename": "removes its own temporary file after a failed write",
		fst + "rewriteCompressedObjectFile":          "temporary / link names of the compressed-file rewrite",
		fst + "replaceRewriteCompressedObjectFile":   "temporary name of the compressed-file rewrite",
		fst + "checkRewriteCompressedOnlineSupport":  "probe files of the start-up capability check",
	}
	nrm := 0
	for _, s := range core.CallSites(p.FuncsIn("pkg/local_object_storage/blobstor/fstree"), func(s core.Site) bool {
		switch s.Name {
		case "os.Remove", "os.RemoveAll", "golang.org/x/sys/unix.Unlink", "golang.org/x/sys/unix.Unlinkat", "syscall.Unlink", "syscall.Unlinkat", "syscall.Rmdir", "os.Truncate":
			return true
		}
		return false
	}) {
		nrm++
		outer := core.FuncName(core.Outer(s.Fn))
		why, ok := removers[outer]
		r5.Check(ok, outer+"#"+s.Name, p.InstrPos(s.Call), "tabled remover: "+why, outer+" removes a file but is not a tabled remover: a writer that 'cleans up' at the final object path deletes the complete copy an earlier acknowledged write put there")
	}
	if nrm == 0 {
		r.Fatalf(r5.ID() + ": no file removal found in fstree (not even Delete)")
	}
}

// pathWriterParam: fn succeeds only after the file named by its parameter i was opened, written and closed
// successfully (directly, or through a callee with that property that gets the parameter); -1 if there is none.
func pathWriterParam(p *core.Prog, fn *ssa.Function, depth int) int {
	if fn == nil || fn.Blocks == nil || depth == 0 {
		return -1
	}
	res := fn.Signature.Results()
	if res.Len() == 0 || res.At(res.Len()-1).Type().String() != "error" {
		return -1
	}
	for i := range fn.Params {
		if fn.Params[i].Type().String() != "string" {
			continue
		}
		i := i
		direct := []core.Guard{
			{Name: "opened", Match: func(s core.Site) bool {
				return s.Name == "os.OpenFile" && core.RootParam(fn, s.Call.Common().Args[0]) == i
			}, Comps: []core.Comp{{Result: 1, Kind: core.ErrNil}}},
			{Name: "written", Match: func(s core.Site) bool { return s.Name == "(*os.File).Write" }, Comps: []core.Comp{{Result: 1, Kind: core.ErrNil}}},
			{Name: "closed", Match: func(s core.Site) bool { return s.Name == "(*os.File).Close" }, Comps: []core.Comp{{Result: -1, Kind: core.ErrNil}}},
		}
		if len(core.CallSites([]*ssa.Function{fn}, direct[0].Match)) > 0 && core.SuccessHolds(p, fn, core.SuccessRule{ResultIdx: -1, Guards: direct}) {
			return i
		}
		via := core.Guard{Name: "callee-wrote-it", Comps: []core.Comp{{Result: -1, Kind: core.ErrNil}}, Match: func(s core.Site) bool {
			cal := core.StaticCallee(s.Call)
			if cal == nil || cal == fn || core.FuncPkg(cal) != core.FuncPkg(fn) {
				return false
			}
			j := pathWriterParam(p, cal, depth-1)
			a := s.Call.Common().Args
			return j >= 0 && j < len(a) && core.RootParam(fn, a[j]) == i
		}}
		if len(core.CallSites([]*ssa.Function{fn}, via.Match)) > 0 && core.SuccessHolds(p, fn, core.SuccessRule{ResultIdx: -1, Guards: []core.Guard{via}}) {
			return i
		}
	}
	return -1
}

// lenMatches: guard "the byte count returned by callee equals the expected length":
// an `n != <expr>` test false edge / `n == <expr>` true edge on the call's first result.
func lenMatches(callee string) core.Guard {
	return core.Guard{Name: "full-length-written", Comps: []core.Comp{{Result: -1, Kind: core.IsFalse}}, Value: func(_ *ssa.Function, v ssa.Value) bool {
		bo, ok := v.(*ssa.BinOp)
		if !ok || bo.Op.String() != "!=" {
			return false
		}
		isN := func(x ssa.Value) bool {
			ex, ok := x.(*ssa.Extract)
			if !ok || ex.Index != 0 {
				return false
			}
			c, ok := ex.Tuple.(*ssa.Call)
			return ok && core.CalleeName(c) == callee
		}
		return isN(bo.X) || isN(bo.Y)
	}}
}

// publishAfterCompleteWrite: shared by C12.R1 and C15.R6 — in every writer the call that makes the object visible under its
// final name comes after the complete, successful data write.
func publishAfterCompleteWrite(p *core.Prog, r *core.Report, r1 *core.RuleH) {
	wv := func(n string) core.Guard { return core.G("data-written", core.ErrNil, n) }
	core.CheckEffects(p, r1, core.EffectRule{Fn: "(*" + fst + "syncBatch).write", Min: 1,
		Guards: []core.Guard{wv("golang.org/x/sys/unix.Writev"), lenMatches("golang.org/x/sys/unix.Writev")},
		Effect: core.CallTo("golang.org/x/sys/unix.Linkat")})
	lg, ld := lenFacts("golang.org/x/sys/unix.Write")
	core.CheckEffects(p, r1, core.EffectRule{Fn: "(*" + fst + "linuxWriter).writeFile", Min: 1,
		Guards: append([]core.Guard{wv("golang.org/x/sys/unix.Write")}, lg...), Derived: []core.Derived{ld},
		Effect: core.CallTo("golang.org/x/sys/unix.Linkat"), Need: func(string) []string { return []string{"data-written", "full-length-written"} }})
	// the compressed-object rewrite is a fourth publisher: it gives the unnamed file a name (which the exchange then
	// swaps into the object's path) only after the complete write, and only when that name was really created
	if rw := p.Func(fst + "rewriteCompressedObjectFile"); rw != nil && rw.Blocks != nil {
		wg, wd := lenFacts("(*os.File).Write")
		core.CheckEffectsFn(p, r1, rw, core.EffectRule{Min: 1,
			Guards:  append([]core.Guard{{Name: "data-written", Match: func(s core.Site) bool { return s.Name == "(*os.File).Write" }, Comps: []core.Comp{{Result: 1, Kind: core.ErrNil}}}}, wg...),
			Derived: []core.Derived{wd},
			Effect:  core.CallTo("golang.org/x/sys/unix.Linkat"), Need: func(string) []string { return []string{"data-written", "full-length-written"} }})
		core.CheckEffectsFn(p, r1, rw, core.EffectRule{Min: 1,
			Guards: []core.Guard{core.G("temporary-name-created-by-this-call", core.ErrNil, "golang.org/x/sys/unix.Linkat")},
			Effect: core.CallTo(fst + "replaceRewriteCompressedObjectFile")})
	}
	// generic writer: wherever it renames a file into place, the renamed file is the very one whose complete write
	// succeeded (same path value) — whichever helper functions the write and the rename live in
	nRen := 0
	for _, fn := range p.FuncsIn("pkg/local_object_storage/blobstor/fstree") {
		if !strings.Contains(core.FuncName(core.Outer(fn)), "genericWriter)") {
			continue
		}
		rens := core.CallSites([]*ssa.Function{fn}, func(s core.Site) bool { return s.Name == "os.Rename" })
		if len(rens) == 0 {
			continue
		}
		mr := core.NewMemReach(fn)
		for _, rs := range rens {
			nRen++
			src := mr.Canon(rs.Call.Common().Args[0])
			g := core.Guard{Name: "renamed-file-completely-written", Comps: []core.Comp{{Result: -1, Kind: core.ErrNil}}, Match: func(s core.Site) bool {
				i := pathWriterParam(p, core.StaticCallee(s.Call), 3)
				a := s.Call.Common().Args
				return i >= 0 && i < len(a) && mr.Canon(a[i]) == src
			}}
			gf := core.Flow(fn, []core.Guard{g})
			r1.Check(gf.Passed(gf.At(rs.Call.(ssa.Instruction)), 0), core.FuncName(fn)+"#os.Rename!renamed-file-completely-written", p.InstrPos(rs.Call), "the file renamed into place is the one whose open/write/close all succeeded",
				"the generic writer renames a file into the final path without a successful complete write of THAT file on every path (another temporary name was written, or none): a stale or partial temporary file becomes the object")
		}
	}
	if nRen == 0 {
		r.Fatalf("%s: the generic writer no longer renames anything into place", r1.ID())
	}
}

func runC12(p *core.Prog, r *core.Report) {
	r.Explain = "Decides the publish-after-complete-write discipline that makes a stop at any point harmless: (R1) the call that makes an object visible under its final name (linkat from the O_TMPFILE descriptor / rename of the temporary file) is reached only after the data write returned nil AND the full-length test passed (linux) or the temporary file was written and closed successfully (generic); (R2) the final object path is never opened or created for writing — inside the writers the path parameter flows only into the link/rename target, into the temporary name (path + '#' + n) and into error messages; (R3) the temporary-name separator the generic writer uses is the one the start-up cleaner matches, and such names cannot parse as object addresses; (R4) only EEXIST from link is mapped to success. Not covered: kernel atomicity of linkat/rename, enumeration of stop points, fsync semantics."
	r1 := r.Rule("C12.R1", "the publishing call (linkat / rename to the final path; in the compressed-object rewrite: naming the unnamed file and exchanging it into the object's path) is dominated by a successful, full-length data write, and the rewrite exchanges only a name this very call created", 5)
	publishAfterCompleteWrite(p, r, r1)
	// R2 value flow of the final path
	r2 := r.Rule("C12.R2", "the final object path flows only into the link/rename target, the temporary name and error messages — never into a file-creating call", 4)
	type pathFn struct {
		name string
		idx  int // parameter index of the final path (receiver = 0)
	}
	for _, pf := range []pathFn{
		{"(*" + fst + "syncBatch).write", 2}, {"(*" + fst + "linuxWriter).writeFile", 1}, {"(*" + fst + "linuxWriter).writeCombinedFile", 2},
		{"(*" + fst + "linuxWriter).writeData", 2}, {"(*" + fst + "genericWriter).writeData", 2}, {"(*" + fst + "genericWriter).writeAndRename", 2},
	} {
		fn := p.Func(pf.name)
		if fn == nil {
			r.Fatalf("C12.R2: %s not found", pf.name)
			continue
		}
		prm := fn.Params[pf.idx]
		if prm.Type().String() != "string" {
			r.Fatalf("C12.R2: parameter %d of %s is not the path string", pf.idx, pf.name)
			continue
		}
		bad := ""
		var visit func(v ssa.Value, depth int)
		visit = func(v ssa.Value, depth int) {
			if depth > 6 || v.Referrers() == nil {
				return
			}
			for _, ref := range *v.Referrers() {
				switch x := ref.(type) {
				case *ssa.Call:
					n := core.CalleeName(x)
					ai := -1
					for i, a := range x.Call.Args {
						if a == v {
							ai = i
						}
					}
					switch {
					case n == "golang.org/x/sys/unix.Linkat" && ai == 3, n == "os.Rename" && ai == 1:
					case n == "fmt.Errorf", n == "fmt.Sprintf", strings.HasPrefix(n, "go.uber.org/zap."):
					case n == "(*"+fst+"syncBatch).write", n == "(*"+fst+"linuxWriter).writeFile", n == "(*"+fst+"linuxWriter).writeCombinedFile", n == "(*"+fst+"genericWriter).writeAndRename":
						// handed on as the callee's final-path parameter (checked there)
					default:
						if bad == "" {
							bad = "final path passed to " + n
						}
					}
				case *ssa.BinOp: // p + "#" + n : temporary name — follow: the concatenation may be opened, but it must contain the separator
					if x.Op.String() == "+" {
						if c, ok := x.Y.(*ssa.Const); ok && c.Value != nil && strings.Contains(c.Value.ExactString(), "#") && x.X == v {
							continue // temp name with the separator: no longer the final path
						}
						if bad == "" {
							bad = "final path concatenated without the '#' temporary separator"
						}
					}
				case *ssa.MakeInterface:
					visit(x, depth+1)
				case *ssa.Slice, *ssa.Store, *ssa.IndexAddr, *ssa.Phi:
					if val, ok := ref.(ssa.Value); ok {
						visit(val, depth+1)
					}
				case *ssa.MakeClosure, *ssa.DebugRef:
				}
			}
		}
		visit(prm, 0)
		r2.Check(bad == "", pf.name+"#final-path", p.Pos(fn.Pos()), "final path reaches only link/rename target, temp name and messages", bad+": a crash can expose a partially written object under its final name")
	}
	// R3 separator agreement
	r3 := r.Rule("C12.R3", "the start-up cleaner matches the separator the generic writer puts into temporary names", 2)
	hasConst := func(fnName, sub string) (bool, *ssa.Function) {
		fn := p.Func(fnName)
		if fn == nil {
			return false, nil
		}
		found := false
		for _, f := range append([]*ssa.Function{fn}, fn.AnonFuncs...) {
			for _, b := range f.Blocks {
				for _, in := range b.Instrs {
					for _, op := range in.Operands(nil) {
						if c, ok := (*op).(*ssa.Const); ok && c.Value != nil && c.Value.Kind().String() == "String" && strings.Trim(c.Value.ExactString(), "\"") == sub {
							found = true
						}
					}
				}
			}
		}
		return found, fn
	}
	okW, fw := hasConst("(*"+fst+"genericWriter).writeData", "#")
	okC, fc := hasConst("(*"+fst+"FSTree).CleanUpTmp", "#")
	if fw == nil || fc == nil {
		r.Fatalf("C12.R3: genericWriter.writeData / FSTree.CleanUpTmp not found")
	} else {
		r3.Check(okW, "genericWriter.writeData#separator", p.Pos(fw.Pos()), "temporary names contain '#'", "the generic writer no longer marks temporary names with '#'")
		r3.Check(okC, "FSTree.CleanUpTmp#separator", p.Pos(fc.Pos()), "cleaner matches '#'", "the start-up cleaner no longer matches '#': leftover temporary files stay and may be iterated")
	}
	// R4 only EEXIST maps to success: covered by path enumeration in C13.R3 for write/writeFile; here: the errors.Is target
	r4 := r.Rule("C12.R4", "the only link error mapped to success is EEXIST", 2)
	for _, name := range []string{"(*" + fst + "syncBatch).write", "(*" + fst + "linuxWriter).writeFile"} {
		fn := p.Func(name)
		if fn == nil {
			continue
		}
		for _, s := range core.CallSites([]*ssa.Function{fn}, func(s core.Site) bool { return s.Name == "errors.Is" }) {
			t := core.ErrTargetName(s.Call.Common().Args[1])
			r4.Check(t == errEEXIST, name+"#errors.Is", p.InstrPos(s.Call), "tolerates EEXIST only", "a link error other than EEXIST ("+t+") is tolerated")
		}
	}
	// R5 a stored object's file is removed only by Delete (shared with C13.R5): a writer that removes the file at the final
	// path before re-publishing it loses an acknowledged object when the process stops in between
	r5 := r.Rule("C12.R5", "files of the tree are removed only by the delete operation and by the tabled removers of temporary names: no write path removes the file at a final object path, so an acknowledged object cannot disappear when a repeated write is interrupted", 4)
	fileRemoversTabled(p, r, r5)
	r.Explain += " (R5, shared with C13.R5) every file removal in the package sits in Delete or in a tabled remover of temporary names; a write path that first removes the file at the final path and then publishes a new one loses an acknowledged object if the process stops in between."
}

// lenFacts: "n == len(data)" in both comparison forms for the first result of callee.
func lenFacts(callee string) ([]core.Guard, core.Derived) {
	isN := func(x ssa.Value) bool {
		ex, ok := x.(*ssa.Extract)
		if !ok || ex.Index != 0 {
			return false
		}
		c, ok := ex.Tuple.(*ssa.Call)
		return ok && core.CalleeName(c) == callee
	}
	eq := core.Guard{Name: "full-length(eq-form)", Comps: []core.Comp{{Result: -1, Kind: core.IsTrue}}, Value: func(_ *ssa.Function, v ssa.Value) bool {
		bo, ok := v.(*ssa.BinOp)
		return ok && bo.Op.String() == "==" && (isN(bo.X) || isN(bo.Y))
	}}
	ne := core.Guard{Name: "full-length(ne-form)", Comps: []core.Comp{{Result: -1, Kind: core.IsFalse}}, Value: func(_ *ssa.Function, v ssa.Value) bool {
		bo, ok := v.(*ssa.BinOp)
		return ok && bo.Op.String() == "!=" && (isN(bo.X) || isN(bo.Y))
	}}
	return []core.Guard{eq, ne}, core.Derived{Name: "full-length-written", Alts: [][]string{{eq.Name}, {ne.Name}}}
}

// isENOSPC: the errors.Is target is the errno constant ENOSPC (28 on every supported platform) or a named ENOSPC variable.
func isENOSPC(target string) bool {
	return strings.HasSuffix(target, "ENOSPC") || strings.HasPrefix(target, "const:") && strings.HasSuffix(target, "Errno=28")
}
