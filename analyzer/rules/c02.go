package rules

import (
	"fmt"
	"go/token"
	"sort"
	"strings"

	"golang.org/x/tools/go/ssa"

	"verif/analyzer/core"
)

// C02 — reported object counts and container sizes match what the shard stores.
func init() {
	register(&Check{ID: "C02", Level: "other", Pkgs: []string{"./pkg/local_object_storage/metabase", "./pkg/local_object_storage/shard"}, Run: runC02})
}

const cdiff = "(" + mb + "CountersDiff)."

// fieldStore: in is a store to struct field `field` (full FieldAddrName); returns the stored value.
func fieldStore(in ssa.Instruction, field string) (ssa.Value, bool) {
	st, ok := in.(*ssa.Store)
	if !ok {
		return nil, false
	}
	fa, ok := st.Addr.(*ssa.FieldAddr)
	if !ok || core.FieldAddrName(fa) != field {
		return nil, false
	}
	return st.Val, true
}

// deltaSign classifies the stored value of `x.f op= …` relative to the field's old value:
// "+" (old + positive const / old + value), "-" (old - …), "=" plain assignment.
func deltaSign(v ssa.Value) string {
	bo, ok := v.(*ssa.BinOp)
	if !ok {
		return "="
	}
	// only `field = field op x` is a delta; anything else is a plain assignment
	if u, isU := bo.X.(*ssa.UnOp); !isU || u.Op != token.MUL {
		return "="
	} else if _, isFA := u.X.(*ssa.FieldAddr); !isFA {
		return "="
	}
	switch bo.Op {
	case token.ADD:
		if k, isK := intConstOf(bo.Y); isK && k < 0 {
			return "-"
		}
		return "+"
	case token.SUB:
		return "-"
	}
	return "="
}

func runC02(p *core.Prog, r *core.Report) {
	r.Explain = "Decides where and in which direction the metabase counters can change, not their value after a history: (R1) the persisted counters are written only by updateCounter / the two bulk resets, updateCounter is called only from applyDiff (any kind) and three tabled sites with their fixed kinds; the CountersDiff fields are increased only on the put side, decreased only in deleteMetadata, and otherwise only summed or bulk-assigned by InhumeContainer; (R2) per-type pairing: each put-side increment is made under the object type whose removal decrements the same field in deleteMetadata; the un-mark operation (ReviveObject + reviveCounters) touches exactly the counter kinds that marking touches (GC, payload); (R3) the two unsigned subtractions (container object number phy−gc, floored counter decrease) cannot wrap; (R4) the shard feeds its metrics from the diff of a successful metabase call only. Not covered: equality with a recount after arbitrary histories (duplicates, children of removed parents) — behavioural."
	fns := p.FuncsIn("pkg/local_object_storage/metabase")
	kinds := map[string]int64{}
	for _, k := range []string{"phyCounter", "rootCounter", "tsCounter", "lockCounter", "linkCounter", "gcCounter", "payloadCounter"} {
		v, ok := p.ConstInt(mb + k)
		if !ok {
			r.Fatalf("C02: constant %s not found", k)
			return
		}
		kinds[k] = v
	}
	kindName := func(v int64) string {
		for n, k := range kinds {
			if k == v {
				return n
			}
		}
		return fmt.Sprint(v)
	}
	// ---------------- R1a callers of updateCounter
	r1 := r.Rule("C02.R1", "who may change counters: updateCounter callers and kinds; CountersDiff field writers and their direction; raw counter-key writers", 30)
	allowedKinds := map[string][]string{
		mb + "applyDiff":      {"phyCounter", "rootCounter", "tsCounter", "lockCounter", "linkCounter", "gcCounter", "payloadCounter"},
		mbDB + "MarkGarbage":  {"gcCounter", "payloadCounter"},
		mbDB + "ReviveObject": {"gcCounter"},
		mb + "reviveCounters": {"payloadCounter"},
	}
	nUpd := 0
	revKinds := map[string]bool{}
	markKinds := map[string]bool{}
	for _, s := range core.CallSites(fns, func(s core.Site) bool { return s.Name == mb+"updateCounter" }) {
		nUpd++
		o := core.FuncName(core.Outer(s.Fn))
		k, isK := intConstOf(s.Call.Common().Args[1])
		kn := kindName(k)
		key := fmt.Sprintf("%s#updateCounter(%s)", o, kn)
		al, tabled := allowedKinds[o]
		switch {
		case !tabled:
			r1.Bad(key, p.InstrPos(s.Call), "updateCounter is called from "+o+", which is not a tabled counter writer: per-type counters are defined as the number of index entries, so a writer that does not add/remove index entries is drift")
		case !isK:
			r1.Bad(key, p.InstrPos(s.Call), "counter kind is not a constant")
		default:
			ok := false
			for _, a := range al {
				ok = ok || a == kn
			}
			r1.Check(ok, key, p.InstrPos(s.Call), "tabled writer and kind", o+" updates counter kind "+kn+", which it may not: only "+strings.Join(al, ",")+" change there (the operation does not add or remove entries of the other kinds)")
		}
		if o == mbDB+"ReviveObject" || o == mb+"reviveCounters" {
			revKinds[kn] = true
		}
		if o == mbDB+"MarkGarbage" {
			markKinds[kn] = true
		}
	}
	if nUpd < 10 {
		r.Fatalf("C02.R1: only %d updateCounter call sites found", nUpd)
	}
	// ---------------- R1b CountersDiff field writers
	type wr struct{ sign string }
	fieldsAll := []string{"Phy", "Root", "TS", "Lock", "Link", "GC", "Payload"}
	allowedW := map[string]map[string]string{ // function -> field -> allowed signs
		mb + "handleLinkObject":            {"Link": "+", "Phy": "+"},
		mb + "handleRegularObject":         {"Root": "+", "Phy": "+"},
		mb + "handleObjectWithAssociation": {"Lock": "+", "TS": "+", "GC": "+", "Phy": "+", "Payload": "-"},
		mbDB + "put":                       {"Payload": "+"},
		mb + "deleteMetadata":              {"Phy": "-", "Root": "-", "TS": "-", "Lock": "-", "Link": "-", "GC": "-", "Payload": "-"},
		"(*" + mb + "CountersDiff).add":    {"Phy": "+", "Root": "+", "TS": "+", "Lock": "+", "Link": "+", "GC": "+", "Payload": "+"},
		mbDB + "InhumeContainer":           {"Phy": "=", "Root": "=", "TS": "=", "Lock": "=", "Link": "=", "GC": "=", "Payload": "="},
	}
	putSide := map[string]map[string]bool{}
	for _, fn := range fns {
		o := core.FuncName(core.Outer(fn))
		for _, b := range fn.Blocks {
			for _, in := range b.Instrs {
				for _, f := range fieldsAll {
					v, ok := fieldStore(in, cdiff+f)
					if !ok {
						continue
					}
					sg := deltaSign(v)
					key := fmt.Sprintf("%s#diff.%s%s", o, f, sg)
					al, tabled := allowedW[o]
					if !tabled {
						r1.Bad(key, p.InstrPos(in), "CountersDiff."+f+" is written in "+o+", which is not a tabled writer")
						continue
					}
					r1.Check(al[f] == sg, key, p.InstrPos(in), "tabled writer and direction", fmt.Sprintf("%s changes CountersDiff.%s in direction %q; the table allows %q there", o, f, sg, al[f]))
					if strings.Contains(o, "handle") {
						if putSide[f] == nil {
							putSide[f] = map[string]bool{}
						}
						putSide[f][sg] = true
					}
				}
			}
		}
	}
	// ---------------- R1c raw writers of counter keys
	lo, _ := p.ConstInt(mb + "metaPrefixPhyCounter")
	hi, _ := p.ConstInt(mb + "metaPrefixPayloadCounter")
	rawAllowed := map[string]string{mb + "updateCounter": "the single incremental writer", mb + "resetContainerCounters": "bulk reset on container removal", mb + "syncContainerCounters": "recount"}
	nRaw := 0
	for _, s := range core.CallSites(fns, func(s core.Site) bool {
		return s.Name == "(*github.com/nspcc-dev/bbolt.Bucket).Put" || s.Name == "(*github.com/nspcc-dev/bbolt.Bucket).Delete"
	}) {
		ks := firstByteConsts(s.Fn, s.Call.Common().Args[1])
		isCounter := false
		for _, k := range ks {
			if k >= lo && k <= hi {
				isCounter = true
			}
		}
		if !isCounter {
			continue
		}
		nRaw++
		o := core.FuncName(core.Outer(s.Fn))
		r1.Check(rawAllowed[o] != "", o+"#raw-counter-key-write", p.InstrPos(s.Call), "tabled raw writer: "+rawAllowed[o], "a counter key (prefix 0x06..0x0C) is written directly in "+o+", bypassing updateCounter")
	}
	if nRaw < 8 {
		r.Fatalf("C02.R1: only %d raw counter-key writes resolved (expected the 7 resets + updateCounter)", nRaw)
	}

	// ---------------- R2 pairing
	r2 := r.Rule("C02.R2", "inverse operations have inverse counter effects: per-type put/delete pairing; revive touches exactly the kinds marking touches", 12)
	typeConst := func(n string) int64 {
		v, _ := p.ConstInt("github.com/nspcc-dev/neofs-sdk-go/object." + n)
		return v
	}
	// delete side: each decrement under its type
	if del := p.Func(mb + "deleteMetadata"); del == nil {
		r.Fatalf("C02.R2: deleteMetadata not found")
	} else {
		isTypLoad := func(v ssa.Value) bool {
			u, ok := v.(*ssa.UnOp)
			if !ok || u.Op != token.MUL {
				return false
			}
			al, ok := u.X.(*ssa.Alloc)
			return ok && strings.HasSuffix(al.Type().String(), "object.Type")
		}
		typeIs := func(name string, k int64) core.Guard {
			return core.Guard{Name: "type==" + name, Comps: []core.Comp{{Result: -1, Kind: core.IsTrue}}, Pure: true, Value: func(_ *ssa.Function, v ssa.Value) bool {
				bo, ok := v.(*ssa.BinOp)
				if !ok || bo.Op != token.EQL {
					return false
				}
				c, isC := intConstOf(bo.Y)
				return isC && c == k && isTypLoad(bo.X)
			}}
		}
		gs := []core.Guard{typeIs("Regular", typeConst("TypeRegular")), typeIs("Tombstone", typeConst("TypeTombstone")), typeIs("Lock", typeConst("TypeLock")), typeIs("Link", typeConst("TypeLink"))}
		want := map[string]string{"Root": "type==Regular", "TS": "type==Tombstone", "Lock": "type==Lock", "Link": "type==Link"}
		core.CheckEffectsFn(p, r2, del, core.EffectRule{Min: 4, Guards: gs, Effect: func(_ *core.Prog, in ssa.Instruction) (string, bool) {
			for f := range want {
				if _, ok := fieldStore(in, cdiff+f); ok {
					return "diff." + f + "--", true
				}
			}
			return "", false
		}, Need: func(d string) []string {
			return []string{want[strings.TrimSuffix(strings.TrimPrefix(d, "diff."), "--")]}
		}})
	}
	// put side: handlers are dispatched by type; inside the association handler Lock/TS by type
	if put := p.Func(mbDB + "put"); put == nil {
		r.Fatalf("C02.R2: DB.put not found")
	} else {
		isObjType := func(v ssa.Value) bool {
			c, ok := v.(*ssa.Call)
			return ok && strings.HasSuffix(core.CalleeName(c), "object.Object).Type")
		}
		typeIs := func(name string, k int64) core.Guard {
			return core.Guard{Name: "type==" + name, Comps: []core.Comp{{Result: -1, Kind: core.IsTrue}}, Pure: true, Value: func(_ *ssa.Function, v ssa.Value) bool {
				bo, ok := v.(*ssa.BinOp)
				if !ok || bo.Op != token.EQL {
					return false
				}
				c, isC := intConstOf(bo.Y)
				return isC && c == k && isObjType(bo.X)
			}}
		}
		gs := []core.Guard{typeIs("Regular", typeConst("TypeRegular")), typeIs("Tombstone", typeConst("TypeTombstone")), typeIs("Lock", typeConst("TypeLock")), typeIs("Link", typeConst("TypeLink"))}
		der := []core.Derived{{Name: "type-is-tombstone-or-lock", Alts: [][]string{{"type==Tombstone"}, {"type==Lock"}}}}
		core.CheckEffectsFn(p, r2, put, core.EffectRule{Min: 3, Guards: gs, Derived: der, Effect: core.CallTo(mb+"handleLinkObject", mb+"handleRegularObject", mb+"handleObjectWithAssociation"),
			Need: func(d string) []string {
				switch d {
				case mb + "handleLinkObject":
					return []string{"type==Link"}
				case mb + "handleRegularObject":
					return []string{"type==Regular"}
				}
				return []string{"type-is-tombstone-or-lock"}
			}})
	}
	if h := p.Func(mb + "handleObjectWithAssociation"); h == nil {
		r.Fatalf("C02.R2: handleObjectWithAssociation not found")
	} else {
		isObjType := func(v ssa.Value) bool {
			c, ok := v.(*ssa.Call)
			return ok && strings.HasSuffix(core.CalleeName(c), "object.Object).Type")
		}
		typeIs := func(name string, k int64) core.Guard {
			return core.Guard{Name: "type==" + name, Comps: []core.Comp{{Result: -1, Kind: core.IsTrue}}, Pure: true, Value: func(_ *ssa.Function, v ssa.Value) bool {
				bo, ok := v.(*ssa.BinOp)
				if !ok || bo.Op != token.EQL {
					return false
				}
				c, isC := intConstOf(bo.Y)
				return isC && c == k && isObjType(bo.X)
			}}
		}
		gs := []core.Guard{typeIs("Tombstone", typeConst("TypeTombstone")), typeIs("Lock", typeConst("TypeLock"))}
		core.CheckEffectsFn(p, r2, h, core.EffectRule{Min: 2, Guards: gs, Effect: func(_ *core.Prog, in ssa.Instruction) (string, bool) {
			for _, f := range []string{"TS", "Lock", "GC"} {
				if _, ok := fieldStore(in, cdiff+f); ok {
					return "diff." + f, true
				}
			}
			return "", false
		}, Need: func(d string) []string {
			if d == "diff.Lock" {
				return []string{"type==Lock"}
			}
			return []string{"type==Tombstone"}
		}})
	}
	// each per-type kind is increased on the put side and decreased on the delete side (checked above by table); both present
	for _, f := range []string{"Phy", "Root", "TS", "Lock", "Link"} {
		r2.Check(putSide[f]["+"] && !putSide[f]["-"], "put-side#"+f, "-", "increased (only) by the put-side handlers", "CountersDiff."+f+" is not increased exactly by the put-side handlers")
	}
	// un-mark vs mark
	ks := func(m map[string]bool) string {
		var o []string
		for k := range m {
			o = append(o, k)
		}
		sort.Strings(o)
		return strings.Join(o, ",")
	}
	r2.Check(ks(revKinds) == "gcCounter,payloadCounter" && ks(markKinds) == "gcCounter,payloadCounter", "ReviveObject+reviveCounters#kinds==MarkGarbage#kinds", "-",
		"revival updates exactly the kinds that marking updates (GC, payload)", "revival updates counter kinds {"+ks(revKinds)+"} but marking updates {"+ks(markKinds)+"}: the undo is not the inverse of the do")
	// revive's gc decrement is -1 and is made only for marked/tombstoned status
	if rv := p.Func(mbDB + "ReviveObject$1"); rv == nil {
		r.Fatalf("C02.R2: ReviveObject closure not found")
	} else {
		for _, s := range core.CallSites([]*ssa.Function{rv}, func(s core.Site) bool { return s.Name == mb+"updateCounter" }) {
			d, isD := intConstOf(s.Call.Common().Args[2])
			r2.Check(isD && d == -1, core.FuncName(rv)+"#gc-delta", p.InstrPos(s.Call), "one garbage mark removed, GC counter decreased by one", "the GC counter is not decreased by exactly one on revival")
		}
	}

	// ---------------- R5 leaves-the-counters-once
	r5 := r.Rule("C02.R5", "an object leaves the GC and payload counters at most once: at both marking sites (MarkGarbage and the tombstone branch of put) the GC increment is dominated by 'no garbage key of any kind yet' and the payload decrease additionally by inGarbage(id)==statusAvailable", 4)
	stAvail, _ := p.ConstInt(mb + "statusAvailable")
	keyAbsent := core.Guard{Name: "no-garbage-key-yet", Match: func(s core.Site) bool {
		if s.Name != "bytes.Equal" {
			return false
		}
		for _, a := range s.Call.Common().Args {
			if c, ok := a.(*ssa.Call); ok && core.CalleeName(c) == mb+"mkGarbageKey" {
				return true
			}
		}
		return false
	}, Comps: []core.Comp{{Result: -1, Kind: core.IsFalse}}}
	stillCounted := core.Guard{Name: "not-removed-yet", Match: func(s core.Site) bool { return s.Name == mb+"inGarbage" }, Comps: []core.Comp{{Result: -1, Kind: core.EqConst, Const: stAvail}}}
	if mg := p.Func(mb + "markGarbageInContainer"); mg == nil {
		r.Fatalf("C02.R5: markGarbageInContainer not found")
	} else {
		const gdiff = "(" + mb + "ContainerGarbageDiff)."
		core.CheckEffectsFn(p, r5, mg, core.EffectRule{Min: 2, Guards: []core.Guard{keyAbsent, stillCounted}, Effect: func(_ *core.Prog, in ssa.Instruction) (string, bool) {
			if _, ok := fieldStore(in, gdiff+"PayloadDiff"); ok {
				return "payload-=", true
			}
			if _, ok := fieldStore(in, gdiff+"NewGarbage"); ok {
				return "gc++", true
			}
			return "", false
		}, Need: func(d string) []string {
			if d == "gc++" {
				return []string{"no-garbage-key-yet"}
			}
			return []string{"no-garbage-key-yet", "not-removed-yet"}
		}})
	}
	if h := p.Func(mb + "handleObjectWithAssociation"); h == nil {
		r.Fatalf("C02.R5: handleObjectWithAssociation not found")
	} else {
		// the addend of diff.GC
		var gcAdd ssa.Value
		for _, b := range h.Blocks {
			for _, in := range b.Instrs {
				if v, ok := fieldStore(in, cdiff+"GC"); ok {
					if bo, isB := v.(*ssa.BinOp); isB && bo.Op == token.ADD {
						gcAdd = bo.Y
					}
				}
			}
		}
		core.CheckEffectsFn(p, r5, h, core.EffectRule{Min: 2, Guards: []core.Guard{keyAbsent, stillCounted}, Effect: func(_ *core.Prog, in ssa.Instruction) (string, bool) {
			if _, ok := fieldStore(in, cdiff+"Payload"); ok {
				return "payload-=", true
			}
			if bo, ok := in.(*ssa.BinOp); ok && bo.Op == token.ADD && gcAdd != nil {
				if k, isK := intConstOf(bo.Y); isK && k == 1 && flowsTo(bo, gcAdd, 4) {
					return "gc++", true
				}
			}
			return "", false
		}, Need: func(d string) []string {
			if d == "gc++" {
				return []string{"no-garbage-key-yet", "not-removed-yet"}
			}
			return []string{"no-garbage-key-yet", "not-removed-yet"}
		}})
	}
	// ---------------- R8 the delete side is complete
	r8 := r.Rule("C02.R8", "deleteMetadata succeeds only with every counted quantity of the removed entry taken out: Phy-- unless the PHY marker is absent; payload decreased unless the marker is absent or the entry had a garbage mark; GC-- unless no garbage key; Root/TS/Lock/Link-- unless the type (and ROOT marker) says otherwise", 7)
	if del := p.Func(mb + "deleteMetadata"); del == nil {
		r.Fatalf("C02.R8: deleteMetadata not found")
	} else {
		isTypLoad := func(v ssa.Value) bool {
			u, ok := v.(*ssa.UnOp)
			if !ok || u.Op != token.MUL {
				return false
			}
			al, ok := u.X.(*ssa.Alloc)
			return ok && strings.HasSuffix(al.Type().String(), "object.Type")
		}
		typeCmp := func(name string, eq bool) core.Guard {
			k := typeConst("Type" + name)
			gn, kind := "type!="+name, core.IsFalse
			if eq {
				gn, kind = "type=="+name, core.IsTrue
			}
			return core.Guard{Name: gn, Comps: []core.Comp{{Result: -1, Kind: kind}}, Pure: true, Value: func(_ *ssa.Function, v ssa.Value) bool {
				bo, ok := v.(*ssa.BinOp)
				if !ok || bo.Op != token.EQL {
					return false
				}
				c, isC := intConstOf(bo.Y)
				return isC && c == k && isTypLoad(bo.X)
			}}
		}
		done := func(f string) core.Guard {
			return core.Guard{Name: f + "-taken-out", Comps: []core.Comp{{Result: -1, Kind: core.Executed}}, Instr: func(in ssa.Instruction) bool {
				v, ok := fieldStore(in, cdiff+f)
				return ok && deltaSign(v) == "-"
			}}
		}
		// the garbage-key test: the bytes.Equal whose true branch holds the GC decrement
		var gcStoreBlk *ssa.BasicBlock
		for _, b := range del.Blocks {
			for _, in := range b.Instrs {
				if _, ok := fieldStore(in, cdiff+"GC"); ok {
					gcStoreBlk = b
				}
			}
		}
		gcTest := func(s core.Site) bool {
			c, ok := s.Call.(*ssa.Call)
			return ok && s.Name == "bytes.Equal" && gcStoreBlk != nil && branchDominates(c, true, gcStoreBlk)
		}
		gs := []core.Guard{
			{Name: "phy-marker-absent", Comps: []core.Comp{{Result: -1, Kind: core.IsNil}}, Match: func(s core.Site) bool {
				if s.Name != mb+"getObjAttribute" {
					return false
				}
				c, ok := s.Call.Common().Args[2].(*ssa.Const)
				return ok && c.Value != nil && strings.Contains(c.Value.ExactString(), "$Object:PHY")
			}},
			{Name: "no-garbage-key", Comps: []core.Comp{{Result: -1, Kind: core.IsFalse}}, Match: gcTest},
			{Name: "had-garbage-key", Comps: []core.Comp{{Result: -1, Kind: core.IsTrue}}, Match: gcTest},
			{Name: "not-root", Pure: true, Comps: []core.Comp{{Result: -1, Kind: core.IsFalse}}, Value: func(_ *ssa.Function, v ssa.Value) bool {
				ph, ok := v.(*ssa.Phi)
				if !ok || ph.Type().String() != "bool" {
					return false
				}
				seen := map[*ssa.Phi]bool{}
				var fromMarker func(ph *ssa.Phi) bool
				fromMarker = func(ph *ssa.Phi) bool {
					if seen[ph] {
						return false
					}
					seen[ph] = true
					for _, e := range ph.Edges {
						switch x := e.(type) {
						case *ssa.BinOp:
							if c, isC := x.Y.(*ssa.Const); isC && x.Op == token.EQL && c.Value != nil && c.Value.ExactString() == `"1"` {
								return true
							}
						case *ssa.Phi:
							if fromMarker(x) {
								return true
							}
						}
					}
					return false
				}
				return fromMarker(ph)
			}},
			typeCmp("Regular", false), typeCmp("Tombstone", false), typeCmp("Lock", false), typeCmp("Link", false),
			typeCmp("Regular", true), typeCmp("Tombstone", true), typeCmp("Lock", true), typeCmp("Link", true),
			done("Phy"), done("Payload"), done("GC"), done("Root"), done("TS"), done("Lock"), done("Link"),
		}
		der := []core.Derived{
			{Name: "phy-accounted", Alts: [][]string{{"phy-marker-absent"}, {"Phy-taken-out"}}},
			{Name: "payload-accounted", Alts: [][]string{{"phy-marker-absent"}, {"had-garbage-key"}, {"Payload-taken-out"}}},
			{Name: "gc-accounted", Alts: [][]string{{"no-garbage-key"}, {"GC-taken-out"}}},
			{Name: "root-accounted", Alts: [][]string{{"type!=Regular"}, {"type==Tombstone"}, {"type==Lock"}, {"type==Link"}, {"not-root"}, {"Root-taken-out"}}},
			{Name: "ts-accounted", Alts: [][]string{{"type!=Tombstone"}, {"type==Regular"}, {"type==Lock"}, {"type==Link"}, {"TS-taken-out"}}},
			{Name: "lock-accounted", Alts: [][]string{{"type!=Lock"}, {"type==Regular"}, {"type==Tombstone"}, {"type==Link"}, {"Lock-taken-out"}}},
			{Name: "link-accounted", Alts: [][]string{{"type!=Link"}, {"type==Regular"}, {"type==Tombstone"}, {"type==Lock"}, {"Link-taken-out"}}},
		}
		core.CheckSuccessFn(p, r8, del, core.SuccessRule{ResultIdx: -1, MinReturns: 1, Guards: gs, Derived: der,
			Need: []string{"phy-accounted", "payload-accounted", "gc-accounted", "root-accounted", "ts-accounted", "lock-accounted", "link-accounted"}})
	}
	// ---------------- R9 the recount uses the marking sites' notion of availability
	r9 := r.Rule("C02.R9", "syncContainerCounters adds a size to the payload total only under the two predicates of the marking sites: no garbage key of any kind, and inGarbage(id)==statusAvailable", 2)
	recountAgreesWithMarking(p, r, r9)
	// ---------------- R10 one definition of "a counted mark"
	r10 := r.Rule("C02.R10", "the four places that move the GC counter agree on which marks are counted: either all of them count only marks of objects the shard stores, or none does", 4)
	gcDefinitionAgrees(p, r, r10)
	// ---------------- R11 what the helper took out reaches the counters
	r11 := r.Rule("C02.R11", "DB.delete reports success only with the counter diff deleteMetadata built (also when the helper answered 'not stored here': it has removed the garbage mark and counted that)", 1)
	if dfn := p.Func(mbDB + "delete"); dfn == nil {
		r.Fatalf("C02.R11: DB.delete not found")
	} else {
		var diffV ssa.Value
		for _, cs := range core.CallSites([]*ssa.Function{dfn}, func(s core.Site) bool { return s.Name == mb+"deleteMetadata" }) {
			if v := cs.Call.Value(); v != nil && v.Referrers() != nil {
				for _, ref := range *v.Referrers() {
					if ex, ok := ref.(*ssa.Extract); ok && ex.Index == 0 {
						diffV = ex
					}
				}
			}
		}
		mr := core.NewMemReach(dfn)
		n := 0
		for _, b := range dfn.Blocks {
			ret, ok := b.Instrs[len(b.Instrs)-1].(*ssa.Return)
			if !ok || len(ret.Results) != 2 {
				continue
			}
			if c, isC := ret.Results[1].(*ssa.Const); !isC || !c.IsNil() {
				continue
			}
			n++
			r11.Check(diffV != nil && mr.Canon(ret.Results[0]) == diffV, core.FuncName(dfn)+"#success!helper-diff", p.InstrPos(ret), "the diff returned with success is deleteMetadata's", "DB.delete reports success with a counter diff that is not the one deleteMetadata built: what the helper removed (e.g. the garbage mark of an id that is not stored here) never reaches the counters")
		}
		if n == 0 {
			r.Fatalf("C02.R11: DB.delete has no success return")
		}
	}
	// ---------------- R7 count once on put
	r7 := r.Rule("C02.R7", "DB.put changes counters only for an object that is not indexed yet: exists()==(false, nil), or — when exists answered not-found because of a garbage mark — an explicit index probe found nothing", 1)
	if put := p.Func(mbDB + "put"); put == nil {
		r.Fatalf("C02.R7: DB.put not found")
	} else {
		ex := func(s core.Site) bool { return s.Name == mbDB+"exists" }
		gs := []core.Guard{
			{Name: "exists-false", Match: ex, Comps: []core.Comp{{Result: 0, Kind: core.IsFalse}}},
			{Name: "exists-err-nil", Match: ex, Comps: []core.Comp{{Result: 1, Kind: core.ErrNil}}},
			{Name: "index-probe-empty", Match: func(s core.Site) bool { return s.Name == mb+"fetchTypeForID" || s.Name == mb+"fetchTypeForIDWBuf" }, Comps: []core.Comp{{Result: 1, Kind: core.NonNil}}},
		}
		core.CheckEffectsFn(p, r7, put, core.EffectRule{Min: 1, Guards: gs, Derived: []core.Derived{{Name: "not-indexed-yet", Alts: [][]string{{"exists-false", "exists-err-nil"}, {"exists-false", "index-probe-empty"}}}},
			Need: func(string) []string { return []string{"not-indexed-yet"} }, Effect: core.CallTo(mb + "applyDiff")})
	}
	// ---------------- R6 presence by value
	r6 := r.Rule("C02.R6", "keys stored with a nil value (object-id keys, garbage marks, the container mark) are never probed with Bucket.Get(...) compared to nil — inside a write transaction a nil-valued key reads as absent", 1)
	nilValuedKey := func(fn *ssa.Function, v ssa.Value) bool {
		if c, ok := v.(*ssa.Call); ok && strings.HasSuffix(core.CalleeName(c), ".mkGarbageKey") {
			return true
		}
		if u, ok := v.(*ssa.UnOp); ok {
			if g, isG := u.X.(*ssa.Global); isG && g.Name() == "containerGCMarkKey" {
				return true
			}
		}
		idP, _ := p.ConstInt(mb + "metaPrefixID")
		gP, _ := p.ConstInt(mb + "metaPrefixGarbage")
		for _, k := range firstByteConsts(fn, v) {
			if k == idP || k == gP {
				return true
			}
		}
		return false
	}
	if fx, err := core.Fixtures(); err != nil {
		r.Fatalf("C02.R6: fixtures: %v", err)
	} else {
		bad, good := fx.Func("verif/analyzer/fixtures/nilval.Bad"), fx.Func("verif/analyzer/fixtures/nilval.Good")
		isGetFx := func(s core.Site) bool { return strings.HasSuffix(s.Name, "nilval.Bucket).Get") }
		if bad == nil || good == nil || len(valuePresenceTests(bad, isGetFx, nilValuedKey)) != 1 || len(valuePresenceTests(good, isGetFx, nilValuedKey)) != 0 {
			r.Fatalf("C02.R6: the presence-by-value rule does not report its own positive example (fixtures/nilval)")
		}
	}
	nGet := 0
	for _, fn := range fns {
		isGet := func(s core.Site) bool { return s.Name == "(*github.com/nspcc-dev/bbolt.Bucket).Get" }
		nGet += len(core.CallSites([]*ssa.Function{fn}, isGet))
		for _, c := range valuePresenceTests(fn, isGet, nilValuedKey) {
			r6.Bad(core.FuncName(fn)+"#Get(nil-valued key)!=nil", p.InstrPos(c), "the presence of a key that is stored with a nil value is tested by comparing Bucket.Get's result with nil; a mark written earlier in the same transaction reads as absent")
		}
	}
	r6.OKTrivial("metabase#Bucket.Get-sites", "-", fmt.Sprintf("%d Bucket.Get call sites examined, none probes a nil-valued key by value", nGet))
	if nGet < 10 {
		r.Fatalf("C02.R6: only %d Bucket.Get sites found", nGet)
	}

	// ---------------- R3 no wrap
	r3 := r.Rule("C02.R3", "unsigned counter subtractions cannot wrap: phy-gc only under phy>gc; counter decreases floored by min(counter, x)", 2)
	if ci := p.Func(mbDB + "containerInfo"); ci == nil {
		r.Fatalf("C02.R3: containerInfo not found")
	} else {
		var sub *ssa.BinOp
		for _, b := range ci.Blocks {
			for _, in := range b.Instrs {
				if bo, ok := in.(*ssa.BinOp); ok && bo.Op == token.SUB {
					sub = bo
				}
			}
		}
		if sub == nil {
			r3.Bad(core.FuncName(ci)+"#phy-gc", p.Pos(ci.Pos()), "no subtraction found (objects number no longer phy-gc?)")
		} else {
			gs, der := core.LEFacts("gc<=phy", func(_ *ssa.Function, v ssa.Value) bool { return v == sub.Y }, func(_ *ssa.Function, v ssa.Value) bool { return v == sub.X }, true)
			core.CheckEffectsFn(p, r3, ci, core.EffectRule{Min: 1, Guards: gs, Derived: []core.Derived{der}, Need: func(string) []string { return []string{"gc<=phy"} },
				Effect: func(_ *core.Prog, in ssa.Instruction) (string, bool) { return "phy-gc", in == ssa.Instruction(sub) }})
		}
	}
	if uc := p.Func(mb + "updateCounter"); uc == nil {
		r.Fatalf("C02.R3: updateCounter not found")
	} else {
		n := 0
		for _, b := range uc.Blocks {
			for _, in := range b.Instrs {
				bo, ok := in.(*ssa.BinOp)
				if !ok || bo.Op != token.SUB || !strings.HasPrefix(bo.Type().String(), "uint") {
					continue
				}
				n++
				c, isC := bo.Y.(*ssa.Call)
				good := false
				if isC && core.CalleeName(c) == "builtin.min" {
					for _, a := range c.Call.Args {
						if a == bo.X {
							good = true
						}
					}
				}
				r3.Check(good, core.FuncName(uc)+"#floored-sub", p.InstrPos(in), "counter -= min(counter, x)", "the counter decrease is not floored by min(counter, x): it can wrap below zero")
			}
		}
		if n == 0 {
			r3.Bad(core.FuncName(uc)+"#floored-sub", p.Pos(uc.Pos()), "no unsigned subtraction found in updateCounter")
		}
	}

	// ---------------- R4 shard metric feeding
	r4 := r.Rule("C02.R4", "shard metrics are fed only from the diff of a successful metabase call", 15)
	shard := "(*pkg/local_object_storage/shard.Shard)."
	for _, c := range []struct{ fn, call string }{
		{shard + "Put", mbDB + "PutCounted"}, {shard + "deleteObjs", mbDB + "Delete"}, {shard + "MarkGarbage", mbDB + "MarkGarbage"},
	} {
		fn := p.Func(c.fn)
		if fn == nil {
			r.Fatalf("C02.R4: %s not found", c.fn)
			continue
		}
		call := c.call
		core.CheckEffectsFn(p, r4, fn, core.EffectRule{Min: 2, Guards: []core.Guard{core.G("metabase-call-ok", core.ErrNil, call)},
			Effect: core.CallTo(shard+"addObjectCounter", shard+"addToContainerSize", shard+"addToPayloadCounter")})
		// and the value fed is a field of that call's result
		for _, s := range core.CallSites([]*ssa.Function{fn}, func(s core.Site) bool {
			return s.Name == shard+"addObjectCounter" || s.Name == shard+"addToContainerSize" || s.Name == shard+"addToPayloadCounter"
		}) {
			a := s.Call.Common().Args
			root, _ := core.AccessPathM(core.NewMemReach(fn), a[len(a)-1])
			ok := false
			if al, isAl := root.(*ssa.Alloc); isAl { // result struct kept in a local cell: the cell's only store
				for _, ref := range *al.Referrers() {
					if st, isSt := ref.(*ssa.Store); isSt && st.Addr == al {
						root = st.Val
					}
				}
			}
			if ex, isEx := root.(*ssa.Extract); isEx {
				if cc, isC := ex.Tuple.(*ssa.Call); isC && core.CalleeName(cc) == call {
					ok = true
				}
			}
			r4.Check(ok, core.FuncName(fn)+"#"+s.Name+"!value-from-diff", p.InstrPos(s.Call), "the value is a field of the metabase call's diff", "the metric is not fed from the diff returned by "+call)
		}
	}
}

// firstByteConsts resolves the constant values that byte 0 of the []byte value v may hold,
// for keys built as `[]byte{c}`, `make([]byte, n); k[0] = c`, or slices of such arrays.
func firstByteConsts(fn *ssa.Function, v ssa.Value) []int64 {
	var base ssa.Value
	switch x := v.(type) {
	case *ssa.Slice:
		base = x.X
	case *ssa.MakeSlice:
		base = x
	default:
		return nil
	}
	var out []int64
	for _, b := range fn.Blocks {
		for _, in := range b.Instrs {
			st, ok := in.(*ssa.Store)
			if !ok {
				continue
			}
			ia, ok := st.Addr.(*ssa.IndexAddr)
			if !ok || ia.X != base && ia.X != v {
				continue
			}
			if i, isI := intConstOf(ia.Index); !isI || i != 0 {
				continue
			}
			if c, isC := intConstOf(st.Val); isC {
				out = append(out, c)
			}
		}
	}
	return out
}

// valuePresenceTests lists Get calls in fn on a nil-valued key whose result is compared with nil.
func valuePresenceTests(fn *ssa.Function, isGet func(core.Site) bool, nilValuedKey func(*ssa.Function, ssa.Value) bool) []ssa.CallInstruction {
	var out []ssa.CallInstruction
	for _, s := range core.CallSites([]*ssa.Function{fn}, isGet) {
		a := s.Call.Common().Args
		if !nilValuedKey(fn, a[len(a)-1]) {
			continue
		}
		v := s.Call.Value()
		if v == nil {
			continue
		}
		for _, ref := range *v.Referrers() {
			if bo, ok := ref.(*ssa.BinOp); ok && (bo.Op == token.EQL || bo.Op == token.NEQ) {
				if c, isC := bo.X.(*ssa.Const); isC && c.IsNil() {
					out = append(out, s.Call)
				} else if c, isC := bo.Y.(*ssa.Const); isC && c.IsNil() {
					out = append(out, s.Call)
				}
			}
		}
	}
	return out
}

// recountAgreesWithMarking: the counter recount (syncContainerCounters: start-up, migration, resync) adds an object's size to
// the payload total only under the two conditions under which the marking sites take the size out (C02.R5): no garbage key of
// any kind (a redundant-copy mark counts) and inGarbage(id) == statusAvailable. Another notion of "still counted" (one with the
// lock override, one that ignores redundant marks) makes the recount disagree with the incremental accounting. Shared by
// C02.R9 and C42.R6.
func recountAgreesWithMarking(p *core.Prog, r *core.Report, h *core.RuleH) {
	fn := p.Func(mb + "syncContainerCounters")
	if fn == nil {
		r.Fatalf("%s: syncContainerCounters not found", h.ID())
		return
	}
	stAvail, ok := p.ConstInt(mb + "statusAvailable")
	if !ok {
		r.Fatalf("%s: statusAvailable not found", h.ID())
		return
	}
	n := 0
	for _, f := range append([]*ssa.Function{fn}, fn.AnonFuncs...) {
		// once "no garbage key" holds, inGarbage and objectStatus answer alike (a tombstone always writes the key, the lock
		// override needs a mark to override): either is accepted as the status test
		avail := core.Guard{Name: "not-removed-yet", Match: func(s core.Site) bool { return s.Name == mb+"inGarbage" || s.Name == mb+"objectStatus" },
			Comps: []core.Comp{{Result: -1, Kind: core.EqConst, Const: stAvail}}}
		noKey := core.Guard{Name: "no-garbage-key", Match: func(s core.Site) bool {
			if s.Name != "bytes.Equal" {
				return false
			}
			for _, a := range s.Call.Common().Args {
				if c, ok := a.(*ssa.Call); ok && core.CalleeName(c) == mb+"mkGarbageKey" {
					return true
				}
			}
			return false
		}, Comps: []core.Comp{{Result: -1, Kind: core.IsFalse}}}
		n += core.CheckEffectsFn(p, h, f, core.EffectRule{Guards: []core.Guard{noKey, avail}, Effect: func(_ *core.Prog, in ssa.Instruction) (string, bool) {
			st, isSt := in.(*ssa.Store)
			if !isSt || st.Val.Type().String() != "uint64" {
				return "", false
			}
			bo, isB := st.Val.(*ssa.BinOp)
			if !isB || bo.Op != token.ADD {
				return "", false
			}
			if _, isK := intConstOf(bo.Y); isK {
				return "", false // an object counter (+1), not the payload total
			}
			ld, isLd := bo.X.(*ssa.UnOp)
			return "payload-total += size", isLd && ld.X == st.Addr
		}})
	}
	if n == 0 {
		r.Fatalf("%s: the recount no longer accumulates a payload total", h.ID())
	}
}

// gcDefinitionAgrees: the GC counter is moved at four places — the tombstone branch of put (++), markGarbageInContainer (++),
// deleteMetadata (--) and the recount — and `objects = phy - gc` is reported from it. They must agree on whether the mark of
// an object the shard does NOT store (absent target of a tombstone, parent known only through its parts) is counted: a mark
// that is not counted when written but subtracted when removed (or the other way round) makes the counter drift.
func gcDefinitionAgrees(p *core.Prog, r *core.Report, h *core.RuleH) {
	type site struct {
		name   string
		fn     *ssa.Function
		effect func(in ssa.Instruction) bool
	}
	isStoredTest := func(s core.Site) bool {
		// evidence that the object is stored here: its header was read (get()==nil), its PHY marker or its id key was looked up
		switch s.Name {
		case mb + "get":
			return true
		case mb + "getObjAttribute":
			k, ok := s.Call.Common().Args[2].(*ssa.Const)
			return ok && k.Value != nil && strings.Contains(k.Value.ExactString(), "$Object:PHY")
		}
		return false
	}
	hoa := p.Func(mb + "handleObjectWithAssociation")
	mg := p.Func(mb + "markGarbageInContainer")
	del := p.Func(mb + "deleteMetadata")
	syn := p.Func(mb + "syncContainerCounters")
	if hoa == nil || mg == nil || del == nil || syn == nil {
		r.Fatalf("%s: one of the four GC counter sites was not found", h.ID())
		return
	}
	var gcAdd ssa.Value
	for _, b := range hoa.Blocks {
		for _, in := range b.Instrs {
			if v, ok := fieldStore(in, cdiff+"GC"); ok {
				if bo, isB := v.(*ssa.BinOp); isB && bo.Op == token.ADD {
					gcAdd = bo.Y
				}
			}
		}
	}
	const gdiff = "(" + mb + "ContainerGarbageDiff)."
	sites := []site{
		{"tombstone branch of put (gc++)", hoa, func(in ssa.Instruction) bool {
			bo, ok := in.(*ssa.BinOp)
			if !ok || bo.Op != token.ADD || gcAdd == nil {
				return false
			}
			k, isK := intConstOf(bo.Y)
			return isK && k == 1 && flowsTo(bo, gcAdd, 4)
		}},
		{"MarkGarbage (gc++)", mg, func(in ssa.Instruction) bool { _, ok := fieldStore(in, gdiff+"NewGarbage"); return ok }},
		{"deleteMetadata (gc--)", del, func(in ssa.Instruction) bool { _, ok := fieldStore(in, cdiff+"GC"); return ok }},
	}
	// the recount's gc loop: a +1 on a captured counter inside a closure that iterates the garbage prefix; take every closure of
	// syncContainerCounters whose only effect is one such increment and that does not accumulate sizes: identified by the prefix constant
	gP, _ := p.ConstInt(mb + "metaPrefixGarbage")
	conditional := map[string]bool{}
	for _, st := range sites {
		found, cond := false, true
		for _, b := range st.fn.Blocks {
			for _, in := range b.Instrs {
				if !st.effect(in) {
					continue
				}
				found = true
				// conditional on storedness = control-dependent on a value derived from a stored-test call
				dep := false
				for _, bb := range st.fn.Blocks {
					for _, i2 := range bb.Instrs {
						c, isC := i2.(*ssa.Call)
						if !isC || !isStoredTest(core.Site{Fn: st.fn, Call: c, Name: core.CalleeName(c)}) {
							continue
						}
						var vals []ssa.Value
						var grow func(v ssa.Value, d int)
						grow = func(v ssa.Value, d int) {
							vals = append(vals, v)
							if d == 0 || v.Referrers() == nil {
								return
							}
							for _, ref := range *v.Referrers() {
								switch x := ref.(type) {
								case *ssa.Extract, *ssa.BinOp, *ssa.UnOp, *ssa.Convert, *ssa.Phi:
									grow(x.(ssa.Value), d-1)
								}
							}
						}
						grow(c, 4)
						for _, v := range vals {
							if branchDominates(v, true, in.Block()) || branchDominates(v, false, in.Block()) {
								dep = true
							}
						}
					}
				}
				if !dep {
					cond = false
				}
			}
		}
		if !found {
			r.Fatalf("%s: GC counter effect of %s not found", h.ID(), st.name)
			continue
		}
		conditional[st.name] = cond
	}
	// recount
	recCond, recFound := true, false
	for _, b := range syn.Blocks {
		for _, in := range b.Instrs {
			c, ok := in.(*ssa.Call)
			if !ok || core.CalleeName(c) != mb+"iterPrefixedIDs" {
				continue
			}
			isGarbage := false
			walkOperands(c.Call.Args[1], 6, func(x ssa.Value) {
				if k, isK := intConstOf(x); isK && k == gP {
					isGarbage = true
				}
			})
			if ia, isSl := c.Call.Args[1].(*ssa.Slice); isSl && !isGarbage {
				if al, isAl := ia.X.(*ssa.Alloc); isAl && al.Referrers() != nil {
					for _, ref := range *al.Referrers() {
						if ix, isIx := ref.(*ssa.IndexAddr); isIx && ix.Referrers() != nil {
							for _, r2 := range *ix.Referrers() {
								if stt, isSt := r2.(*ssa.Store); isSt {
									if k, isK := intConstOf(stt.Val); isK && k == gP {
										isGarbage = true
									}
								}
							}
						}
					}
				}
			}
			if !isGarbage {
				continue
			}
			recFound = true
			// the loop body is a range-over-func closure (or inline): does it consult storedness?
			body := syn
			if c.Referrers() != nil {
				for _, ref := range *c.Referrers() {
					if cc, isC := ref.(*ssa.Call); isC && len(cc.Call.Args) == 1 {
						if mc, isMC := cc.Call.Args[0].(*ssa.MakeClosure); isMC {
							body = mc.Fn.(*ssa.Function)
						}
					}
				}
			}
			recCond = len(core.CallSites([]*ssa.Function{body}, isStoredTest)) > 0 && body != syn
		}
	}
	if !recFound {
		r.Fatalf("%s: the recount's loop over garbage marks was not found", h.ID())
		return
	}
	conditional["recount (gc = number of ...)"] = recCond
	// verdict: all equal
	posOf := map[string]string{"tombstone branch of put (gc++)": p.Pos(hoa.Pos()), "MarkGarbage (gc++)": p.Pos(mg.Pos()), "deleteMetadata (gc--)": p.Pos(del.Pos()), "recount (gc = number of ...)": p.Pos(syn.Pos())}
	ref := conditional["MarkGarbage (gc++)"]
	for _, name := range []string{"tombstone branch of put (gc++)", "MarkGarbage (gc++)", "deleteMetadata (gc--)", "recount (gc = number of ...)"} {
		c := conditional[name]
		what := "counts every mark"
		if c {
			what = "counts only marks of objects the shard stores"
		}
		h.Check(c == ref, "gc-counter-definition#"+name, posOf[name], what+", like the other sites", name+" "+what+" while MarkGarbage does the opposite: a mark that is not counted when written is subtracted when removed (or the reverse), and the object count reported as phy - gc drifts")
	}
}
