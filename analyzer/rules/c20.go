package rules

import (
	"strings"

	"golang.org/x/tools/go/ssa"

	"verif/analyzer/core"
)

// C20 — engine reads find every stored object despite shard order, modes and failures (structure of StorageEngine.get).
func init() {
	register(&Check{ID: "C20", Level: "other", Pkgs: []string{"./pkg/local_object_storage/engine"}, Run: runC20})
}

func runC20(p *core.Prog, r *core.Report) {
	r.Explain = "Decides the structure of StorageEngine.get (shared by Get, GetBytes, GetStream, GetRangeStream, ReadObject, ReadPayloadRange) on all CFG paths: (R1) a shard is read with the metadata check bypassed only if that shard works without a metabase, or after some metabase listed the object while its data was missing there — bypassing a healthy metabase otherwise overrides its 'removed' verdict; (R2) the first pass leaves a shard for the next one only on a not-found / incomplete-split-info answer or after the answer was tested against every stop class (parent, already removed, out of range, expired): a removal verdict is never treated as a shard failure, and a shard failure never ends the search; it returns from inside the loop only with success, a stop class, or complete split info; (R3) both passes visit every shard: the loops are left only by exhaustion or return (no early break that would hide a later shard); (R4) every reading entry point goes through get; (R5) an engine removal's presence scan over the shards returns success from inside the loop only on 'already removed' — 'not found' on one shard (also the answer of a per-shard garbage mark) never ends it, so a retried removal reaches the shards the first attempt missed; (R7) the per-shard callbacks of the engine's removals report success only when the shard's own removal call returned nil — a read-only or degraded holder fails the removal (so it is retried) instead of leaving an unmarked, readable copy behind an acknowledged removal; (R6) putToShard stores on a shard only after that shard's Exists answered (false, nil): any error answer — including the not-found a garbage mark produces — makes the caller try another shard instead of 'storing' where the object stays unreadable (shared with C19). Not covered: which shard holds what after a history of mode changes and failures (behavioural)."
	g := p.Func(engT + "get")
	if g == nil {
		r.Fatalf("C20: StorageEngine.get not found")
		return
	}
	isShardFunc := func(s core.Site) bool { return s.Name == "dynamic" && core.ParamIndex(g, s.Call.Common().Value) == 2 }
	calls := core.CallSites([]*ssa.Function{g}, isShardFunc)
	if len(calls) != 2 {
		r.Fatalf("C20: %d shardFunc call sites in get, expected 2 (first pass, fallback)", len(calls))
		return
	}
	errIs := func(name string, want bool, targets ...string) core.Guard {
		kind := core.IsTrue
		if !want {
			kind = core.IsFalse
		}
		return core.Guard{Name: name, Match: func(s core.Site) bool {
			if s.Name != "errors.Is" && s.Name != "errors.As" && s.Name != "pkg/local_object_storage/shard.IsErrObjectExpired" {
				return false
			}
			a := s.Call.Common().Args
			if s.Name == "pkg/local_object_storage/shard.IsErrObjectExpired" {
				return targets[0] == "expired"
			}
			t := core.ErrTargetName(a[1])
			for _, x := range targets {
				if t == x {
					return true
				}
			}
			return false
		}, Comps: []core.Comp{{Result: -1, Kind: kind}}}
	}
	const st = "github.com/nspcc-dev/neofs-sdk-go/client/status."
	// ---------------- R1 bypass
	r1 := r.Rule("C20.R1", "metadata is bypassed on a shard only if it has no metabase, or after some metabase listed the object without having its data", 2)
	noMeta := core.G("this-shard-has-no-metabase", core.IsTrue, "(pkg/local_object_storage/shard/mode.Mode).NoMetabase")
	isMetaShardLoad := func(v ssa.Value) bool {
		_, path := core.AccessPathM(core.NewMemReach(g), v)
		return len(path) > 0 && path[len(path)-1] == "Shard"
	}
	listed := []core.Guard{
		{Name: "some-metabase-listed-it(ne-true)", Comps: []core.Comp{{Result: -1, Kind: core.NonNil}}, Pure: true, Value: func(_ *ssa.Function, v ssa.Value) bool {
			_, isLoad := v.(*ssa.UnOp)
			return isLoad && isMetaShardLoad(v) && strings.HasSuffix(v.Type().String(), "shard.Shard")
		}},
	}
	for _, s := range calls {
		site := s.Call
		arg := s.Call.Common().Args[1]
		key := "first-pass"
		need := []string{}
		if c, isC := arg.(*ssa.Const); isC && constTrue(c) {
			key = "fallback(bypass=true)"
			need = []string{"bypass-justified"}
		} else {
			// the flag passed is this shard's own NoMetabase() answer
			ok := false
			if cl, isCall := core.Unwrap(arg).(*ssa.Call); isCall && core.CalleeName(cl) == "(pkg/local_object_storage/shard/mode.Mode).NoMetabase" {
				ok = true
			}
			r1.Check(ok, core.FuncName(g)+"#shardFunc["+key+"]!flag", p.InstrPos(site), "the bypass flag is the shard's own NoMetabase()", "the first pass bypasses metadata by something other than the shard's own NoMetabase() answer")
			continue
		}
		core.CheckEffectsFn(p, r1, g, core.EffectRule{Min: 1, Guards: append([]core.Guard{noMeta}, listed...),
			Derived: []core.Derived{{Name: "bypass-justified", Alts: [][]string{{"this-shard-has-no-metabase"}, {"some-metabase-listed-it(ne-true)"}}}},
			Need:    func(string) []string { return need }, Effect: func(_ *core.Prog, in ssa.Instruction) (string, bool) {
				return "shardFunc[" + key + "]", in == site.(ssa.Instruction)
			}})
	}
	// ---------------- R2 first pass classification
	r2 := r.Rule("C20.R2", "first pass: next shard only after not-found / split-info / all stop classes tested false; returns inside the loop only for success, a stop class, or complete split info", 4)
	first := calls[0].Call
	gs := []core.Guard{
		{Name: "shard-answered", Match: func(s core.Site) bool { return s.Call == first }, Comps: []core.Comp{{Result: -1, Kind: core.ErrNil}}},
		errIs("not-found", true, st+"ErrObjectNotFound"),
		errIs("split-info", true, "type:*github.com/nspcc-dev/neofs-sdk-go/object.SplitInfoError"),
		errIs("is-parent", true, "internal/errors.ErrParentObject"),
		errIs("is-removed", true, st+"ErrObjectAlreadyRemoved"),
		errIs("is-out-of-range", true, st+"ErrObjectOutOfRange"),
		errIs("is-expired", true, "expired"),
		errIs("not-parent", false, "internal/errors.ErrParentObject"),
		errIs("not-removed", false, st+"ErrObjectAlreadyRemoved"),
		errIs("not-out-of-range", false, st+"ErrObjectOutOfRange"),
		errIs("not-expired", false, "expired"),
	}
	der := []core.Derived{
		{Name: "may-try-next-shard", Alts: [][]string{{"not-found"}, {"split-info"}, {"not-parent", "not-removed", "not-out-of-range", "not-expired"}}},
		{Name: "may-stop", Alts: [][]string{{"shard-answered"}, {"split-info"}, {"is-parent"}, {"is-removed"}, {"is-out-of-range"}, {"is-expired"}}},
	}
	gf := core.Flow(g, gs, der...)
	loopOf := func(c ssa.CallInstruction) *ssa.BasicBlock {
		var hdr *ssa.BasicBlock
		for _, h := range g.Blocks {
			back := false
			for _, pr := range h.Preds {
				if h.Dominates(pr) {
					back = true
				}
			}
			if back && h.Dominates(c.Block()) && reaches(c.Block(), h) && (hdr == nil || hdr.Dominates(h)) {
				hdr = h
			}
		}
		return hdr
	}
	h1 := loopOf(first)
	if h1 == nil {
		r2.Bad(core.FuncName(g)+"#first-pass-loop", p.Pos(g.Pos()), "no loop around the first shardFunc call")
	} else {
		inLoop := func(b *ssa.BasicBlock) bool { return h1.Dominates(b) && reaches(b, h1) }
		for _, pr := range h1.Preds {
			if h1.Dominates(pr) {
				r2.Check(gf.DerivedPassed(gf.OnEdge(pr, h1), "may-try-next-shard"), core.FuncName(g)+"#first-pass-next-shard", p.InstrPos(pr.Instrs[len(pr.Instrs)-1]),
					"the next shard is tried only after not-found / split info / every stop class tested false", "the first pass moves to the next shard although the shard's answer may be a stop class (parent, already removed, out of range, expired): a later shard could then serve a removed object")
			}
		}
		for _, b := range g.Blocks {
			ret, ok := b.Instrs[len(b.Instrs)-1].(*ssa.Return)
			if !ok || !(h1.Dominates(b) && b != h1) {
				continue
			}
			// returns syntactically inside the loop body = blocks dominated by the header whose path does not go through the loop exit
			exitDominated := false
			for _, s := range h1.Succs {
				if !inLoop(s) && s.Dominates(b) {
					exitDominated = true
				}
			}
			if exitDominated {
				continue
			}
			r2.Check(gf.DerivedPassed(gf.At(ret), "may-stop"), core.FuncName(g)+"#first-pass-return", p.InstrPos(ret), "returns from the first pass only with success, a stop class or split info", "the first pass returns on a shard answer that is neither success nor a stop class: one shard's failure hides the object held by another shard")
		}
	}
	// ---------------- R3 loops are not left early
	r3 := r.Rule("C20.R3", "both passes visit every shard: the loops are left only by exhaustion or by return", 2)
	for i, c := range calls {
		h := loopOf(c.Call)
		name := []string{"first-pass", "fallback"}[i]
		if h == nil {
			r3.Bad(core.FuncName(g)+"#"+name+"-loop", p.Pos(g.Pos()), "loop not found")
			continue
		}
		inLoop := func(b *ssa.BasicBlock) bool { return h.Dominates(b) && reaches(b, h) }
		early := 0
		var after *ssa.BasicBlock
		for _, sc := range h.Succs {
			if !inLoop(sc) {
				after = sc
			}
		}
		for _, b := range g.Blocks {
			if !inLoop(b) || b == h {
				continue
			}
			for _, sc := range b.Succs {
				if inLoop(sc) || sc == h {
					continue
				}
				// leaving the loop from its body is fine when the path only leads to a return; a `break` lands on
				// (or reaches) the block that follows the loop
				if after != nil && (sc == after || reaches(sc, after)) {
					early++
				}
			}
		}
		r3.Check(early == 0, core.FuncName(g)+"#"+name+"-loop!no-early-exit", p.Pos(h.Instrs[0].Pos()), "left only by exhaustion or return", "the "+name+" loop over the shards can be left early without returning: shards later in the order are never asked and an object held there is reported as not found")
	}
	// ---------------- R5 a removal asks every shard
	r5 := r.Rule("C20.R5", "engine removal: the presence scan over the shards ends with success only on 'already removed' (a tombstone is on every shard); 'not found' on one shard — which is also what a per-shard garbage mark answers — never ends it", 1)
	if dfn := p.Func(engT + "processAddrDeleteOnShards"); dfn == nil {
		r.Fatalf("C20.R5: processAddrDeleteOnShards not found")
	} else {
		ex := core.CallSites([]*ssa.Function{dfn}, func(s core.Site) bool { return strings.HasSuffix(s.Name, "shard.Shard).Exists") })
		if len(ex) == 0 {
			r.Fatalf("C20.R5: no presence check in processAddrDeleteOnShards")
		} else {
			var hdr *ssa.BasicBlock
			cb := ex[0].Call.Block()
			for _, hb := range dfn.Blocks {
				back := false
				for _, pr := range hb.Preds {
					if hb.Dominates(pr) {
						back = true
					}
				}
				if back && hb.Dominates(cb) && reaches(cb, hb) && (hdr == nil || hdr.Dominates(hb)) {
					hdr = hb
				}
			}
			removed := errIs("shard-says-already-removed", true, st+"ErrObjectAlreadyRemoved")
			n := core.CheckEffectsFn(p, r5, dfn, core.EffectRule{Guards: []core.Guard{removed}, Effect: func(_ *core.Prog, in ssa.Instruction) (string, bool) {
				ret, ok := in.(*ssa.Return)
				if !ok || hdr == nil || !hdr.Dominates(ret.Block()) || len(ret.Results) == 0 {
					return "", false
				}
				for _, sc := range hdr.Succs {
					if !(hdr.Dominates(sc) && reaches(sc, hdr)) && sc.Dominates(ret.Block()) {
						return "", false // after the loop
					}
				}
				c, isC := ret.Results[len(ret.Results)-1].(*ssa.Const)
				return "success-return-inside-the-presence-scan", isC && c.IsNil()
			}})
			if n == 0 {
				r5.OKTrivial(core.FuncName(dfn)+"#no-early-success", p.Pos(dfn.Pos()), "the presence scan never returns success from inside the loop")
			}
		}
	}
	// ---------------- R6 putToShard
	r6 := r.Rule("C20.R6", "putToShard calls the shard's Put only after the shard's Exists answered (false, nil)", 1)
	putOnlyWhereAbsent(p, r, r6)
	// ---------------- R8 'already stored' is said only for something a read can find (or that expired)
	r8 := r.Rule("C20.R8", "existsPhysical (its 'true' makes Put acknowledge without storing anything) answers true only after some shard's Exists returned (true, nil) or reported the object expired: 'not found' / 'removed' answers of a shard — a garbage-marked copy waiting for GC gives 'not found' — never count as stored", 1)
	if ef := p.Func("(*pkg/local_object_storage/engine.StorageEngine).existsPhysical"); ef == nil {
		r.Fatalf("C20.R8: existsPhysical not found")
	} else {
		gs := []core.Guard{
			{Name: "a-shard-has-it", Match: func(s core.Site) bool { return strings.HasSuffix(s.Name, "shard.Shard).Exists") }, Comps: []core.Comp{{Result: 0, Kind: core.IsTrue}}},
			core.G("expired-there", core.IsTrue, "pkg/local_object_storage/shard.IsErrObjectExpired"),
		}
		core.CheckSuccessFn(p, r8, ef, core.SuccessRule{ResultIdx: 0, SuccessBool: true, MinReturns: 1, Guards: gs,
			Derived: []core.Derived{{Name: "stored-and-findable-or-expired", Alts: [][]string{{"a-shard-has-it"}, {"expired-there"}}}}, Need: []string{"stored-and-findable-or-expired"}})
	}
	r.Explain += " (R8) an acknowledged Put is readable: the engine's Put returns nil without writing when existsPhysical says true, and existsPhysical says true only on the strength of a shard's (true, nil) or of the expired verdict; a copy that is garbage-marked and waiting for GC answers 'not found' and must make the repeated Put fail rather than be acknowledged."
	// ---------------- R7 removal callbacks do not hide a shard's refusal
	r7 := r.Rule("C20.R7", "the per-shard callbacks the engine's removals run (Delete, DeleteRedundantCopies, Drop, expired objects) report success only if the shard's own removal call returned nil: a shard that refuses (read-only, degraded) fails the removal instead of being skipped silently", 2)
	nCb := 0
	for _, fn := range p.FuncsIn("pkg/local_object_storage/engine") {
		for _, cs := range core.CallSites([]*ssa.Function{fn}, func(s core.Site) bool {
			return s.Name == engT+"processAddrDelete" || s.Name == engT+"processAddrDeleteOnShards"
		}) {
			a := cs.Call.Common().Args
			cbv := a[len(a)-1]
			var cb *ssa.Function
			switch x := cbv.(type) {
			case *ssa.MakeClosure:
				cb = x.Fn.(*ssa.Function)
			case *ssa.Function:
				cb = x
			}
			if cb == nil {
				if core.ParamIndex(fn, cbv) >= 0 {
					continue // passes its own parameter on: judged at its callers
				}
				r7.Bad(core.FuncName(fn)+"#removal-callback", p.InstrPos(cs.Call), "the per-shard removal callback is not a function literal or a method value: cannot decide what it reports")
				continue
			}
			nCb++
			if cb.Blocks == nil || strings.HasPrefix(core.FuncName(cb), "(*pkg/local_object_storage/shard.Shard).") {
				r7.OKTrivial(core.FuncName(fn)+"#removal-callback="+core.FuncName(cb), p.InstrPos(cs.Call), "the shard's own method is the callback")
				continue
			}
			shardOp := core.Guard{Name: "shard-accepted-the-removal", Comps: []core.Comp{{Result: -1, Kind: core.ErrNil}}, Match: func(s core.Site) bool {
				return strings.HasPrefix(s.Name, "(*pkg/local_object_storage/shard.Shard).") && (strings.HasSuffix(s.Name, ".MarkGarbage") || strings.HasSuffix(s.Name, ".Delete") || strings.HasSuffix(s.Name, ".DeleteRedundantCopies"))
			}}
			core.CheckSuccessFn(p, r7, cb, core.SuccessRule{ResultIdx: -1, MinReturns: 1, Guards: []core.Guard{shardOp}})
		}
	}
	if nCb < 2 {
		r.Fatalf("C20.R7: only %d removal callbacks found", nCb)
	}
	// ---------------- R4 entry points go through get
	r4 := r.Rule("C20.R4", "every reading entry point of the engine goes through get", 5)
	for _, n := range []string{"getInt", "GetBytes", "GetStream", "getRangeStream", "ReadObject", "ReadPayloadRange"} {
		fn := p.Func(engT + n)
		if fn == nil {
			r4.Bad(engT+n, "-", "entry point not found (renamed?)")
			continue
		}
		r4.Check(len(core.CallSites([]*ssa.Function{fn}, func(s core.Site) bool { return s.Name == engT+"get" })) == 1, engT+n+"#get", p.Pos(fn.Pos()), "reads through get", n+" no longer reads through StorageEngine.get")
	}
}

// putOnlyWhereAbsent: shared by C20.R6 and C19.R5.
func putOnlyWhereAbsent(p *core.Prog, r *core.Report, h *core.RuleH) {
	fn := p.Func(engT + "putToShard")
	if fn == nil {
		r.Fatalf("%s: putToShard not found", h.ID())
		return
	}
	ex := func(s core.Site) bool { return strings.HasSuffix(s.Name, "shard.Shard).Exists") }
	gs := []core.Guard{{Name: "shard-says-absent", Match: ex, Comps: []core.Comp{{Result: 0, Kind: core.IsFalse}, {Result: 1, Kind: core.ErrNil}}}}
	core.CheckEffectsFn(p, h, fn, core.EffectRule{Min: 1, Guards: gs, Effect: func(_ *core.Prog, in ssa.Instruction) (string, bool) {
		c, ok := in.(ssa.CallInstruction)
		return "shard.Put", ok && strings.HasSuffix(core.CalleeName(c), "shard.Shard).Put")
	}})
}
