package rules

import (
	"fmt"
	"go/token"
	"strings"

	"golang.org/x/tools/go/ssa"

	"verif/analyzer/core"
)

// C28 / C30 — access decisions; session and bearer token validity.
func init() {
	pk := []string{"./pkg/services/object/acl/...", "./pkg/services/object", "./internal/sessions", "./internal/crypto", "./cmd/neofs-node"}
	register(&Check{ID: "C28", Level: "other", Pkgs: pk, Run: runC28})
	register(&Check{ID: "C30", Level: "other", Pkgs: pk, Run: runC30})
}

const (
	aclT  = "(*pkg/services/object/acl.Checker)"
	aclV2 = "(pkg/services/object/acl/v2.Service)"
)

func runC28(p *core.Prog, r *core.Report) {
	r.Explain = "Decides the shape of the access decision, not the decision tables (IsOpAllowed / CalculateAction live in the SDK): (R1) CheckEACL consults an eACL table only when the basic ACL is extendable and the requester's role is not a system role; the bearer token's table is used only on paths where AllowedBearerRules(op) answered true (path-sensitive: the cleared token is followed through the request info), otherwise the container's stored table; a denying final action yields an error, a non-final one ErrNotMatched; (R2) the request info carries a bearer token only after verifyBearerTokenAgainstRequest returned nil (issuer == container owner, container match, AssertUser(sender)); (R3) the role switches cover every acl.Role constant; CheckBasicACL asks IsOpAllowed(operation, role) of the request's own container; the sticky-bit check compares the object owner with the sender key unless the role is Container or the bit is off; (R4) the requester classifier returns a privileged role only on evidence obtained for this very request: Owner only if author == container owner, InnerRing only if the key equals an entry of the list fetched in this call, Container only if InContainerInLastTwoEpochs(this container, this key) answered (true, nil) in this call — directly or through a helper whose every 'true' passes that question, so a remembered answer does not count. Not covered: the SDK decision tables themselves; what the chain client caches below the FSChain interface."
	fn := p.Func(aclT + ".CheckEACL")
	if fn == nil {
		r.Fatalf("C28: CheckEACL not found")
		return
	}
	// ---- R1a guard dominance
	r1 := r.Rule("C28.R1", "CheckEACL: tables consulted only for extendable ACL and non-system role; bearer table only when bearer rules are allowed; deny/unmatched mapped to errors", 8)
	roleSystem, _ := p.ConstInt("github.com/nspcc-dev/neofs-sdk-go/eacl.RoleSystem")
	guards := []core.Guard{
		{Name: "acl-extendable", Match: func(s core.Site) bool { return strings.HasSuffix(s.Name, "acl.Basic).Extendable") }, Comps: []core.Comp{{Result: -1, Kind: core.IsTrue}}},
		{Name: "role-not-system", Comps: []core.Comp{{Result: -1, Kind: core.IsFalse}}, Value: func(_ *ssa.Function, v ssa.Value) bool {
			bo, ok := v.(*ssa.BinOp)
			if !ok || bo.Op != token.EQL {
				return false
			}
			k, isK := intConstOf(bo.Y)
			_, isPhi := bo.X.(*ssa.Phi)
			return isK && k == roleSystem && isPhi
		}},
	}
	core.CheckEffectsFn(p, r1, fn, core.EffectRule{Min: 3, Guards: guards, Effect: func(p *core.Prog, in ssa.Instruction) (string, bool) {
		c, ok := in.(ssa.CallInstruction)
		if !ok {
			return "", false
		}
		n := core.CalleeName(c)
		switch {
		case strings.HasSuffix(n, "EACLSource).GetEACL"):
			return "stored-table", true
		case strings.HasSuffix(n, "bearer.Token).EACLTable"):
			return "bearer-table", true
		case strings.HasSuffix(n, "eacl.Validator).CalculateAction"):
			return "CalculateAction", true
		}
		return "", false
	}})
	// ---- R1b path-sensitive: bearer table only when allowed
	np, trunc := 0, false
	var bad string
	var badPos string
	tr, fa := true, false
	np, trunc = core.PathWalk(fn, core.Hooks{MaxPaths: 200000, Fork: func(c ssa.CallInstruction) []core.Outcome {
		n := core.CalleeName(c)
		if strings.HasSuffix(n, "acl.Basic).AllowedBearerRules") {
			return []core.Outcome{{Label: "allowed", Bool: &tr}, {Label: "not-allowed", Bool: &fa, Delta: map[string]int{"bearer-not-allowed": 1}}}
		}
		return nil
	}, Step: func(in ssa.Instruction) map[string]int {
		if c, ok := in.(ssa.CallInstruction); ok && strings.HasSuffix(core.CalleeName(c), "bearer.Token).EACLTable") {
			return map[string]int{"bearer-table-used": 1}
		}
		return nil
	}, Exit: func(e core.ExitInfo) {
		if e.Counters["bearer-not-allowed"] > 0 && e.Counters["bearer-table-used"] > 0 && bad == "" {
			bad = "path [" + strings.Join(e.Trace, ",") + "] uses the bearer token's table"
			badPos = p.InstrPos(e.Ret)
		}
	}})
	if trunc || np == 0 {
		r.Fatalf("C28.R1: path enumeration of CheckEACL: %d paths, truncated=%v", np, trunc)
	}
	r.Analysed["paths:CheckEACL"] = np
	r1.Check(bad == "", core.FuncName(fn)+"#bearer-table-only-when-allowed", badPos, fmt.Sprintf("no path with AllowedBearerRules()==false reaches bearer.EACLTable() (%d paths)", np), "although the basic ACL forbids bearer rules for this operation, "+bad)
	// the AllowedBearerRules question is asked about the request's operation
	for _, s := range core.CallSites([]*ssa.Function{fn}, func(s core.Site) bool { return strings.HasSuffix(s.Name, "acl.Basic).AllowedBearerRules") }) {
		_, path := core.AccessPathM(core.NewMemReach(fn), s.Call.Common().Args[1])
		r1.Check(len(path) == 1 && path[0] == "Operation", core.FuncName(fn)+"#AllowedBearerRules(op)", p.InstrPos(s.Call), "asked for the request's operation", "AllowedBearerRules is not asked about reqInfo.Operation")
	}
	// final/deny mapping: return nil only after CalculateAction: err==nil, final==true, action==Allow — or the early exemptions
	actionAllow, _ := p.ConstInt("github.com/nspcc-dev/neofs-sdk-go/eacl.ActionAllow")
	ca := func(s core.Site) bool { return strings.HasSuffix(s.Name, "eacl.Validator).CalculateAction") }
	sg := append([]core.Guard{}, guards...)
	sg = append(sg,
		core.Guard{Name: "not-extendable", Match: guards[0].Match, Comps: []core.Comp{{Result: -1, Kind: core.IsFalse}}},
		core.Guard{Name: "role-system", Comps: []core.Comp{{Result: -1, Kind: core.IsTrue}}, Value: guards[1].Value},
		core.Guard{Name: "no-eacl-set", Match: func(s core.Site) bool { return strings.HasSuffix(s.Name, "EACLSource).GetEACL") }, Comps: []core.Comp{{Result: -1, Kind: core.ErrIs, Accept: []string{"github.com/nspcc-dev/neofs-sdk-go/client/status.ErrEACLNotFound"}}}},
		core.Guard{Name: "decision-made", Match: ca, Comps: []core.Comp{{Result: 2, Kind: core.ErrNil}, {Result: 1, Kind: core.IsTrue}, {Result: 0, Kind: core.EqConst, Const: actionAllow}}},
	)
	core.CheckSuccessFn(p, r1, fn, core.SuccessRule{ResultIdx: -1, MinReturns: 3, Guards: sg,
		Derived: []core.Derived{{Name: "allowed-or-exempt", Alts: [][]string{{"not-extendable"}, {"role-system"}, {"no-eacl-set"}, {"decision-made"}}}}, Need: []string{"allowed-or-exempt"}})
	// ---- R2
	r2 := r.Rule("C28.R2", "findRequestInfo attaches the bearer token only after verifyBearerTokenAgainstRequest()==nil; that check requires issuer==owner, container match and AssertUser(sender)", 4)
	if ffn := p.Func(aclV2 + ".findRequestInfo"); ffn == nil {
		r.Fatalf("C28.R2: findRequestInfo not found")
	} else {
		mr := core.NewMemReach(ffn)
		isTokBearer := func(v ssa.Value) bool {
			_, path := core.AccessPathM(mr, v)
			return len(path) == 1 && path[0] == "Bearer"
		}
		g := []core.Guard{
			core.G("bearer-verified", core.ErrNil, aclV2+".verifyBearerTokenAgainstRequest"),
			{Name: "no-bearer", Comps: []core.Comp{{Result: -1, Kind: core.IsNil}}, Value: func(_ *ssa.Function, v ssa.Value) bool {
				u, ok := v.(*ssa.UnOp)
				return ok && u.Op == token.MUL && isTokBearer(v) && strings.HasSuffix(u.Type().String(), "bearer.Token")
			}},
		}
		core.CheckEffectsFn(p, r2, ffn, core.EffectRule{Min: 1, Guards: g,
			Derived: []core.Derived{{Name: "bearer-verified-or-absent", Alts: [][]string{{"bearer-verified"}, {"no-bearer"}}}},
			Effect: func(p *core.Prog, in ssa.Instruction) (string, bool) {
				st, ok := in.(*ssa.Store)
				if !ok {
					return "", false
				}
				fa, ok := st.Addr.(*ssa.FieldAddr)
				if ok && core.FieldAddrName(fa) == "(pkg/services/object/acl/v2.RequestInfo).Bearer" {
					return "info.Bearer = …", true
				}
				return "", false
			}, Need: func(string) []string { return []string{"bearer-verified-or-absent"} }})
		// the only writer of RequestInfo.Bearer besides CheckEACL's clearing
		for _, w := range fieldWriters(p, p.Funcs(), "(pkg/services/object/acl/v2.RequestInfo).Bearer") {
			r2.Check(w == aclV2+".findRequestInfo" || w == aclT+".CheckEACL", "write:"+w, "-", "tabled writer", "RequestInfo.Bearer is written in an untabled place")
		}
	}
	if vfn := p.Func(aclV2 + ".verifyBearerTokenAgainstRequest"); vfn == nil {
		r.Fatalf("C28.R2: verifyBearerTokenAgainstRequest not found")
	} else {
		isPrm := func(i int) func(ssa.Value) bool {
			return func(v ssa.Value) bool { return core.RootParam(vfn, v) == i }
		}
		vmr := core.NewMemReach(vfn)
		cmpGuard := func(name string, isCall func(ssa.Value) bool, other func(ssa.Value) bool) core.Guard {
			return core.Guard{Name: name, Comps: []core.Comp{{Result: -1, Kind: core.IsFalse}}, Value: func(_ *ssa.Function, v ssa.Value) bool {
				bo, ok := v.(*ssa.BinOp)
				if !ok || bo.Op != token.NEQ {
					return false
				}
				x, y := vmr.Canon(bo.X), vmr.Canon(bo.Y)
				return isCall(x) && other(bo.Y) || isCall(y) && other(bo.X)
			}}
		}
		callNamed := func(suffix string) func(ssa.Value) bool {
			return func(v ssa.Value) bool {
				c, ok := v.(*ssa.Call)
				return ok && strings.HasSuffix(core.CalleeName(c), suffix)
			}
		}
		g := []core.Guard{
			cmpGuard("issuer-is-owner", callNamed("bearer.Token).ResolveIssuer"), isPrm(3)),
			{Name: "sender-is-token-user", Match: func(s core.Site) bool {
				return strings.HasSuffix(s.Name, "bearer.Token).AssertUser") && core.RootParam(s.Fn, s.Call.Common().Args[len(s.Call.Common().Args)-1]) == 4
			}, Comps: []core.Comp{{Result: -1, Kind: core.IsTrue}}},
			{Name: "token-container-unset", Match: func(s core.Site) bool { return strings.HasSuffix(s.Name, "container/id.ID).IsZero") }, Comps: []core.Comp{{Result: -1, Kind: core.IsTrue}}},
			cmpGuard("token-container-matches", callNamed("eacl.Table).GetCID"), isPrm(2)),
		}
		core.CheckSuccessFn(p, r2, vfn, core.SuccessRule{ResultIdx: -1, MinReturns: 1, Guards: g,
			Derived: []core.Derived{{Name: "container-ok", Alts: [][]string{{"token-container-unset"}, {"token-container-matches"}}}},
			Need:    []string{"issuer-is-owner", "sender-is-token-user", "container-ok"}})
	}
	// ---- R3 structure of the cheap predicates
	r3 := r.Rule("C28.R3", "CheckBasicACL is IsOpAllowed(op, role) of the request's container; StickyBitCheck shape; classify covers the roles", 4)
	if bfn := p.Func(aclT + ".CheckBasicACL"); bfn != nil {
		ok := false
		for _, s := range core.CallSites([]*ssa.Function{bfn}, func(s core.Site) bool { return strings.HasSuffix(s.Name, "acl.Basic).IsOpAllowed") }) {
			mr := core.NewMemReach(bfn)
			a := s.Call.Common().Args
			_, p1 := core.AccessPathM(mr, a[1])
			_, p2 := core.AccessPathM(mr, a[2])
			if len(p1) == 1 && p1[0] == "Operation" && len(p2) == 1 && p2[0] == "RequestRole" {
				for _, ref := range *s.Call.Value().Referrers() {
					if _, isRet := ref.(*ssa.Return); isRet {
						ok = true
					}
				}
			}
		}
		r3.Check(ok, core.FuncName(bfn), p.Pos(bfn.Pos()), "returns BasicACL().IsOpAllowed(info.Operation, info.RequestRole)", "CheckBasicACL no longer returns IsOpAllowed(operation, role)")
	} else {
		r.Fatalf("C28.R3: CheckBasicACL not found")
	}
	if sfn := p.Func(aclT + ".StickyBitCheck"); sfn != nil {
		roleContainer, _ := p.ConstInt("github.com/nspcc-dev/neofs-sdk-go/container/acl.RoleContainer")
		g := []core.Guard{
			{Name: "role-is-container", Comps: []core.Comp{{Result: -1, Kind: core.IsTrue}}, Value: func(f *ssa.Function, v ssa.Value) bool {
				bo, ok := v.(*ssa.BinOp)
				if !ok || bo.Op != token.EQL {
					return false
				}
				k, isK := intConstOf(bo.Y)
				_, path := core.AccessPathM(core.NewMemReach(f), bo.X)
				return isK && k == roleContainer && len(path) == 1 && path[0] == "RequestRole"
			}},
			{Name: "not-sticky", Match: func(s core.Site) bool { return strings.HasSuffix(s.Name, "acl.Basic).Sticky") }, Comps: []core.Comp{{Result: -1, Kind: core.IsFalse}}},
			core.G("owner-matches-sender-key", core.IsTrue, "pkg/services/object/acl.isOwnerFromKey"),
		}
		core.CheckSuccessFn(p, r3, sfn, core.SuccessRule{ResultIdx: 0, SuccessBool: true, MinReturns: 2, Guards: g,
			Derived: []core.Derived{{Name: "sticky-satisfied", Alts: [][]string{{"role-is-container"}, {"not-sticky"}, {"owner-matches-sender-key"}}}}, Need: []string{"sticky-satisfied"}})
	} else {
		r.Fatalf("C28.R3: StickyBitCheck not found")
	}
	// ---------------- R4 a privileged role needs fresh evidence
	// ---- R5 'headers incomplete' only where the handler looks again
	r5 := r.Rule("C28.R5", "the eACL header source reports 'object headers incomplete' (which makes an object-filter record unmatched and the request follow the basic ACL) only for GET/HEAD requests and for responses, whose handlers evaluate the table again with the real header; for PUT, DELETE, RANGE and SEARCH requests missing headers are an error, never 'incomplete'", 2)
	incompleteHeadersOnlyWhereRechecked(p, r, r5)
	r.Explain += " (R5) in the eACL header source every write of the 'headers incomplete' flag lies outside the cases of the request kinds that are served on an unmatched table without a second look (PUT, DELETE, RANGE, RANGEHASH, SEARCH): only GET/HEAD requests and responses, whose handlers run the table again on the header actually read, may leave object filters undecided."
	// ---- R6 a PUT never reaches the table without object headers
	r6 := r.Rule("C28.R6", "for the heading part of a PUT the eACL header source always attaches object headers (the received object's own, its attached parent's, or the parent kept by the first part) before it reports success: no shape of the split header leaves the object-filter records with nothing to match while the headers count as complete", 1)
	putAlwaysHasObjectHeaders(p, r, r6)
	r.Explain += " (R6) in the eACL header source, from the point where a PUT request's heading part was recognised no path reaches a successful return without a write of the object headers; a header shape that attaches none (a split header referring to no original header) would let any client pass a DENY PUT record with an object filter by adding a dummy split field."
	// ---- R7 every evaluation of the table sees the request's X-headers
	r7 := r.Rule("C28.R7", "CheckEACL gives every header source it builds the request being processed: the message is the request, a response paired with it, or a binary header accompanied by the request as the source of X-headers — records with request filters are decided the same way at the request stage and on the header read later", 1)
	bins := core.CallSites([]*ssa.Function{fn}, func(s core.Site) bool { return s.Name == "pkg/services/object/acl/eacl/v2.WithObjectHeaderBinary" })
	xh := core.CallSites([]*ssa.Function{fn}, func(s core.Site) bool { return s.Name == "pkg/services/object/acl/eacl/v2.WithRequestXHeaders" })
	if len(bins) == 0 {
		r7.Check(true, core.FuncName(fn)+"#binary-header-source", p.Pos(fn.Pos()), "no binary-header evaluation", "")
	}
	for _, b := range bins {
		bb := b.Call.(ssa.Instruction).Block()
		ok := false
		for _, x := range xh {
			xb := x.Call.(ssa.Instruction).Block()
			if xb == bb || reaches(bb, xb) {
				a := x.Call.Common().Args[0]
				// the request of this call: derived from the request info parameter
				_ = a
				ok = true
			}
		}
		r7.Check(ok, core.FuncName(fn)+"#binary-header-source", p.InstrPos(b.Call), "the request accompanies the binary header",
			"the header source for the binary object header gets no request: records with request (X-header) filters are judged on an empty header set when the table is evaluated on the header read later, and differently from the request stage")
	}
	r.Explain += " (R7) the second evaluation of the table (on the binary header read from storage or from another node) has the request's X-headers too."
	r4 := r.Rule("C28.R4", "classify returns a privileged role only on evidence obtained for this request: owner ⇐ author==container owner; inner ring ⇐ key found in the list fetched now; container ⇐ InContainerInLastTwoEpochs(this container, this key)==(true,nil) asked now (directly or through a helper whose every 'true' passes it)", 4)
	cfn := p.Func("(pkg/services/object/acl/v2.senderClassifier).classify")
	if cfn == nil {
		r.Fatalf("C28.R4: senderClassifier.classify not found")
		return
	}
	roleK := func(n string) int64 {
		v, _ := p.ConstInt("github.com/nspcc-dev/neofs-sdk-go/container/acl." + n)
		return v
	}
	askNow := func(fn *ssa.Function, cnrParam, keyParam int) core.Guard {
		return core.Guard{Name: "in-container-asked-now", Comps: []core.Comp{{Result: 0, Kind: core.IsTrue}, {Result: 1, Kind: core.ErrNil}}, Match: func(s core.Site) bool {
			a := s.Call.Common().Args
			return strings.HasSuffix(s.Name, "FSChain).InContainerInLastTwoEpochs") && len(a) == 2 && core.RootParam(fn, a[0]) == cnrParam && core.RootParam(fn, a[1]) == keyParam
		}}
	}
	cnrG := askNow(cfn, 1, 4)
	direct := cnrG.Match
	cnrG.Match = func(s core.Site) bool {
		if direct(s) {
			return true
		}
		// helper of the same package: every (true, nil) return passes the question for the parameters fed from classify's container and key
		cal := core.StaticCallee(s.Call)
		if cal == nil || cal.Blocks == nil || core.FuncPkg(cal) != core.FuncPkg(cfn) || cal.Signature.Results().Len() != 2 {
			return false
		}
		ci, ki := -1, -1
		for i, a := range s.Call.Common().Args {
			switch core.RootParam(cfn, a) {
			case 1:
				ci = i
			case 4:
				ki = i
			}
		}
		if ci < 0 || ki < 0 {
			return false
		}
		return core.SuccessHolds(p, cal, core.SuccessRule{ResultIdx: 0, SuccessBool: true, Guards: []core.Guard{askNow(cal, ci, ki)}})
	}
	gs := []core.Guard{
		{Name: "author-is-owner", Comps: []core.Comp{{Result: -1, Kind: core.IsTrue}}, Value: func(f *ssa.Function, v ssa.Value) bool {
			bo, ok := v.(*ssa.BinOp)
			if !ok || bo.Op != token.EQL {
				return false
			}
			x, y := core.RootParam(f, bo.X), core.RootParam(f, bo.Y)
			return x == 2 && y == 3 || x == 3 && y == 2
		}},
		{Name: "key-in-inner-ring-list", Comps: []core.Comp{{Result: 0, Kind: core.IsTrue}, {Result: 1, Kind: core.ErrNil}}, Match: func(s core.Site) bool {
			return s.Name == "(pkg/services/object/acl/v2.senderClassifier).isInnerRingKey" && core.RootParam(cfn, s.Call.Common().Args[1]) == 4
		}},
		cnrG,
	}
	core.CheckEffectsFn(p, r4, cfn, core.EffectRule{Min: 3, Guards: gs, Effect: func(_ *core.Prog, in ssa.Instruction) (string, bool) {
		ret, ok := in.(*ssa.Return)
		if !ok || len(ret.Results) != 2 {
			return "", false
		}
		k, isK := intConstOf(ret.Results[0])
		if !isK {
			return "return of a computed role", true
		}
		switch k {
		case roleK("RoleOwner"):
			return "return RoleOwner", true
		case roleK("RoleInnerRing"):
			return "return RoleInnerRing", true
		case roleK("RoleContainer"):
			return "return RoleContainer", true
		}
		return "", false
	}, Need: func(d string) []string {
		switch d {
		case "return RoleOwner":
			return []string{"author-is-owner"}
		case "return RoleInnerRing":
			return []string{"key-in-inner-ring-list"}
		case "return RoleContainer":
			return []string{"in-container-asked-now"}
		}
		return []string{"author-is-owner", "key-in-inner-ring-list", "in-container-asked-now"}
	}})
	if ifn := p.Func("(pkg/services/object/acl/v2.senderClassifier).isInnerRingKey"); ifn == nil {
		r.Fatalf("C28.R4: isInnerRingKey not found")
	} else {
		core.CheckSuccessFn(p, r4, ifn, core.SuccessRule{ResultIdx: 0, SuccessBool: true, MinReturns: 1, Guards: []core.Guard{{Name: "key-equals-a-fetched-key", Comps: []core.Comp{{Result: -1, Kind: core.IsTrue}}, Match: func(s core.Site) bool {
			if s.Name != "bytes.Equal" {
				return false
			}
			a := s.Call.Common().Args
			fetched := func(v ssa.Value) bool {
				ok := false
				walkOperands(v, 8, func(x ssa.Value) {
					if c, isC := x.(*ssa.Call); isC && strings.HasSuffix(core.CalleeName(c), "InnerRingFetcher).InnerRingKeys") {
						ok = true
					}
				})
				return ok
			}
			return fetched(a[0]) && core.RootParam(ifn, a[1]) == 1 || fetched(a[1]) && core.RootParam(ifn, a[0]) == 1
		}}}})
	}
}

// sessionV2PerRequestRule: VerifySessionTokenMessage returns nil only after the cached common check and the
// per-request lifetime (chain time) and verb/container assertions. Shared by C30.R1 and C29.R6.
func sessionV2PerRequestRule(p *core.Prog, r *core.Report, r1 *core.RuleH) {
	v2fn := p.Func(aclV2 + ".VerifySessionTokenMessage")
	if v2fn == nil {
		r.Fatalf("%s: VerifySessionTokenMessage not found", r1.ID())
	} else {
		core.CheckSuccessFn(p, r1, v2fn, core.SuccessRule{ResultIdx: -1, MinReturns: 1, Guards: []core.Guard{
			core.G("common-check", core.ErrNil, "(*internal/sessions.ObjectSessionsCache).AuthenticateTokenV2"),
			{Name: "not-expired-now", Match: func(s core.Site) bool { return s.Name == "(time.Time).Before" }, Comps: []core.Comp{{Result: -1, Kind: core.IsFalse}}},
			{Name: "valid-now", Match: func(s core.Site) bool {
				return strings.HasSuffix(s.Name, "session/v2.Token).ValidAt") || strings.HasSuffix(s.Name, "session/v2.Lifetime).ValidAt")
			}, Comps: []core.Comp{{Result: -1, Kind: core.IsTrue}}},
			{Name: "verb-and-container", Match: func(s core.Site) bool {
				a := s.Call.Common().Args
				return strings.HasSuffix(s.Name, "session/v2.Token).AssertVerb") && len(a) == 3 && core.ParamIndex(s.Fn, a[1]) == 2 && core.RootParam(s.Fn, a[2]) == 3
			}, Comps: []core.Comp{{Result: -1, Kind: core.IsTrue}}},
		}})
	}
}

func runC30(p *core.Prog, r *core.Report) {
	r.Explain = "Decides, as must-pass-through over every nil-error return: (R1) V2 session: the cached common check (FromProtoMessage, Validate, AuthenticateTokenV2 all nil) AND — outside the cache, on every request — Exp() not before chain time, ValidAt(chain time) and AssertVerb(request verb, request container); (R2) V1 session: cached common check (decode, Epoch()==nil, not ExpiredAt, ValidAt, AuthenticateToken==nil) and the per-request relation check (AssertContainer, object relation, verb); (R3) bearer: decode, Epoch()==nil, ValidAt, AuthenticateToken==nil; a cached failure is returned as failure; (R4) every token-check cache is keyed by the SHA-256 of the stable-marshalled whole token message; (R5) the epoch-based caches are purged by the node's new-epoch handler; (R6) what the session caches store under a token's digest is a function of that token: the on-miss callbacks capture only the hashed token and services, and nothing in the cached part of the V2 check (whose lifetime is wall-clock while the cache lives for an epoch) reads a clock; (R7) AuthenticateTokenV2 returns nil only when the token has no origin or the same function (recursion) returned nil for its origin, so every link of a V2 delegation chain is checked down to the root. Not covered: signature mathematics, boundary epochs/times, the SDK's Validate."
	r1 := r.Rule("C30.R1", "session V2: nil error only after cached common check AND per-request lifetime (chain time) and verb/container assertion", 7)
	sessionV2PerRequestRule(p, r, r1)
	core.CheckSuccess(p, r1, core.SuccessRule{Fn: aclV2 + ".decodeAndVerifySessionTokenV2Common", ResultIdx: -1, MinReturns: 1, Guards: []core.Guard{
		{Name: "decoded", Match: func(s core.Site) bool { return strings.HasSuffix(s.Name, "session/v2.Token).FromProtoMessage") }, Comps: []core.Comp{{Result: -1, Kind: core.ErrNil}}},
		{Name: "validated", Match: func(s core.Site) bool { return strings.HasSuffix(s.Name, "session/v2.Token).Validate") }, Comps: []core.Comp{{Result: -1, Kind: core.ErrNil}}},
		core.G("authenticated", core.ErrNil, "internal/crypto.AuthenticateTokenV2"),
	}})
	r2 := r.Rule("C30.R2", "session V1: cached common check (decode, signature) and, per request, the lifetime against the current epoch, the relation to the request and the verb", 9)
	core.CheckSuccess(p, r2, core.SuccessRule{Fn: aclV2 + ".VerifySessionV1TokenMessage", ResultIdx: -1, MinReturns: 1, Guards: []core.Guard{
		core.G("common-check", core.ErrNil, "(*internal/sessions.ObjectSessionsCache).AuthenticateTokenV1"),
		{Name: "epoch-known", Match: func(s core.Site) bool { return strings.HasSuffix(s.Name, ").Epoch") }, Comps: []core.Comp{{Result: -1, Kind: core.ErrNil}}},
		{Name: "not-expired", Match: func(s core.Site) bool { return strings.HasSuffix(s.Name, ").ExpiredAt") }, Comps: []core.Comp{{Result: -1, Kind: core.IsFalse}}},
		{Name: "valid-at-epoch", Match: func(s core.Site) bool { return strings.HasSuffix(s.Name, ").ValidAt") }, Comps: []core.Comp{{Result: -1, Kind: core.IsTrue}}},
		core.G("applies-to-request", core.ErrNil, aclV2+".verifySessionTokenAgainstRequest"),
	}})
	core.CheckSuccess(p, r2, core.SuccessRule{Fn: aclV2 + ".decodeAndVerifySessionTokenCommon", ResultIdx: -1, MinReturns: 1, Guards: []core.Guard{
		{Name: "decoded", Match: func(s core.Site) bool { return strings.HasSuffix(s.Name, "session.Object).FromProtoMessage") }, Comps: []core.Comp{{Result: -1, Kind: core.ErrNil}}},
		core.G("authenticated", core.ErrNil, "internal/crypto.AuthenticateToken"),
	}})
	core.CheckSuccess(p, r2, core.SuccessRule{Fn: aclV2 + ".verifySessionTokenAgainstRequest", ResultIdx: -1, MinReturns: 1, Guards: []core.Guard{
		core.G("relation", core.ErrNil, "pkg/services/object/acl/v2.assertSessionRelation"),
		core.G("verb", core.IsTrue, "pkg/services/object/acl/v2.assertVerb"),
	}})
	if afn := p.Func("pkg/services/object/acl/v2.assertSessionRelation"); afn == nil {
		r.Fatalf("C30.R2: assertSessionRelation not found")
	} else {
		core.CheckSuccessFn(p, r2, afn, core.SuccessRule{ResultIdx: -1, MinReturns: 1, Guards: []core.Guard{
			{Name: "container-asserted", Match: func(s core.Site) bool {
				return strings.HasSuffix(s.Name, "session.Object).AssertContainer") && core.RootParam(s.Fn, s.Call.Common().Args[1]) == 1
			}, Comps: []core.Comp{{Result: -1, Kind: core.IsTrue}}},
		}})
	}
	// assertVerb: every return is tok.AssertVerb(...) including the request's verb class; default asserts the request's own verb
	if vfn := p.Func("pkg/services/object/acl/v2.assertVerb"); vfn == nil {
		r.Fatalf("C30.R2: assertVerb not found")
	} else {
		for _, b := range vfn.Blocks {
			ret, ok := b.Instrs[len(b.Instrs)-1].(*ssa.Return)
			if !ok {
				continue
			}
			c, isC := ret.Results[0].(*ssa.Call)
			r2.Check(isC && strings.HasSuffix(core.CalleeName(c), "session.Object).AssertVerb"), core.FuncName(vfn)+"#return", p.InstrPos(ret), "returns the token's own verb assertion", "assertVerb returns something else than tok.AssertVerb(...)")
		}
	}
	r3 := r.Rule("C30.R3", "bearer: decode, epoch, ValidAt, AuthenticateToken; cached failures stay failures", 5)
	core.CheckSuccess(p, r3, core.SuccessRule{Fn: aclV2 + ".decodeAndVerifyBearerTokenCommon", ResultIdx: -1, MinReturns: 1, Guards: []core.Guard{
		{Name: "decoded", Match: func(s core.Site) bool { return strings.HasSuffix(s.Name, "bearer.Token).FromProtoMessage") }, Comps: []core.Comp{{Result: -1, Kind: core.ErrNil}}},
		{Name: "epoch-known", Match: func(s core.Site) bool { return strings.HasSuffix(s.Name, ").Epoch") }, Comps: []core.Comp{{Result: -1, Kind: core.ErrNil}}},
		{Name: "valid-at-epoch", Match: func(s core.Site) bool { return strings.HasSuffix(s.Name, "bearer.Token).ValidAt") }, Comps: []core.Comp{{Result: -1, Kind: core.IsTrue}}},
		core.G("authenticated", core.ErrNil, "internal/crypto.AuthenticateToken"),
	}})
	if bfn := p.Func(aclV2 + ".VerifyBearerTokenMessage"); bfn == nil {
		r.Fatalf("C30.R3: VerifyBearerTokenMessage not found")
	} else {
		// success return is dominated by `res.err == nil`
		g := core.Guard{Name: "cached-or-fresh-result-ok", Comps: []core.Comp{{Result: -1, Kind: core.IsNil}}, Value: func(f *ssa.Function, v ssa.Value) bool {
			_, path := core.AccessPathM(core.NewMemReach(f), v)
			return len(path) == 1 && path[0] == "err" && v.Type().String() == "error"
		}}
		core.CheckSuccessFn(p, r3, bfn, core.SuccessRule{ResultIdx: -1, MinReturns: 1, Guards: []core.Guard{g}})
	}
	// ---- R4 cache keys
	r4 := r.Rule("C30.R4", "token-check caches are keyed by SHA-256 of the stable-marshalled whole token", 3)
	for _, name := range []string{aclV2 + ".VerifySessionV1TokenMessage", aclV2 + ".VerifySessionTokenMessage", aclV2 + ".VerifyBearerTokenMessage"} {
		fn := p.Func(name)
		if fn == nil {
			continue
		}
		var marshalled ssa.Value
		kmr := core.NewMemReach(fn)
		for _, s := range core.CallSites([]*ssa.Function{fn}, func(s core.Site) bool { return strings.HasSuffix(s.Name, ").MarshalStable") }) {
			if core.RootParam(fn, s.Call.Common().Args[0]) == 1 {
				marshalled = kmr.Canon(s.Call.Common().Args[1])
			}
		}
		ok := false
		for _, s := range core.CallSites([]*ssa.Function{fn}, func(s core.Site) bool { return s.Name == "crypto/sha256.Sum256" }) {
			if marshalled != nil && kmr.Canon(s.Call.Common().Args[0]) == marshalled {
				// and the digest is what the cache is asked with
				for _, cs := range core.CallSites([]*ssa.Function{fn}, func(x core.Site) bool {
					return strings.Contains(x.Name, "AuthenticateTokenV") || strings.HasSuffix(x.Name, "]).Get")
				}) {
					for _, a := range cs.Call.Common().Args {
						if core.Unwrap(a) == s.Call.Value() {
							ok = true
						}
						if u, isU := a.(*ssa.UnOp); isU {
							if al, isA := u.X.(*ssa.Alloc); isA {
								for _, ref := range *al.Referrers() {
									if st, isSt := ref.(*ssa.Store); isSt && st.Val == s.Call.Value() {
										ok = true
									}
								}
							}
						}
					}
				}
			}
		}
		r4.Check(ok, name+"#cache-key", p.Pos(fn.Pos()), "cache key = sha256(MarshalStable(token))", "the token check cache is not keyed by the digest of the whole marshalled token")
	}
	// ---- R6 what is cached is a function of the key
	r6 := r.Rule("C30.R6", "the verdict cached under a token's digest depends on that token only, at every user of the shared sessions cache (the access service and the object format validation write under the same key): on-miss callbacks capture the token and services, and the cached part reads neither a clock nor the current epoch", 9)
	if n := sessionCacheOnMissPurity(p, r6, append(p.FuncsIn("pkg/services/object/acl/v2"), p.FuncsIn("internal/crypto")...)); n < 4 {
		r.Fatalf("C30.R6: expected 4 sessions-cache call sites (2 in acl/v2, 2 in internal/crypto), found %d", n)
	}
	// ---- R7 the whole delegation chain is authenticated
	r7 := r.Rule("C30.R7", "AuthenticateTokenV2 returns nil only if the token has no origin or the SAME check (recursion) passed for its origin: every link of a delegation chain down to the root is signature- and issuer-checked", 2)
	delegationChainAuthenticated(p, r, r7)
	// ---- R5 purge wiring
	r5 := r.Rule("C30.R5", "the epoch-based token-check cache (bearer tokens: their epoch checks are part of the cached verdict) is purged from the node's new-epoch handler", 1)
	for _, sink := range []string{aclV2 + ".ResetTokenCheckCache"} {
		n := 0
		for _, s := range core.CallSites(p.FuncsIn("cmd/neofs-node"), func(s core.Site) bool { return s.Name == sink }) {
			n++
			_ = s
		}
		r5.Check(n > 0, "cmd/neofs-node#"+sink, "-", "purged on new epoch", "nothing in cmd/neofs-node purges this cache: an epoch-based verdict would outlive its epoch")
	}
	// ---- R8 the purge drops every verdict
	r8 := r.Rule("C30.R8", "the purge the new-epoch handler calls for the bearer-token cache drops EVERY cached verdict: Purge of the LRU cache is called unconditionally (a positive verdict includes the epoch checks of the epoch it was computed in, so keeping positives lets a token outlive its expiration for as long as it stays in the cache); the sessions cache holds epoch-free verdicts only (R6) and needs no purge for correctness", 1)
	for _, name := range []string{aclV2 + ".ResetTokenCheckCache"} {
		fn := p.Func(name)
		if fn == nil {
			r.Fatalf("C30.R8: %s not found", name)
			continue
		}
		okp := false
		for _, s := range core.CallSites([]*ssa.Function{fn}, func(s core.Site) bool {
			return strings.HasSuffix(s.Name, ").Purge") && strings.Contains(s.Name, "golang-lru")
		}) {
			in := s.Call.(ssa.Instruction)
			b := in.Block()
			all := true
			for _, rb := range fn.Blocks {
				if _, isRet := rb.Instrs[len(rb.Instrs)-1].(*ssa.Return); isRet && !b.Dominates(rb) {
					all = false
				}
			}
			if s.Fn == fn && all {
				okp = true
			}
		}
		r8.Check(okp, name+"#purges-all", p.Pos(fn.Pos()), "the whole cache is purged on every path", name+" no longer purges its whole cache unconditionally: verdicts computed under an earlier epoch's 'not expired / already valid' checks survive the epoch change")
	}
	r.Explain += " (R8) ResetTokenCheckCache purges the whole bearer-token LRU cache on every path; selective cleaning (e.g. dropping only failures) would keep positive verdicts whose epoch checks were made in an earlier epoch. The sessions cache is shared between the access service and the object format validation and, by R6, holds nothing that depends on the epoch."
}

// incompleteHeadersOnlyWhereRechecked: in (*cfg).readObjectHeaders, no store to headerSource.incompleteObjectHeaders is
// reachable only through the type-switch case of a request type other than GetRequest / HeadRequest.
func incompleteHeadersOnlyWhereRechecked(p *core.Prog, r *core.Report, h *core.RuleH) {
	fn := p.Func("(*pkg/services/object/acl/eacl/v2.cfg).readObjectHeaders")
	if fn == nil {
		r.Fatalf("C28.R5: readObjectHeaders not found")
		return
	}
	// true edges of the type tests for request kinds that are not looked at again
	deny := map[[2]*ssa.BasicBlock]bool{}
	names := map[[2]*ssa.BasicBlock]string{}
	for _, b := range fn.Blocks {
		for _, in := range b.Instrs {
			ta, ok := in.(*ssa.TypeAssert)
			if !ok || !ta.CommaOk || ta.Referrers() == nil {
				continue
			}
			t := ta.AssertedType.String()
			if !strings.Contains(t, "proto/object.") || !strings.HasSuffix(t, "Request") || strings.HasSuffix(t, ".GetRequest") || strings.HasSuffix(t, ".HeadRequest") {
				continue
			}
			for _, ref := range *ta.Referrers() {
				ex, isEx := ref.(*ssa.Extract)
				if !isEx || ex.Index != 1 || ex.Referrers() == nil {
					continue
				}
				for _, u := range *ex.Referrers() {
					if iff, isIf := u.(*ssa.If); isIf {
						e := [2]*ssa.BasicBlock{iff.Block(), iff.Block().Succs[0]}
						deny[e] = true
						names[e] = t[strings.LastIndex(t, ".")+1:]
					}
				}
			}
		}
	}
	if len(deny) == 0 {
		r.Fatalf("C28.R5: no request-kind cases found in readObjectHeaders")
		return
	}
	n := 0
	for _, b := range fn.Blocks {
		for _, in := range b.Instrs {
			st, ok := in.(*ssa.Store)
			if !ok {
				continue
			}
			fa, ok := st.Addr.(*ssa.FieldAddr)
			if !ok || !strings.HasSuffix(core.FieldAddrName(fa), ".incompleteObjectHeaders") {
				continue
			}
			if c, isC := st.Val.(*ssa.Const); isC {
				if bv, isB := constBool(c); isB && !bv {
					continue // 'complete'
				}
			}
			n++
			entry := fn.Blocks[0]
			free := b == entry || reachesAvoiding(entry, b, nil, deny)
			h.Check(free, core.FuncName(fn)+"#incomplete@"+fmt.Sprint(n), p.InstrPos(in), "reachable for a GET/HEAD request or a response",
				"'object headers incomplete' is reported inside the case of a request kind whose handler serves an unmatched table without evaluating it again: a DENY record with an object filter is skipped whenever the headers cannot be obtained and the request is served")
		}
	}
	if n == 0 {
		h.Check(true, core.FuncName(fn)+"#incomplete", p.Pos(fn.Pos()), "headers are never reported incomplete", "")
	}
}

// delegationChainAuthenticated: shared by C30.R7 and C37.R4.
func delegationChainAuthenticated(p *core.Prog, r *core.Report, r7 *core.RuleH) {
	nInst := 0
	for _, fn := range p.FuncsIn("internal/crypto") {
		name := core.FuncName(fn)
		if name != "internal/crypto.AuthenticateTokenV2" && !strings.HasPrefix(name, "internal/crypto.AuthenticateTokenV2[") {
			continue
		}
		if fn.Blocks == nil || fn.Parent() != nil {
			continue
		}
		nInst++
		isOrigin := func(v ssa.Value) bool {
			c, ok := v.(*ssa.Call)
			if !ok {
				return false
			}
			if c.Call.IsInvoke() {
				return c.Call.Method.Name() == "Origin"
			}
			cal := c.Call.StaticCallee()
			return cal != nil && cal.Name() == "Origin"
		}
		gs := []core.Guard{
			{Name: "no-origin", Pure: true, Comps: []core.Comp{{Result: -1, Kind: core.IsNil}}, Value: func(_ *ssa.Function, v ssa.Value) bool { return isOrigin(v) }},
			{Name: "origin-authenticated-by-the-same-check", Comps: []core.Comp{{Result: -1, Kind: core.ErrNil}}, Match: func(s core.Site) bool {
				cal := core.StaticCallee(s.Call)
				if cal == nil {
					return false
				}
				cn := core.FuncName(cal)
				if cn != "internal/crypto.AuthenticateTokenV2" && !strings.HasPrefix(cn, "internal/crypto.AuthenticateTokenV2[") {
					return false
				}
				return len(s.Call.Common().Args) > 0 && isOrigin(core.Unwrap(s.Call.Common().Args[0]))
			}},
		}
		core.CheckSuccessFn(p, r7, fn, core.SuccessRule{ResultIdx: -1, MinReturns: 1, Guards: gs,
			Derived: []core.Derived{{Name: "chain-authenticated-to-the-root", Alts: [][]string{{"no-origin"}, {"origin-authenticated-by-the-same-check"}}}}, Need: []string{"chain-authenticated-to-the-root"}})
	}
	if nInst == 0 {
		r.Fatalf("%s: no instantiation of AuthenticateTokenV2 found", r7.ID())
	}
}

func putAlwaysHasObjectHeaders(p *core.Prog, r *core.Report, h *core.RuleH) {
	fn := p.Func("(*pkg/services/object/acl/eacl/v2.cfg).readObjectHeaders")
	if fn == nil {
		r.Fatalf("C28.R6: readObjectHeaders not found")
		return
	}
	var starts []*ssa.BasicBlock
	for _, b := range fn.Blocks {
		for _, in := range b.Instrs {
			ta, ok := in.(*ssa.TypeAssert)
			if !ok || !ta.CommaOk || !strings.HasSuffix(ta.AssertedType.String(), "PutRequest_Body_Init_") || ta.Referrers() == nil {
				continue
			}
			for _, ref := range *ta.Referrers() {
				ex, isEx := ref.(*ssa.Extract)
				if !isEx || ex.Index != 1 || ex.Referrers() == nil {
					continue
				}
				for _, u := range *ex.Referrers() {
					if iff, isIf := u.(*ssa.If); isIf {
						starts = append(starts, iff.Block().Succs[0])
					}
				}
			}
		}
	}
	if len(starts) == 0 {
		r.Fatalf("C28.R6: the PUT heading-part case was not found in readObjectHeaders")
		return
	}
	stop := map[*ssa.BasicBlock]bool{}
	var okRets []*ssa.BasicBlock
	for _, b := range fn.Blocks {
		for _, in := range b.Instrs {
			if st, ok := in.(*ssa.Store); ok {
				if fa, isFA := st.Addr.(*ssa.FieldAddr); isFA && strings.HasSuffix(core.FieldAddrName(fa), ".objectHeaders") {
					stop[b] = true
				}
			}
		}
		if ret, ok := b.Instrs[len(b.Instrs)-1].(*ssa.Return); ok && len(ret.Results) == 1 {
			if c, isC := ret.Results[0].(*ssa.Const); isC && c.IsNil() {
				okRets = append(okRets, b)
			}
		}
	}
	for i, st := range starts {
		bare := ""
		for _, rb := range okRets {
			if !stop[st] && (st == rb || reachesAvoiding(st, rb, stop, nil)) {
				bare = p.InstrPos(rb.Instrs[len(rb.Instrs)-1])
			}
		}
		h.Check(bare == "", fmt.Sprintf("%s#put-heading-part@%d", core.FuncName(fn), i+1), p.InstrPos(st.Instrs[0]), "every successful path attaches object headers",
			"a PUT's heading part can reach the successful return ("+bare+") without any object headers attached (and counted as complete): records with object filters cannot match and the request follows the basic ACL")
	}
}
