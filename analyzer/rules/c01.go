package rules

import (
	"fmt"
	"go/token"
	"go/types"
	"sort"
	"strings"

	"golang.org/x/tools/go/ssa"

	"verif/analyzer/core"
)

// C01 — object visibility follows tombstone, garbage, expiry and lock rules in all views.
// C06 — cursor listing yields each available physical object exactly once (status clause).
func init() {
	pk := []string{"./pkg/local_object_storage/metabase", "./pkg/core/object"}
	register(&Check{ID: "C01", Level: "other", Pkgs: pk, Run: runC01})
	register(&Check{ID: "C06", Level: "other", Pkgs: append([]string{"./pkg/local_object_storage/engine"}, pk...), Run: runC06})
}

const mbDB = "(*pkg/local_object_storage/metabase.DB)."

// statusGuards builds the guards "the status of <subject> is none of the three removed
// states" from a call of objectStatus / inGarbage (callee) in the analysed function.
func statusGuards(p *core.Prog, callee string, where func(core.Site) bool) ([]core.Guard, []string, bool) {
	var gs []core.Guard
	var names []string
	for _, k := range []string{"statusGCMarked", "statusTombstoned", "statusExpired"} {
		c, ok := p.ConstInt(mb + k)
		if !ok {
			return nil, nil, false
		}
		g := core.Guard{Name: "status!=" + strings.TrimPrefix(k, "status"), Match: func(s core.Site) bool { return s.Name == callee && (where == nil || where(s)) },
			Comps: []core.Comp{{Result: -1, Kind: core.NeConst, Const: c}}}
		gs = append(gs, g)
		names = append(names, g.Name)
	}
	return gs, names, true
}

func cnrNotGC() core.Guard {
	return core.G("container-not-removed", core.IsFalse, mb+"containerMarkedGC")
}

// storeToFreeVar reports a store through the closure's captured variable name.
func storeToFreeVar(in ssa.Instruction, name string) bool {
	st, ok := in.(*ssa.Store)
	if !ok {
		return false
	}
	fv, ok := st.Addr.(*ssa.FreeVar)
	return ok && fv.Name() == name
}

// makesClosure reports the MakeClosure instruction creating fn.
func makesClosure(in ssa.Instruction, fn *ssa.Function) bool {
	mc, ok := in.(*ssa.MakeClosure)
	return ok && mc.Fn == fn
}

// errorClassesIn lists the removal-status error classes constructed or loaded in block b.
func errorClassesIn(b *ssa.BasicBlock) []string {
	set := map[string]bool{}
	note := func(s string) {
		switch {
		case strings.HasSuffix(s, "ObjectNotFound"):
			set["not-found"] = true
		case strings.HasSuffix(s, "ObjectAlreadyRemoved"):
			set["already-removed"] = true
		case strings.HasSuffix(s, "ObjectIsExpired"):
			set["expired"] = true
		}
	}
	for _, in := range b.Instrs {
		switch x := in.(type) {
		case *ssa.MakeInterface:
			if n, ok := types.Unalias(x.X.Type()).(*types.Named); ok {
				note(n.Obj().Name())
			}
		case *ssa.UnOp:
			if g, ok := x.X.(*ssa.Global); ok && x.Op == token.MUL {
				note(g.Name())
			}
		}
	}
	var out []string
	for k := range set {
		out = append(out, k)
	}
	sort.Strings(out)
	return out
}

// statusSwitchMapping checks, in fn, that each `objectStatus(...) == K` true branch
// builds exactly the error class the reference mapping gives.
func statusSwitchMapping(p *core.Prog, h *core.RuleH, fn *ssa.Function) {
	want := map[string]string{"statusGCMarked": "not-found", "statusTombstoned": "already-removed", "statusExpired": "expired"}
	seen := map[string]bool{}
	for _, b := range fn.Blocks {
		ifi, ok := b.Instrs[len(b.Instrs)-1].(*ssa.If)
		if !ok {
			continue
		}
		bo, ok := ifi.Cond.(*ssa.BinOp)
		if !ok || bo.Op != token.EQL {
			continue
		}
		c, isCall := bo.X.(*ssa.Call)
		k, isK := intConstOf(bo.Y)
		if !isCall || !isK || core.CalleeName(c) != mb+"objectStatus" {
			continue
		}
		for name, cls := range want {
			kv, _ := p.ConstInt(mb + name)
			if kv != k {
				continue
			}
			seen[name] = true
			got := errorClassesIn(b.Succs[0])
			_, endsInRet := b.Succs[0].Instrs[len(b.Succs[0].Instrs)-1].(*ssa.Return)
			h.Check(endsInRet && len(got) == 1 && got[0] == cls, core.FuncName(fn)+"#case "+name, p.InstrPos(ifi),
				"the case returns the "+cls+" error class", "the case for "+name+" does not return exactly the "+cls+" error class (found "+strings.Join(got, ",")+")")
		}
	}
	for name := range want {
		if !seen[name] {
			h.Bad(core.FuncName(fn)+"#case "+name, p.Pos(fn.Pos()), "no `objectStatus(...) == "+name+"` case found: this removed state is not mapped to its error")
		}
	}
}

func runC01(p *core.Prog, r *core.Report) {
	r.Explain = "Decides that every metabase view consults the shared status machinery before it yields an object, on all CFG paths: exists, get (unless its caller asked to skip the status, callers tabled), filtered and unfiltered search, listing, expired iteration, EC part resolution and IsLocked pass containerMarkedGC==false and the object-status test with the 'available' outcome; the search handler records an object only after the additional (status) checker accepted it; the three removed states map to the same error classes in every view; the two expiry predicates are strict and oriented the same way; the nested status takes the worse of own and parent status; inGarbage reports tombstoned/GC-marked only on the matching lookups. Every function opening a read transaction is classified (a new view fails the check until classified). (R6) A removal mark is never weakened: a garbage key is written with a possibly non-empty value (the redundant-copy mark, which reads as 'available') only on paths where the key was looked up and found absent; an existing key is only overwritten with the empty, full mark. (R7) deleteMetadata removes a garbage mark only together with the entry it marks (no entry, a parent removed with its last part, or a stored object): a non-stored parent named on its own keeps its mark. Not covered: that the status function implements the reference rules on every history (parent inheritance across collisions, interplay of marks) — that is behavioural."
	// ---------------- R0 classification of read transactions
	r0 := r.Rule("C01.R0", "every metabase function that opens a bbolt read transaction is classified as an object view (ruled below) or as not yielding objects by status (with reason)", 15)
	views := map[string]string{
		mbDB + "Exists": "view: R1 exists", mbDB + "Get": "view: R1 get", mbDB + "search": "view: R1 searchTx", mbDB + "searchUnfiltered": "view: R1",
		mbDB + "ListWithCursor": "view: R1 selectNFromBucket", mbDB + "IterateExpired": "view: R1 iterateExpired", mbDB + "ResolveECPart": "view: R1 resolveECPartInMetaBucket",
		mbDB + "ResolveECPartWithPayloadLen": "view: R1 resolveECPartInMetaBucket", mbDB + "IsLocked": "view: R1 IsLocked",
		mbDB + "Containers": "container list, no objects", mbDB + "GetContainerInfo": "container counters", mbDB + "ObjectCounters": "counters",
		mbDB + "IterateOverGarbage": "lists garbage marks for GC (the complement of a view)", mbDB + "GetGarbage": "lists garbage for GC",
		mbDB + "ReadLastResyncEpoch": "bookkeeping value", mbDB + "ReadShardID": "bookkeeping value", mbDB + "ObjectStatus": "operator diagnostics: reports raw marks on purpose",
		mbDB + "CollectRawWithAttribute": "documented raw collection (children of a parent for removal), no status by contract",
		mbDB + "checkVersion":            "version bookkeeping", mbDB + "Init": "version bookkeeping", mbDB + "init": "version bookkeeping",
	}
	for _, s := range core.CallSites(p.FuncsIn("pkg/local_object_storage/metabase"), func(s core.Site) bool { return s.Name == "(*github.com/nspcc-dev/bbolt.DB).View" }) {
		o := core.FuncName(core.Outer(s.Fn))
		why, ok := views[o]
		r0.Check(ok, o+"#View", p.InstrPos(s.Call), "classified: "+why, "function "+o+" opens a read transaction but is not classified in the C01 view table: decide whether it yields objects and must consult the status machinery")
	}

	// ---------------- R1 views
	r1 := r.Rule("C01.R1", "each view yields an object only after containerMarkedGC==false and the status test with the available outcome", 20)
	get := func(name string) *ssa.Function {
		f := p.Func(name)
		if f == nil {
			r.Fatalf("C01: anchor %s not found", name)
		}
		return f
	}
	sg, sn, ok := statusGuards(p, mb+"objectStatus", nil)
	if !ok {
		r.Fatalf("C01: status constants not resolved")
		return
	}
	stAvail, _ := p.ConstInt(mb + "statusAvailable")
	// exists
	if f := get(mbDB + "exists"); f != nil {
		own := func(s core.Site) bool { // status asked about the function's own address and epoch
			a := s.Call.Common().Args
			c, isC := a[1].(*ssa.Call)
			return isC && strings.HasSuffix(core.CalleeName(c), "object/id.Address).Object") && core.RootParam(f, c.Call.Args[0]) == 2 && core.RootParam(f, a[2]) == 3
		}
		g, n, _ := statusGuards(p, mb+"objectStatus", own)
		core.CheckSuccessFn(p, r1, f, core.SuccessRule{ResultIdx: 0, SuccessBool: true, Guards: append(g, cnrNotGC()), Need: append(n, "container-not-removed"), MinReturns: 1})
	}
	// get
	if f := get(mb + "get"); f != nil {
		skip := core.Guard{Name: "caller-skips-status", Comps: []core.Comp{{Result: -1, Kind: core.IsFalse}}, Pure: true, Value: func(fn *ssa.Function, v ssa.Value) bool { return core.ParamIndex(fn, v) == 2 }}
		core.CheckSuccessFn(p, r1, f, core.SuccessRule{ResultIdx: -1, Guards: append(append([]core.Guard{}, sg...), skip), MinReturns: 1,
			Derived: []core.Derived{{Name: "status-available-or-skipped-by-caller", Alts: [][]string{sn, {"caller-skips-status"}}}}, Need: []string{"status-available-or-skipped-by-caller"}})
		// callers of get
		allowed := map[string]string{mb + "handleObjectWithAssociation": "reads the header of a tombstone's/lock's target, whatever its status, to update counters", mb + "markGarbageInContainer": "reads the payload size of the object being marked"}
		n := 0
		for _, s := range core.CallSites(p.FuncsIn("pkg/local_object_storage/metabase"), func(s core.Site) bool { return s.Name == mb+"get" }) {
			n++
			o := core.FuncName(core.Outer(s.Fn))
			b, isC := s.Call.Common().Args[2].(*ssa.Const)
			switch {
			case isC && constTrue(b):
				r1.OK(o+"#get!checkStatus", p.InstrPos(s.Call), "status check requested")
			case allowed[o] != "":
				r1.OK(o+"#get!checkStatus", p.InstrPos(s.Call), "tabled internal caller: "+allowed[o])
			default:
				r1.Bad(o+"#get!checkStatus", p.InstrPos(s.Call), "get is called without the status check from a function that is not in the table of internal callers")
			}
		}
		if n < 3 {
			r.Fatalf("C01.R1: %d callers of get found, expected 3", n)
		}
	}
	if f := get(mbDB + "Get$1"); f != nil {
		core.CheckEffectsFn(p, r1, f, core.EffectRule{Min: 1, Guards: []core.Guard{cnrNotGC()}, Effect: core.CallTo(mb + "get")})
	}
	searchStatusRule(p, r, r1)
	// listing
	runListingRule(p, r, r1)
	// expired iteration (lock clause is C07.R2)
	if f := get(mbDB + "iterateExpired$1"); f != nil {
		core.CheckEffectsFn(p, r1, f, core.EffectRule{Min: 1, Guards: []core.Guard{cnrNotGC()}, Effect: func(_ *core.Prog, in ssa.Instruction) (string, bool) {
			c, ok := in.(ssa.CallInstruction)
			if ok && core.CalleeName(c) == "dynamic" && strings.HasSuffix(c.Common().Value.Type().String(), "ExpiredObjectHandler") {
				return "expired-handler", true
			}
			return "", false
		}})
	}
	// EC part resolution
	if f := get(mbDB + "resolveECPartInMetaBucket"); f != nil {
		own := func(s core.Site) bool { return core.RootParam(f, s.Call.Common().Args[1]) == 2 }
		g, n, _ := statusGuards(p, mb+"objectStatus", own)
		core.CheckSuccessFn(p, r1, f, core.SuccessRule{ResultIdx: -1, Guards: append(g, cnrNotGC()), Need: append(n, "container-not-removed"), MinReturns: 2})
	}
	// IsLocked
	if f := get(mbDB + "IsLocked$1"); f != nil {
		core.CheckEffectsFn(p, r1, f, core.EffectRule{Min: 1, Guards: []core.Guard{cnrNotGC()}, Effect: core.CallTo(mb + "objectLocked")})
	}

	// ---------------- R2 expiry predicates agree
	r2 := r.Rule("C01.R2", "both expiry predicates are strict and oriented alike: expired iff currentEpoch > expirationEpoch", 2)
	if f := get(mb + "isExpired"); f != nil {
		n := 0
		for _, b := range f.Blocks {
			for _, in := range b.Instrs {
				bo, ok := in.(*ssa.BinOp)
				if !ok || !(bo.Op == token.GTR || bo.Op == token.GEQ || bo.Op == token.LSS || bo.Op == token.LEQ) {
					continue
				}
				xp, yp := core.ParamIndex(f, bo.X) == 2, core.ParamIndex(f, bo.Y) == 2
				if !xp && !yp {
					continue
				}
				n++
				r2.Check(xp && bo.Op == token.GTR || yp && bo.Op == token.LSS, core.FuncName(f)+"#epoch-comparison", p.InstrPos(in), "currEpoch > expiration (strict)", "isExpired does not compare `currEpoch > expiration` strictly: the object would expire one epoch early/late")
			}
		}
		if n == 0 {
			r2.Bad(core.FuncName(f)+"#epoch-comparison", p.Pos(f.Pos()), "no comparison with currEpoch found in isExpired")
		}
	}
	if f := get(mbDB + "iterateExpired$1"); f != nil {
		isCur := func(v ssa.Value) bool {
			if fv, ok := v.(*ssa.FreeVar); ok {
				return fv.Name() == "curEpoch"
			}
			u, ok := v.(*ssa.UnOp)
			if !ok {
				return false
			}
			fv, ok := u.X.(*ssa.FreeVar)
			return ok && fv.Name() == "curEpoch"
		}
		n := 0
		for _, b := range f.Blocks {
			for _, in := range b.Instrs {
				bo, ok := in.(*ssa.BinOp)
				if !ok || !(bo.Op == token.GTR || bo.Op == token.GEQ || bo.Op == token.LSS || bo.Op == token.LEQ) {
					continue
				}
				xc, yc := isCur(bo.X), isCur(bo.Y)
				if !xc && !yc {
					continue
				}
				n++
				r2.Check(yc && bo.Op == token.LSS || xc && bo.Op == token.GTR, core.FuncName(f)+"#epoch-comparison", p.InstrPos(in), "expiration < currentEpoch (strict)", "iterateExpired does not compare `expiration < currentEpoch` strictly: it disagrees with isExpired")
			}
		}
		if n == 0 {
			r2.Bad(core.FuncName(f)+"#epoch-comparison", p.Pos(f.Pos()), "no comparison with curEpoch found in iterateExpired")
		}
	}

	// ---------------- R3 status → error mapping
	r3 := r.Rule("C01.R3", "GC-marked → not found, tombstoned → already removed, expired → expired, identically in exists, get and EC part resolution", 9)
	for _, n := range []string{mbDB + "exists", mb + "get", mbDB + "resolveECPartInMetaBucket"} {
		if f := get(n); f != nil {
			statusSwitchMapping(p, r3, f)
		}
	}

	// ---------------- R4 status machinery shape
	r4 := r.Rule("C01.R4", "objectStatusNested returns the worse (max) of own and parent status; inGarbage reports tombstoned only on a TOMBSTONE association and GC-marked only on a non-redundant garbage key; the locked override returns available", 7)
	if f := get(mb + "objectStatusNested"); f != nil {
		okMax := false
		for _, s := range core.CallSites([]*ssa.Function{f}, func(s core.Site) bool { return s.Name == "builtin.max" }) {
			a := s.Call.Common().Args
			isRec := func(v ssa.Value) bool {
				c, ok := v.(*ssa.Call)
				return ok && core.CalleeName(c) == mb+"objectStatusNested"
			}
			isDir := func(v ssa.Value) bool {
				c, ok := v.(*ssa.Call)
				return ok && core.CalleeName(c) == mb+"objectStatusDirect"
			}
			if len(a) == 2 && (isRec(a[0]) && isDir(a[1]) || isRec(a[1]) && isDir(a[0])) {
				// and it is what is returned
				for _, b := range f.Blocks {
					if ret, ok := b.Instrs[len(b.Instrs)-1].(*ssa.Return); ok && flowsTo(s.Call.Value(), ret.Results[0], 4) {
						okMax = true
					}
				}
			}
		}
		r4.Check(okMax, core.FuncName(f)+"#max(parent,own)", p.Pos(f.Pos()), "returns max(parent status, own status)", "objectStatusNested does not return max(parentStatus, ownStatus): a child would not inherit a worse status from its parent")
		// every return is the direct status or that max
		for _, b := range f.Blocks {
			if ret, ok := b.Instrs[len(b.Instrs)-1].(*ssa.Return); ok {
				good := true
				var visit func(v ssa.Value, d int)
				visit = func(v ssa.Value, d int) {
					switch x := v.(type) {
					case *ssa.Phi:
						if d < 4 {
							for _, e := range x.Edges {
								visit(e, d+1)
							}
						}
					case *ssa.Call:
						n := core.CalleeName(x)
						if n != mb+"objectStatusDirect" && n != "builtin.max" {
							good = false
						}
					default:
						good = false
					}
				}
				visit(ret.Results[0], 0)
				r4.Check(good, core.FuncName(f)+"#return-value", p.InstrPos(ret), "the result is the direct status or the max with the parent's", "objectStatusNested returns something other than the direct status / max(parent, own)")
			}
		}
		// parent's status is taken at the same epoch
		for _, s := range core.CallSites([]*ssa.Function{f}, func(s core.Site) bool { return s.Name == mb+"objectStatusNested" }) {
			r4.Check(core.ParamIndex(f, s.Call.Common().Args[2]) == 2, core.FuncName(f)+"#parent-epoch", p.InstrPos(s.Call), "parent judged at the same epoch", "the parent's status is not computed at the caller's epoch")
		}
	}
	if f := get(mb + "inGarbage"); f != nil {
		tTomb, _ := p.ConstInt("github.com/nspcc-dev/neofs-sdk-go/object.TypeTombstone")
		stT, _ := p.ConstInt(mb + "statusTombstoned")
		stG, _ := p.ConstInt(mb + "statusGCMarked")
		isGlobal := func(v ssa.Value, name string) bool {
			u, ok := v.(*ssa.UnOp)
			if !ok {
				return false
			}
			g, ok := u.X.(*ssa.Global)
			return ok && g.Name() == name
		}
		gs := []core.Guard{
			{Name: "tombstone-associated", Match: func(s core.Site) bool {
				if s.Name != mb+"associatedWithTypedObject" {
					return false
				}
				a := s.Call.Common().Args
				if len(a) != 4 {
					return false
				}
				t, isT := intConstOf(a[3])
				return isT && t == tTomb && core.ParamIndex(f, a[2]) == 1
			}, Comps: []core.Comp{{Result: 0, Kind: core.IsTrue}}},
			{Name: "garbage-key-present", Match: func(s core.Site) bool {
				if s.Name != "bytes.Equal" {
					return false
				}
				for _, a := range s.Call.Common().Args {
					if c, ok := a.(*ssa.Call); ok && core.CalleeName(c) == mb+"mkGarbageKey" {
						return true
					}
				}
				return false
			}, Comps: []core.Comp{{Result: -1, Kind: core.IsTrue}}},
			{Name: "mark-not-redundant", Match: func(s core.Site) bool {
				if s.Name != "bytes.Equal" {
					return false
				}
				for _, a := range s.Call.Common().Args {
					if isGlobal(a, "redundantGarbageMark") {
						return true
					}
				}
				return false
			}, Comps: []core.Comp{{Result: -1, Kind: core.IsFalse}}},
		}
		core.CheckEffectsFn(p, r4, f, core.EffectRule{Min: 3, Guards: gs, Effect: func(_ *core.Prog, in ssa.Instruction) (string, bool) {
			ret, ok := in.(*ssa.Return)
			if !ok {
				return "", false
			}
			k, isK := intConstOf(ret.Results[0])
			switch {
			case isK && k == stT:
				return "return-tombstoned", true
			case isK && k == stG:
				return "return-gc-marked", true
			case isK && k == stAvail:
				return "return-available", true
			}
			return "return-other", true
		}, Need: func(d string) []string {
			switch d {
			case "return-tombstoned":
				return []string{"tombstone-associated"}
			case "return-gc-marked":
				return []string{"garbage-key-present", "mark-not-redundant"}
			case "return-available":
				return nil
			}
			return []string{"tombstone-associated", "garbage-key-present"}
		}})
		// tombstone lookup happens first: the GC-marked return is reached only where the tombstone lookup said false
		core.CheckEffectsFn(p, r4, f, core.EffectRule{Min: 1, Guards: []core.Guard{{Name: "not-tombstoned", Match: gs[0].Match, Comps: []core.Comp{{Result: 0, Kind: core.IsFalse}}}},
			Effect: func(_ *core.Prog, in ssa.Instruction) (string, bool) {
				ret, ok := in.(*ssa.Return)
				if !ok {
					return "", false
				}
				k, isK := intConstOf(ret.Results[0])
				return "return-gc-marked-or-available", isK && k != stT
			}})
	}
	if f := get(mb + "objectStatusDirect"); f != nil {
		core.CheckEffectsFn(p, r4, f, core.EffectRule{Min: 1, Guards: []core.Guard{core.G("locked", core.IsTrue, mb+"objectLocked")}, Effect: func(_ *core.Prog, in ssa.Instruction) (string, bool) {
			ret, ok := in.(*ssa.Return)
			if !ok {
				return "", false
			}
			k, isK := intConstOf(ret.Results[0])
			return "return-const-available", isK && k == stAvail
		}})
	}
	r5 := r.Rule("C01.R5", "the lock override looks at every lock: the lookup ends only at a LIVE lock of the object (an expired lock does not end the search) and a removed lock does not count", 4)
	tLock, _ := p.ConstInt("github.com/nspcc-dev/neofs-sdk-go/object.TypeLock")
	lockLookupRule(p, r, r5, tLock, stAvail)
	// ---------------- R6 a removal mark is never weakened
	r6 := r.Rule("C01.R6", "a garbage key is written with a non-empty (redundant-copy) value only where the key was looked up and found absent; an existing mark is only ever overwritten with the empty (full) mark", 3)
	garbageMarkNotWeakened(p, r, r6)
	// ---------------- R7 a mark goes only together with what it marks
	r7 := r.Rule("C01.R7", "deleteMetadata removes a garbage mark only when the marked entry goes with it (or there is no entry): never the mark of a parent that still exists through its parts", 1)
	markGoesWithEntry(p, r, r7)
	r.Analysed["views_classified"] = len(views)
}

// markGoesWithEntry: shared by C01.R7 and C09.R6. In deleteMetadata the removal of the garbage key is reached only on paths
// where (a) no index entry exists for the id, or (b) the entry is removed as a parent together with its last part, or (c) the
// entry is a stored object (it has just been removed). A non-stored parent named on its own keeps its mark — otherwise it
// turns from 'not found' back to 'available' while its parts are still there.
func markGoesWithEntry(p *core.Prog, r *core.Report, h *core.RuleH) {
	del := p.Func(mb + "deleteMetadata")
	if del == nil {
		r.Fatalf("%s: deleteMetadata not found", h.ID())
		return
	}
	var gcStoreBlk *ssa.BasicBlock
	for _, b := range del.Blocks {
		for _, in := range b.Instrs {
			if _, ok := fieldStore(in, cdiff+"GC"); ok {
				gcStoreBlk = b
			}
		}
	}
	if gcStoreBlk == nil {
		r.Fatalf("%s: deleteMetadata no longer decrements the GC counter", h.ID())
		return
	}
	isGCTest := func(c *ssa.Call) bool {
		return core.CalleeName(c) == "bytes.Equal" && branchDominates(c, true, gcStoreBlk)
	}
	gs := []core.Guard{
		{Name: "no-entry-for-the-id", Pure: true, Comps: []core.Comp{{Result: -1, Kind: core.IsFalse}}, Match: func(s core.Site) bool {
			c, ok := s.Call.(*ssa.Call)
			return ok && s.Name == "bytes.Equal" && !isGCTest(c)
		}},
		{Name: "removed-as-a-parent-with-its-last-part", Pure: true, Comps: []core.Comp{{Result: -1, Kind: core.IsTrue}}, Value: func(f *ssa.Function, v ssa.Value) bool {
			return core.ParamIndex(f, v) >= 0 && v.Type().String() == "bool"
		}},
		{Name: "entry-is-a-stored-object", Pure: true, Comps: []core.Comp{{Result: -1, Kind: core.IsFalse}}, Value: func(_ *ssa.Function, v ssa.Value) bool {
			bo, ok := v.(*ssa.BinOp)
			if !ok || bo.Op.String() != "==" {
				return false
			}
			c, isC := bo.X.(*ssa.Call)
			if !isC || core.CalleeName(c) != mb+"getObjAttribute" {
				return false
			}
			k, isK := c.Call.Args[2].(*ssa.Const)
			return isK && k.Value != nil && strings.Contains(k.Value.ExactString(), "$Object:PHY")
		}},
	}
	n := core.CheckEffectsFn(p, h, del, core.EffectRule{Guards: gs,
		Derived: []core.Derived{{Name: "the-marked-entry-goes-too", Alts: [][]string{{"no-entry-for-the-id"}, {"removed-as-a-parent-with-its-last-part"}, {"entry-is-a-stored-object"}}}},
		Need:    func(string) []string { return []string{"the-marked-entry-goes-too"} },
		Effect: func(_ *core.Prog, in ssa.Instruction) (string, bool) {
			c, ok := in.(*ssa.Call)
			if !ok || core.CalleeName(c) != "(*github.com/nspcc-dev/bbolt.Cursor).Delete" {
				return "", false
			}
			// the Delete positioned on the garbage key: the one inside the branch that also decrements GC
			for _, b := range del.Blocks {
				for _, i2 := range b.Instrs {
					if eq, isC := i2.(*ssa.Call); isC && isGCTest(eq) && branchDominates(eq, true, c.Block()) {
						return "remove-garbage-mark", true
					}
				}
			}
			return "", false
		}})
	if n == 0 {
		r.Fatalf("%s: the removal of the garbage key was not found in deleteMetadata", h.ID())
	}
}

// garbageMarkNotWeakened: the value of a garbage key decides availability (empty = removed, redundant mark = still
// available), so overwriting an existing key with a non-empty value makes a removed object reappear.
func garbageMarkNotWeakened(p *core.Prog, r *core.Report, h *core.RuleH) {
	isGarbageKey := func(mr *core.MemReach, v ssa.Value) bool {
		c, ok := mr.Canon(v).(*ssa.Call)
		return ok && core.CalleeName(c) == mb+"mkGarbageKey"
	}
	n := 0
	for _, fn := range p.FuncsIn("pkg/local_object_storage/metabase") {
		mr := core.NewMemReach(fn)
		var sites []ssa.CallInstruction
		for _, s := range core.CallSites([]*ssa.Function{fn}, func(s core.Site) bool { return s.Name == "(*github.com/nspcc-dev/bbolt.Bucket).Put" }) {
			if a := s.Call.Common().Args; len(a) == 3 && isGarbageKey(mr, a[1]) {
				sites = append(sites, s.Call)
			}
		}
		if len(sites) == 0 {
			continue
		}
		absent := core.Guard{Name: "key-looked-up-and-absent", Comps: []core.Comp{{Result: -1, Kind: core.IsFalse}}, Match: func(s core.Site) bool {
			if s.Name != "bytes.Equal" {
				return false
			}
			a := s.Call.Common().Args
			fromSeek := func(k, key ssa.Value) bool {
				ex, ok := k.(*ssa.Extract)
				if !ok || ex.Index != 0 {
					return false
				}
				sc, ok := ex.Tuple.(*ssa.Call)
				return ok && core.CalleeName(sc) == "(*github.com/nspcc-dev/bbolt.Cursor).Seek" && mr.Canon(sc.Call.Args[1]) == mr.Canon(key)
			}
			return isGarbageKey(mr, a[1]) && fromSeek(a[0], a[1]) || isGarbageKey(mr, a[0]) && fromSeek(a[1], a[0])
		}}
		gf := core.Flow(fn, []core.Guard{absent})
		for _, c := range sites {
			n++
			val := c.Common().Args[2]
			id := core.FuncName(fn) + "#Put(garbage key)"
			if k, isC := val.(*ssa.Const); isC && k.IsNil() {
				h.OKTrivial(id+"[full mark]", p.InstrPos(c), "writes the empty value: the full removal mark")
				continue
			}
			f := gf.At(c)
			h.Check(gf.Passed(f, 0), id+"!key-absent", p.InstrPos(c), "a possibly non-empty mark is written only where the key was found absent", "a garbage key that may already exist is overwritten with a value that can be the redundant-copy mark: an object that was already removed (full mark) becomes available again")
		}
	}
	if n == 0 {
		r.Fatalf("%s: no write of a garbage key found in the metabase", h.ID())
	}
}

func constTrue(c *ssa.Const) bool {
	b, ok := constBool(c)
	return ok && b
}

// runListingRule: shared by C01.R1 and C06.R1.
func runListingRule(p *core.Prog, r *core.Report, h *core.RuleH) {
	stAvail, _ := p.ConstInt(mb + "statusAvailable")
	sel := p.Func(mb + "selectNFromBucket")
	if sel == nil {
		r.Fatalf("listing: selectNFromBucket not found")
		return
	}
	var body *ssa.Function
	for _, a := range sel.AnonFuncs {
		if len(core.CallSites([]*ssa.Function{a}, func(s core.Site) bool { return s.Name == mb+"inGarbage" })) > 0 {
			body = a
		}
	}
	if body == nil {
		h.Bad(core.FuncName(sel)+"#inGarbage", p.Pos(sel.Pos()), "the listing loop body no longer consults inGarbage")
		return
	}
	avail := core.Guard{Name: "not-marked-for-removal", Match: func(s core.Site) bool {
		return s.Name == mb+"inGarbage" && core.ParamIndex(body, s.Call.Common().Args[1]) == 0
	}, Comps: []core.Comp{{Result: -1, Kind: core.EqConst, Const: stAvail}}}
	locked := core.Guard{Name: "live-lock-overrides-the-mark", Match: func(s core.Site) bool { return s.Name == mb+"objectLocked" }, Comps: []core.Comp{{Result: -1, Kind: core.IsTrue}}}
	core.CheckEffectsFn(p, h, body, core.EffectRule{Min: 1, Guards: []core.Guard{avail, locked},
		Derived: []core.Derived{{Name: "available-for-reads", Alts: [][]string{{"not-marked-for-removal"}, {"live-lock-overrides-the-mark"}}}},
		Need:    func(string) []string { return []string{"available-for-reads"} },
		Effect: func(_ *core.Prog, in ssa.Instruction) (string, bool) {
			return "append-to-listing", storeToFreeVar(in, "to")
		}})
	core.CheckEffectsFn(p, h, sel, core.EffectRule{Min: 1, Guards: []core.Guard{cnrNotGC()}, Effect: func(_ *core.Prog, in ssa.Instruction) (string, bool) {
		return "listing-loop", makesClosure(in, body)
	}})
}

func runC06(p *core.Prog, r *core.Report) {
	r.Explain = "Decides only the status clause and the structural half of 'exactly once': (R1) the listing loop appends an address only after containerMarkedGC==false and inGarbage(that id)==statusAvailable; (R2) nothing else in the metabase builds listing results (all appends to []AddressWithAttributes are in selectNFromBucket's loop); (R3) the cursor is advanced to every visited object before any skip (so a skipped object is not revisited), the next page starts strictly after the cursor object (the equal key is stepped over), and the per-container reset of the object cursor happens only when the container changes. (R4) the engine asks every shard from the same cursor position and merges every non-empty page (the only ways around the merge are a failed shard and an empty page). Not covered: exactly-once across pages and shards as a property of key order (cursor arithmetic over key values), which is behavioural."
	r1 := r.Rule("C06.R1", "listing appends only objects of live containers that are not marked for removal", 1)
	runListingRule(p, r, r1)
	r2 := r.Rule("C06.R2", "listing results are built only in selectNFromBucket", 1)
	n := 0
	for _, fn := range p.FuncsIn("pkg/local_object_storage/metabase") {
		for _, b := range fn.Blocks {
			for _, in := range b.Instrs {
				c, ok := in.(*ssa.Call)
				if !ok || core.CalleeName(c) != "builtin.append" || !strings.HasSuffix(c.Type().String(), "pkg/core/object.AddressWithAttributes") {
					continue
				}
				n++
				o := core.FuncName(core.Outer(fn))
				r2.Check(o == mb+"selectNFromBucket", o+"#append-listing", p.InstrPos(in), "inside the ruled listing loop", "listing results are appended outside selectNFromBucket, bypassing its status checks")
			}
		}
	}
	if n == 0 {
		r.Fatalf("C06.R2: no append to a listing result found")
	}
	r3 := r.Rule("C06.R3", "cursor discipline: advanced before any skip; next page starts strictly after the cursor object; object cursor reset only on container change", 3)
	sel := p.Func(mb + "selectNFromBucket")
	if sel != nil {
		for _, body := range sel.AnonFuncs {
			if len(core.CallSites([]*ssa.Function{body}, func(s core.Site) bool { return s.Name == mb+"inGarbage" })) == 0 {
				continue
			}
			adv := core.Guard{Name: "cursor-advanced-to-this-object", Comps: []core.Comp{{Result: -1, Kind: core.Executed}}, Instr: func(in ssa.Instruction) bool {
				st, ok := in.(*ssa.Store)
				if !ok {
					return false
				}
				fa, ok := st.Addr.(*ssa.FieldAddr)
				return ok && core.FieldAddrName(fa) == "("+mb+"Cursor).lastObjectID" && core.ParamIndex(body, st.Val) == 0
			}}
			core.CheckEffectsFn(p, r3, body, core.EffectRule{Min: 1, Guards: []core.Guard{adv}, Effect: core.CallTo(mb + "inGarbage")})
		}
	}
	if it := p.Func(mb + "iterPrefixedIDs"); it == nil {
		r.Fatalf("C06.R3: iterPrefixedIDs not found")
	} else {
		// the Next() that steps over the cursor key is taken exactly when Seek returned the cursor key itself
		core.CheckEffectsFn(p, r3, it, core.EffectRule{Min: 1, Guards: []core.Guard{core.G("seek-hit-the-cursor-key", core.IsTrue, "bytes.Equal")}, Effect: core.CallTo("(*github.com/nspcc-dev/bbolt.Cursor).Next")})
		// and on the non-zero-offset path the equality test exists at all
		n := len(core.CallSites([]*ssa.Function{it}, func(s core.Site) bool { return s.Name == "bytes.Equal" }))
		r3.Check(n >= 1, core.FuncName(it)+"#skip-equal", p.Pos(it.Pos()), "the cursor key itself is stepped over", "iterPrefixedIDs no longer steps over the cursor key: the last object of a page is listed again on the next page")
	}
	if lw := p.Func(mbDB + "listWithCursor"); lw == nil {
		r.Fatalf("C06.R3: listWithCursor not found")
	} else {
		chg := core.Guard{Name: "container-changed", Comps: []core.Comp{{Result: -1, Kind: core.IsTrue}}, Value: func(_ *ssa.Function, v ssa.Value) bool {
			bo, ok := v.(*ssa.BinOp)
			if !ok || bo.Op != token.NEQ {
				return false
			}
			_, px := core.AccessPath(bo.X)
			_, py := core.AccessPath(bo.Y)
			has := func(p []string) bool { return len(p) > 0 && p[len(p)-1] == "containerID" }
			return has(px) || has(py)
		}}
		core.CheckEffectsFn(p, r3, lw, core.EffectRule{Min: 1, Guards: []core.Guard{chg}, Effect: func(_ *core.Prog, in ssa.Instruction) (string, bool) {
			st, ok := in.(*ssa.Store)
			if !ok {
				return "", false
			}
			fa, ok := st.Addr.(*ssa.FieldAddr)
			return "reset-object-cursor", ok && core.FieldAddrName(fa) == "("+mb+"Cursor).lastObjectID"
		}})
	}
	// ---------------- R5 a container's removal is always recorded
	r5 := r.Rule("C06.R5", "DB.InhumeContainer's transaction succeeds only after the container's removal mark was written: the removal is remembered even when the shard holds nothing of the container yet, so objects arriving later are refused and never listed", 1)
	found := false
	if ic := p.Func(mbDB + "InhumeContainer"); ic != nil {
		for _, tx := range ic.AnonFuncs {
			if len(tx.Params) != 1 || !strings.HasSuffix(tx.Params[0].Type().String(), "bbolt.Tx") {
				continue
			}
			found = true
			mark := core.Guard{Name: "removal-mark-written", Match: func(s core.Site) bool {
				if s.Name != "(*github.com/nspcc-dev/bbolt.Bucket).Put" {
					return false
				}
				u, ok := s.Call.Common().Args[1].(*ssa.UnOp)
				if !ok {
					return false
				}
				g, isG := u.X.(*ssa.Global)
				return isG && g.Name() == "containerGCMarkKey"
			}, Comps: []core.Comp{{Result: -1, Kind: core.ErrNil}}}
			core.CheckSuccessFn(p, r5, tx, core.SuccessRule{ResultIdx: -1, MinReturns: 1, Guards: []core.Guard{mark}})
		}
	}
	if !found {
		r.Fatalf("C06.R5: DB.InhumeContainer's transaction not found")
	}
	r.Explain += " (R5) DB.InhumeContainer's transaction reports success only after it has written the container's removal mark, whether or not the shard already holds something of that container: a removal that is not remembered lets objects that arrive later be indexed and listed."
	// ---------------- R6 a container's removal reaches every shard
	r6 := r.Rule("C06.R6", "StorageEngine.InhumeContainer offers the removal to every shard: the walk over the shards is not left because one of them refused (a read-only or failing shard must not keep the healthy ones behind it from learning that the container is gone)", 1)
	if ic := p.Func("(*pkg/local_object_storage/engine.StorageEngine).InhumeContainer"); ic == nil {
		r.Fatalf("C06.R6: engine InhumeContainer not found")
	} else {
		walkVisitsEveryShard(p, r6, ic, "shard.Shard).InhumeContainer")
	}
	r.Explain += " (R6) the engine's container removal walks all shards and returns only after the walk ended: objects of a removed container stay listable on every shard that was not told."
	// ---------------- R4 the engine merges every shard's page
	r4 := r.Rule("C06.R4", "StorageEngine.ListWithCursor merges every non-empty shard page: from the shard's listing call to the next shard the only ways around the merge are 'the shard failed' and 'its page is empty'; every shard gets the same start cursor", 2)
	if el := p.Func("(*pkg/local_object_storage/engine.StorageEngine).ListWithCursor"); el == nil {
		r.Fatalf("C06.R4: engine ListWithCursor not found")
	} else {
		name := core.FuncName(el)
		lists := core.CallSites([]*ssa.Function{el}, func(s core.Site) bool { return strings.HasSuffix(s.Name, "shard.Shard).ListWithCursor") })
		merges := core.CallSites([]*ssa.Function{el}, func(s core.Site) bool { return s.Name == "pkg/local_object_storage/engine.mergeListResults" })
		if len(lists) != 1 || len(merges) != 1 {
			r4.Bad(name+"#merge", p.Pos(el.Pos()), fmt.Sprintf("expected one shard listing call and one merge, found %d and %d", len(lists), len(merges)))
		} else {
			lb, mblk := lists[0].Call.Block(), merges[0].Call.Block()
			var hdr *ssa.BasicBlock
			for _, hb := range el.Blocks {
				if hb.Dominates(lb) && hb != lb && reaches(lb, hb) && (hdr == nil || hdr.Dominates(hb)) {
					for _, pr := range hb.Preds {
						if hb.Dominates(pr) {
							hdr = hb
						}
					}
				}
			}
			// allowed ways around: err != nil (true edge) and len(page) == 0 (true edge), both on the listing call's own results
			allowed := map[[2]*ssa.BasicBlock]bool{}
			lv := lists[0].Call.Value()
			if lv != nil && lv.Referrers() != nil {
				for _, ref := range *lv.Referrers() {
					ex, ok := ref.(*ssa.Extract)
					if !ok || ex.Referrers() == nil {
						continue
					}
					var tests []*ssa.BinOp
					for _, u := range *ex.Referrers() {
						switch x := u.(type) {
						case *ssa.BinOp:
							if c, isC := x.Y.(*ssa.Const); isC && c.IsNil() && ex.Type().String() == "error" {
								tests = append(tests, x)
							}
						case *ssa.Call:
							if core.CalleeName(x) == "builtin.len" && ex.Index == 0 && x.Referrers() != nil {
								for _, lu := range *x.Referrers() {
									if bo, isB := lu.(*ssa.BinOp); isB {
										if k, isK := intConstOf(bo.Y); isK && k == 0 {
											tests = append(tests, bo)
										}
									}
								}
							}
						}
					}
					for _, bo := range tests {
						if bo.Referrers() == nil {
							continue
						}
						for _, iu := range *bo.Referrers() {
							iff, isIf := iu.(*ssa.If)
							if !isIf {
								continue
							}
							skip := iff.Block().Succs[0] // `!= nil` / `== 0` true edge
							if bo.Op == token.EQL && ex.Type().String() == "error" || bo.Op == token.NEQ && ex.Type().String() != "error" {
								skip = iff.Block().Succs[1]
							}
							allowed[[2]*ssa.BasicBlock{iff.Block(), skip}] = true
						}
					}
				}
			}
			ok := hdr != nil && (lb == mblk || !reachesAvoiding(lb, hdr, map[*ssa.BasicBlock]bool{mblk: true}, allowed))
			r4.Check(ok, name+"#every-page-merged", p.InstrPos(merges[0].Call), "a shard's page bypasses the merge only when the shard failed or the page is empty", "some path skips the merge of a non-empty shard page: that shard's copies are missing from the holder lists (and an object only it holds from the listing)")
			// the start cursor is reset from the request's cursor before every shard
			resets := core.CallSites([]*ssa.Function{el}, func(s core.Site) bool { return strings.HasSuffix(s.Name, "Cursor).Reset") })
			okReset := false
			for _, rs := range resets {
				if hdr != nil && hdr.Dominates(rs.Call.Block()) && rs.Call.Block().Dominates(lb) {
					okReset = true
				}
			}
			r4.Check(okReset, name+"#same-start-for-every-shard", p.InstrPos(lists[0].Call), "the cursor is reset to the request's position before every shard is asked", "shards are no longer all asked from the request's cursor position")
		}
	}
}

// searchStatusRule: filtered and unfiltered search yield only through the status check. Shared by C01.R1 and C03.R4.
func searchStatusRule(p *core.Prog, r *core.Report, r1 *core.RuleH) {
	need := func(names ...string) func(string) []string { return func(string) []string { return names } }
	stAvail, _ := p.ConstInt(mb + "statusAvailable")
	get := func(name string) *ssa.Function {
		f := p.Func(name)
		if f == nil {
			r.Fatalf("search rule: anchor %s not found", name)
		}
		return f
	}
	// filtered search: the status closure and its use
	if f := get(mbDB + "searchTx"); f != nil {
		var chk *ssa.Function
		for _, a := range f.AnonFuncs {
			if len(core.CallSites([]*ssa.Function{a}, func(s core.Site) bool { return s.Name == mb+"objectStatus" })) > 0 {
				chk = a
			}
		}
		if chk == nil {
			r1.Bad(core.FuncName(f)+"#status-checker", p.Pos(f.Pos()), "searchTx no longer builds a status checker from objectStatus")
		} else {
			good := false
			for _, b := range chk.Blocks {
				if ret, ok := b.Instrs[len(b.Instrs)-1].(*ssa.Return); ok && len(ret.Results) == 1 {
					if bo, ok := ret.Results[0].(*ssa.BinOp); ok && bo.Op == token.EQL {
						c, isC := bo.X.(*ssa.Call)
						k, isK := intConstOf(bo.Y)
						good = isC && core.CalleeName(c) == mb+"objectStatus" && isK && k == stAvail && core.ParamIndex(chk, c.Call.Args[1]) == 0
					}
				}
			}
			r1.Check(good, core.FuncName(chk)+"#returns-status-available", p.Pos(chk.Pos()), "the checker is objectStatus(id)==statusAvailable of its own argument", "the search status checker is not `objectStatus(<its id>) == statusAvailable`")
			// passed as additionalCheck (3rd argument) and container guard dominates the handler use
			passed := false
			for _, s := range core.CallSites([]*ssa.Function{f}, func(s core.Site) bool { return s.Name == "pkg/core/object.MetaDataKVHandler" }) {
				if mc, ok := core.Unwrap(s.Call.Common().Args[2]).(*ssa.MakeClosure); ok && mc.Fn == chk {
					passed = true
				}
			}
			r1.Check(passed, core.FuncName(f)+"#MetaDataKVHandler!additionalCheck", p.Pos(f.Pos()), "the status checker is handed to the search handler", "the status checker is not passed to MetaDataKVHandler as additionalCheck")
		}
		core.CheckEffectsFn(p, r1, f, core.EffectRule{Min: 1, Guards: []core.Guard{cnrNotGC()}, Effect: core.CallTo("pkg/core/object.MetaDataKVHandler")})
	}
	if f := get("pkg/core/object.MetaDataKVHandler$1"); f != nil {
		isChk := func(v ssa.Value) bool {
			u, ok := v.(*ssa.UnOp)
			if !ok || u.Op != token.MUL {
				fv, isFV := v.(*ssa.FreeVar)
				return isFV && fv.Name() == "additionalCheck"
			}
			fv, ok := u.X.(*ssa.FreeVar)
			return ok && fv.Name() == "additionalCheck"
		}
		gs := []core.Guard{
			{Name: "no-checker", Comps: []core.Comp{{Result: -1, Kind: core.IsNil}}, Pure: true, Value: func(_ *ssa.Function, v ssa.Value) bool { return isChk(v) }},
			{Name: "checker-accepted", Comps: []core.Comp{{Result: -1, Kind: core.IsTrue}}, Match: func(s core.Site) bool { return !s.Call.Common().IsInvoke() && isChk(s.Call.Common().Value) }},
		}
		core.CheckEffectsFn(p, r1, f, core.EffectRule{Min: 1, Guards: gs, Derived: []core.Derived{{Name: "checker-absent-or-accepted", Alts: [][]string{{"no-checker"}, {"checker-accepted"}}}},
			Need: need("checker-absent-or-accepted"), Effect: func(_ *core.Prog, in ssa.Instruction) (string, bool) {
				st, ok := in.(*ssa.Store)
				if !ok {
					return "", false
				}
				fa, ok := st.Addr.(*ssa.FieldAddr)
				if ok && core.FieldAddrName(fa) == "(pkg/core/object.SearchResult).Objects" {
					return "record-result", true
				}
				return "", false
			}})
	}
	// unfiltered search
	if f := get(mbDB + "searchUnfiltered$1"); f != nil {
		avail := core.Guard{Name: "status-available", Match: func(s core.Site) bool { return s.Name == mb+"objectStatus" }, Comps: []core.Comp{{Result: -1, Kind: core.EqConst, Const: stAvail}}}
		core.CheckEffectsFn(p, r1, f, core.EffectRule{Min: 1, Guards: []core.Guard{cnrNotGC(), avail}, Effect: func(_ *core.Prog, in ssa.Instruction) (string, bool) {
			return "n++", storeToFreeVar(in, "n")
		}})
	}
}

// walkVisitsEveryShard: the per-shard call is made in a loop and no return of fn is reachable from it without
// passing the loop header again (i.e. the loop ends by exhaustion only).
func walkVisitsEveryShard(p *core.Prog, h *core.RuleH, fn *ssa.Function, calleeSuffix string) {
	name := core.FuncName(fn)
	calls := core.CallSites([]*ssa.Function{fn}, func(s core.Site) bool { return strings.HasSuffix(s.Name, calleeSuffix) && s.Fn == fn })
	if len(calls) != 1 {
		h.Bad(name+"#walk", p.Pos(fn.Pos()), fmt.Sprintf("expected one per-shard call, found %d", len(calls)))
		return
	}
	cb := calls[0].Call.(ssa.Instruction).Block()
	var hdr *ssa.BasicBlock
	for _, b := range fn.Blocks {
		if !b.Dominates(cb) {
			continue
		}
		for _, pr := range b.Preds {
			if b.Dominates(pr) && (hdr == nil || hdr.Dominates(b)) {
				hdr = b
			}
		}
	}
	if hdr == nil || !inCycle(cb) {
		h.Bad(name+"#walk", p.InstrPos(calls[0].Call), "the per-shard call is not made in a loop over the shards")
		return
	}
	early := ""
	for _, b := range fn.Blocks {
		if _, ok := b.Instrs[len(b.Instrs)-1].(*ssa.Return); !ok {
			continue
		}
		if b == cb || reachesAvoiding(cb, b, map[*ssa.BasicBlock]bool{hdr: true}, nil) {
			early = p.InstrPos(b.Instrs[len(b.Instrs)-1])
		}
	}
	h.Check(early == "", name+"#walk-ends-by-exhaustion", p.InstrPos(calls[0].Call), "every shard is visited",
		"the walk over the shards is left from inside ("+early+"): shards that come later in the (random) order are never visited")
}
