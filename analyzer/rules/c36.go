package rules

import (
	"fmt"
	"go/token"
	"strings"

	"golang.org/x/tools/go/ssa"

	"verif/analyzer/core"
)

// C36 — alphabet rotation keeps size, uniqueness, one-third bound (guard structure only).
func init() {
	register(&Check{ID: "C36", Level: "other", Pkgs: []string{"./pkg/innerring/processors/governance"}, Run: runC36})
}

// stripCopy sees through a copy of a slice (slices.Clone(x), append([]T(nil), x...)): the copy has the same
// length and the same elements as x.
func stripCopy(v ssa.Value) ssa.Value {
	for i := 0; i < 3; i++ {
		c, ok := v.(*ssa.Call)
		if !ok {
			return v
		}
		switch n := core.CalleeName(c); {
		case strings.HasPrefix(n, "slices.Clone") && len(c.Call.Args) == 1:
			v = c.Call.Args[0]
		case n == "builtin.append" && len(c.Call.Args) == 2:
			if k, isK := c.Call.Args[0].(*ssa.Const); isK && k.IsNil() {
				v = c.Call.Args[1]
			} else {
				return v
			}
		default:
			return v
		}
	}
	return v
}

// evalIntExpr evaluates a pure integer SSA expression over len(param0)=n; ok=false if it is not one.
func evalIntExpr(fn *ssa.Function, v ssa.Value, n int64, depth int) (int64, bool) {
	if depth == 0 {
		return 0, false
	}
	if k, ok := intConstOf(v); ok {
		return k, true
	}
	switch x := v.(type) {
	case *ssa.Call:
		if core.CalleeName(x) == "builtin.len" && len(fn.Params) > 0 && stripCopy(x.Call.Args[0]) == fn.Params[0] {
			return n, true
		}
	case *ssa.Convert:
		return evalIntExpr(fn, x.X, n, depth-1)
	case *ssa.BinOp:
		a, okA := evalIntExpr(fn, x.X, n, depth-1)
		b, okB := evalIntExpr(fn, x.Y, n, depth-1)
		if !okA || !okB {
			return 0, false
		}
		switch x.Op {
		case token.ADD:
			return a + b, true
		case token.SUB:
			return a - b, true
		case token.MUL:
			return a * b, true
		case token.QUO:
			if b == 0 {
				return 0, false
			}
			return a / b, true
		case token.REM:
			if b == 0 {
				return 0, false
			}
			return a % b, true
		}
	}
	return 0, false
}

// branchDominates: the edge of `if cond` taken when cond==want dominates block b (the successor has that single predecessor).
func branchDominates(cond ssa.Value, want bool, b *ssa.BasicBlock) bool {
	if cond.Referrers() == nil {
		return false
	}
	for _, ref := range *cond.Referrers() {
		iff, ok := ref.(*ssa.If)
		if !ok {
			continue
		}
		blk := iff.Block()
		succ := blk.Succs[0]
		if !want {
			succ = blk.Succs[1]
		}
		if len(succ.Preds) == 1 && succ.Dominates(b) && blk.Succs[0] != blk.Succs[1] {
			return true
		}
	}
	return false
}

// reachesAvoiding: some path from `from` (exclusive) reaches `to` without entering a block in stop and without taking an edge in stopEdge.
func reachesAvoiding(from, to *ssa.BasicBlock, stop map[*ssa.BasicBlock]bool, stopEdge map[[2]*ssa.BasicBlock]bool) bool {
	seen := map[*ssa.BasicBlock]bool{}
	var dfs func(b *ssa.BasicBlock) bool
	dfs = func(b *ssa.BasicBlock) bool {
		for _, s := range b.Succs {
			if stopEdge[[2]*ssa.BasicBlock{b, s}] || stop[s] {
				continue
			}
			if s == to {
				return true
			}
			if !seen[s] {
				seen[s] = true
				if dfs(s) {
					return true
				}
			}
		}
		return false
	}
	return dfs(from)
}

// appendedElems: for `append(S, varargs...)` the element values stored into the varargs array.
func appendedElems(c *ssa.Call) []ssa.Value {
	var out []ssa.Value
	if len(c.Call.Args) != 2 {
		return nil
	}
	sl, ok := c.Call.Args[1].(*ssa.Slice)
	if !ok {
		return nil
	}
	al, ok := sl.X.(*ssa.Alloc)
	if !ok || al.Referrers() == nil {
		return nil
	}
	for _, ref := range *al.Referrers() {
		if ia, isIA := ref.(*ssa.IndexAddr); isIA && ia.Referrers() != nil {
			for _, r2 := range *ia.Referrers() {
				if st, isSt := r2.(*ssa.Store); isSt && st.Addr == ia {
					out = append(out, st.Val)
				}
			}
		}
	}
	return out
}

// elemOfParam: v is a load of &param[idx]; returns the parameter index and the index value.
func elemOfParam(fn *ssa.Function, v ssa.Value) (int, ssa.Value) {
	u, ok := v.(*ssa.UnOp)
	if !ok || u.Op != token.MUL {
		return -1, nil
	}
	ia, ok := u.X.(*ssa.IndexAddr)
	if !ok {
		return -1, nil
	}
	return core.ParamIndex(fn, stripCopy(ia.X)), ia.Index
}

func runC36(p *core.Prog, r *core.Report) {
	r.Explain = "Decides the guard structure that the size, membership, one-third and 'only when changed' clauses rest on — not the clauses themselves over all key lists (uniqueness and the exact final size are counting arguments over key values). newAlphabetList: (R1) the counter of newly admitted keys is incremented only on paths where it was compared with the limit and found different, the limit expression evaluates to at most floor((n-1)/3) for every current size n=1..64 (pure integer expression over len(current list), evaluated symbolically), and a main-network key that is not a current member is appended only on a path through that increment; (R2) every append to the result is dominated by 'len(result) != len(current list)', so the result never grows beyond the current size; every appended key is an element of one of the two input lists; a current member selected in the first pass is marked, and the second pass appends only unmarked current members; (R3) a list is returned only when the new-key counter is non-zero. updateInnerRing: (R4) succeeds only for equally long before/after lists; appends after[j] only under innerRing[i].Equal(before[j]) with the same i and j, otherwise innerRing[i], and exactly one of the two per outer iteration. (R5) processAlphabetSync reaches the vote and the three list updates only after newAlphabetList returned a non-nil list without error, and the inner-ring update only after updateInnerRing succeeded. Not covered: absence of duplicates (needs the inputs to be duplicate-free and the map to be keyed injectively), that the result reaches exactly the current size, ordering."
	fn := p.Func("pkg/innerring/processors/governance.newAlphabetList")
	if fn == nil {
		r.Fatalf("C36: newAlphabetList not found")
		return
	}
	name := core.FuncName(fn)
	// the counter: increments of a non-range-index integer phi
	var incs []*ssa.BinOp
	for _, b := range fn.Blocks {
		for _, in := range b.Instrs {
			bo, ok := in.(*ssa.BinOp)
			if !ok || bo.Op != token.ADD {
				continue
			}
			ph, isPhi := bo.X.(*ssa.Phi)
			if k, isK := intConstOf(bo.Y); !isPhi || !isK || k != 1 || ph.Comment == "rangeindex" {
				continue
			}
			incs = append(incs, bo)
		}
	}
	// counter family: phis connected to the increments
	fam := map[ssa.Value]bool{}
	for _, bo := range incs {
		fam[bo] = true
		fam[bo.X] = true
	}
	for changed := true; changed; {
		changed = false
		for _, b := range fn.Blocks {
			for _, in := range b.Instrs {
				ph, ok := in.(*ssa.Phi)
				if !ok || fam[ph] {
					continue
				}
				for _, e := range ph.Edges {
					if fam[e] {
						fam[ph] = true
						changed = true
					}
				}
			}
		}
	}
	r1 := r.Rule("C36.R1", "new keys are counted against a limit of at most floor((n-1)/3): increment only after 'counter != limit'; a non-member is appended only through the increment", 3)
	if len(incs) != 1 {
		r.Fatalf("C36.R1: expected exactly one new-key counter increment in newAlphabetList, found %d", len(incs))
		return
	}
	inc := incs[0]
	// comparisons counter ⋈ limit
	var limCmp *ssa.BinOp
	var limit ssa.Value
	for _, b := range fn.Blocks {
		for _, in := range b.Instrs {
			bo, ok := in.(*ssa.BinOp)
			if !ok || bo.Op != token.EQL && bo.Op != token.GEQ {
				continue
			}
			if fam[bo.X] {
				if _, isC := bo.Y.(*ssa.Const); !isC {
					limCmp, limit = bo, bo.Y
				}
			}
		}
	}
	if limCmp == nil {
		r1.Bad(name+"#limit-comparison", p.Pos(fn.Pos()), "the new-key counter is never compared with a limit")
	} else {
		bad := ""
		for n := int64(1); n <= 64; n++ {
			v, ok := evalIntExpr(fn, limit, n, 8)
			if !ok {
				bad = "the limit is not a pure integer expression over len(current list)"
				break
			}
			if v < 0 || v > (n-1)/3 {
				bad = fmt.Sprintf("for a current list of %d keys the limit evaluates to %d, more than floor((n-1)/3)=%d", n, v, (n-1)/3)
				break
			}
		}
		r1.Check(bad == "", name+"#limit-value", p.InstrPos(limCmp), "the limit evaluates to at most floor((n-1)/3) for n=1..64", bad)
		r1.Check(branchDominates(limCmp, false, inc.Block()), name+"#increment!limit-not-reached", p.InstrPos(inc), "the counter is incremented only after it was found different from the limit", "the new-key counter can be incremented on a path where it was not compared with the limit (or was found equal): more than a third of the list can be replaced")
	}
	// appends
	type app struct {
		call  *ssa.Call
		elems []ssa.Value
	}
	var apps []app
	for _, b := range fn.Blocks {
		for _, in := range b.Instrs {
			if c, ok := in.(*ssa.Call); ok && core.CalleeName(c) == "builtin.append" && strings.HasSuffix(c.Type().String(), "keys.PublicKeys") {
				apps = append(apps, app{c, appendedElems(c)})
			}
		}
	}
	if len(apps) < 2 {
		r.Fatalf("C36: expected the two result appends in newAlphabetList, found %d", len(apps))
		return
	}
	r2 := r.Rule("C36.R2", "the result never outgrows the current list and consists of input keys: size test before every append; provenance of appended keys; selected members are marked and not appended twice", 6)
	r3 := r.Rule("C36.R3", "a list is proposed only when at least one key is new", 1)
	for i, a := range apps {
		id := fmt.Sprintf("%s#append[%d]", name, i)
		pos := p.InstrPos(a.call)
		// size test
		ok := false
		for _, b := range fn.Blocks {
			for _, in := range b.Instrs {
				bo, isB := in.(*ssa.BinOp)
				if !isB || bo.Op != token.EQL && bo.Op != token.GEQ {
					continue
				}
				lc, isL := bo.X.(*ssa.Call)
				if !isL || core.CalleeName(lc) != "builtin.len" || lc.Call.Args[0] != a.call.Call.Args[0] {
					continue
				}
				if v, isV := evalIntExpr(fn, bo.Y, 7, 4); isV && v == 7 && branchDominates(bo, false, a.call.Block()) {
					ok = true
				}
			}
		}
		r2.Check(ok, id+"!below-current-size", pos, "appended only while len(result) != len(current list)", "a key is appended without the 'result is already as long as the current list' test: the new alphabet can outgrow the current one")
		// provenance
		prov := len(a.elems) > 0
		src := -1
		for _, e := range a.elems {
			pi, _ := elemOfParam(fn, e)
			if pi != 0 && pi != 1 {
				prov = false
			}
			src = pi
		}
		r2.Check(prov, id+"!input-key", pos, "the appended key is an element of one of the input lists", "an appended key is not an element of the current or the main-network list")
		if !prov {
			continue
		}
		// the map test on this key
		var lk *ssa.Lookup
		for _, b := range fn.Blocks {
			for _, in := range b.Instrs {
				l, isL := in.(*ssa.Lookup)
				if !isL || !l.Block().Dominates(a.call.Block()) {
					continue
				}
				if kc, isC := l.Index.(*ssa.Call); isC && len(kc.Call.Args) == 1 && kc.Call.Args[0] == a.elems[0] {
					lk = l
				}
			}
		}
		if lk == nil {
			r2.Bad(id+"!membership-consulted", pos, "the appended key is not looked up in the current-member map")
			continue
		}
		if src == 1 {
			// main-network key: member (ok) → marked; non-member → through the increment
			var okv ssa.Value
			if lk.CommaOk && lk.Referrers() != nil {
				for _, ref := range *lk.Referrers() {
					if ex, isE := ref.(*ssa.Extract); isE && ex.Index == 1 {
						okv = ex
					}
				}
			}
			if okv == nil {
				r1.Bad(id+"!non-member-is-counted", pos, "membership of the main-network key is not tested with the comma-ok form")
				continue
			}
			stopE := map[[2]*ssa.BasicBlock]bool{}
			var memberSucc *ssa.BasicBlock
			for _, ref := range *okv.Referrers() {
				if iff, isIf := ref.(*ssa.If); isIf {
					stopE[[2]*ssa.BasicBlock{iff.Block(), iff.Block().Succs[0]}] = true
					memberSucc = iff.Block().Succs[0]
				}
			}
			hdr := map[*ssa.BasicBlock]bool{inc.Block(): true}
			// loop header of this loop: the block defining the counter phi
			if ph, isPhi := inc.X.(*ssa.Phi); isPhi {
				hdr[ph.Block()] = true
			}
			r1.Check(len(stopE) > 0 && !reachesAvoiding(lk.Block(), a.call.Block(), hdr, stopE), id+"!non-member-is-counted", pos, "a non-member key reaches the append only through the counter increment", "a main-network key that is not a current member can be appended without being counted as new")
			marked := false
			if memberSucc != nil {
				for _, in := range memberSucc.Instrs {
					if mu, isMU := in.(*ssa.MapUpdate); isMU && mu.Map == lk.X && mu.Key == lk.Index {
						if c, isC := mu.Value.(*ssa.Const); isC && c.Value != nil && c.Value.String() == "true" {
							marked = true
						}
					}
				}
			}
			r2.Check(marked, id+"!selected-member-marked", pos, "a current member selected from the main-network list is marked", "a current member selected in the first pass is no longer marked: the second pass appends it again (duplicate)")
		} else {
			r2.Check(!lk.CommaOk && branchDominates(lk, false, a.call.Block()), id+"!only-unmarked-members", pos, "a current member is appended in the second pass only if not selected before", "the second pass appends current members without the 'already selected' test: duplicates")
		}
	}
	// R3
	nret := 0
	for _, b := range fn.Blocks {
		ret, ok := b.Instrs[len(b.Instrs)-1].(*ssa.Return)
		if !ok || len(ret.Results) != 2 {
			continue
		}
		if c, isC := ret.Results[0].(*ssa.Const); isC && c.IsNil() {
			continue
		}
		nret++
		ok = false
		for _, bb := range fn.Blocks {
			for _, in := range bb.Instrs {
				bo, isB := in.(*ssa.BinOp)
				if !isB || !fam[bo.X] {
					continue
				}
				k, isK := intConstOf(bo.Y)
				if !isK || k != 0 {
					continue
				}
				if bo.Op == token.EQL && branchDominates(bo, false, b) || (bo.Op == token.NEQ || bo.Op == token.GTR) && branchDominates(bo, true, b) {
					ok = true
				}
			}
		}
		r3.Check(ok, name+"#return-list!something-new", p.InstrPos(ret), "a list is returned only when the new-key counter is non-zero", "a new alphabet list can be returned although no key is new: the inner ring votes for an unchanged list")
	}
	if nret == 0 {
		r3.Bad(name+"#return-list!something-new", p.Pos(fn.Pos()), "newAlphabetList never returns a list")
	}
	// ---------------- R4 updateInnerRing
	r4 := r.Rule("C36.R4", "updateInnerRing: equal lengths required; after[j] only under innerRing[i].Equal(before[j]); one append per inner-ring key; a key is kept unchanged only after the comparison with every before[j]", 3)
	ufn := p.Func("pkg/innerring/processors/governance.updateInnerRing")
	if ufn == nil {
		r.Fatalf("C36.R4: updateInnerRing not found")
		return
	}
	uname := core.FuncName(ufn)
	for _, b := range ufn.Blocks {
		ret, ok := b.Instrs[len(b.Instrs)-1].(*ssa.Return)
		if !ok || len(ret.Results) != 2 {
			continue
		}
		if c, isC := ret.Results[1].(*ssa.Const); !isC || !c.IsNil() {
			continue
		}
		ok = false
		for _, bb := range ufn.Blocks {
			for _, in := range bb.Instrs {
				bo, isB := in.(*ssa.BinOp)
				if !isB || bo.Op != token.NEQ && bo.Op != token.EQL {
					continue
				}
				lenOf := func(v ssa.Value) int {
					if c, isC := v.(*ssa.Call); isC && core.CalleeName(c) == "builtin.len" {
						return core.ParamIndex(ufn, c.Call.Args[0])
					}
					return -1
				}
				x, y := lenOf(bo.X), lenOf(bo.Y)
				if (x == 1 && y == 2 || x == 2 && y == 1) && branchDominates(bo, bo.Op == token.EQL, b) {
					ok = true
				}
			}
		}
		r4.Check(ok, uname+"#success!equal-lengths", p.InstrPos(ret), "succeeds only for equally long before/after lists", "updateInnerRing can succeed for before/after lists of different length")
	}
	var repl, keep []*ssa.Call
	for _, b := range ufn.Blocks {
		for _, in := range b.Instrs {
			c, ok := in.(*ssa.Call)
			if !ok || core.CalleeName(c) != "builtin.append" {
				continue
			}
			es := appendedElems(c)
			if len(es) != 1 {
				r4.Bad(uname+"#append", p.InstrPos(c), "append of something else than one key")
				continue
			}
			pi, idx := elemOfParam(ufn, es[0])
			switch pi {
			case 0:
				keep = append(keep, c)
			case 2:
				repl = append(repl, c)
				// under innerRing[i].Equal(before[j]) with the same j
				ok := false
				for _, bb := range ufn.Blocks {
					for _, in2 := range bb.Instrs {
						ec, isC := in2.(*ssa.Call)
						if !isC || !strings.HasSuffix(core.CalleeName(ec), "keys.PublicKey).Equal") || len(ec.Call.Args) != 2 {
							continue
						}
						p0, _ := elemOfParam(ufn, ec.Call.Args[0])
						p1, j := elemOfParam(ufn, ec.Call.Args[1])
						if p0 == 1 {
							p0, p1 = p1, p0
							_, j = elemOfParam(ufn, ec.Call.Args[0])
						}
						if p0 == 0 && p1 == 1 && j == idx && branchDominates(ec, true, c.Block()) {
							ok = true
						}
					}
				}
				r4.Check(ok, uname+"#append-after[j]!matches-before[j]", p.InstrPos(c), "after[j] replaces a key only when it equals before[j]", "after[j] is appended without innerRing[i].Equal(before[j]) for the same j having answered true")
			default:
				r4.Bad(uname+"#append", p.InstrPos(c), "an appended key comes neither from the inner ring list nor from the 'after' list")
			}
		}
	}
	if len(repl) == 1 && len(keep) == 1 {
		// outer loop header: the innermost loop header dominating both appends
		var hdr *ssa.BasicBlock
		for _, h := range ufn.Blocks {
			if h.Dominates(repl[0].Block()) && h.Dominates(keep[0].Block()) && reaches(repl[0].Block(), h) && reaches(keep[0].Block(), h) && (hdr == nil || hdr.Dominates(h)) {
				isHdr := false
				for _, pr := range h.Preds {
					if h.Dominates(pr) {
						isHdr = true
					}
				}
				if isHdr {
					hdr = h
				}
			}
		}
		ok := hdr != nil && !reachesAvoiding(repl[0].Block(), keep[0].Block(), map[*ssa.BasicBlock]bool{hdr: true}, nil)
		r4.Check(ok, uname+"#one-append-per-key", p.InstrPos(repl[0]), "after a replacement the outer loop continues with the next key", "after appending the replacement the same inner-ring key can also be appended unchanged (duplicate, list grows)")
		// a key is kept as it is only after it was compared with EVERY before[j]: the positional substitution is a
		// permutation of the sorted lists only when it is applied to every key that has a position in 'before'
		var inner *ssa.BasicBlock
		for _, bb := range ufn.Blocks {
			for _, in2 := range bb.Instrs {
				ec, isC := in2.(*ssa.Call)
				if !isC || !strings.HasSuffix(core.CalleeName(ec), "keys.PublicKey).Equal") {
					continue
				}
				for _, h := range ufn.Blocks {
					if h == hdr || !h.Dominates(bb) || !reaches(bb, h) || inner != nil && !inner.Dominates(h) {
						continue
					}
					for _, pr := range h.Preds {
						if h.Dominates(pr) {
							inner = h
						}
					}
				}
			}
		}
		r4.Check(inner != nil && inner.Dominates(keep[0].Block()), uname+"#kept-only-when-no-position-in-before", p.InstrPos(keep[0]), "a key is appended unchanged only after the comparison loop over 'before' was entered for it", "an inner-ring key can be appended unchanged without having been compared with the 'before' list: a key with a position in 'before' keeps its place while another key is moved onto it (duplicate in the derived list, the incoming key never enters it)")
	} else {
		r4.Bad(uname+"#one-append-per-key", p.Pos(ufn.Pos()), fmt.Sprintf("expected one replacing and one keeping append, found %d and %d", len(repl), len(keep)))
	}
	// ---------------- R5 the caller proposes only what newAlphabetList returned, and only when it returned a list
	r5 := r.Rule("C36.R5", "processAlphabetSync votes / updates only after newAlphabetList returned (list != nil, nil error); the inner ring update only after updateInnerRing succeeded", 4)
	pfn := p.Func("(*pkg/innerring/processors/governance.Processor).processAlphabetSync")
	if pfn == nil {
		r.Fatalf("C36.R5: processAlphabetSync not found")
		return
	}
	merged := core.Guard{Name: "merged-list-present", Match: func(s core.Site) bool { return s.Name == "pkg/innerring/processors/governance.newAlphabetList" },
		Comps: []core.Comp{{Result: 1, Kind: core.ErrNil}, {Result: 0, Kind: core.NonNil}}}
	irOK := core.G("inner-ring-list-built", core.ErrNil, "pkg/innerring/processors/governance.updateInnerRing")
	core.CheckEffectsFn(p, r5, pfn, core.EffectRule{Min: 4, Guards: []core.Guard{merged, irOK},
		Need: func(desc string) []string {
			if strings.HasSuffix(desc, ".UpdateNeoFSAlphabetList") {
				return []string{"merged-list-present", "inner-ring-list-built"}
			}
			return []string{"merged-list-present"}
		},
		Effect: func(_ *core.Prog, in ssa.Instruction) (string, bool) {
			c, ok := in.(ssa.CallInstruction)
			if !ok {
				return "", false
			}
			n := core.CalleeName(c)
			for _, m := range []string{".VoteForFSChainValidator", ".UpdateNeoFSAlphabetList", ".UpdateNotaryList", ".AlphabetUpdate"} {
				if strings.HasSuffix(n, m) {
					return n, true
				}
			}
			return "", false
		}})
	// ---------------- R6 'the current alphabet' is the committee as fetched now
	r6 := r.Rule("C36.R6", "the list newAlphabetList merges into (and the 'before' list of updateInnerRing) is the result of the Committee() call made in this very run of processAlphabetSync: not a list remembered from an earlier run (the one-third bound is relative to the CURRENT committee; stepping from a remembered, already voted list doubles the number of replaced keys per round)", 2)
	isCommitteeNow := func(v ssa.Value) bool {
		ex, ok := v.(*ssa.Extract)
		if !ok || ex.Index != 0 {
			return false
		}
		c, ok := ex.Tuple.(ssa.CallInstruction)
		if !ok {
			return false
		}
		if c.Common().IsInvoke() {
			return c.Common().Method.Name() == "Committee"
		}
		return strings.HasSuffix(core.CalleeName(c), ").Committee")
	}
	nCur := 0
	for _, cs := range core.CallSites([]*ssa.Function{pfn}, func(s core.Site) bool {
		return s.Name == "pkg/innerring/processors/governance.newAlphabetList" || s.Name == "pkg/innerring/processors/governance.updateInnerRing"
	}) {
		nCur++
		idx := 0
		if strings.HasSuffix(cs.Name, "updateInnerRing") {
			idx = 1
		}
		a := cs.Call.Common().Args[idx]
		r6.Check(isCommitteeNow(a), core.FuncName(pfn)+"#current-alphabet@"+cs.Name[strings.LastIndex(cs.Name, ".")+1:], p.InstrPos(cs.Call), "the committee fetched in this run",
			"the 'current alphabet' given to "+cs.Name[strings.LastIndex(cs.Name, ".")+1:]+" is not (only) the committee fetched in this run ("+a.String()+"): when the sync is repeated before the chain reflects the previous vote, the next list is built from the previous proposal and differs from the real committee by more than the allowed third")
	}
	if nCur < 2 {
		r.Fatalf("C36.R6: expected newAlphabetList and updateInnerRing calls in processAlphabetSync, found %d", nCur)
	}
	r.Explain += " (R6) both places of processAlphabetSync that need 'the current alphabet' get the value returned by Committee() in the same run, directly (no merge with a remembered list)."
}
