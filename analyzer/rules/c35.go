package rules

import (
	"fmt"
	"sort"
	"strings"

	"golang.org/x/tools/go/ssa"

	"verif/analyzer/core"
)

// C35 — inner ring nodes outside the alphabet never act with alphabet authority (structural half).
func init() {
	register(&Check{ID: "C35", Level: "other", Pkgs: []string{"./pkg/innerring/...", "./pkg/morph/client/..."}, Run: runC35})
}

const mcT = "(*pkg/morph/client.Client)"

// alphabet-authority primitives of the morph client: they build / co-sign transactions
// witnessed by the alphabet multisignature (notary) or by the committee.
var c35Primitive = map[string]bool{
	mcT + ".NotaryInvoke":            true,
	mcT + ".NotarySignAndInvokeTX":   true,
	mcT + ".UpdateNotaryList":        true,
	mcT + ".UpdateNeoFSAlphabetList": true,
	mcT + ".RunAlphabetNotaryScript": true,
	// direct invocations witnessed by the node's own key: alphabet contracts accept them only from their alphabet node (emit, transfers of emitted GAS)
	mcT + ".Invoke":      true,
	mcT + ".TransferGas": true,
}

// c35Sinks derives the sink set: the primitives plus every method of the wrapper
// clients (pkg/morph/client/*) that reaches one of them through StaticClient.Invoke
// with the alphabet flag, by static call-graph reachability.
func c35Sinks(p *core.Prog) map[string]bool {
	sinks := map[string]bool{}
	for k := range c35Primitive {
		sinks[k] = true
	}
	prim := func(in ssa.Instruction) bool {
		c, ok := in.(ssa.CallInstruction)
		return ok && c35Primitive[core.CalleeName(c)]
	}
	for _, fn := range p.FuncsIn("pkg/morph/client/...") {
		if fn.Parent() != nil || fn.Object() == nil || !fn.Object().Exported() || fn.Signature.Recv() == nil {
			continue
		}
		if p.Reaches("alpha-prim", fn, prim) {
			sinks[core.FuncName(fn)] = true
		}
	}
	// StaticClient.Invoke is the generic entry used by all wrappers (notary/alpha decided by client options set by the inner ring): a sink itself
	return sinks
}

func alphabetGuards() ([]core.Guard, []core.Derived) {
	g := []core.Guard{
		{Name: "IsAlphabet()", Match: func(s core.Site) bool { return strings.HasSuffix(s.Name, ").IsAlphabet") }, Comps: []core.Comp{{Result: -1, Kind: core.IsTrue}}},
		{Name: "AlphabetIndex()>=0", Match: func(s core.Site) bool { return strings.HasSuffix(s.Name, ").AlphabetIndex") }, Comps: []core.Comp{{Result: -1, Kind: core.NonNeg}}},
		{Name: "InnerRingIndex()>=0", Match: func(s core.Site) bool { return strings.HasSuffix(s.Name, ").InnerRingIndex") }, Comps: []core.Comp{{Result: -1, Kind: core.NonNeg}}},
	}
	return g, []core.Derived{{Name: "alphabet-member", Alts: [][]string{{"IsAlphabet()"}, {"AlphabetIndex()>=0"}, {"InnerRingIndex()>=0"}}}}
}

func runC35(p *core.Prog, r *core.Report) {
	r.Explain = "Structural half only. Sinks are derived: the morph client's notary/committee primitives (NotaryInvoke, NotarySignAndInvokeTX, UpdateNotaryList, UpdateNeoFSAlphabetList, RunAlphabetNotaryScript) and every exported wrapper-client method that reaches one by static calls. (R1) every call of a sink inside pkg/innerring is dominated, in its own function, by an alphabet-membership guard (IsAlphabet()==true, AlphabetIndex()>=0 or InnerRingIndex()>=0 — an index guard must reject negative values) or, failing that, every chain of callers inside pkg/innerring up to a registered handler/timer/start-up root passes such a guard before the call (call-graph search, depth 6); tabled exceptions carry a reason. (R2) the guard's own chain is sound: indexer.update returns a nil error only from the fresh cache or after both fetchers succeeded; indexer getters return an index only on a nil error; Server.AlphabetIndex/InnerRingIndex answer -1 on error; IsAlphabet is AlphabetIndex()>=0; keyPosition answers -1 unless a byte-equal key was found. Not covered: 'acts on each event at most once' (dynamic), correctness of the alphabet lists themselves."
	sinks := c35Sinks(p)
	r.Analysed["sinks_derived"] = len(sinks)
	if len(sinks) < 10 {
		r.Fatalf("C35: only %d sinks derived", len(sinks))
	}
	irFns := p.FuncsIn("pkg/innerring/...")
	var ir []*ssa.Function
	for _, f := range irFns {
		ir = append(ir, f)
	}
	if top := p.FuncsIn("pkg/innerring"); len(top) > 0 {
		ir = append(ir, top...)
	}
	g, d := alphabetGuards()
	flows := map[*ssa.Function]*core.GuardFlow{}
	flow := func(fn *ssa.Function) *core.GuardFlow {
		if f, ok := flows[fn]; ok {
			return f
		}
		f := core.Flow(fn, g, d...)
		flows[fn] = f
		return f
	}
	// static callers inside innerring (incl. closures: a closure's "caller" is the function that creates it)
	callers := map[*ssa.Function][]core.Site{}
	for _, fn := range ir {
		for _, s := range core.CallSites([]*ssa.Function{fn}, nil) {
			if cal := core.StaticCallee(s.Call); cal != nil {
				callers[cal] = append(callers[cal], s)
			}
		}
		for _, b := range fn.Blocks {
			for _, in := range b.Instrs {
				if mc, ok := in.(*ssa.MakeClosure); ok {
					callers[mc.Fn.(*ssa.Function)] = append(callers[mc.Fn.(*ssa.Function)], core.Site{Fn: fn, Call: nil, Name: "closure@" + p.InstrPos(mc)})
					_ = mc
				}
			}
		}
	}
	// guardedAt: instruction in fn is dominated by the alphabet guard
	var guardedUp func(fn *ssa.Function, at ssa.Instruction, depth int, seen map[*ssa.Function]bool) (bool, string)
	guardedUp = func(fn *ssa.Function, at ssa.Instruction, depth int, seen map[*ssa.Function]bool) (bool, string) {
		gf := flow(fn)
		if at != nil && gf.DerivedPassed(gf.At(at), "alphabet-member") {
			return true, ""
		}
		if depth == 0 || seen[fn] {
			return false, core.FuncName(fn)
		}
		seen[fn] = true
		defer delete(seen, fn)
		cs := callers[fn]
		if len(cs) == 0 {
			return false, core.FuncName(fn) + " (no caller inside pkg/innerring: a root)"
		}
		for _, c := range cs {
			var at2 ssa.Instruction
			if c.Call != nil {
				at2 = c.Call.(ssa.Instruction)
			} else {
				// closure creation site: find the MakeClosure instruction
				for _, b := range c.Fn.Blocks {
					for _, in := range b.Instrs {
						if mc, ok := in.(*ssa.MakeClosure); ok && mc.Fn == fn {
							at2 = in
						}
					}
				}
			}
			ok, via := guardedUp(c.Fn, at2, depth-1, seen)
			if !ok {
				return false, core.FuncName(fn) + " ← " + via
			}
		}
		return true, ""
	}
	r1 := r.Rule("C35.R1", "every sink call inside pkg/innerring is guarded by alphabet membership in its function or on every caller chain", 25)
	type site struct {
		s   core.Site
		key string
	}
	var sites []site
	for _, s := range core.CallSites(ir, func(s core.Site) bool { return sinks[s.Name] }) {
		sites = append(sites, site{s, core.FuncName(s.Fn) + "#" + s.Name})
	}
	sort.SliceStable(sites, func(i, j int) bool { return sites[i].key < sites[j].key })
	seenSite := map[ssa.Instruction]bool{}
	for _, st := range sites {
		if seenSite[st.s.Call.(ssa.Instruction)] {
			continue
		}
		seenSite[st.s.Call.(ssa.Instruction)] = true
		outer := core.FuncName(core.Outer(st.s.Fn))
		if why, ok := c35Exceptions[outer+"#"+st.s.Name]; ok {
			r1.OKTrivial(st.key, p.InstrPos(st.s.Call), "tabled exception: "+why)
			continue
		}
		ok, via := guardedUp(st.s.Fn, st.s.Call.(ssa.Instruction), 6, map[*ssa.Function]bool{})
		r1.Check(ok, st.key, p.InstrPos(st.s.Call), "alphabet membership established before the call on every path / caller chain",
			fmt.Sprintf("%s can be reached without an alphabet-membership guard (unguarded chain: %s)", st.s.Name, via))
	}
	// ---- R2 guard chain
	r2 := r.Rule("C35.R2", "the alphabet guard is sound: indexer success conditions, -1 on error, IsAlphabet == AlphabetIndex() >= 0, keyPosition == -1 unless found", 8)
	const idxT = "(*pkg/innerring.innerRingIndexer)"
	if fn := p.Func(idxT + ".update"); fn == nil {
		r.Fatalf("C35.R2: indexer.update not found")
	} else {
		lastAccess := fieldLoadOf("(pkg/innerring.innerRingIndexer).lastAccess")
		fresh := core.Guard{Name: "cache-fresh", Comps: []core.Comp{{Result: -1, Kind: core.IsTrue}}, Value: func(_ *ssa.Function, v ssa.Value) bool {
			bo, ok := v.(*ssa.BinOp)
			if !ok || bo.Op.String() != "<" {
				return false
			}
			c, ok := bo.X.(*ssa.Call)
			if !ok || core.CalleeName(c) != "time.Since" {
				return false
			}
			return lastAccess(c.Call.Args[0])
		}}
		core.CheckSuccessFn(p, r2, fn, core.SuccessRule{ResultIdx: -1, MinReturns: 2, Guards: []core.Guard{fresh,
			core.G("inner-ring-fetched", core.ErrNil, "(pkg/innerring.irFetcher).InnerRingKeys"),
			core.G("committee-fetched", core.ErrNil, "(pkg/innerring.committeeFetcher).Committee")},
			Derived: []core.Derived{{Name: "indexes-valid", Alts: [][]string{{"cache-fresh"}, {"inner-ring-fetched", "committee-fetched"}}}}, Need: []string{"indexes-valid"}})
	}
	indexerStampOnlyAfterRefresh(p, r, r2)
	for _, m := range []string{"AlphabetIndex", "InnerRingIndex", "InnerRingSize"} {
		core.CheckSuccess(p, r2, core.SuccessRule{Fn: idxT + "." + m, ResultIdx: -1, MinReturns: 1, Guards: []core.Guard{core.G("updated", core.ErrNil, idxT+".update")}})
	}
	for _, m := range []string{"AlphabetIndex", "InnerRingIndex"} {
		fn := p.Func("(*pkg/innerring.Server)." + m)
		if fn == nil {
			r.Fatalf("C35.R2: Server.%s not found", m)
			continue
		}
		// every return is either the constant -1 or the indexer's value under err == nil
		gf := core.Flow(fn, []core.Guard{core.G("index-known", core.ErrNil, idxT+"."+m)})
		for _, b := range fn.Blocks {
			ret, ok := b.Instrs[len(b.Instrs)-1].(*ssa.Return)
			if !ok {
				continue
			}
			if k, isK := intConstOf(ret.Results[0]); isK {
				r2.Check(k < 0, core.FuncName(fn)+"#return-const", p.InstrPos(ret), "error answer is negative", "a constant non-negative index is returned (on the error path the node would count as a member)")
				continue
			}
			r2.Check(gf.Passed(gf.At(ret), 0), core.FuncName(fn)+"#return-index", p.InstrPos(ret), "index returned only when the indexer succeeded", "an index is returned on a path where the indexer reported an error")
		}
	}
	if fn := p.Func("(*pkg/innerring.Server).IsAlphabet"); fn == nil {
		r.Fatalf("C35.R2: Server.IsAlphabet not found")
	} else {
		ok := false
		for _, b := range fn.Blocks {
			if ret, isRet := b.Instrs[len(b.Instrs)-1].(*ssa.Return); isRet {
				if bo, isB := ret.Results[0].(*ssa.BinOp); isB && bo.Op.String() == ">=" {
					if c, isC := bo.X.(*ssa.Call); isC && core.CalleeName(c) == "(*pkg/innerring.Server).AlphabetIndex" {
						if k, isK := intConstOf(bo.Y); isK && k == 0 {
							ok = true
						}
					}
				}
			}
		}
		r2.Check(ok, core.FuncName(fn), p.Pos(fn.Pos()), "IsAlphabet() is AlphabetIndex() >= 0", "IsAlphabet is no longer AlphabetIndex() >= 0")
	}
	if fn := p.Func("pkg/innerring.keyPosition"); fn == nil {
		r.Fatalf("C35.R2: keyPosition not found")
	} else {
		// result: phi of -1 and int32(i) assigned only under bytes.Equal == true
		eq := core.G("key-matches", core.IsTrue, "bytes.Equal")
		gf := core.Flow(fn, []core.Guard{eq})
		good, n := true, 0
		var visit func(v ssa.Value, from *ssa.BasicBlock, depth int)
		visit = func(v ssa.Value, from *ssa.BasicBlock, depth int) {
			if depth > 6 {
				return
			}
			switch x := v.(type) {
			case *ssa.Const:
				n++
				if k, ok := intConstOf(x); !ok || k >= 0 {
					good = false
				}
			case *ssa.Phi:
				for i, e := range x.Edges {
					if e != v {
						visit(e, x.Block().Preds[i], depth+1)
					}
				}
			default:
				n++
				// a computed index: the defining block must be dominated by the match
				if in, ok := v.(ssa.Instruction); ok {
					if !gf.Passed(gf.At(in), 0) {
						good = false
					}
				} else {
					good = false
				}
			}
		}
		for _, b := range fn.Blocks {
			if ret, ok := b.Instrs[len(b.Instrs)-1].(*ssa.Return); ok {
				visit(ret.Results[0], b, 0)
			}
		}
		r2.Check(good && n >= 2, core.FuncName(fn), p.Pos(fn.Pos()), "-1 unless a byte-equal key was found", "keyPosition can answer a non-negative index without a key match")
	}
}

// c35Exceptions: sink calls that legitimately run without alphabet membership (own authority).
var c35Exceptions = map[string]string{}

// indexerStampOnlyAfterRefresh: the inner ring indexer marks its cache as fresh (lastAccess = now) only after BOTH lists were
// fetched successfully; otherwise a failed refresh makes the following calls answer from a stale or zero-valued cache
// without an error (zero value = "alphabet index 0"). Shared by C35.R2 and C38.R4.
func indexerStampOnlyAfterRefresh(p *core.Prog, r *core.Report, h *core.RuleH) {
	fn := p.Func("(*pkg/innerring.innerRingIndexer).update")
	if fn == nil {
		r.Fatalf("%s: indexer.update not found", h.ID())
		return
	}
	core.CheckEffectsFn(p, h, fn, core.EffectRule{Min: 1, Guards: []core.Guard{
		core.G("inner-ring-fetched", core.ErrNil, "(pkg/innerring.irFetcher).InnerRingKeys"),
		core.G("committee-fetched", core.ErrNil, "(pkg/innerring.committeeFetcher).Committee")},
		Effect: func(_ *core.Prog, in ssa.Instruction) (string, bool) {
			st, ok := in.(*ssa.Store)
			if !ok {
				return "", false
			}
			fa, ok := st.Addr.(*ssa.FieldAddr)
			return "cache-marked-fresh", ok && core.FieldAddrName(fa) == "(pkg/innerring.innerRingIndexer).lastAccess"
		}})
}
