package rules

import (
	"fmt"
	"go/token"
	"strings"

	"golang.org/x/tools/go/ssa"

	"verif/analyzer/core"
)

// C34 — the inner ring co-signs only notary transactions whose calls it fully validated.
func init() {
	register(&Check{ID: "C34", Level: "other", Pkgs: []string{"./pkg/innerring/processors/container", "./pkg/morph/event/...", "./pkg/innerring/..."}, Run: runC34})
}

func runC34(p *core.Prog, r *core.Report) {
	r.Explain = "Decides on all CFG paths: (R1) the notary preparator hands events on (nil error) only after validateCosigners, validateAttributes, validateWitnesses and validateExpiration all returned nil and the first call's (contract, method) was found in the allowed-events table; (R2) a notary parser slot is filled only through SetUnaryParser (which wraps the parser in the single-call acceptor) or SetParser, and the parsers registered with SetParser — the only ones that see more than one call — are exactly the tabled multi-call parsers; (R3) every multi-call parser uses a call beyond the first only after comparing that call's contract with the first call's and its method with an expected method name; (R4) every co-signature (NotarySignAndInvokeTX) in the inner ring processors is dominated by IsAlphabet()==true and by the nil/true outcome of the processor's own check (table of 11 sites; pass-through approvals carry a reason). Not covered: the validators' own arithmetic (witness script shapes, heights)."
	// ---- R1
	r1 := r.Rule("C34.R1", "preparator.Prepare returns events only after the four transaction validators passed and the first call is an allowed event", 5)
	const prepT = "(pkg/morph/event.preparator)"
	core.CheckSuccess(p, r1, core.SuccessRule{Fn: prepT + ".Prepare", ResultIdx: -1, MinReturns: 1, Guards: []core.Guard{
		core.G("cosigners-valid", core.ErrNil, prepT+".validateCosigners"),
		core.G("attributes-valid", core.ErrNil, prepT+".validateAttributes"),
		core.G("witnesses-valid", core.ErrNil, prepT+".validateWitnesses"),
		core.G("fallback-unexpired", core.ErrNil, prepT+".validateExpiration"),
		{Name: "first-call-allowed", Comps: []core.Comp{{Result: -1, Kind: core.IsTrue}}, Value: func(_ *ssa.Function, v ssa.Value) bool {
			ex, ok := v.(*ssa.Extract)
			if !ok || ex.Index != 1 {
				return false
			}
			lk, ok := ex.Tuple.(*ssa.Lookup)
			if !ok || !lk.CommaOk {
				return false
			}
			_, path := core.AccessPath(lk.X)
			return len(path) > 0 && path[len(path)-1] == "allowedEvents"
		}},
	}})
	// ---- R5 'unexpired' is judged against the chain height of now
	r5 := r.Rule("C34.R5", "validateExpiration returns nil only after comparing the fallback's NotValidBefore with a chain height obtained from the block counter in this very call (directly, or through a helper whose every result is the counter's answer of that call): a remembered height is lower than the real one, the only unsafe direction", 2)
	expirationAgainstFreshHeight(p, r, r5, prepT)
	r.Explain += " (R5) the height the fallback's NotValidBefore is compared with is the block counter's answer obtained inside validateExpiration for this request; a height remembered from an earlier request can only be too low, which turns 'expired' into 'valid' and lets a request whose fallback is already valid be co-signed."
	// ---- R6 a creation request's attached eACL is for the container being created
	r6 := r.Rule("C34.R6", "processCreateContainerRequest co-signs a creation that carries an eACL table only when the table's container id equals the id of the container being created (the second call of such a transaction stores the table under the id found in the table itself): the approval is reached with no table attached, or after 'id != table.GetCID()' was false", 1)
	if cc := p.Func("(*pkg/innerring/processors/container.Processor).processCreateContainerRequest"); cc == nil {
		r.Fatalf("C34.R6: processCreateContainerRequest not found")
	} else {
		isTableCID := func(v ssa.Value) bool {
			c, ok := v.(*ssa.Call)
			return ok && strings.HasSuffix(core.CalleeName(c), "eacl.Table).GetCID")
		}
		isNewID := func(v ssa.Value) bool {
			c, ok := core.Unwrap(v).(*ssa.Call)
			if ok && strings.HasSuffix(core.CalleeName(c), "container/id.NewFromMarshalledContainer") {
				return true
			}
			if u, isU := v.(*ssa.UnOp); isU {
				if al, isA := u.X.(*ssa.Alloc); isA && al.Comment == "id" {
					return true
				}
			}
			return false
		}
		gs := []core.Guard{
			{Name: "table-is-for-this-container(ne-form)", Comps: []core.Comp{{Result: -1, Kind: core.IsFalse}}, Value: func(_ *ssa.Function, v ssa.Value) bool {
				bo, ok := v.(*ssa.BinOp)
				return ok && bo.Op == token.NEQ && (isTableCID(bo.X) && isNewID(bo.Y) || isTableCID(bo.Y) && isNewID(bo.X))
			}},
			{Name: "table-is-for-this-container(eq-form)", Comps: []core.Comp{{Result: -1, Kind: core.IsTrue}}, Value: func(_ *ssa.Function, v ssa.Value) bool {
				bo, ok := v.(*ssa.BinOp)
				return ok && bo.Op == token.EQL && (isTableCID(bo.X) && isNewID(bo.Y) || isTableCID(bo.Y) && isNewID(bo.X))
			}},
			{Name: "no-eacl-attached", Comps: []core.Comp{{Result: -1, Kind: core.IsNil}}, Value: func(f *ssa.Function, v ssa.Value) bool {
				_, path := core.AccessPathM(core.NewMemReach(f), v)
				return len(path) == 1 && path[0] == "EACLTable"
			}},
		}
		core.CheckEffectsFn(p, r6, cc, core.EffectRule{Min: 1, Guards: gs,
			Derived: []core.Derived{{Name: "no-foreign-table", Alts: [][]string{{gs[0].Name}, {gs[1].Name}, {gs[2].Name}}}},
			Effect:  core.CallTo("(*pkg/innerring/processors/container.Processor).approvePutContainer"), Need: func(string) []string { return []string{"no-foreign-table"} }})
	}
	r.Explain += " (R6) a two-call creation transaction (create + put eACL) is co-signed only if the table in the second call names the container the first call creates; the table is authenticated against the owner of the NEW container, so a table for another container would overwrite that container's eACL with the requester's signature."
	// ---- R2
	r2 := r.Rule("C34.R2", "NotaryParserInfo.p is written only by SetUnaryParser (single-call acceptor) and SetParser; SetParser receives only tabled multi-call parsers", 3)
	const npi = "(pkg/morph/event.NotaryParserInfo).p"
	for _, w := range fieldWriters(p, p.Funcs(), npi) {
		r2.Check(w == "(*pkg/morph/event.NotaryParserInfo).SetUnaryParser" || w == "(*pkg/morph/event.NotaryParserInfo).SetParser", "write:"+w, "-", "parser slot written by a setter", "the notary parser slot is written outside its setters")
	}
	if fn := p.Func("(*pkg/morph/event.NotaryParserInfo).SetUnaryParser"); fn == nil {
		r.Fatalf("C34.R2: SetUnaryParser not found")
	} else {
		ok := false
		for _, b := range fn.Blocks {
			for _, in := range b.Instrs {
				if st, isSt := in.(*ssa.Store); isSt {
					if fa, isFA := st.Addr.(*ssa.FieldAddr); isFA && core.FieldAddrName(fa) == npi {
						if c, isC := st.Val.(*ssa.Call); isC && core.CalleeName(c) == "pkg/morph/event.acceptOnlySingleCall" && core.ParamIndex(fn, c.Call.Args[0]) == 1 {
							ok = true
						}
					}
				}
			}
		}
		r2.Check(ok, core.FuncName(fn), p.Pos(fn.Pos()), "wraps the unary parser in acceptOnlySingleCall", "SetUnaryParser no longer wraps the parser in the single-call acceptor")
	}
	if fn := p.Func("pkg/morph/event.acceptOnlySingleCall$1"); fn == nil {
		r.Fatalf("C34.R2: acceptOnlySingleCall closure not found")
	} else {
		// the unary parser is invoked only after len(events) == 1
		lenIs1 := core.Guard{Name: "exactly-one-call", Comps: []core.Comp{{Result: -1, Kind: core.IsFalse}}, Value: func(f *ssa.Function, v ssa.Value) bool {
			bo, ok := v.(*ssa.BinOp)
			if !ok || bo.Op != token.NEQ {
				return false
			}
			c, ok := bo.X.(*ssa.Call)
			if !ok {
				return false
			}
			bi, ok := c.Call.Value.(*ssa.Builtin)
			k, isK := intConstOf(bo.Y)
			return ok && bi.Name() == "len" && core.ParamIndex(f, c.Call.Args[0]) == 0 && isK && k == 1
		}}
		core.CheckEffectsFn(p, r2, fn, core.EffectRule{Min: 1, Guards: []core.Guard{lenIs1}, Effect: func(p *core.Prog, in ssa.Instruction) (string, bool) {
			c, ok := in.(ssa.CallInstruction)
			if ok && core.CalleeName(c) == "dynamic" {
				return "unary parser call", true
			}
			return "", false
		}})
	}
	multi := map[string]bool{"pkg/morph/event/container.RestoreCreateContainerV2Request": true}
	for _, s := range core.CallSites(p.Funcs(), func(s core.Site) bool { return s.Name == "(*pkg/morph/event.NotaryParserInfo).SetParser" }) {
		arg := s.Call.Common().Args[1]
		name := ""
		switch x := arg.(type) {
		case *ssa.Function:
			name = core.FuncName(x)
		case *ssa.MakeClosure:
			name = core.FuncName(x.Fn.(*ssa.Function))
		case *ssa.ChangeType:
			if f, ok := x.X.(*ssa.Function); ok {
				name = core.FuncName(f)
			}
		}
		r2.Check(multi[name], core.FuncName(s.Fn)+"#SetParser("+name+")", p.InstrPos(s.Call), "tabled multi-call parser (its extra calls are checked by R3)", "a parser that receives every call of the transaction is registered without being tabled/checked as a multi-call parser")
	}
	// ---- R3
	r3 := r.Rule("C34.R3", "multi-call parsers use a call beyond the first only after checking its contract and method", 2)
	for name := range multi {
		fn := p.Func(name)
		if fn == nil {
			r.Fatalf("C34.R3: %s not found", name)
			continue
		}
		// values denoting contractCalls[i], i >= 1
		isLater := func(v ssa.Value) bool {
			v = core.Unwrap(v)
			u, ok := v.(*ssa.UnOp)
			if !ok {
				return false
			}
			ia, ok := u.X.(*ssa.IndexAddr)
			if !ok || core.ParamIndex(fn, ia.X) != 0 {
				return false
			}
			k, isK := intConstOf(ia.Index)
			return isK && k >= 1
		}
		isFirst := func(v ssa.Value) bool {
			v = core.Unwrap(v)
			u, ok := v.(*ssa.UnOp)
			if !ok {
				return false
			}
			ia, ok := u.X.(*ssa.IndexAddr)
			if !ok || core.ParamIndex(fn, ia.X) != 0 {
				return false
			}
			k, isK := intConstOf(ia.Index)
			return isK && k == 0
		}
		shOf := func(v ssa.Value, pred func(ssa.Value) bool) bool {
			c, ok := v.(*ssa.Call)
			return ok && c.Call.IsInvoke() && c.Call.Method.Name() == "ScriptHash" && pred(c.Call.Value)
		}
		guards := []core.Guard{
			{Name: "same-contract-as-first-call", Comps: []core.Comp{{Result: -1, Kind: core.IsFalse}}, Value: func(_ *ssa.Function, v ssa.Value) bool {
				bo, ok := v.(*ssa.BinOp)
				return ok && bo.Op == token.NEQ && (shOf(bo.X, isLater) && shOf(bo.Y, isFirst) || shOf(bo.Y, isLater) && shOf(bo.X, isFirst))
			}},
			{Name: "expected-method", Match: func(s core.Site) bool {
				if s.Name != "(pkg/morph/event.NotaryType).Equal" {
					return false
				}
				c, ok := s.Call.Common().Args[0].(*ssa.Call)
				return ok && c.Call.IsInvoke() && c.Call.Method.Name() == "Type" && isLater(c.Call.Value)
			}, Comps: []core.Comp{{Result: -1, Kind: core.IsTrue}}},
		}
		core.CheckEffectsFn(p, r3, fn, core.EffectRule{Min: 1, Guards: guards, Effect: func(p *core.Prog, in ssa.Instruction) (string, bool) {
			c, ok := in.(ssa.CallInstruction)
			if !ok {
				return "", false
			}
			cc := c.Common()
			if cc.IsInvoke() && isLater(cc.Value) {
				if m := cc.Method.Name(); m == "ScriptHash" || m == "Type" {
					return "", false
				}
				return "use of a later call: " + cc.Method.Name(), true
			}
			for _, a := range cc.Args {
				if isLater(a) {
					return "later call passed to " + core.CalleeName(c), true
				}
			}
			return "", false
		}})
		// R3b: the number of calls is pinned on every success path, and every call below the largest accepted count is looked at
		isLen := func(_ *ssa.Function, v ssa.Value) bool {
			c, ok := v.(*ssa.Call)
			if !ok {
				return false
			}
			b, ok := c.Call.Value.(*ssa.Builtin)
			return ok && b.Name() == "len" && core.RootParam(fn, c.Call.Args[0]) == 0 && core.Unwrap(c.Call.Args[0]) == fn.Params[0]
		}
		var lg []core.Guard
		var alts [][]string
		for k := int64(1); k <= 6; k++ {
			g := core.Guard{Name: fmt.Sprintf("call-count==%d", k), Comps: []core.Comp{{Result: -1, Kind: core.EqConst, Const: k}}, Value: isLen, Pure: true}
			lg = append(lg, g)
			alts = append(alts, []string{g.Name})
		}
		maxK, idx := int64(0), map[int64]bool{}
		// upper-bound forms: len <= c / len < c (true edge), len > c / len >= c (false edge), and the commuted spellings
		bound := func(v ssa.Value, wantTrueForm bool) bool {
			bo, ok := v.(*ssa.BinOp)
			if !ok {
				return false
			}
			op, x, y := bo.Op, bo.X, bo.Y
			if isLen(fn, y) { // commute to len OP const
				x, y = y, x
				switch op {
				case token.LSS:
					op = token.GTR
				case token.LEQ:
					op = token.GEQ
				case token.GTR:
					op = token.LSS
				case token.GEQ:
					op = token.LEQ
				}
			}
			c, isC := intConstOf(y)
			if !isLen(fn, x) || !isC {
				return false
			}
			var k int64
			switch op {
			case token.LEQ, token.GTR:
				k = c
			case token.LSS, token.GEQ:
				k = c - 1
			default:
				return false
			}
			if (op == token.LEQ || op == token.LSS) != wantTrueForm {
				return false
			}
			if k > maxK && k <= 6 {
				maxK = k
			}
			return k <= 6
		}
		lg = append(lg,
			core.Guard{Name: "call-count-bounded(true-form)", Comps: []core.Comp{{Result: -1, Kind: core.IsTrue}}, Pure: true, Value: func(_ *ssa.Function, v ssa.Value) bool { return bound(v, true) }},
			core.Guard{Name: "call-count-bounded(false-form)", Comps: []core.Comp{{Result: -1, Kind: core.IsFalse}}, Pure: true, Value: func(_ *ssa.Function, v ssa.Value) bool { return bound(v, false) }})
		alts = append(alts, []string{"call-count-bounded(true-form)"}, []string{"call-count-bounded(false-form)"})
		core.CheckSuccessFn(p, r3, fn, core.SuccessRule{ResultIdx: -1, MinReturns: 1, Guards: lg, Derived: []core.Derived{{Name: "call-count-pinned", Alts: alts}}, Need: []string{"call-count-pinned"}})
		for _, b := range fn.Blocks {
			for _, in := range b.Instrs {
				switch x := in.(type) {
				case *ssa.BinOp:
					if x.Op == token.EQL && isLen(fn, x.X) {
						if k, ok := intConstOf(x.Y); ok && k > maxK {
							maxK = k
						}
					}
				case *ssa.IndexAddr:
					if core.ParamIndex(fn, x.X) == 0 {
						if k, ok := intConstOf(x.Index); ok {
							idx[k] = true
						}
					}
				}
			}
		}
		for i := int64(0); i < maxK; i++ {
			r3.Check(idx[i], fmt.Sprintf("%s#call[%d]!examined", name, i), p.Pos(fn.Pos()), "every accepted call is looked at", fmt.Sprintf("the parser accepts %d calls but never looks at call %d", maxK, i))
		}
	}
	// ---- R4
	r4 := r.Rule("C34.R4", "every NotarySignAndInvokeTX in the inner ring processors is dominated by the alphabet test and the processor's own check (table)", 11)
	alpha := core.Guard{Name: "is-alphabet", Match: func(s core.Site) bool { return strings.HasSuffix(s.Name, ").IsAlphabet") }, Comps: []core.Comp{{Result: -1, Kind: core.IsTrue}}}
	type siteRule struct {
		guards []core.Guard
		via    string // function in which the guards are looked for ("" = the function containing the call)
		reason string
	}
	const rpT = "(*pkg/innerring/processors/reputation.Processor)"
	table := map[string]siteRule{
		npT + ".processAddNode":      {reason: "guards checked by C38.R1"},
		npT + ".processUpdatePeer":   {guards: []core.Guard{alpha}, reason: "pass-through approval: the Netmap contract itself authorises a node's state change by the node's own witness; the inner ring only adds the alphabet witness"},
		cpT + ".processAnnounceLoad": {guards: []core.Guard{alpha, core.G("load-report-checked", core.ErrNil, cpT+".checkAnnounceLoad")}},
		rpT + ".approvePutReputation": {via: rpT + ".processPut", guards: []core.Guard{alpha,
			{Name: "trust-signature-valid", Match: func(s core.Site) bool { return strings.HasSuffix(s.Name, ".VerifySignature") }, Comps: []core.Comp{{Result: -1, Kind: core.IsTrue}}},
			core.G("manager-checked", core.ErrNil, rpT+".checkManagers")}},
	}
	for _, s := range core.CallSites(p.FuncsIn("pkg/innerring/processors/..."), func(s core.Site) bool { return s.Name == mcT+".NotarySignAndInvokeTX" }) {
		outer := core.FuncName(core.Outer(s.Fn))
		if strings.HasPrefix(outer, cpT+".approve") {
			r4.OKTrivial(outer+"#NotarySignAndInvokeTX", p.InstrPos(s.Call), "container approvals: guards checked by C37.R1")
			continue
		}
		sr, ok := table[outer]
		if !ok {
			r4.Bad(outer+"#NotarySignAndInvokeTX", p.InstrPos(s.Call), "co-signature site not in the table of validated approvals")
			continue
		}
		if len(sr.guards) == 0 {
			r4.OKTrivial(outer+"#NotarySignAndInvokeTX", p.InstrPos(s.Call), sr.reason)
			continue
		}
		if sr.via == "" {
			core.CheckEffectsFn(p, r4, s.Fn, core.EffectRule{Min: 1, Guards: sr.guards, Effect: core.CallTo(mcT + ".NotarySignAndInvokeTX")})
		} else {
			vf := p.Func(sr.via)
			if vf == nil {
				r.Fatalf("C34.R4: %s not found", sr.via)
				continue
			}
			core.CheckEffectsFn(p, r4, vf, core.EffectRule{Min: 1, Guards: sr.guards, Effect: core.CallTo(outer)})
			// and the approve function has no other caller
			core.CheckCallers(p, r4, p.FuncsIn("pkg/innerring/..."), []core.CallerRule{{Sink: outer, MinSites: 1, Allowed: map[string]string{sr.via: "its guarded process function"}}})
		}
	}
}

// expirationAgainstFreshHeight: shared shape 'fresh evidence'. height := blockCounter.BlockCount() in this call (or via a
// helper all of whose returned heights are results of BlockCount calls made in the helper); nil is returned only on the
// false edge of `height >= nvb.Height` (or the true edge of `height < nvb.Height`).
func expirationAgainstFreshHeight(p *core.Prog, r *core.Report, h *core.RuleH, prepT string) {
	fn := p.Func(prepT + ".validateExpiration")
	if fn == nil {
		r.Fatalf("C34.R5: validateExpiration not found")
		return
	}
	isCounterCall := func(v ssa.Value) bool {
		c, ok := v.(ssa.CallInstruction)
		return ok && c.Common().IsInvoke() && c.Common().Method.Name() == "BlockCount"
	}
	var freshHelper func(f *ssa.Function, depth int) bool
	freshHelper = func(f *ssa.Function, depth int) bool {
		if f == nil || f.Blocks == nil || depth == 0 {
			return false
		}
		for _, b := range f.Blocks {
			ret, ok := b.Instrs[len(b.Instrs)-1].(*ssa.Return)
			if !ok || len(ret.Results) == 0 {
				continue
			}
			v := ret.Results[0]
			if c, isC := v.(*ssa.Const); isC && len(ret.Results) > 1 {
				_ = c // zero height next to an error
				continue
			}
			if !freshValue(v, isCounterCall, freshHelper, depth) {
				return false
			}
		}
		return true
	}
	isFresh := func(v ssa.Value) bool { return freshValue(v, isCounterCall, freshHelper, 3) }
	cmp := func(op token.Token) func(*ssa.Function, ssa.Value) bool {
		return func(_ *ssa.Function, v ssa.Value) bool {
			bo, ok := v.(*ssa.BinOp)
			if !ok || bo.Op != op {
				return false
			}
			_, path := core.AccessPath(bo.Y)
			return isFresh(bo.X) && len(path) > 0 && path[len(path)-1] == "Height"
		}
	}
	guards := []core.Guard{
		{Name: "height-below-nvb(ge-form)", Comps: []core.Comp{{Result: -1, Kind: core.IsFalse}}, Value: cmp(token.GEQ)},
		{Name: "height-below-nvb(lt-form)", Comps: []core.Comp{{Result: -1, Kind: core.IsTrue}}, Value: cmp(token.LSS)},
	}
	core.CheckSuccessFn(p, h, fn, core.SuccessRule{ResultIdx: -1, MinReturns: 1, Guards: guards,
		Derived: []core.Derived{{Name: "fallback-not-yet-valid-at-the-current-height", Alts: [][]string{{guards[0].Name}, {guards[1].Name}}}}, Need: []string{"fallback-not-yet-valid-at-the-current-height"}})
	// and the counter is asked at all
	n := 0
	for _, b := range fn.Blocks {
		for _, in := range b.Instrs {
			if v, ok := in.(ssa.Value); ok && (isCounterCall(v) || func() bool {
				c, isC := in.(*ssa.Call)
				return isC && core.StaticCallee(c) != nil && freshHelper(core.StaticCallee(c), 2)
			}()) {
				n++
			}
		}
	}
	h.Check(n > 0, core.FuncName(fn)+"#asks-the-chain", p.Pos(fn.Pos()), "the chain height is read in this call", "validateExpiration no longer reads the chain height itself")
}

// freshValue: v is result #0 of a BlockCount invoke, or of a helper all of whose results are.
func freshValue(v ssa.Value, isCounterCall func(ssa.Value) bool, helper func(*ssa.Function, int) bool, depth int) bool {
	switch x := v.(type) {
	case *ssa.Extract:
		if x.Index != 0 {
			return false
		}
		if isCounterCall(x.Tuple) {
			return true
		}
		if c, ok := x.Tuple.(*ssa.Call); ok {
			return helper(core.StaticCallee(c), depth-1)
		}
	case *ssa.Call:
		if isCounterCall(x) {
			return true
		}
		return helper(core.StaticCallee(x), depth-1)
	}
	return false
}
