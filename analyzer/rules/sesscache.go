package rules

import (
	"go/types"
	"strings"

	"golang.org/x/tools/go/ssa"

	"verif/analyzer/core"
)

// cellOf: the local-variable cell (Alloc) a value was loaded from, or the value itself.
func cellOf(v ssa.Value) ssa.Value {
	for x := v; ; {
		u, ok := x.(*ssa.UnOp)
		if !ok || u.Op.String() != "*" {
			return v
		}
		if a, isA := u.X.(*ssa.Alloc); isA {
			return a
		}
		x = u.X
	}
}

// spilledParam: the parameter whose value is the only thing ever stored into cell a (nil if none).
func spilledParam(a *ssa.Alloc) *ssa.Parameter {
	var prm *ssa.Parameter
	if a.Referrers() == nil {
		return nil
	}
	for _, ref := range *a.Referrers() {
		if st, ok := ref.(*ssa.Store); ok && st.Addr == a {
			q, isP := st.Val.(*ssa.Parameter)
			if !isP || prm != nil && prm != q {
				return nil
			}
			prm = q
		}
	}
	return prm
}

// sessionCacheOnMissPurity: the verdict an ObjectSessionsCache stores under a token's digest must be a function
// of that token (and of process-wide services) only. For every AuthenticateTokenV1/V2 call site in fns:
// (a) the key is sha256.Sum256 of bytes marshalled from the token; (b) the on-miss callback captures nothing but
// the hashed token / its marshalled bytes, the method receiver, interface-typed parameters (services) and loggers;
// (c) for V2 tokens (wall-clock lifetime; the cache is purged per epoch only) nothing reachable from the callback
// inside the module reads a clock.
func sessionCacheOnMissPurity(p *core.Prog, h *core.RuleH, fns []*ssa.Function) int {
	n := 0
	for _, s := range core.CallSites(fns, func(s core.Site) bool {
		return strings.HasPrefix(s.Name, "(*internal/sessions.ObjectSessionsCache).AuthenticateTokenV")
	}) {
		n++
		fn := s.Fn
		args := s.Call.Common().Args
		id := core.FuncName(fn) + "#" + s.Name[strings.LastIndex(s.Name, ".")+1:]
		pos := p.InstrPos(s.Call.(ssa.Instruction))
		if len(args) != 3 {
			h.Bad(id, pos, "unexpected arity")
			continue
		}
		// (a) key derivation → token cells
		tok := map[ssa.Value]bool{}
		if kc, ok := core.Unwrap(args[1]).(*ssa.Call); ok && core.CalleeName(kc) == "crypto/sha256.Sum256" {
			src := kc.Call.Args[0]
			if mc, isC := src.(*ssa.Call); isC && strings.HasSuffix(core.CalleeName(mc), ").Marshal") && len(mc.Call.Args) == 1 {
				tok[cellOf(mc.Call.Args[0])] = true
			} else {
				bufCell := cellOf(src)
				for _, ms := range core.CallSites([]*ssa.Function{fn}, func(x core.Site) bool { return strings.HasSuffix(x.Name, ").MarshalStable") }) {
					a := ms.Call.Common().Args
					if len(a) == 2 && cellOf(a[1]) == bufCell {
						tok[bufCell] = true
						tok[cellOf(a[0])] = true
					}
				}
			}
		}
		h.Check(len(tok) > 0, id+"!key-is-token-digest", pos, "the cache key is the SHA-256 of the token's marshalled bytes", "the cache key is not derived from the token's marshalled bytes")
		if len(tok) == 0 {
			continue
		}
		// (b) captured values
		var cl *ssa.Function
		var bad []string
		switch c := args[2].(type) {
		case *ssa.MakeClosure:
			cl = c.Fn.(*ssa.Function)
			for i, b := range c.Bindings {
				name := cl.FreeVars[i].Name()
				if tok[b] || tok[cellOf(b)] {
					continue
				}
				al, isA := b.(*ssa.Alloc)
				if !isA {
					bad = append(bad, name)
					continue
				}
				et := al.Type().(*types.Pointer).Elem()
				if strings.HasSuffix(et.String(), "zap.Logger") {
					continue
				}
				prm := spilledParam(al)
				if prm == nil {
					bad = append(bad, name)
					continue
				}
				if fn.Signature.Recv() != nil && len(fn.Params) > 0 && prm == fn.Params[0] {
					continue // the service itself
				}
				if _, isI := prm.Type().Underlying().(*types.Interface); isI {
					continue // a service dependency
				}
				bad = append(bad, name)
			}
		case *ssa.Function:
			cl = c
		default:
			h.Bad(id+"!on-miss-captures", pos, "the on-miss callback is not a function literal: cannot decide what it depends on")
			continue
		}
		h.Check(len(bad) == 0, id+"!on-miss-captures", pos, "the on-miss callback depends only on the hashed token and on services",
			"the on-miss callback captures "+strings.Join(bad, ", ")+", which the cache key does not cover: a verdict computed for one request is replayed for every later request carrying the same token")
		// (c) no clock and no epoch inside the cached part
		{
			clock := ""
			seen := map[*ssa.Function]bool{}
			var walk func(f *ssa.Function, d int)
			walk = func(f *ssa.Function, d int) {
				if f == nil || seen[f] || f.Blocks == nil || clock != "" {
					return
				}
				seen[f] = true
				for _, a := range f.AnonFuncs {
					walk(a, d)
				}
				for _, b := range f.Blocks {
					for _, in := range b.Instrs {
						c, ok := in.(ssa.CallInstruction)
						if !ok {
							continue
						}
						if c.Common().Signature().Results().Len() == 1 && c.Common().Signature().Results().At(0).Type().String() == "time.Time" && c.Common().Signature().Params().Len() == 0 {
							if nm := core.CalleeName(c); nm == "time.Now" || c.Common().IsInvoke() {
								clock = nm + " at " + p.InstrPos(in)
								return
							}
						}
						// the current epoch, or a verdict about it. (A historic script runner reads the epoch to find the
						// height a signature is checked at; that is a function of the token's own fields and is exempt.)
						if nm := core.CalleeName(c); strings.HasSuffix(nm, ").ExpiredAt") || strings.HasSuffix(nm, ").ValidAt") || strings.HasSuffix(nm, ").InvalidAt") ||
							strings.HasSuffix(nm, ").Epoch") && f == cl {
							clock = nm + " at " + p.InstrPos(in)
							return
						}
						if cal := core.StaticCallee(c); cal != nil && d > 0 && core.FuncPkg(cal) != nil && strings.HasPrefix(core.FuncPkg(cal).Path(), core.Mod) {
							walk(cal, d-1)
						}
					}
				}
			}
			walk(cl, 4)
			h.Check(clock == "", id+"!cached-verdict-is-time-free", pos, "nothing in the cached part of the check reads a clock or the current epoch",
				"the cached part of the token check reads a clock or the current epoch ("+clock+"): a verdict valid at one moment is replayed later, and the cache is shared with users that store signature-only verdicts under the same key")
		}
	}
	return n
}
