package rules

import (
	"go/token"
	"strings"

	"golang.org/x/tools/go/ssa"

	"verif/analyzer/core"
)

// C24 — nodes store only self-consistent, authenticated objects (no path around validation).
func init() {
	register(&Check{ID: "C24", Level: "other", Pkgs: []string{"./pkg/services/object/put", "./pkg/core/object", "./pkg/services/replicator", "./pkg/local_object_storage/engine", "./cmd/neofs-node"}, Run: runC24})
}

func runC24(p *core.Prog, r *core.Report) {
	r.Explain = "Decides that there is no path to local storage around validation, on all CFG paths: (R1) the put service's storage interface is called only by putObjectLocally, whose callers are the validated replication entry point and the distributed target's local write; the engine's Put is called only from the tabled callers; (R2) ValidateAndStoreObjectLocally stores only after format validation, content validation, declared-size equality, size limit and the SHA-256 payload comparison all passed; (R3) every object target the put streamer installs is a validating target with the format validator set, and a distributed target is created only inside such a target (directly, or behind the node's own slicer); (R4) the validating target forwards the header only after format validation passed and closes the next target only after payload size and checksum comparisons (for prepared objects); (R5) the format validator reports success for a prepared object only after its identifier was verified against the header and — unless it is an EC part, which is unsigned by design — its signature was authenticated; nested parent headers go through the same function.; (R6) AuthenticateObject succeeds for an object carrying a session token only after the token was found — on every call, outside the sessions cache — to be issued for the object's signer, and the part of the check that IS cached under the token's digest captures nothing but that token and process-wide services; (R7) validatingTarget.Write reports success only when the next target's Write and the quota check both returned nil; (R8) an EC part is accepted only after its checksum was compared with the slot of the signed parent's checksum list that belongs to the part's own rule and part index. Not covered: that the validators' predicates are the right ones; chunking of payloads."
	// ---------------- R1
	r1 := r.Rule("C24.R1", "who may store locally: ObjectStorage.Put ← putObjectLocally ← {ValidateAndStoreObjectLocally, distributedTarget.writeObjectLocally}; engine.Put caller table", 4)
	all := p.Funcs()
	const eng = "(*pkg/local_object_storage/engine.StorageEngine)."
	core.CheckCallers(p, r1, all, []core.CallerRule{
		{Sink: "(" + putP + "ObjectStorage).Put", MinSites: 1, Allowed: map[string]string{putP + "putObjectLocally": "the single local-store helper"}},
		{Sink: putP + "putObjectLocally", MinSites: 2, Allowed: map[string]string{
			"(*" + putP + "Service).ValidateAndStoreObjectLocally": "replication entry point, validated by R2",
			"(*" + putP + "distributedTarget).writeObjectLocally":  "local copy of an object that passed the validating target (R3/R4)",
		}},
		{Sink: "(*" + putP + "distributedTarget).writeObjectLocally", MinSites: 1, Allowed: map[string]string{
			"(*" + putP + "distributedTarget).sendObject":       "the local node is one of the placement nodes",
			"(*" + putP + "distributedTarget).distributeObject": "local-only PUT (no placement function): still behind the validating target",
		}},
		{Sink: eng + "Put", Allowed: map[string]string{
			"(*cmd/neofs-node.storageEngine).Put":              "adapter behind putsvc.ObjectStorage (reached only through R1's chain)",
			"(*pkg/services/replicator.Replicator).HandleTask": "replication task that targets the local node: an object that was validated when it entered the network (read from local storage or handed over by the put service after validation)",
		}},
		{Sink: eng + "putToShard", MinSites: 2, Allowed: map[string]string{
			eng + "Put":             "the engine's own put",
			eng + "broadcastObject": "system objects to every shard",
			eng + "Evacuate":        "copies of objects already stored on this node (C19)",
		}},
	})
	// the replicator stores locally only objects it read from local storage / was handed by the policer: tabled interface call
	for _, s := range core.CallSites(p.FuncsIn("pkg/services/replicator"), func(s core.Site) bool {
		return strings.HasSuffix(s.Name, ").Put") && strings.Contains(s.Name, "replicator.")
	}) {
		r1.Check(core.FuncName(core.Outer(s.Fn)) == "(*pkg/services/replicator.Replicator).HandleTask", core.FuncName(core.Outer(s.Fn))+"#localStorage.Put", p.InstrPos(s.Call), "replication task whose local node is a target: an object already validated when it entered the network", "the replicator stores locally outside HandleTask")
	}
	// ---------------- R2
	r2 := r.Rule("C24.R2", "ValidateAndStoreObjectLocally stores only after format, content, size and checksum checks", 5)
	replicaFullyValidated(p, r, r2)
	// ---------------- R3 composition
	r3 := r.Rule("C24.R3", "every installed target is a validating target with a format validator; distributed targets are created only inside one", 4)
	it := p.Func("(*" + putP + "Streamer).initTarget")
	if it == nil {
		r.Fatalf("C24.R3: Streamer.initTarget not found")
	} else {
		nT := 0
		for _, fn := range p.FuncsIn("pkg/services/object/put") {
			for _, b := range fn.Blocks {
				for _, in := range b.Instrs {
					v, ok := fieldStore(in, "("+putP+"Streamer).target")
					if !ok {
						continue
					}
					nT++
					o := core.FuncName(core.Outer(fn))
					mi, isMI := v.(*ssa.MakeInterface)
					good := o == "(*"+putP+"Streamer).initTarget" && isMI && strings.HasSuffix(mi.X.Type().String(), putP+"validatingTarget")
					if good {
						// the literal sets fmt from the streamer's validator
						al, isAl := mi.X.(*ssa.Alloc)
						good = false
						if isAl {
							for _, ref := range *al.Referrers() {
								if fa, isFA := ref.(*ssa.FieldAddr); isFA && core.FieldAddrName(fa) == "("+putP+"validatingTarget).fmt" {
									for _, r2 := range *fa.Referrers() {
										if st, isSt := r2.(*ssa.Store); isSt {
											if _, path := core.AccessPath(st.Val); len(path) > 0 && path[len(path)-1] == "fmtValidator" {
												good = true
											}
										}
									}
								}
							}
						}
					}
					r3.Check(good, o+"#target=", p.InstrPos(in), "a validatingTarget literal with fmt set from the service's validator", "the streamer's target is assigned something other than a validatingTarget with the format validator set")
				}
			}
		}
		if nT < 2 {
			r.Fatalf("C24.R3: %d assignments of Streamer.target found, expected 2", nT)
		}
		// distributed targets: created only by newDistrubutedWriter, whose results flow only into validatingTarget.nextTarget or newSlicingTarget(...) in initTarget
		core.CheckCallers(p, r3, p.FuncsIn("pkg/services/object/put"), []core.CallerRule{
			{Sink: "(*" + putP + "Streamer).newDistrubutedWriter", MinSites: 2, Allowed: map[string]string{"(*" + putP + "Streamer).initTarget": "wrapped by a validating target there"}},
		})
		for _, s := range core.CallSites([]*ssa.Function{it}, func(s core.Site) bool { return s.Name == "(*"+putP+"Streamer).newDistrubutedWriter" }) {
			good := true
			for _, ref := range *s.Call.Value().Referrers() {
				switch x := ref.(type) {
				case *ssa.MakeInterface:
					for _, r2 := range *x.Referrers() {
						switch y := r2.(type) {
						case *ssa.Store:
							fa, isFA := y.Addr.(*ssa.FieldAddr)
							if !isFA || core.FieldAddrName(fa) != "("+putP+"validatingTarget).nextTarget" {
								good = false
							}
						case ssa.CallInstruction:
							if core.CalleeName(y) != putP+"newSlicingTarget" {
								good = false
							}
						case *ssa.DebugRef:
						default:
							good = false
						}
					}
				case *ssa.MakeClosure, *ssa.DebugRef: // bound method value dTarget.modifyECParentObject
				case ssa.CallInstruction:
					if core.CalleeName(x) != putP+"newSlicingTarget" {
						good = false
					}
				default:
					good = false
				}
			}
			r3.Check(good, core.FuncName(it)+"#newDistrubutedWriter→", p.InstrPos(s.Call), "the distributed target only becomes a validating target's next target (directly or behind the slicer)", "a distributed target escapes the validating wrapper")
		}
	}
	// ---------------- R4 validating target
	r4 := r.Rule("C24.R4", "validatingTarget forwards the header only after format validation; closes the next target only after size and checksum comparisons", 2)
	if wh := p.Func("(*" + putP + "validatingTarget).WriteHeader"); wh == nil {
		r.Fatalf("C24.R4: validatingTarget.WriteHeader not found")
	} else {
		core.CheckEffectsFn(p, r4, wh, core.EffectRule{Min: 1, Guards: []core.Guard{core.G("format-valid", core.ErrNil, "(*pkg/core/object.FormatValidator).Validate").Where(func(s core.Site) bool {
			return core.ParamIndex(wh, s.Call.Common().Args[2]) == 1
		})}, Effect: func(_ *core.Prog, in ssa.Instruction) (string, bool) {
			c, ok := in.(ssa.CallInstruction)
			return "nextTarget.WriteHeader", ok && c.Common().IsInvoke() && c.Common().Method.Name() == "WriteHeader"
		}})
	}
	if cl := p.Func("(*" + putP + "validatingTarget).Close"); cl == nil {
		r.Fatalf("C24.R4: validatingTarget.Close not found")
	} else {
		unprep := core.Guard{Name: "unprepared(node-built)", Comps: []core.Comp{{Result: -1, Kind: core.IsTrue}}, Pure: true, Value: func(_ *ssa.Function, v ssa.Value) bool {
			_, path := core.AccessPath(v)
			_, isLoad := v.(*ssa.UnOp)
			return isLoad && len(path) > 0 && path[len(path)-1] == "unpreparedObject"
		}}
		size := core.Guard{Name: "size-complete", Comps: []core.Comp{{Result: -1, Kind: core.IsFalse}}, Value: func(_ *ssa.Function, v ssa.Value) bool {
			bo, ok := v.(*ssa.BinOp)
			if !ok || bo.Op.String() != "!=" {
				return false
			}
			_, px := core.AccessPath(bo.X)
			_, py := core.AccessPath(bo.Y)
			last := func(p []string) string {
				if len(p) == 0 {
					return ""
				}
				return p[len(p)-1]
			}
			return last(px) == "payloadSz" && last(py) == "writtenPayload" || last(py) == "payloadSz" && last(px) == "writtenPayload"
		}}
		sum := core.G("checksum-matches", core.IsTrue, "bytes.Equal")
		core.CheckEffectsFn(p, r4, cl, core.EffectRule{Min: 1, Guards: []core.Guard{unprep, size, sum}, Derived: []core.Derived{{Name: "payload-verified-or-node-built", Alts: [][]string{{"unprepared(node-built)"}, {"size-complete", "checksum-matches"}}}},
			Need: func(string) []string { return []string{"payload-verified-or-node-built"} }, Effect: func(_ *core.Prog, in ssa.Instruction) (string, bool) {
				c, ok := in.(ssa.CallInstruction)
				return "nextTarget.Close", ok && c.Common().IsInvoke() && c.Common().Method.Name() == "Close"
			}})
	}
	// ---------------- R5 format validator
	r5 := r.Rule("C24.R5", "FormatValidator.validate succeeds for a prepared object only after VerifyID, and after AuthenticateObject unless it is an EC part", 2)
	if fv := p.Func("(*pkg/core/object.FormatValidator).validate"); fv == nil {
		r.Fatalf("C24.R5: FormatValidator.validate not found")
	} else {
		gs := []core.Guard{
			{Name: "node-built(unprepared)", Comps: []core.Comp{{Result: -1, Kind: core.IsTrue}}, Pure: true, Value: func(fn *ssa.Function, v ssa.Value) bool { return core.ParamIndex(fn, v) == 3 }},
			core.G("id-verified", core.ErrNil, "(github.com/nspcc-dev/neofs-sdk-go/object.Object).VerifyID", "(*github.com/nspcc-dev/neofs-sdk-go/object.Object).VerifyID").Where(func(s core.Site) bool { return core.RootParam(fv, s.Call.Common().Args[0]) == 2 }),
			core.G("signature-authenticated", core.ErrNil, "internal/crypto.AuthenticateObject"),
			{Name: "is-ec-part", Match: func(s core.Site) bool { return s.Name == "pkg/core/object.checkEC" }, Comps: []core.Comp{{Result: 0, Kind: core.IsTrue}}},
		}
		der := []core.Derived{
			{Name: "identifier-checked", Alts: [][]string{{"node-built(unprepared)"}, {"id-verified"}}},
			{Name: "authenticated-or-ec-part", Alts: [][]string{{"node-built(unprepared)"}, {"signature-authenticated"}, {"is-ec-part"}}},
		}
		core.CheckSuccessFn(p, r5, fv, core.SuccessRule{ResultIdx: -1, MinReturns: 2, Guards: gs, Derived: der, Need: []string{"identifier-checked", "authenticated-or-ec-part"}})
		// Validate (exported) only delegates to validate at nesting level 0
		if ex := p.Func("(*pkg/core/object.FormatValidator).Validate"); ex == nil {
			r.Fatalf("C24.R5: FormatValidator.Validate not found")
		} else {
			core.CheckSuccessFn(p, r5, ex, core.SuccessRule{ResultIdx: -1, MinReturns: 1, Guards: []core.Guard{core.G("validated", core.ErrNil, "(*pkg/core/object.FormatValidator).validate")}})
		}
	}
	// ---------------- R6 AuthenticateObject: session binding and the sessions cache
	r6 := r.Rule("C24.R6", "AuthenticateObject succeeds for an object created within a session only after the token was found to be issued for the object's signer (on every call, outside the cache); the cached part depends on the token only", 7)
	if ao := p.Func("internal/crypto.AuthenticateObject"); ao == nil {
		r.Fatalf("C24.R6: AuthenticateObject not found")
	} else {
		cellFrom := func(v ssa.Value, suffix string) bool {
			if c, isC := v.(*ssa.Call); isC && strings.HasSuffix(core.CalleeName(c), suffix) {
				return true // loads of a single-store cell are canonicalised to the stored value
			}
			u, isLoad := v.(*ssa.UnOp)
			if !isLoad {
				return false
			}
			al, ok := u.X.(*ssa.Alloc)
			if !ok || al.Referrers() == nil {
				return false
			}
			for _, ref := range *al.Referrers() {
				if st, isSt := ref.(*ssa.Store); isSt && st.Addr == al {
					if c, isC := st.Val.(*ssa.Call); isC && strings.HasSuffix(core.CalleeName(c), suffix) {
						return true
					}
				}
			}
			return false
		}
		gs := []core.Guard{
			{Name: "v1-issued-for-signer", Match: func(s core.Site) bool {
				return strings.HasSuffix(s.Name, ").AssertAuthKey") && strings.Contains(s.Name, "neofs-sdk-go/session.")
			}, Comps: []core.Comp{{Result: -1, Kind: core.IsTrue}}},
			{Name: "no-v1-token", Pure: true, Comps: []core.Comp{{Result: -1, Kind: core.IsNil}}, Value: func(_ *ssa.Function, v ssa.Value) bool { return cellFrom(v, "object.Object).SessionToken") }},
			{Name: "v2-issued-for-signer", Match: func(s core.Site) bool { return strings.HasSuffix(s.Name, "session/v2.Token).AssertAuthority") }, Comps: []core.Comp{{Result: 0, Kind: core.IsTrue}, {Result: 1, Kind: core.ErrNil}}},
			{Name: "no-v2-token", Pure: true, Comps: []core.Comp{{Result: -1, Kind: core.IsNil}}, Value: func(_ *ssa.Function, v ssa.Value) bool { return cellFrom(v, "object.Object).SessionTokenV2") }},
			{Name: "non-ecdsa-scheme", Pure: true, Comps: []core.Comp{{Result: -1, Kind: core.IsNil}}, Value: func(_ *ssa.Function, v ssa.Value) bool {
				if v.Type().String() != "*crypto/ecdsa.PublicKey" {
					return false
				}
				_, isPhi := v.(*ssa.Phi)
				al, isCell := cellOf(v).(*ssa.Alloc)
				return isPhi || isCell && al != v
			}},
		}
		der := []core.Derived{
			{Name: "v1-session-bound-to-signer", Alts: [][]string{{"v1-issued-for-signer"}, {"no-v1-token"}}},
			{Name: "v2-session-bound-to-signer", Alts: [][]string{{"v2-issued-for-signer"}, {"no-v2-token"}, {"non-ecdsa-scheme"}}},
		}
		core.CheckSuccessFn(p, r6, ao, core.SuccessRule{ResultIdx: -1, MinReturns: 1, Guards: gs, Derived: der, Need: []string{"v1-session-bound-to-signer", "v2-session-bound-to-signer"}})
		if n := sessionCacheOnMissPurity(p, r6, []*ssa.Function{ao}); n < 2 {
			r.Fatalf("C24.R6: expected the V1 and V2 sessions-cache call sites in AuthenticateObject, found %d", n)
		}
	}
	// ---------------- R7 a failed write of the next target is never reported as success
	r7 := r.Rule("C24.R7", "validatingTarget.Write reports success only if the next target's Write and the quota check both returned nil (a dropped write error lets the client stream on into a slicer that has already failed)", 2)
	if wfn := p.Func("(*pkg/services/object/put.validatingTarget).Write"); wfn == nil {
		r.Fatalf("C24.R7: validatingTarget.Write not found")
	} else {
		core.CheckSuccessFn(p, r7, wfn, core.SuccessRule{ResultIdx: -1, MinReturns: 1, Guards: []core.Guard{
			{Name: "next-target-write-ok", Match: func(s core.Site) bool {
				cc := s.Call.Common()
				return cc.IsInvoke() && cc.Method.Name() == "Write" && strings.HasSuffix(cc.Value.Type().String(), "object/internal.Target")
			}, Comps: []core.Comp{{Result: 1, Kind: core.ErrNil}}},
			core.G("within-quota", core.ErrNil, "(*pkg/services/object/put.validatingTarget).checkQuotaLimits"),
		}})
	}
	// ---------------- R8 an EC part is bound to its position
	r8 := r.Rule("C24.R8", "checkECParent succeeds only after the part's checksum text compared equal to the slice of the signed parent's checksum list whose start is computed from the part's own rule and part index (EC parts are unsigned: this is the only thing that ties a payload to its position)", 1)
	if cf := p.Func("pkg/core/object.checkECParent"); cf == nil {
		r.Fatalf("C24.R8: checkECParent not found")
	} else {
		// does v (an int expression) depend on the field f of the PartInfo parameter?
		dependsOn := func(v ssa.Value, field string) bool {
			seen := map[ssa.Value]bool{}
			var rec func(x ssa.Value, d int) bool
			rec = func(x ssa.Value, d int) bool {
				if x == nil || seen[x] || d == 0 {
					return false
				}
				seen[x] = true
				switch y := x.(type) {
				case *ssa.UnOp:
					if fa, ok := y.X.(*ssa.FieldAddr); ok && strings.HasSuffix(core.FieldAddrName(fa), "ec.PartInfo)."+field) {
						return true
					}
					return rec(y.X, d-1)
				case *ssa.Field:
					return strings.HasSuffix(core.FieldAddrNameOfField(y), "ec.PartInfo)."+field)
				case *ssa.BinOp:
					return rec(y.X, d-1) || rec(y.Y, d-1)
				case *ssa.Phi:
					for _, e := range y.Edges {
						if rec(e, d-1) {
							return true
						}
					}
				case *ssa.Convert:
					return rec(y.X, d-1)
				}
				return false
			}
			return rec(v, 10)
		}
		usesRuleIndex := false
		for _, b := range cf.Blocks {
			for _, in := range b.Instrs {
				if bo, ok := in.(*ssa.BinOp); ok && bo.Op == token.EQL && (dependsOn(bo.X, "RuleIndex") || dependsOn(bo.Y, "RuleIndex")) {
					usesRuleIndex = true
				}
			}
		}
		slot := core.Guard{Name: "checksum-equals-its-own-slot", Pure: true, Comps: []core.Comp{{Result: -1, Kind: core.IsFalse}}, Value: func(_ *ssa.Function, v ssa.Value) bool {
			bo, ok := v.(*ssa.BinOp)
			if !ok || bo.Op != token.NEQ || bo.X.Type().String() != "string" {
				return false
			}
			for _, side := range []ssa.Value{bo.X, bo.Y} {
				if sl, isSl := side.(*ssa.Slice); isSl && sl.Low != nil && dependsOn(sl.Low, "Index") && usesRuleIndex {
					return true
				}
			}
			return false
		}}
		slotEq := slot
		slotEq.Name = "checksum-equals-its-own-slot(eq-form)"
		slotEq.Comps = []core.Comp{{Result: -1, Kind: core.IsTrue}}
		slotEq.Value = func(_ *ssa.Function, v ssa.Value) bool {
			bo, ok := v.(*ssa.BinOp)
			if !ok || bo.Op != token.EQL || bo.X.Type().String() != "string" {
				return false
			}
			for _, side := range []ssa.Value{bo.X, bo.Y} {
				if sl, isSl := side.(*ssa.Slice); isSl && sl.Low != nil && dependsOn(sl.Low, "Index") && usesRuleIndex {
					return true
				}
			}
			return false
		}
		core.CheckSuccessFn(p, r8, cf, core.SuccessRule{ResultIdx: -1, MinReturns: 1, Guards: []core.Guard{slot, slotEq},
			Derived: []core.Derived{{Name: "part-bound-to-its-position", Alts: [][]string{{"checksum-equals-its-own-slot"}, {"checksum-equals-its-own-slot(eq-form)"}}}}, Need: []string{"part-bound-to-its-position"}})
	}
	// ---------------- R9 the payload hash of a stream starts from nothing
	r9 := r.Rule("C24.R9", "the hasher a validating target compares the declared payload checksum with is a fresh one for every stream: the field is assigned a value returned by a hash constructor, or by a helper all of whose results are constructor results or were Reset() before being handed out (state left by an earlier, aborted stream would make the verdict depend on that stream)", 1)
	nH := 0
	var freshHash func(v ssa.Value, depth int) bool
	freshHash = func(v ssa.Value, depth int) bool {
		if depth == 0 {
			return false
		}
		switch x := v.(type) {
		case *ssa.MakeInterface:
			return freshHash(x.X, depth)
		case *ssa.ChangeInterface:
			return freshHash(x.X, depth)
		case *ssa.Call:
			cal := core.StaticCallee(x)
			if cal == nil {
				return false
			}
			if pk := core.FuncPkg(cal); pk != nil && (strings.HasPrefix(pk.Path(), "crypto/") || strings.HasPrefix(pk.Path(), "hash/")) && strings.HasPrefix(cal.Name(), "New") {
				return true
			}
			if cal.Blocks == nil {
				return false
			}
			// a helper: every returned value is fresh, or Reset() is called on it on every path before the return
			okAll := true
			for _, b := range cal.Blocks {
				ret, isRet := b.Instrs[len(b.Instrs)-1].(*ssa.Return)
				if !isRet || len(ret.Results) == 0 {
					continue
				}
				rv := ret.Results[0]
				if freshHash(rv, depth-1) {
					continue
				}
				reset := false
				for _, cs := range core.CallSites([]*ssa.Function{cal}, func(s core.Site) bool {
					return s.Call.Common().IsInvoke() && s.Call.Common().Method.Name() == "Reset" || strings.HasSuffix(s.Name, ").Reset")
				}) {
					ci := cs.Call.(ssa.Instruction)
					recv := cs.Call.Common().Value
					if !cs.Call.Common().IsInvoke() && len(cs.Call.Common().Args) > 0 {
						recv = cs.Call.Common().Args[0]
					}
					if recv == rv && (ci.Block() == b || ci.Block().Dominates(b)) {
						reset = true
					}
				}
				if !reset {
					okAll = false
				}
			}
			return okAll
		}
		return false
	}
	for _, fn := range p.FuncsIn("pkg/services/object/put") {
		for _, b := range fn.Blocks {
			for _, in := range b.Instrs {
				st, ok := in.(*ssa.Store)
				if !ok {
					continue
				}
				fa, isFA := st.Addr.(*ssa.FieldAddr)
				if !isFA || core.FieldAddrName(fa) != "("+putP+"validatingTarget).hash" {
					continue
				}
				nH++
				r9.Check(freshHash(st.Val, 3), core.FuncName(fn)+"#payload-hasher", p.InstrPos(in), "a fresh hasher",
					"the stream's payload hasher is not provably fresh (a pooled hasher that is not reset keeps the bytes of an earlier stream that was aborted before its checksum comparison: the next object hashed with it passes with a checksum that is not the hash of its payload)")
			}
		}
	}
	if nH == 0 {
		r.Fatalf("C24.R9: no assignment of validatingTarget.hash found")
	}
	r.Explain += " (R9) the checksum comparison of R4 is over this stream's bytes only: the hasher stored in the validating target comes from a hash constructor (or from a helper that resets what it hands out)."

}

// replicaFullyValidated: shared by C24.R2 and C31.R6.
func replicaFullyValidated(p *core.Prog, r *core.Report, r2 *core.RuleH) {
	if vs := p.Func("(*" + putP + "Service).ValidateAndStoreObjectLocally"); vs == nil {
		r.Fatalf("%s: ValidateAndStoreObjectLocally not found", r2.ID())
	} else {
		gs := []core.Guard{
			core.G("format-valid", core.ErrNil, "(*pkg/core/object.FormatValidator).Validate").Where(func(s core.Site) bool {
				a := s.Call.Common().Args // v, ctx, obj, unprepared, allowAllVersions
				c, ok := a[3].(*ssa.Const)
				return ok && !constTrue(c) && core.RootParam(vs, a[2]) == 2
			}),
			core.G("content-valid", core.ErrNil, "(*pkg/core/object.FormatValidator).ValidateContent").Where(func(s core.Site) bool {
				return core.RootParam(vs, s.Call.Common().Args[2]) == 2
			}),
			core.G("checksum-matches", core.IsTrue, "bytes.Equal"),
			{Name: "declared-size-is-payload-size", Comps: []core.Comp{{Result: -1, Kind: core.IsFalse}}, Value: func(_ *ssa.Function, v ssa.Value) bool {
				bo, ok := v.(*ssa.BinOp) // payloadSz != uint64(len(payload))
				if !ok || bo.Op.String() != "!=" {
					return false
				}
				isLen := func(x ssa.Value) bool {
					c, ok := core.Unwrap(x).(*ssa.Call)
					return ok && core.CalleeName(c) == "builtin.len"
				}
				return isLen(bo.X) || isLen(bo.Y)
			}},
			{Name: "within-size-limit", Comps: []core.Comp{{Result: -1, Kind: core.IsFalse}}, Value: func(_ *ssa.Function, v ssa.Value) bool {
				bo, ok := v.(*ssa.BinOp) // payloadSz > maxPayloadSz
				if !ok || bo.Op.String() != ">" {
					return false
				}
				c, isC := bo.Y.(*ssa.Call)
				return isC && strings.HasSuffix(core.CalleeName(c), ").MaxObjectSize")
			}},
		}
		core.CheckEffectsFn(p, r2, vs, core.EffectRule{Min: 1, Guards: gs, Effect: core.CallTo(putP + "putObjectLocally")})
		// the checksum compared is SHA-256 of the object's payload with the header's checksum value
		okSum := false
		for _, s := range core.CallSites([]*ssa.Function{vs}, func(s core.Site) bool { return s.Name == "crypto/sha256.Sum256" }) {
			if c, isC := s.Call.Common().Args[0].(*ssa.Call); isC && strings.HasSuffix(core.CalleeName(c), "object.Object).Payload") {
				okSum = true
			}
		}
		r2.Check(okSum, core.FuncName(vs)+"#sha256(payload)", p.Pos(vs.Pos()), "the compared digest is SHA-256 of the object's own payload", "the digest compared with the header checksum is not SHA-256 of the object's payload")
	}
}
