package rules

import (
	"go/token"
	"sort"
	"strings"

	"golang.org/x/tools/go/ssa"

	"verif/analyzer/core"
)

// Shared machinery for shard modes (C14, C43).

const (
	shardT  = "(*pkg/local_object_storage/shard.Shard)"
	modeRO  = "(pkg/local_object_storage/shard/mode.Mode).ReadOnly"
	modeNM  = "(pkg/local_object_storage/shard/mode.Mode).NoMetabase"
	shModeF = "(pkg/local_object_storage/shard.Info).Mode"
)

// metabaseMutators: methods of *metabase.DB that (transitively) open a bbolt write transaction.
func metabaseMutators(p *core.Prog) map[string]bool {
	out := map[string]bool{}
	for _, fn := range p.FuncsIn("pkg/local_object_storage/metabase") {
		if fn.Parent() != nil || fn.Signature.Recv() == nil || !strings.HasPrefix(core.FuncName(fn), "(*pkg/local_object_storage/metabase.DB).") {
			continue
		}
		if p.Reaches("bbolt-write", fn, func(in ssa.Instruction) bool {
			c, ok := in.(ssa.CallInstruction)
			if !ok {
				return false
			}
			n := core.CalleeName(c)
			return n == "(*github.com/nspcc-dev/bbolt.DB).Update" || n == "(*github.com/nspcc-dev/bbolt.DB).Batch"
		}) {
			out[core.FuncName(fn)] = true
		}
	}
	return out
}

// shardMutatorCall classifies a call instruction inside the shard package as a call that
// changes stored objects, metadata or write-cache contents.
func shardMutatorCall(p *core.Prog, mbMut map[string]bool, c ssa.CallInstruction) (string, bool) {
	n := core.CalleeName(c)
	switch {
	case mbMut[n]:
		return n, true
	case n == "(pkg/local_object_storage/blobstor/common.Storage).Put", n == "(pkg/local_object_storage/blobstor/common.Storage).PutBatch", n == "(pkg/local_object_storage/blobstor/common.Storage).Delete":
		return n, true
	case n == "(pkg/local_object_storage/writecache.Cache).Put", n == "(pkg/local_object_storage/writecache.Cache).Delete", n == "(pkg/local_object_storage/writecache.Cache).Flush":
		return n, true
	}
	return "", false
}

// modeLoad: v is (a copy of) the shard's current mode: load of s.info.Mode, or s.GetMode().
func modeLoad(v ssa.Value) bool {
	switch x := v.(type) {
	case *ssa.UnOp:
		if x.Op == token.MUL {
			if fa, ok := x.X.(*ssa.FieldAddr); ok {
				return core.FieldAddrName(fa) == shModeF
			}
		}
	case *ssa.Call:
		return core.CalleeName(x) == shardT+".GetMode"
	}
	return false
}

// shardModeGuards: "not read-only" facts about the shard's own mode.
func shardModeGuards() ([]core.Guard, []core.Derived) {
	g := []core.Guard{
		{Name: "mode.ReadOnly()==false", Match: func(s core.Site) bool {
			return s.Name == modeRO && modeLoad(s.Call.Common().Args[0])
		}, Comps: []core.Comp{{Result: -1, Kind: core.IsFalse}}},
		{Name: "mode==ReadWrite", Comps: []core.Comp{{Result: -1, Kind: core.IsFalse}}, Value: func(_ *ssa.Function, v ssa.Value) bool {
			bo, ok := v.(*ssa.BinOp)
			if !ok || bo.Op != token.NEQ || !modeLoad(bo.X) {
				return false
			}
			k, isK := bo.Y.(*ssa.Const)
			return isK && k.Value != nil && k.Uint64() == 0
		}},
		{Name: "mode==ReadWrite(eq)", Comps: []core.Comp{{Result: -1, Kind: core.IsTrue}}, Value: func(_ *ssa.Function, v ssa.Value) bool {
			bo, ok := v.(*ssa.BinOp)
			if !ok || bo.Op != token.EQL || !modeLoad(bo.X) {
				return false
			}
			k, isK := bo.Y.(*ssa.Const)
			return isK && k.Value != nil && k.Uint64() == 0
		}},
	}
	return g, []core.Derived{{Name: "shard-writable", Alts: [][]string{{"mode.ReadOnly()==false"}, {"mode==ReadWrite"}, {"mode==ReadWrite(eq)"}}}}
}

func sortedKeys(m map[string]bool) []string {
	var out []string
	for k := range m {
		out = append(out, k)
	}
	sort.Strings(out)
	return out
}
