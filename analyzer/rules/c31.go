package rules

import (
	"go/token"
	"strings"

	"golang.org/x/tools/go/ssa"

	"verif/analyzer/core"
)

// C31 — replication requests are accepted only from container nodes for container nodes.
func init() {
	register(&Check{ID: "C31", Level: "proof", Pkgs: []string{"./pkg/services/object", "./pkg/services/object/put", "./cmd/neofs-node"}, Run: runC31})
}

// flagSetBy returns a Guard.Value predicate: v is a load of the local flag variable that
// is captured by the closure passed to a call of callee (e.g. serverInCnr).
func flagSetBy(callee string) func(fn *ssa.Function, v ssa.Value) bool {
	return func(fn *ssa.Function, v ssa.Value) bool {
		u, ok := v.(*ssa.UnOp)
		if !ok || u.Op != token.MUL {
			return false
		}
		al, ok := u.X.(*ssa.Alloc)
		if !ok {
			return false
		}
		for _, ref := range *al.Referrers() {
			mc, ok := ref.(*ssa.MakeClosure)
			if !ok {
				continue
			}
			for _, r2 := range *mc.Referrers() {
				if c, ok := r2.(ssa.CallInstruction); ok && core.CalleeName(c) == callee {
					return true
				}
			}
		}
		return false
	}
}

func runC31(p *core.Prog, r *core.Report) {
	r.Explain = "Decides that in Server.Replicate the single call that stores (Storage.VerifyAndStoreObjectLocally) is dominated on all CFG paths by: signature Verify(object ID, signature)==true with the request's own fields, ForEachContainerNodePublicKey==nil with the server-membership flag true, ForEachContainerNodePublicKeyInLastTwoEpochs==nil with the client-membership flag true, objectFromMessage==nil; that the two flags are assigned only from IsOwnPublicKey / bytes.Equal(node key, request signature key); that no other storage call exists in the handler; and that the storage adapter in cmd/neofs-node maps VerifyAndStoreObjectLocally to putsvc.ValidateAndStoreObjectLocally (full validation, C24). (R4) the per-epoch network-map cache that the container-membership answers are computed from serves a slot only when its Epoch() equals the requested one, otherwise only what was just read from the chain without error. Not covered: the two-epoch iteration inside the FS-chain adapter."
	fn := p.Func(objSrv + ".Replicate")
	if fn == nil {
		r.Fatalf("C31: Replicate not found")
		return
	}
	const forEach = "(pkg/services/object.FSChain).ForEachContainerNodePublicKey"
	const forEach2 = "(pkg/services/object.FSChain).ForEachContainerNodePublicKeyInLastTwoEpochs"
	mr := core.NewMemReach(fn)
	pathIs := func(v ssa.Value, want ...string) bool {
		root, path := core.AccessPathM(mr, v)
		if core.ParamIndex(fn, root) != 2 { // (s, ctx, req)
			return false
		}
		return strings.Join(path, ".") == strings.Join(want, ".")
	}
	guards := []core.Guard{
		core.G("signature-verify", core.IsTrue, "(github.com/nspcc-dev/neofs-sdk-go/crypto.PublicKey).Verify").Where(func(s core.Site) bool {
			a := s.Call.Common().Args
			return len(a) == 2 && pathIs(a[0], "Object", "ObjectId", "Value") && pathIs(a[1], "Signature", "Sign")
		}),
		core.G("key-decode", core.ErrNil, "(github.com/nspcc-dev/neofs-sdk-go/crypto.PublicKey).Decode").Where(func(s core.Site) bool {
			a := s.Call.Common().Args
			return len(a) == 1 && pathIs(a[0], "Signature", "Key")
		}),
		core.G("container-nodes", core.ErrNil, forEach),
		{Name: "server-in-container", Comps: []core.Comp{{Result: -1, Kind: core.IsTrue}}, Value: flagSetBy(forEach)},
		core.G("container-nodes-two-epochs", core.ErrNil, forEach2),
		{Name: "client-in-container", Comps: []core.Comp{{Result: -1, Kind: core.IsTrue}}, Value: flagSetBy(forEach2)},
		core.G("object-decoded", core.ErrNil, "pkg/services/object.objectFromMessage"),
		core.G("stored", core.ErrNil, "(pkg/services/object.Storage).VerifyAndStoreObjectLocally"),
	}
	r1 := r.Rule("C31.R1", "VerifyAndStoreObjectLocally in Replicate is dominated by signature, server-in-container, client-in-container(last two epochs) and decode guards", 7)
	core.CheckEffectsFn(p, r1, fn, core.EffectRule{Guards: guards, Min: 1, Effect: func(p *core.Prog, in ssa.Instruction) (string, bool) {
		d, ok := objPrimitiveEffect(in)
		if ok {
			return d, true
		}
		if c, isC := in.(ssa.CallInstruction); isC {
			if cal := core.StaticCallee(c); cal != nil && reachesObjEffect(p, cal) {
				return "call " + core.FuncName(cal), true
			}
			if core.CalleeName(c) == objSrv+".metaInfoSignature" {
				return "call metaInfoSignature", true
			}
		}
		return "", false
	}, Need: func(desc string) []string {
		all := []string{"signature-verify", "container-nodes", "server-in-container", "container-nodes-two-epochs", "client-in-container", "object-decoded"}
		if strings.HasSuffix(desc, "VerifyAndStoreObjectLocally") {
			return all
		}
		return append(all, "stored")
	}})
	// R3: flag provenance
	r3 := r.Rule("C31.R3", "serverInCnr is assigned only from IsOwnPublicKey(node key); clientInCnr only from bytes.Equal(node key, req.Signature.Key)", 2)
	for _, cs := range core.CallSites([]*ssa.Function{fn}, func(s core.Site) bool { return s.Name == forEach || s.Name == forEach2 }) {
		args := cs.Call.Common().Args
		var clo *ssa.MakeClosure
		for _, a := range args {
			if mc, ok := a.(*ssa.MakeClosure); ok {
				clo = mc
			}
		}
		key := core.FuncName(fn) + "#" + cs.Name + "#callback"
		if clo == nil {
			r3.Bad(key, p.InstrPos(cs.Call), "callback is not a closure literal: cannot establish flag provenance")
			continue
		}
		cf := clo.Fn.(*ssa.Function)
		nst, good := 0, true
		why := ""
		for _, b := range cf.Blocks {
			for _, in := range b.Instrs {
				st, ok := in.(*ssa.Store)
				if !ok {
					continue
				}
				if _, isFV := st.Addr.(*ssa.FreeVar); !isFV {
					continue
				}
				nst++
				c, ok := st.Val.(*ssa.Call)
				if !ok {
					good, why = false, "flag assigned from a non-call value"
					continue
				}
				n := core.CalleeName(c)
				if cs.Name == forEach {
					if n != "(pkg/services/object.FSChain).IsOwnPublicKey" || core.ParamIndex(cf, c.Call.Args[0]) != 0 {
						good, why = false, "server flag not assigned from IsOwnPublicKey(callback key)"
					}
				} else {
					if n != "bytes.Equal" {
						good, why = false, "client flag not assigned from bytes.Equal"
						continue
					}
					a0, a1 := c.Call.Args[0], c.Call.Args[1]
					isKey := func(v ssa.Value) bool { return core.ParamIndex(cf, v) == 0 }
					isReqKey := func(v ssa.Value) bool {
						_, path := core.AccessPath(v)
						return strings.HasSuffix(strings.Join(path, "."), "Signature.Key")
					}
					if !(isKey(a0) && isReqKey(a1) || isKey(a1) && isReqKey(a0)) {
						good, why = false, "client flag not computed from (callback key, req.Signature.Key)"
					}
				}
			}
		}
		if nst == 0 {
			good, why = false, "callback never assigns the membership flag"
		}
		r3.Check(good, key, p.InstrPos(cs.Call), "flag assigned only from the membership predicate", why)
	}
	// R2: adapter maps to full validation
	r2 := r.Rule("C31.R2", "cmd/neofs-node's Storage adapter implements VerifyAndStoreObjectLocally by calling putsvc ValidateAndStoreObjectLocally", 1)
	found := false
	for _, f := range p.FuncsIn("cmd/neofs-node") {
		if f.Name() != "VerifyAndStoreObjectLocally" || f.Signature.Recv() == nil {
			continue
		}
		found = true
		n := len(core.CallSites([]*ssa.Function{f}, func(s core.Site) bool {
			return s.Name == "(*pkg/services/object/put.Service).ValidateAndStoreObjectLocally"
		}))
		r2.Check(n > 0, core.FuncName(f), p.Pos(f.Pos()), "adapter delegates to ValidateAndStoreObjectLocally", "adapter does not call putsvc.ValidateAndStoreObjectLocally: replicated objects bypass validation")
	}
	if !found {
		r.Fatalf("C31.R2: no VerifyAndStoreObjectLocally adapter found in cmd/neofs-node")
	}
	// ---------------- R5 'is this node in the container' means: at the current epoch
	r5 := r.Rule("C31.R5", "the receiver-side membership question is answered from the current epoch only: the node's adapter for ForEachContainerNodePublicKey delegates to the placement service's current-epoch iteration with its own arguments, that iteration asks for no previous epoch, and forEachContainerNode applies the policy to a second epoch only when asked to", 3)
	receiverMembershipIsCurrentEpoch(p, r, r5)
	r.Explain += " (R5) the server-in-container test of Replicate iterates the nodes of the CURRENT epoch: cmd/neofs-node's adapter method ForEachContainerNodePublicKey calls the placement service's method of the same name (not the two-epoch one) with its own container id and callback; that method passes 'no previous epoch' to forEachContainerNode, which applies the policy at a second epoch only on the path where the flag is set."
	// ---------------- R6 'full validation' of a replica includes its payload (shared with C24.R2)
	r6 := r.Rule("C31.R6", "the local store behind Replicate (ValidateAndStoreObjectLocally) is reached only after format, content, declared-size, size-limit and payload-checksum checks — for every object, also one that arrives with an empty payload field", 5)
	replicaFullyValidated(p, r, r6)
	r.Explain += " (R6, shared with C24.R2) what R2's adapter delegates to validates the payload against the signed header on every path to the store: a replica whose header declares a payload but arrives without it, or whose checksum is not the SHA-256 of what arrived, is refused."
	// ---------------- R4 the node sets of an epoch come from that epoch's network map
	r4 := r.Rule("C31.R4", "the per-epoch network map cache answers a request for epoch N only with a map whose Epoch() == N, or with what was just read from the chain without error: a stale slot (N-10, N-20, ...) is never served as epoch N", 1)
	if gfn := p.Func("(*cmd/neofs-node.lruNetCache).get"); gfn == nil {
		r.Fatalf("C31.R4: lruNetCache.get not found")
	} else {
		gs := []core.Guard{
			{Name: "slot-holds-the-requested-epoch", Pure: true, Comps: []core.Comp{{Result: -1, Kind: core.IsTrue}}, Value: func(f *ssa.Function, v ssa.Value) bool {
				bo, ok := v.(*ssa.BinOp)
				if !ok || bo.Op.String() != "==" {
					return false
				}
				isEpoch := func(x ssa.Value) bool {
					c, isC := x.(*ssa.Call)
					return isC && strings.HasSuffix(core.CalleeName(c), "netmap.NetMap).Epoch")
				}
				return isEpoch(bo.X) && core.ParamIndex(f, bo.Y) == 1 || isEpoch(bo.Y) && core.ParamIndex(f, bo.X) == 1
			}},
			{Name: "read-from-the-chain-now", Comps: []core.Comp{{Result: -1, Kind: core.ErrNil}}, Match: func(s core.Site) bool {
				return strings.HasSuffix(s.Name, ".netRdr") && len(s.Call.Common().Args) > 0 && core.ParamIndex(gfn, s.Call.Common().Args[len(s.Call.Common().Args)-1]) == 1
			}},
		}
		core.CheckSuccessFn(p, r4, gfn, core.SuccessRule{ResultIdx: -1, MinReturns: 2, Guards: gs,
			Derived: []core.Derived{{Name: "map-of-the-requested-epoch", Alts: [][]string{{"slot-holds-the-requested-epoch"}, {"read-from-the-chain-now"}}}}, Need: []string{"map-of-the-requested-epoch"}})
	}
}

func receiverMembershipIsCurrentEpoch(p *core.Prog, r *core.Report, h *core.RuleH) {
	const plT = "(*pkg/services/object/placement.Service)"
	// (a) adapter
	found := false
	for _, f := range p.FuncsIn("cmd/neofs-node") {
		if f.Name() != "ForEachContainerNodePublicKey" || f.Signature.Recv() == nil || f.Blocks == nil {
			continue
		}
		found = true
		cur := core.CallSites([]*ssa.Function{f}, func(s core.Site) bool { return s.Name == plT+".ForEachContainerNodePublicKey" })
		two := core.CallSites([]*ssa.Function{f}, func(s core.Site) bool {
			return strings.HasSuffix(s.Name, ".ForEachContainerNodePublicKeyInLastTwoEpochs")
		})
		ok := len(cur) == 1 && len(two) == 0
		if ok {
			a := cur[0].Call.Common().Args
			ok = len(a) == 3 && core.ParamIndex(f, a[1]) == 1 && core.ParamIndex(f, a[2]) == 2
		}
		h.Check(ok, core.FuncName(f)+"#delegation", p.Pos(f.Pos()), "delegates to the current-epoch iteration with its own arguments",
			"the node's current-epoch membership iteration does not delegate to placement.Service.ForEachContainerNodePublicKey(id, f): a node that left the container (or whose current policy cannot be applied) still passes Replicate's server-in-container test and stores the replica")
	}
	if !found {
		r.Fatalf("C31.R5: no ForEachContainerNodePublicKey adapter found in cmd/neofs-node")
	}
	// (b) the service method asks for the current epoch only
	if cf := p.Func(plT + ".ForEachContainerNodePublicKey"); cf == nil {
		r.Fatalf("C31.R5: placement.Service.ForEachContainerNodePublicKey not found")
	} else {
		cs := core.CallSites([]*ssa.Function{cf}, func(s core.Site) bool { return s.Name == plT+".forEachContainerNode" })
		ok := len(cs) == 1
		if ok {
			a := cs[0].Call.Common().Args
			c, isC := a[2].(*ssa.Const)
			bv, isB := false, false
			if isC {
				bv, isB = constBool(c)
			}
			ok = len(a) == 4 && core.ParamIndex(cf, a[1]) == 1 && isB && !bv
		}
		h.Check(ok, core.FuncName(cf)+"#current-only", p.Pos(cf.Pos()), "asks forEachContainerNode for the current epoch only", "placement.Service.ForEachContainerNodePublicKey no longer asks for the current epoch only")
	}
	// (c) a second epoch only on request
	if ff := p.Func(plT + ".forEachContainerNode"); ff == nil {
		r.Fatalf("C31.R5: forEachContainerNode not found")
	} else {
		first := true
		g := core.Guard{Name: "previous-epoch-requested", Comps: []core.Comp{{Result: -1, Kind: core.IsFalse}}, Value: func(f *ssa.Function, v ssa.Value) bool {
			u, ok := v.(*ssa.UnOp)
			return ok && u.Op == token.NOT && core.ParamIndex(f, u.X) == 2
		}}
		g2 := core.Guard{Name: "previous-epoch-requested(direct)", Comps: []core.Comp{{Result: -1, Kind: core.IsTrue}}, Value: func(f *ssa.Function, v ssa.Value) bool {
			return core.ParamIndex(f, v) == 2
		}}
		core.CheckEffectsFn(p, h, ff, core.EffectRule{Min: 1, Guards: []core.Guard{g, g2},
			Derived: []core.Derived{{Name: "asked-for-two-epochs", Alts: [][]string{{g.Name}, {g2.Name}}}},
			Effect: func(_ *core.Prog, in ssa.Instruction) (string, bool) {
				c, ok := in.(ssa.CallInstruction)
				if !ok || !strings.HasSuffix(core.CalleeName(c), ".applyAtEpoch") {
					return "", false
				}
				_ = first
				return "policy-at-another-epoch", true
			}, Need: func(string) []string { return []string{"asked-for-two-epochs"} }})
	}
}
