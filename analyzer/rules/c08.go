package rules

import (
	"go/token"
	"strings"

	"golang.org/x/tools/go/ssa"

	"verif/analyzer/core"
)

// C08 — an object locked through the engine stays retrievable until the lock expires (broadcast / rollback structure).
func init() {
	register(&Check{ID: "C08", Level: "other", Pkgs: []string{"./pkg/local_object_storage/engine", "./pkg/local_object_storage/metabase"}, Run: runC08})
}

func runC08(p *core.Prog, r *core.Report) {
	r.Explain = "Decides the engine-level structure that makes a rejected tombstone harmless, on all CFG paths of StorageEngine.broadcastObject (used for TOMBSTONE, LOCK and LINK): (R1) a shard is recorded as having accepted the object only after putToShard returned nil or 'already exists'; (R2) the broadcast is declared fatal exactly for the verdicts {lock of a non-regular object, object is locked, already removed}, and a fatal verdict ends the loop; (R3) after a fatal verdict the object is deleted again from EVERY shard recorded as having accepted it (the rollback loop ranges over the whole list and addresses the broadcast object itself), and (R3) success is reported only when the broadcast was not fatal and at least one shard accepted. (R4, shared with C19) evacuation accounts for every listed object whatever its type, so a lock stored only on the drained shard moves with the object it protects. (R5, shared with C07/C01) the per-shard lock lookup ends its search only at a live lock, so with several locks an expired one cannot hide a live one from the tombstone verdict. (R6, shared with C07) the engine-wide lock check used by expired objects handling leaves its walk over the shards early only with 'locked', so a shard that cannot answer does not hide a lock known to another shard. The rest of the per-shard protection (a tombstone is refused while a live lock exists; GC and expiry respect locks) is decided by C07. The leftover target marks after a rollback were first only an observation (no failing history had been found); a later history loses the locked object, see R8 and the known finding. Not covered: shard visiting orders, mode flips, evacuation, concurrent broadcasts."
	bo := p.Func(engT + "broadcastObject")
	if bo == nil {
		r.Fatalf("C08: broadcastObject not found")
		return
	}
	put := func(s core.Site) bool { return s.Name == engT+"putToShard" }
	const st = "github.com/nspcc-dev/neofs-sdk-go/client/status."
	is := func(name string, want bool, target string) core.Guard {
		k := core.IsTrue
		if !want {
			k = core.IsFalse
		}
		return core.Guard{Name: name, Match: func(s core.Site) bool {
			return s.Name == "errors.Is" && core.ErrTargetName(s.Call.Common().Args[1]) == target
		}, Comps: []core.Comp{{Result: -1, Kind: k}}}
	}
	// ---------------- R1
	r1 := r.Rule("C08.R1", "a shard counts as having accepted the object only after putToShard returned nil or errExists", 1)
	gs := []core.Guard{
		{Name: "stored", Match: put, Comps: []core.Comp{{Result: -1, Kind: core.ErrNil}}},
		is("already-there", true, "pkg/local_object_storage/engine.errExists"),
	}
	isGoodAppend := func(in ssa.Instruction) bool {
		c, ok := in.(*ssa.Call)
		return ok && core.CalleeName(c) == "builtin.append" && strings.HasSuffix(c.Type().String(), "engine.shardWrapper")
	}
	core.CheckEffectsFn(p, r1, bo, core.EffectRule{Min: 1, Guards: gs, Derived: []core.Derived{{Name: "accepted", Alts: [][]string{{"stored"}, {"already-there"}}}},
		Need: func(string) []string { return []string{"accepted"} }, Effect: func(_ *core.Prog, in ssa.Instruction) (string, bool) { return "goodShards=append", isGoodAppend(in) }})
	// ---------------- R2 fatal classification
	r2 := r.Rule("C08.R2", "fatal exactly for {lock of non-regular, object locked, already removed}; a fatal verdict ends the loop", 2)
	fat := []core.Guard{is("lock-non-regular", true, st+"ErrLockNonRegularObject"), is("object-locked", true, st+"ErrObjectLocked"), is("already-removed", true, st+"ErrObjectAlreadyRemoved")}
	isFatalStore := func(in ssa.Instruction) (bool, bool) {
		st, ok := in.(*ssa.Store)
		if !ok {
			return false, false
		}
		al, ok := st.Addr.(*ssa.Alloc)
		if !ok || al.Comment != "isFatal" {
			return false, false
		}
		c, isC := st.Val.(*ssa.Const)
		return true, isC && constTrue(c)
	}
	nF := 0
	hasLocked := false
	for _, s := range core.CallSites([]*ssa.Function{bo}, fat[1].Match) {
		_ = s
		hasLocked = true
	}
	r2.Check(hasLocked, core.FuncName(bo)+"#tests-ErrObjectLocked", p.Pos(bo.Pos()), "the 'object is locked' verdict is recognised", "broadcastObject no longer recognises the 'object is locked' verdict as fatal: a tombstone refused by one shard stays on the others")
	// isFatal is a phi at the loop exit (or a cell): every incoming `true` must come from an edge where a fatal verdict was established
	gfF := core.Flow(bo, fat, core.Derived{Name: "fatal-verdict", Alts: [][]string{{"lock-non-regular"}, {"object-locked"}, {"already-removed"}}})
	for _, b := range bo.Blocks {
		for _, in := range b.Instrs {
			ph, ok := in.(*ssa.Phi)
			if !ok || ph.Comment != "isFatal" {
				continue
			}
			for i, e := range ph.Edges {
				c, isC := e.(*ssa.Const)
				if !isC || !constTrue(c) {
					continue
				}
				nF++
				r2.Check(gfF.DerivedPassed(gfF.OnEdge(b.Preds[i], b), "fatal-verdict"), core.FuncName(bo)+"#isFatal=true", p.InstrPos(b.Preds[i].Instrs[len(b.Preds[i].Instrs)-1]),
					"fatal only after one of the three verdicts", "the broadcast is declared fatal on a path where none of {lock of non-regular, object locked, already removed} was established")
			}
		}
	}
	core.CheckEffectsFn(p, r2, bo, core.EffectRule{Guards: fat, Derived: []core.Derived{{Name: "fatal-verdict", Alts: [][]string{{"lock-non-regular"}, {"object-locked"}, {"already-removed"}}}},
		Need: func(string) []string { return []string{"fatal-verdict"} }, Effect: func(_ *core.Prog, in ssa.Instruction) (string, bool) {
			isSt, isTrue := isFatalStore(in)
			if isSt && isTrue {
				nF++
				return "isFatal=true", true
			}
			return "", false
		}})
	if nF == 0 {
		r2.Bad(core.FuncName(bo)+"#isFatal=true", p.Pos(bo.Pos()), "no place where the broadcast is declared fatal was found")
	}
	// ---------------- R3 + R4: returns
	r3 := r.Rule("C08.R3", "after a fatal verdict every shard that accepted the object is rolled back; success only when not fatal and some shard accepted", 2)
	// the rollback: a call of Shard.Delete inside a loop whose bound is len(goodShards)
	var del ssa.CallInstruction
	for _, s := range core.CallSites([]*ssa.Function{bo}, func(s core.Site) bool { return s.Name == "(*pkg/local_object_storage/shard.Shard).Delete" }) {
		del = s.Call
	}
	if del == nil {
		r3.Bad(core.FuncName(bo)+"#rollback", p.Pos(bo.Pos()), "broadcastObject no longer deletes the object from the shards that accepted it")
	} else {
		// loop over the whole accepted list: the bound of the loop containing the Delete call is len(<the list itself>)
		whole := false
		var hdr *ssa.BasicBlock
		for _, h := range bo.Blocks {
			for _, pr := range h.Preds {
				if h.Dominates(pr) && h.Dominates(del.Block()) && reaches(del.Block(), h) && (hdr == nil || hdr.Dominates(h)) {
					hdr = h
				}
			}
		}
		if hdr != nil {
			if ifi, ok := hdr.Instrs[len(hdr.Instrs)-1].(*ssa.If); ok {
				if cmp, isB := ifi.Cond.(*ssa.BinOp); isB {
					if c, isC := cmp.Y.(*ssa.Call); isC && core.CalleeName(c) == "builtin.len" && strings.HasSuffix(c.Call.Args[0].Type().String(), "engine.shardWrapper") {
						if _, isSl := c.Call.Args[0].(*ssa.Slice); !isSl {
							whole = true
						}
					}
				}
			}
		}
		r3.Check(whole, core.FuncName(bo)+"#rollback-all", p.InstrPos(del), "the rollback ranges over the whole list of accepting shards", "the rollback does not range over every shard that accepted the object")
		// the deleted address is the broadcast object's own
		a := del.Common().Args
		own := false
		if c, ok := a[1].(*ssa.Call); ok && strings.HasSuffix(core.CalleeName(c), "Address).Container") {
			if ac, isC := core.Unwrap(c.Call.Args[0]).(*ssa.Call); isC && strings.HasSuffix(core.CalleeName(ac), "object.Object).Address") && core.RootParam(bo, ac.Call.Args[0]) == 2 {
				own = true
			}
		}
		r3.Check(own, core.FuncName(bo)+"#rollback-own-address", p.InstrPos(del), "the rollback deletes the broadcast object itself", "the rollback deletes something other than the broadcast object")
	}
	// nil return: dominated by isFatal==false and len(goodShards) != 0
	mr := core.NewMemReach(bo)
	notFatal := core.Guard{Name: "not-fatal", Comps: []core.Comp{{Result: -1, Kind: core.IsFalse}}, Pure: true, Value: func(_ *ssa.Function, v ssa.Value) bool {
		if ph, ok := v.(*ssa.Phi); ok {
			return ph.Comment == "isFatal"
		}
		if u, ok := v.(*ssa.UnOp); ok {
			if al, isAl := u.X.(*ssa.Alloc); isAl {
				return al.Comment == "isFatal"
			}
		}
		return false
	}}
	some := core.Guard{Name: "some-shard-accepted", Comps: []core.Comp{{Result: -1, Kind: core.IsFalse}}, Pure: true, Value: func(_ *ssa.Function, v ssa.Value) bool {
		b, ok := v.(*ssa.BinOp) // len(goodShards) == 0
		if !ok || b.Op.String() != "==" {
			return false
		}
		c, isC := b.X.(*ssa.Call)
		z, isZ := intConstOf(b.Y)
		return isC && core.CalleeName(c) == "builtin.len" && isZ && z == 0 && strings.HasSuffix(c.Call.Args[0].Type().String(), "engine.shardWrapper")
	}}
	gf := core.Flow(bo, []core.Guard{notFatal, some})
	nNil := 0
	for _, b := range bo.Blocks {
		ret, ok := b.Instrs[len(b.Instrs)-1].(*ssa.Return)
		if !ok {
			continue
		}
		v := mr.Canon(ret.Results[0])
		if c, isC := v.(*ssa.Const); isC && c.IsNil() {
			nNil++
			f := gf.At(ret)
			r3.Check(gf.Passed(f, 0) && gf.Passed(f, 1), core.FuncName(bo)+"#return-nil", p.InstrPos(ret), "success only when not fatal and some shard accepted", "broadcastObject reports success after a fatal verdict or when no shard accepted the object")
		}
	}
	if nNil == 0 {
		r3.Bad(core.FuncName(bo)+"#return-nil", p.Pos(bo.Pos()), "no success return found")
	}
	_ = nF
	// R4: evacuation moves every listed object (shared with C19.R2): a lock that lives only on the drained shard must move with its object
	evacuationAccountsEveryObject(p, r, "C08.R4")
	// R5: the per-shard answer the broadcast relies on looks at every lock (shared with C07.R5 / C01.R5)
	r5 := r.Rule("C08.R5", "the per-shard lock lookup every broadcast verdict rests on ends its search only at a LIVE lock: an expired lock that sorts first does not hide a later live one", 4)
	tLock, ok1 := p.ConstInt("github.com/nspcc-dev/neofs-sdk-go/object.TypeLock")
	stAvail, ok2 := p.ConstInt(mb + "statusAvailable")
	if !ok1 || !ok2 {
		r.Fatalf("C08.R5: constants not found")
		return
	}
	lockLookupRule(p, r, r5, tLock, stAvail)
	// R6: the engine-wide lock check asks every shard (shared with C07.R6)
	r6 := r.Rule("C08.R6", "StorageEngine.isLocked says 'no lock' only after every shard was asked: a shard that cannot answer (mode change, error) does not end the walk", 1)
	lockCheckAsksEveryShard(p, r, r6)
	// R7: each shard refuses a tombstone for an object it knows to be locked, before writing anything (shared with C07.R1)
	r7 := r.Rule("C08.R7", "on every shard the tombstone branch of the put path writes garbage marks and counts the tombstone only after objectLocked(the tombstone's own target)==false — asked about the target itself, not only about the parts collected for it (a size-split root has no record of its own: its parts carry no lock) — so a locked object's shard answers 'locked', which is what makes the broadcast fatal (R2) and rolled back (R3)", 6)
	stTomb, ok3 := p.ConstInt(mb + "statusTombstoned")
	if !ok3 {
		r.Fatalf("C08.R7: statusTombstoned not found")
		return
	}
	tombstoneRefusedWhileLocked(p, r, r7, tLock, stTomb)
	r.Explain += " (R7, shared with C07.R1) the per-shard refusal the broadcast relies on."
	// R8: the rollback undoes what the rejected object wrote, not only the object itself
	r8 := r.Rule("C08.R8", "rollback completeness: a TOMBSTONE that some shard accepted and the broadcast then rolled back leaves nothing behind on that shard — the garbage marks its put wrote for its targets are removed again (by the removal the rollback calls, or by a dedicated undo): otherwise a shard that missed the lock keeps the locked object marked and GC removes it although every tombstone attempt was refused", 1)
	undone := false
	why := "the rollback calls the plain Shard.Delete, and deleteMetadata never looks at what the removed object was associated with"
	// (a) a dedicated undo in the rollback loop
	for _, cs := range core.CallSites([]*ssa.Function{bo}, func(s core.Site) bool { return strings.Contains(s.Name, "shard.Shard).") }) {
		in := cs.Call.(ssa.Instruction)
		if !inCycle(in.Block()) {
			continue
		}
		n := cs.Name[strings.LastIndex(cs.Name, ".")+1:]
		if n != "Delete" && n != "ID" && n != "Put" && n != "Exists" && (strings.Contains(strings.ToLower(n), "undo") || strings.Contains(strings.ToLower(n), "rollback") || strings.Contains(strings.ToLower(n), "revert")) {
			undone = true
		}
	}
	// (b) or the removal itself handles the association of the removed object
	if dm := p.Func(mb + "deleteMetadata"); dm != nil && !undone {
		for _, b := range dm.Blocks {
			for _, in := range b.Instrs {
				bo2, ok := in.(*ssa.BinOp)
				if !ok || bo2.Op != token.EQL {
					continue
				}
				for _, v := range []ssa.Value{bo2.X, bo2.Y} {
					if c, isC := v.(*ssa.Const); isC && c.Value != nil && strings.Contains(c.Value.ExactString(), "__NEOFS__ASSOCIATE") {
						undone = true
					}
				}
			}
		}
	}
	r8.Check(undone, core.FuncName(bo)+"#rollback!marks-of-the-rejected-tombstone-undone", p.Pos(bo.Pos()), "the rollback undoes the rejected tombstone's marks", why+": the target keeps its garbage mark on the shard that accepted the tombstone")
	r.Explain += " (R8) what the rollback removes is compared with what the rejected put wrote; on the current tree the target's garbage mark survives the rollback (known finding, with a history that loses a locked object)."
}
