package rules

import (
	"fmt"
	"go/token"
	"strings"

	"golang.org/x/tools/go/ssa"

	"verif/analyzer/core"
)

// C26 — the policer never drops a local copy that may be needed (structure of the removal decision).
func init() {
	register(&Check{ID: "C26", Level: "other", Pkgs: []string{"./pkg/services/policer", "./pkg/services/replicator"}, Run: runC26})
}

const polP = "pkg/services/policer."
const polT = "(*pkg/services/policer.Policer)."

func runC26(p *core.Prog, r *core.Report) {
	r.Explain = "Decides the structure of the policer's removal decisions, on all CFG paths: (R1) an EC part is dropped only after a more optimal node answered the header request without error, or after the replication task reported a successful move; a more optimal node under maintenance forces a hold; (R2) what counts as a copy: in processNodes the shortage is decreased only for the local node, for a node under maintenance (which also bumps the unchecked-copies counter that forces keeping the local copy) or after a header request to that node succeeded — never from a cached status alone; a node is recorded as a CONFIRMED holder only after such a success or by the replicator's success callback; holders taken on trust (maintenance) are recorded separately and do not satisfy the 'somebody stores the object' test that lets an off-container node drop its replica; (R3) the redundant-copy removal in processObject is reached only when no rule needed the local copy, and for a node outside the container only if it is in the network map and a confirmed holder exists; (R4) the unconditional delete (default mark) is used only at the tabled policy-invalid sites, the first of which requires the container-not-found classification; (R5) LOCK/LINK objects require every node of the list, and shard-duplicate removal skips TOMBSTONE/LOCK/LINK.; (R6) the replicator's success callback — the second form of confirmation — is invoked only after the send to that very node returned nil. Not covered: the counting across several node lists and rules (value-level), concurrent policer/replicator schedules."
	fns := p.FuncsIn("pkg/services/policer")
	// ---------------- R1 EC parts
	r1 := r.Rule("C26.R1", "EC part dropped only after a more optimal node answered, or after a successful move; maintenance forces hold", 2)
	if ec := p.Func(polT + "processECPartByRule"); ec == nil {
		r.Fatalf("C26.R1: processECPartByRule not found")
	} else {
		for _, fn := range append([]*ssa.Function{ec}, ec.AnonFuncs...) {
			f := fn
			head := core.G("more-optimal-node-has-it", core.ErrNil, "field:("+polP+"Policer).apiConns", "("+polP+"apiConnections).headObject", "(*"+polP+"apiConnections).headObject").Where(func(core.Site) bool { return true })
			head.Match = func(s core.Site) bool { return strings.HasSuffix(s.Name, ").headObject") }
			moved := core.Guard{Name: "moved-by-replicator", Comps: []core.Comp{{Result: -1, Kind: core.IsTrue}}, Value: func(_ *ssa.Function, v ssa.Value) bool {
				_, path := core.AccessPath(v)
				_, isLoad := v.(*ssa.UnOp)
				return isLoad && len(path) > 0 && path[len(path)-1] == "done"
			}}
			noMaint := core.Guard{Name: "no-maintenance-seen", Comps: []core.Comp{{Result: -1, Kind: core.IsFalse}}, Value: func(_ *ssa.Function, v ssa.Value) bool {
				u, ok := v.(*ssa.UnOp)
				if !ok || u.Op != token.MUL {
					return false
				}
				if al, isAl := u.X.(*ssa.Alloc); isAl {
					return al.Comment == "maintenance"
				}
				return false
			}}
			core.CheckEffectsFn(p, r1, f, core.EffectRule{Guards: []core.Guard{head, moved, noMaint}, Derived: []core.Derived{{Name: "confirmed-elsewhere", Alts: [][]string{{"more-optimal-node-has-it"}, {"moved-by-replicator", "no-maintenance-seen"}}}},
				Need: func(string) []string { return []string{"confirmed-elsewhere"} }, Effect: core.CallTo(polT + "dropRedundantLocalObject")})
		}
	}
	// ---------------- R2 what counts as a copy
	r2 := r.Rule("C26.R2", "shortage decreases only for local / maintenance(+unchecked) / confirmed-by-HEAD; confirmed holders only from a successful HEAD or the replicator callback; assumed holders do not satisfy the holder test", 8)
	pn := p.Func(polT + "processNodes")
	if pn == nil {
		r.Fatalf("C26.R2: processNodes not found")
		return
	}
	headOK := core.Guard{Name: "head-ok", Match: func(s core.Site) bool { return strings.HasSuffix(s.Name, ").headObject") }, Comps: []core.Comp{{Result: -1, Kind: core.ErrNil}}}
	isLocal := core.Guard{Name: "is-local-node", Match: func(s core.Site) bool { return strings.HasSuffix(s.Name, ").IsLocalNodePublicKey") }, Comps: []core.Comp{{Result: -1, Kind: core.IsTrue}}}
	isShortageCell := func(v ssa.Value) bool {
		switch x := v.(type) {
		case *ssa.Alloc:
			return x.Comment == "shortage"
		case *ssa.FreeVar:
			return x.Name() == "shortage"
		}
		return false
	}
	nDec := 0
	for _, fn := range append([]*ssa.Function{pn}, pn.AnonFuncs...) {
		f := fn
		inMaint := f != pn // the handleMaintenance closure
		eff := func(_ *core.Prog, in ssa.Instruction) (string, bool) {
			st, ok := in.(*ssa.Store)
			if !ok || !isShortageCell(st.Addr) {
				return "", false
			}
			bo, isB := st.Val.(*ssa.BinOp)
			if !isB || bo.Op != token.SUB {
				return "", false
			}
			return "shortage--", true
		}
		if inMaint {
			// inside the maintenance handler: must also bump uncheckedCopies and record the node as an ASSUMED holder
			n := core.CheckEffectsFn(p, r2, f, core.EffectRule{Guards: []core.Guard{core.G("recorded-as-assumed", core.Executed, "(*"+polP+"nodeCache).submitAssumedReplicaHolder")}, Effect: eff})
			nDec += n
			if n > 0 {
				bump := false
				for _, b := range f.Blocks {
					for _, in := range b.Instrs {
						if st, ok := in.(*ssa.Store); ok {
							if fv, isFV := st.Addr.(*ssa.FreeVar); isFV && fv.Name() == "uncheckedCopies" {
								if bo, isB := st.Val.(*ssa.BinOp); isB && bo.Op == token.ADD {
									bump = true
								}
							}
						}
					}
				}
				r2.Check(bump, core.FuncName(f)+"#uncheckedCopies++", p.Pos(f.Pos()), "the maintenance path bumps the unchecked-copies counter", "a node under maintenance is counted as a copy without bumping uncheckedCopies: the 'save local copy' protection is lost")
			}
			continue
		}
		nDec += core.CheckEffectsFn(p, r2, f, core.EffectRule{Guards: []core.Guard{headOK, isLocal}, Derived: []core.Derived{{Name: "copy-accounted", Alts: [][]string{{"head-ok"}, {"is-local-node"}}}},
			Need: func(string) []string { return []string{"copy-accounted"} }, Effect: eff})
	}
	if nDec < 3 {
		r.Fatalf("C26.R2: %d shortage decrements found, expected 3", nDec)
	}
	// confirmed holders
	core.CheckEffectsFn(p, r2, pn, core.EffectRule{Min: 1, Guards: []core.Guard{headOK}, Effect: core.CallTo("(*" + polP + "nodeCache).submitReplicaHolder")})
	core.CheckCallers(p, r2, fns, []core.CallerRule{
		{Sink: "(*" + polP + "nodeCache).submitReplicaHolder", MinSites: 2, Allowed: map[string]string{
			polT + "processNodes": "after a successful header request (guarded above)",
			"(*" + polP + "nodeCache).SubmitSuccessfulReplication": "the replicator's success callback",
		}},
		{Sink: "(*" + polP + "nodeCache).submitAssumedReplicaHolder", MinSites: 1, Allowed: map[string]string{polT + "processNodes": "the maintenance handler closure"}},
		{Sink: "(*" + polP + "nodeCache).set", MinSites: 3, Allowed: map[string]string{
			"(*" + polP + "nodeCache).submitReplicaHolder": "confirmed", "(*" + polP + "nodeCache).submitAssumedReplicaHolder": "assumed (also recorded in the assumed set)", "(*" + polP + "nodeCache).submitReplicaCandidate": "value false",
		}},
	})
	if ah := p.Func("(*" + polP + "nodeCache).submitAssumedReplicaHolder"); ah != nil {
		marks := false
		for _, b := range ah.Blocks {
			for _, in := range b.Instrs {
				if mu, ok := in.(*ssa.MapUpdate); ok {
					if _, path := core.AccessPath(mu.Map); len(path) > 0 && path[len(path)-1] == "assumed" {
						marks = true
					}
				}
			}
		}
		r2.Check(marks, core.FuncName(ah)+"#assumed[...]=", p.Pos(ah.Pos()), "the node is recorded in the assumed set", "submitAssumedReplicaHolder no longer records the node as assumed")
	} else {
		r2.Bad("(*"+polP+"nodeCache).submitAssumedReplicaHolder", "-", "no separate record of holders taken on trust exists: a node under maintenance is indistinguishable from a confirmed holder")
	}
	if al := p.Func("(" + polP + "nodeCache).atLeastOneHolder"); al == nil {
		r.Fatalf("C26.R2: atLeastOneHolder not found")
	} else {
		notAssumed := core.Guard{Name: "not-taken-on-trust", Comps: []core.Comp{{Result: -1, Kind: core.IsFalse}}, Value: func(_ *ssa.Function, v ssa.Value) bool {
			ex, ok := v.(*ssa.Extract)
			if !ok || ex.Index != 1 {
				return false
			}
			lk, ok := ex.Tuple.(*ssa.Lookup)
			if !ok || !lk.CommaOk {
				return false
			}
			_, path := core.AccessPath(lk.X)
			return len(path) > 0 && path[len(path)-1] == "assumed"
		}}
		core.CheckSuccessFn(p, r2, al, core.SuccessRule{ResultIdx: 0, SuccessBool: true, MinReturns: 1, Guards: []core.Guard{notAssumed}})
	}
	// ---------------- R3 processObject's removal
	r3 := r.Rule("C26.R3", "the redundant replica is removed only if no rule needed it, and off-container only with netmap membership and a confirmed holder", 1)
	if po := p.Func(polT + "processObject"); po == nil {
		r.Fatalf("C26.R3: processObject not found")
	} else {
		fieldIs := func(name string, want bool) core.Guard {
			k := core.IsTrue
			if !want {
				k = core.IsFalse
			}
			return core.Guard{Name: fmt.Sprintf("%s=%v", name, want), Comps: []core.Comp{{Result: -1, Kind: k}}, Value: func(_ *ssa.Function, v ssa.Value) bool {
				_, path := core.AccessPath(v)
				_, isLoad := v.(*ssa.UnOp)
				return isLoad && len(path) > 0 && path[len(path)-1] == name
			}}
		}
		gs := []core.Guard{
			fieldIs("needLocalCopy", false), fieldIs("localNodeInContainer", true),
			{Name: "in-netmap", Match: func(s core.Site) bool { return strings.HasSuffix(s.Name, ").IsLocalNodeInNetmap") }, Comps: []core.Comp{{Result: -1, Kind: core.IsTrue}}},
			core.G("confirmed-holder-exists", core.IsTrue, "("+polP+"nodeCache).atLeastOneHolder"),
		}
		core.CheckEffectsFn(p, r3, po, core.EffectRule{Min: 1, Guards: gs, Derived: []core.Derived{{Name: "safe-to-drop", Alts: [][]string{{"needLocalCopy=false", "localNodeInContainer=true"}, {"needLocalCopy=false", "in-netmap", "confirmed-holder-exists"}}}},
			Need: func(string) []string { return []string{"safe-to-drop"} }, Effect: core.CallTo(polT + "dropRedundantLocalObject")})
	}
	// ---------------- R4 unconditional delete sites
	r4 := r.Rule("C26.R4", "deleteLocalObject (default mark) only at the tabled policy-invalid sites", 5)
	want := map[string]int{polT + "processObject": 3, polT + "processECPart": 2}
	got := map[string]int{}
	for _, s := range core.CallSites(fns, func(s core.Site) bool { return s.Name == polT+"deleteLocalObject" }) {
		o := core.FuncName(core.Outer(s.Fn))
		got[o]++
		r4.Check(got[o] <= want[o], o+"#deleteLocalObject", p.InstrPos(s.Call), "tabled policy-invalid site", "an unconditional local delete appears at a site that is not in the table of policy-invalid cases")
	}
	for o, n := range want {
		if got[o] < n {
			r.Fatalf("C26.R4: %s has %d deleteLocalObject sites, table says %d", o, got[o], n)
		}
	}
	if po := p.Func(polT + "processObject"); po != nil {
		// the first site: container not found
		nodes := func(s core.Site) bool { return strings.HasSuffix(s.Name, ").GetNodesForObject") }
		gs := []core.Guard{
			{Name: "placement-ok", Match: nodes, Comps: []core.Comp{{Result: -1, Kind: core.ErrNil}}},
			{Name: "container-not-found", Match: nodes, Comps: []core.Comp{{Result: -1, Kind: core.ErrIs, Accept: []string{"fn:pkg/core/container.IsErrNotFound"}}}},
		}
		core.CheckEffectsFn(p, r4, po, core.EffectRule{Min: 1, Guards: gs, Derived: []core.Derived{{Name: "policy-known-or-container-gone", Alts: [][]string{{"placement-ok"}, {"container-not-found"}}}},
			Need: func(string) []string { return []string{"policy-known-or-container-gone"} }, Effect: core.CallTo(polT + "deleteLocalObject")})
	}
	// ---------------- R5 system objects
	r5 := r.Rule("C26.R5", "LOCK/LINK need every node of the list; shard-duplicate removal skips TOMBSTONE/LOCK/LINK", 2)
	full := false
	for _, b := range pn.Blocks {
		for _, in := range b.Instrs {
			if st, ok := in.(*ssa.Store); ok && isShortageCell(st.Addr) {
				if c, isC := core.Unwrap(st.Val).(*ssa.Call); isC && core.CalleeName(c) == "builtin.len" && core.ParamIndex(pn, c.Call.Args[0]) == 3 {
					full = true
				}
			}
		}
	}
	r5.Check(full, core.FuncName(pn)+"#shortage=len(nodes)", p.Pos(pn.Pos()), "system objects are required on every node of the list", "LOCK/LINK objects no longer require every node of the list")
	if dr := p.Func(polT + "dropRedundantLocalCopies"); dr == nil {
		r.Fatalf("C26.R5: dropRedundantLocalCopies not found")
	} else {
		tT, _ := p.ConstInt("github.com/nspcc-dev/neofs-sdk-go/object.TypeTombstone")
		tL, _ := p.ConstInt("github.com/nspcc-dev/neofs-sdk-go/object.TypeLock")
		tK, _ := p.ConstInt("github.com/nspcc-dev/neofs-sdk-go/object.TypeLink")
		var gs []core.Guard
		var names []string
		for n, k := range map[string]int64{"tombstone": tT, "lock": tL, "link": tK} {
			kk := k
			g := core.Guard{Name: "not-" + n, Comps: []core.Comp{{Result: -1, Kind: core.NeConst, Const: kk}}, Pure: true, Value: func(_ *ssa.Function, v ssa.Value) bool {
				_, path := core.AccessPath(v)
				return len(path) > 0 && path[len(path)-1] == "Type"
			}}
			gs = append(gs, g)
			names = append(names, g.Name)
		}
		core.CheckEffectsFn(p, r5, dr, core.EffectRule{Min: 1, Guards: gs, Need: func(string) []string { return names }, Effect: func(_ *core.Prog, in ssa.Instruction) (string, bool) {
			c, ok := in.(ssa.CallInstruction)
			return "DeleteRedundantCopies", ok && strings.HasSuffix(core.CalleeName(c), ").DeleteRedundantCopies")
		}})
	}
	// ---------------- R6 what the policer takes for confirmation really is one
	r6 := r.Rule("C26.R6", "the replicator reports a node as holding the copy only after the send to that node (or the local put) returned nil (shared with C27.R1)", 2)
	replicatorReportsOnlyAcceptedCopies(p, r, r6)
	// ---------------- R7 the protection against trusted-only holders is not behind the replication branches
	r7 := r.Rule("C26.R7", "processNodes: a 'keep the local copy' decision that depends on copies counted on trust (maintenance nodes) is reachable after each of the rule's replication attempts: a started replication may fail, so it must not switch the protection off for a node the rule lists", 2)
	if pn := p.Func("(*pkg/services/policer.Policer).processNodes"); pn == nil {
		r.Fatalf("C26.R7: processNodes not found")
	} else {
		var keeps []*ssa.Store
		for _, b := range pn.Blocks {
			for _, in := range b.Instrs {
				st, ok := in.(*ssa.Store)
				if !ok {
					continue
				}
				fa, isFA := st.Addr.(*ssa.FieldAddr)
				c, isC := st.Val.(*ssa.Const)
				if !isFA || !isC || !strings.HasSuffix(core.FieldAddrName(fa), ".needLocalCopy") {
					continue
				}
				if bv, isB := constBool(c); !isB || !bv {
					continue
				}
				// guarded by the count of trusted copies: some dominating test reads that cell
				trusted := false
				for _, blk := range pn.Blocks {
					ifi, isIf := blk.Instrs[len(blk.Instrs)-1].(*ssa.If)
					if !isIf || !(blk.Succs[0].Dominates(b) || blk.Succs[0] == b) {
						continue
					}
					walkOperands(ifi.Cond, 3, func(v ssa.Value) {
						if u, isU := v.(*ssa.UnOp); isU {
							if al, isA := u.X.(*ssa.Alloc); isA && al.Comment == "uncheckedCopies" {
								trusted = true
							}
						}
					})
				}
				if trusted {
					keeps = append(keeps, st)
				}
			}
		}
		reps := core.CallSites([]*ssa.Function{pn}, func(s core.Site) bool { return s.Name == "(*pkg/services/policer.Policer).tryToReplicate" })
		if len(reps) == 0 || len(keeps) == 0 {
			r7.Bad(core.FuncName(pn)+"#trusted-copies-protection", p.Pos(pn.Pos()), fmt.Sprintf("expected replication attempts and a protection depending on the trusted copies, found %d and %d", len(reps), len(keeps)))
		}
		for i, rp := range reps {
			rb := rp.Call.(ssa.Instruction).Block()
			ok := false
			for _, st := range keeps {
				if reaches(rb, st.Block()) {
					ok = true
				}
			}
			r7.Check(ok, fmt.Sprintf("%s#after-replication@%d", core.FuncName(pn), i+1), p.InstrPos(rp.Call), "the trusted-copies protection is still evaluated after this attempt",
				"after this replication attempt the 'keep the local copy because some holders were only taken on trust' decision is never reached: if the attempt fails, a container node removes its copy although the only other 'holders' are maintenance nodes nobody has heard from")
		}
	}
	// ---------------- R8 among several local copies the one kept is one that exists
	r8 := r.Rule("C26.R8", "StorageEngine.DeleteRedundantCopies (the policer's removal of extra local copies of an object it decided to KEEP) chooses the keeper among the shards that were listed as holding the object: both the keeper assignment and the removal list are behind 'the shard is one of the listed holders'", 2)
	if dr := p.Func("(*pkg/local_object_storage/engine.StorageEngine).DeleteRedundantCopies"); dr == nil {
		r.Fatalf("C26.R8: DeleteRedundantCopies not found")
	} else {
		listed := core.Guard{Name: "shard-is-a-listed-holder", Match: func(s core.Site) bool {
			return strings.HasPrefix(s.Name, "slices.Contains") && len(s.Call.Common().Args) == 2 && core.RootParam(dr, s.Call.Common().Args[0]) == 3
		}, Comps: []core.Comp{{Result: -1, Kind: core.IsTrue}}}
		core.CheckEffectsFn(p, r8, dr, core.EffectRule{Min: 2, Guards: []core.Guard{listed}, Effect: func(_ *core.Prog, in ssa.Instruction) (string, bool) {
			switch x := in.(type) {
			case *ssa.Store:
				if al, ok := x.Addr.(*ssa.Alloc); ok && al.Comment == "keeperShard" {
					if _, isC := x.Val.(*ssa.Const); !isC {
						return "keeper-chosen", true
					}
				}
			case *ssa.Call:
				if core.CalleeName(x) == "builtin.append" && strings.HasSuffix(x.Type().String(), "engine.shardWrapper") {
					return "copy-to-remove", true
				}
			}
			return "", false
		}})
	}
	r.Explain += " (R8) when the policer keeps an object that lies on several local shards, the engine keeps the copy of a shard that is in the listed holders and marks the others: a keeper chosen before that membership test may hold nothing, and every real copy is then marked redundant."
	r.Explain += " (R7) in processNodes a store needLocalCopy=true guarded by the number of copies counted on trust is reachable from each tryToReplicate call of the function, i.e. the protection is not an alternative to the shortage / misplacement branches."
}
