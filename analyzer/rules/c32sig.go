package rules

import (
	"go/types"
	"sort"
	"strings"

	"golang.org/x/tools/go/ssa"

	"verif/analyzer/core"
)

// fieldsTouched: indices of the receiver's struct fields a method reads (directly or through the generated getters).
func fieldsTouched(fn *ssa.Function, st *types.Struct) map[int]bool {
	out := map[int]bool{}
	if fn == nil || len(fn.Params) == 0 {
		return out
	}
	recv := fn.Params[0]
	for _, b := range fn.Blocks {
		for _, in := range b.Instrs {
			switch x := in.(type) {
			case *ssa.FieldAddr:
				// the field's value must be handed to a call (the encoder), not merely loaded
				if x.X == recv && x.Referrers() != nil {
					for _, ref := range *x.Referrers() {
						if ld, isLd := ref.(*ssa.UnOp); isLd && reachesCallArg(ld, 3) {
							out[x.Field] = true
						}
					}
				}
			case ssa.CallInstruction:
				cal := core.StaticCallee(x)
				if cal == nil || cal.Signature.Recv() == nil || len(x.Common().Args) == 0 || x.Common().Args[0] != recv {
					continue
				}
				if n := cal.Name(); strings.HasPrefix(n, "Get") {
					for i := 0; i < st.NumFields(); i++ {
						if st.Field(i).Name() == n[3:] {
							out[i] = true
						}
					}
				}
			}
		}
	}
	return out
}

// reachesCallArg: v (possibly converted / sliced / ranged over) is handed to a call.
func reachesCallArg(v ssa.Value, depth int) bool {
	if v.Referrers() == nil {
		return false
	}
	for _, u := range *v.Referrers() {
		switch x := u.(type) {
		case ssa.CallInstruction:
			return true
		case *ssa.Range:
			return true
		case *ssa.Convert, *ssa.ChangeType, *ssa.MakeInterface, *ssa.Slice, *ssa.Index, *ssa.IndexAddr, *ssa.Lookup, *ssa.BinOp:
			if depth > 0 && reachesCallArg(x.(ssa.Value), depth-1) {
				return true
			}
		case *ssa.UnOp:
			if depth > 0 && reachesCallArg(x, depth-1) {
				return true
			}
		}
	}
	return false
}

// signedBodyCoversAllFields: for every request type of the service's handlers, the signed data is the
// stable encoding of the whole body: ReadSignedData/SignedDataSize delegate to the body type's
// StableMarshal/StableSize, and those (and the ones of every message nested in the body) read every
// exported field of their struct.
func signedBodyCoversAllFields(p *core.Prog, r *core.Report, h *core.RuleH, handlers []*ssa.Function) {
	seenReq := map[string]bool{}
	seenMsg := map[string]bool{}
	var visit func(n *types.Named)
	visit = func(n *types.Named) {
		key := core.Short(n.String())
		if seenMsg[key] {
			return
		}
		seenMsg[key] = true
		st, ok := n.Underlying().(*types.Struct)
		if !ok {
			return
		}
		for _, m := range []string{"StableMarshal", "StableSize"} {
			fn := p.Func("(*" + key + ")." + m)
			if fn == nil {
				h.Bad(key+"#"+m, "-", "message nested in a signed body has no "+m+": its fields cannot be part of the signed data")
				continue
			}
			touched := fieldsTouched(fn, st)
			var missing []string
			for i := 0; i < st.NumFields(); i++ {
				if st.Field(i).Exported() && !touched[i] {
					missing = append(missing, st.Field(i).Name())
				}
			}
			sort.Strings(missing)
			h.Check(len(missing) == 0, key+"#"+m+"!all-fields", p.Pos(fn.Pos()), "every exported field of the message is encoded", "the signed encoding of "+key+" leaves out field(s) "+strings.Join(missing, ", ")+": a request re-sent with that field changed keeps its valid signature")
		}
		for i := 0; i < st.NumFields(); i++ {
			if !st.Field(i).Exported() {
				continue
			}
			t := st.Field(i).Type()
			for {
				switch x := t.(type) {
				case *types.Pointer:
					t = x.Elem()
					continue
				case *types.Slice:
					t = x.Elem()
					continue
				}
				break
			}
			if nn, isN := t.(*types.Named); isN && nn.Obj().Pkg() == n.Obj().Pkg() {
				if _, isS := nn.Underlying().(*types.Struct); isS {
					visit(nn)
				}
			}
		}
	}
	for _, hfn := range handlers {
		for _, prm := range hfn.Params {
			pt, ok := prm.Type().(*types.Pointer)
			if !ok {
				continue
			}
			n, ok := pt.Elem().(*types.Named)
			if !ok || !strings.HasSuffix(n.Obj().Name(), "Request") {
				continue
			}
			key := core.Short(n.String())
			if seenReq[key] {
				continue
			}
			seenReq[key] = true
			st, _ := n.Underlying().(*types.Struct)
			var body *types.Named
			if st != nil {
				for i := 0; i < st.NumFields(); i++ {
					if st.Field(i).Name() == "Body" {
						if bp, isP := st.Field(i).Type().(*types.Pointer); isP {
							body, _ = bp.Elem().(*types.Named)
						}
					}
				}
			}
			if body == nil {
				h.Bad(key+"#body", "-", "request type has no Body message field")
				continue
			}
			bkey := core.Short(body.String())
			for m, callee := range map[string]string{"ReadSignedData": "StableMarshal", "SignedDataSize": "StableSize"} {
				fn := p.Func("(*" + key + ")." + m)
				if fn == nil {
					h.Bad(key+"#"+m, "-", "request type has no "+m)
					continue
				}
				want := "(*" + bkey + ")." + callee
				n := len(core.CallSites([]*ssa.Function{fn}, func(s core.Site) bool { return s.Name == want }))
				h.Check(n == 1, key+"#"+m+"→body."+callee, p.Pos(fn.Pos()), "the signed data is the stable encoding of the body", key+"."+m+" no longer delegates to the body's "+callee)
			}
			visit(body)
		}
	}
}
