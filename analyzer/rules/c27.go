package rules

import (
	"go/token"
	"strings"

	"golang.org/x/tools/go/ssa"

	"verif/analyzer/core"
)

// C27 — repeated policer cycles restore replicas (second sentence only: what the replicator reports as success).
func init() {
	register(&Check{ID: "C27", Level: "other", Pkgs: []string{"./pkg/services/object/placement", "./pkg/services/replicator", "./pkg/services/policer"}, Run: runC27})
}

func runC27(p *core.Prog, r *core.Report) {
	r.Explain = "Decides only the reporting clause ('reports success exactly for the nodes that accepted the copy'); the convergence sentence quantifies over cycles and network behaviour and is not decidable statically. On all CFG paths of Replicator.HandleTask: (R1) SubmitSuccessfulReplication is called only after the send to that same node (remote replication, or the local put when the node is the local one) returned nil, with the node of the current iteration as argument; (R2) every such report is paired with exactly one decrement of the task's remaining quantity, and both happen only while the loop condition quantity > 0 holds, so the quantity cannot wrap and no more successes than requested are reported; (R3) the policer's result sinks count a node as holder only through that callback (shared with C26.R2); (R4) a necessary condition of convergence: every replication task the policer issues asks for at least one copy, provable from the branch conditions that led to it. Not covered: convergence over repeated cycles itself."
	ht := p.Func("(*pkg/services/replicator.Replicator).HandleTask")
	if ht == nil {
		r.Fatalf("C27: HandleTask not found")
		return
	}
	r1 := r.Rule("C27.R1", "success is reported only after the send to that node returned nil, for the current node", 2)
	replicatorReportsOnlyAcceptedCopies(p, r, r1)
	isSubmit := func(in ssa.Instruction) bool {
		c, ok := in.(ssa.CallInstruction)
		return ok && strings.HasSuffix(core.CalleeName(c), "TaskResult).SubmitSuccessfulReplication")
	}
	// ---------------- R2 pairing with quantity--
	r2 := r.Rule("C27.R2", "each success report is paired with one quantity decrement, under quantity > 0", 2)
	isDec := func(in ssa.Instruction) bool {
		v, ok := fieldStore(in, "(pkg/services/replicator.Task).quantity")
		if !ok {
			return false
		}
		bo, isB := v.(*ssa.BinOp)
		return isB && bo.Op == token.SUB
	}
	nDec, nSub := 0, 0
	var decs, subs []ssa.Instruction
	for _, b := range ht.Blocks {
		for _, in := range b.Instrs {
			if isDec(in) {
				nDec++
				decs = append(decs, in)
			}
			if isSubmit(in) {
				nSub++
				subs = append(subs, in)
			}
		}
	}
	if nDec < 1 || nSub < 1 {
		r.Fatalf("C27.R2: %d decrements / %d reports found, expected at least one each", nDec, nSub)
	}
	for _, d := range decs {
		r2.Check(core.MustFollow(d, isSubmit), core.FuncName(ht)+"#decrement→report", p.InstrPos(d), "every decrement is followed by a success report before anything else can happen", "the remaining quantity is decreased on a path that does not report the success")
	}
	for _, sb := range subs {
		paired := false
		for _, d := range decs {
			if d.Block() == sb.Block() || d.Block().Dominates(sb.Block()) && !reaches(sb.Block(), d.Block()) {
				paired = true
			}
		}
		r2.Check(paired && nDec == nSub, core.FuncName(ht)+"#report←decrement", p.InstrPos(sb), "every success report is preceded by its decrement", "a success is reported without decreasing the remaining quantity: more successes than requested can be reported")
	}
	for _, b := range ht.Blocks {
		for _, in := range b.Instrs {
			if !isDec(in) {
				continue
			}
			st := in.(*ssa.Store)
			bo := st.Val.(*ssa.BinOp)
			oc := core.NewOrderCtx(in)
			r2.Check(oc.ProveLE(bo.Y, bo.X, 0), core.FuncName(ht)+"#quantity-1", p.InstrPos(in), "quantity > 0 holds at the decrement ("+oc.Facts()+")", "the quantity decrement is not dominated by quantity > 0: the unsigned counter can wrap and the task never ends")
		}
	}
	// ---------------- R5 the listing position is never a cursor that was already consumed
	r5 := r.Rule("C27.R5", "the policer's listing loop continues from the cursor the listing returned, from nil (wrap-around) or from a cursor created for that step: a cursor object created before the loop enters it only from outside (the listing advances the cursor it is given in place, so handing a kept one again jumps to wherever the listing has got to and the objects in between are never policed again)", 1)
	policerCursorNeverReused(p, r, r5)
	r.Explain += " (R5, a necessary condition of the first sentence) every cycle visits every stored object: in Policer.shardPolicyWorker the cursor passed to ListWithCursor is the one the previous call returned, nil after the end of the listing, or a cursor created on the spot; a cursor object created once before the loop never re-enters the loop variable from inside the loop (the engine's listing mutates the cursor it receives)."
	// ---------------- R6 every node computes the same primaries for an object
	r6 := r.Rule("C27.R6", "the per-object placement cache (shared by the PUT path and the policer of a node) stores the vectors in the object's own sorted order: wherever the placement service adds an entry, the entry's node sets are the result of the sort call made for this object — a node that caches the container's unsorted order disagrees with the others about the primaries, replicates to the wrong nodes and drops a true primary's copy every cycle", 2)
	nAdd := 0
	for _, fn := range p.FuncsIn("pkg/services/object/placement") {
		adds := core.CallSites([]*ssa.Function{fn}, func(s core.Site) bool {
			if !strings.Contains(s.Name, "golang-lru") || !strings.HasSuffix(s.Name, ").Add") {
				return false
			}
			_, path := core.AccessPath(s.Call.Common().Args[0])
			return len(path) > 0 && path[len(path)-1] == "objCache"
		})
		for _, ad := range adds {
			nAdd++
			ab := ad.Call.(ssa.Instruction).Block()
			ok := false
			for _, b := range fn.Blocks {
				if b != ab && !b.Dominates(ab) {
					continue
				}
				for _, in := range b.Instrs {
					st, isSt := in.(*ssa.Store)
					if !isSt {
						continue
					}
					fa, isFA := st.Addr.(*ssa.FieldAddr)
					if !isFA || !strings.HasSuffix(core.FieldAddrName(fa), ".NodeSets") {
						continue
					}
					ex, isEx := st.Val.(*ssa.Extract)
					if !isEx || ex.Index != 0 {
						continue
					}
					if c, isC := ex.Tuple.(*ssa.Call); isC {
						_, path := core.AccessPath(c.Call.Value)
						if len(path) > 0 && path[len(path)-1] == "sortContainerNodesFunc" {
							ok = true
						}
					}
				}
			}
			r6.Check(ok, core.FuncName(fn)+"#cached-vectors", p.InstrPos(ad.Call), "the cached entry holds the sorted vectors",
				"the entry added to the per-object placement cache does not get the result of the sort made for the object: later lookups (the policer's GetNodesForObject) see the container's unsorted order and take other nodes for the object's primaries than the rest of the network")
		}
	}
	if nAdd == 0 {
		r.Fatalf("C27.R6: the placement service no longer caches per-object placements")
	}
	r.Explain += " (R6) both places of the placement service that fill the per-object cache store the sort call's own result in the entry's node sets before adding it."
	// ---------------- R4 a detected deficit is never answered with a task for zero copies
	r4 := r.Rule("C27.R4", "every replication task the policer issues asks for at least one copy (provable from the guards that led to it): a deficit answered with a zero-copy task is a fixed point of the policer", 3)
	nTask := 0
	for _, fn := range p.FuncsIn("pkg/services/policer") {
		for _, s := range core.CallSites([]*ssa.Function{fn}, func(s core.Site) bool {
			return s.Name == "(*pkg/services/policer.Policer).tryToReplicate" || s.Name == "(*pkg/services/replicator.Task).SetCopiesNumber"
		}) {
			a := s.Call.Common().Args
			q := a[len(a)-1]
			if s.Name == "(*pkg/services/policer.Policer).tryToReplicate" {
				q = a[3]
			}
			if core.ParamIndex(fn, q) >= 0 {
				continue // forwarded parameter: judged at the callers
			}
			nTask++
			oc := core.NewOrderCtx(s.Call.(ssa.Instruction))
			k, isK := intConstOf(q)
			ok := isK && k >= 1 || !isK && oc.ProveLE(ssaZero(fn), q, -1)
			r4.Check(ok, core.FuncName(fn)+"#copies>=1", p.InstrPos(s.Call), "the number of copies asked for is at least one", "the number of copies asked from the replicator cannot be shown to be at least one here: with zero the replicator does nothing, the deficit is detected again on every cycle and never repaired")
		}
	}
	if nTask == 0 {
		r.Fatalf("C27.R4: no replication task site found in the policer")
	}
}

// replicatorReportsOnlyAcceptedCopies: shared by C27.R1 and C26.R6. In Replicator.HandleTask SubmitSuccessfulReplication is
// called only after the send to that same node returned nil — the remote replication (directly or through a helper of the
// package whose nil result is the sender's nil result) or the local put — with the current iteration's node as argument.
func replicatorReportsOnlyAcceptedCopies(p *core.Prog, r *core.Report, r1 *core.RuleH) {
	ht := p.Func("(*pkg/services/replicator.Replicator).HandleTask")
	if ht == nil {
		r.Fatalf("%s: HandleTask not found", r1.ID())
		return
	}
	isSend := func(s core.Site) bool { return strings.HasSuffix(s.Name, ").ReplicateObjectToNode") }
	remote := core.Guard{Name: "remote-accepted", Comps: []core.Comp{{Result: -1, Kind: core.ErrNil}}, Match: func(s core.Site) bool {
		if isSend(s) {
			return true
		}
		cal := core.StaticCallee(s.Call)
		if cal == nil || cal.Blocks == nil || core.FuncPkg(cal) != core.FuncPkg(ht) {
			return false
		}
		res := cal.Signature.Results()
		if res.Len() != 1 || res.At(0).Type().String() != "error" || len(core.CallSites([]*ssa.Function{cal}, isSend)) == 0 {
			return false
		}
		return core.SuccessHolds(p, cal, core.SuccessRule{ResultIdx: -1, Guards: []core.Guard{{Name: "sent", Match: isSend, Comps: []core.Comp{{Result: -1, Kind: core.ErrNil}}}}})
	}}
	local := core.Guard{Name: "stored-locally", Match: func(s core.Site) bool {
		return strings.HasSuffix(s.Name, ").Put") && (strings.Contains(s.Name, "engine.StorageEngine") || strings.Contains(s.Name, "replicator."))
	}, Comps: []core.Comp{{Result: -1, Kind: core.ErrNil}}}
	isSubmit := func(in ssa.Instruction) bool {
		c, ok := in.(ssa.CallInstruction)
		return ok && strings.HasSuffix(core.CalleeName(c), "TaskResult).SubmitSuccessfulReplication")
	}
	core.CheckEffectsFn(p, r1, ht, core.EffectRule{Min: 1, Guards: []core.Guard{remote, local}, Derived: []core.Derived{{Name: "node-accepted-the-copy", Alts: [][]string{{"remote-accepted"}, {"stored-locally"}}}},
		Need: func(string) []string { return []string{"node-accepted-the-copy"} }, Effect: func(_ *core.Prog, in ssa.Instruction) (string, bool) {
			return "SubmitSuccessfulReplication", isSubmit(in)
		}})
	// the reported node is task.nodes[i] of the current iteration, the same element the send used
	for _, b := range ht.Blocks {
		for _, in := range b.Instrs {
			if !isSubmit(in) {
				continue
			}
			arg := in.(ssa.CallInstruction).Common().Args[0]
			u, ok := arg.(*ssa.UnOp)
			good := false
			if ok {
				if ia, isIA := u.X.(*ssa.IndexAddr); isIA {
					if _, path := core.AccessPath(ia.X); len(path) > 0 && path[len(path)-1] == "nodes" {
						_, isPhi := ia.Index.(*ssa.Phi)
						good = isPhi
					}
				}
			}
			r1.Check(good, core.FuncName(ht)+"#reported-node", p.InstrPos(in), "the reported node is task.nodes[i] of the current iteration", "the node reported as successful is not the current iteration's node")
		}
	}
}

func policerCursorNeverReused(p *core.Prog, r *core.Report, h *core.RuleH) {
	fn := p.Func("(*pkg/services/policer.Policer).shardPolicyWorker")
	if fn == nil {
		r.Fatalf("C27.R5: shardPolicyWorker not found")
		return
	}
	var lists []ssa.CallInstruction
	for _, b := range fn.Blocks {
		for _, in := range b.Instrs {
			if c, ok := in.(ssa.CallInstruction); ok && c.Common().IsInvoke() && c.Common().Method.Name() == "ListWithCursor" {
				lists = append(lists, c)
			}
		}
	}
	if len(lists) == 0 {
		r.Fatalf("C27.R5: the policer no longer lists through ListWithCursor")
		return
	}
	isListed := func(v ssa.Value) bool {
		ex, ok := v.(*ssa.Extract)
		if !ok {
			return false
		}
		c, ok := ex.Tuple.(ssa.CallInstruction)
		return ok && c.Common().IsInvoke() && c.Common().Method.Name() == "ListWithCursor"
	}
	for _, lc := range lists {
		var cur ssa.Value
		for _, a := range lc.Common().Args {
			if strings.HasSuffix(a.Type().String(), "engine.Cursor") {
				cur = a
			}
		}
		key := core.FuncName(fn) + "#listing-cursor"
		if cur == nil {
			h.Bad(key, p.InstrPos(lc), "no cursor argument found")
			continue
		}
		bad := ""
		seen := map[ssa.Value]bool{}
		var walk func(v ssa.Value, from, at *ssa.BasicBlock)
		walk = func(v ssa.Value, from, at *ssa.BasicBlock) {
			if bad != "" {
				return
			}
			switch x := v.(type) {
			case *ssa.Phi:
				if seen[x] {
					return
				}
				seen[x] = true
				for i, e := range x.Edges {
					walk(e, x.Block().Preds[i], x.Block())
				}
			case *ssa.Const:
				if !x.IsNil() {
					bad = "a constant cursor"
				}
			default:
				if isListed(v) {
					return
				}
				in, isIn := v.(ssa.Instruction)
				if !isIn {
					bad = "a cursor that is not created in this function (" + v.Name() + ")"
					return
				}
				// created here: fine if created inside the loop (fresh each time) or entering from outside the loop
				if inCycle(in.Block()) {
					return
				}
				if from != nil && at != nil && reaches(at, from) {
					bad = "the cursor created once at " + p.InstrPos(in) + " is put back into the loop variable from inside the loop (through " + from.String() + ")"
				}
			}
		}
		walk(cur, nil, nil)
		h.Check(bad == "", key, p.InstrPos(lc), "continues from the returned cursor, nil, or a fresh one", "the listing is continued with "+bad+": ListWithCursor advances the cursor it is given in place, so a kept cursor no longer points where it was created; the cycle jumps to the end of the listing and every object between the stop address and the end is never checked again (a lost replica there is never restored)")
	}
}
