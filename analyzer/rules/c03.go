package rules

import (
	"fmt"
	"go/token"
	"sort"
	"strings"

	"golang.org/x/tools/go/ssa"

	"verif/analyzer/core"
)

// C03 — search returns exactly the matching available objects (index-maintenance agreement only).
func init() {
	register(&Check{ID: "C03", Level: "other", Pkgs: []string{"./pkg/local_object_storage/metabase", "./pkg/core/object", "./internal/signed256"}, Run: runC03})
}

// prefixConstsIn: named metaPrefix* constants stored at byte 0 of a key in the given functions.
func prefixConstsIn(p *core.Prog, fns []*ssa.Function) map[string]bool {
	names := map[int64]string{}
	for _, n := range []string{"metaPrefixID", "metaPrefixAttrIDInt", "metaPrefixAttrIDPlain", "metaPrefixIDAttr", "metaPrefixGarbage", "metaPrefixContainerRemoved"} {
		if v, ok := p.ConstInt(mb + n); ok {
			names[v] = n
		}
	}
	out := map[string]bool{}
	for _, fn := range fns {
		for _, b := range fn.Blocks {
			for _, in := range b.Instrs {
				st, ok := in.(*ssa.Store)
				if !ok {
					continue
				}
				ia, ok := st.Addr.(*ssa.IndexAddr)
				if !ok {
					continue
				}
				if i, isI := intConstOf(ia.Index); !isI || i != 0 {
					continue
				}
				t := st.Val.Type().String()
				if t != "byte" && t != "uint8" {
					continue
				}
				if k, isK := intConstOf(st.Val); isK {
					if n, known := names[k]; known {
						out[n] = true
					}
				}
			}
		}
	}
	return out
}

func runC03(p *core.Prog, r *core.Report) {
	r.Explain = "Decides only that the search indexes are maintained consistently, not what a query returns: (R1) every key class the put side writes for an object (object id, attribute→id plain and integer, id→attribute) is a class the delete side removes; (R2) writer, deleter and query side decide 'this attribute value is an integer' with the same parser (signed256.ParseDecimal), the writer indexes an integer only when that parser accepted it, and the deleter asks the parser for EVERY attribute it removes (no path through its loop skips the integer-key clean-up); (R3) the integer value length used to build and to cut keys is one constant; (R4) filtered and unfiltered search yield only through the status check (rule shared with C01); (R5) in the filter matcher a remembered integer parse is reused only for the stored value it was parsed from (the 'already parsed' flag starts false and is not carried around a loop that fetches a new stored value).; (R6) in the ordered scan of the primary attribute a mismatch ends the search only for operators whose failure is monotone in the key order — never for NUM_GT, NUM_GE, STRING_NOT_EQUAL; (R7) the start key of the scan is obtained by Base58/HEX-decoding the filter text only when the filter is not a COMMON_PREFIX one or the text is the complete value. Not covered: filter semantics, ordering, cursor continuation across pages — all functions of attribute values; no sound static argument is in reach."
	put := p.Func(mb + "PutMetadataForObject")
	del := p.Func(mb + "deleteMetadata")
	if put == nil || del == nil {
		r.Fatalf("C03: PutMetadataForObject / deleteMetadata not found")
		return
	}
	// ---------------- R1
	r1 := r.Rule("C03.R1", "every key class written for an object by the put side is removed by the delete side", 4)
	var putFns []*ssa.Function
	for _, n := range []string{"PutMetadataForObject", "prepareMetaAttrIDKey", "prepareMetaIDAttrKey", "putPlainAttribute", "putIntAttribute"} {
		for _, fn := range p.FuncsIn("pkg/local_object_storage/metabase") {
			base := core.FuncName(fn)
			if base == mb+n || strings.HasPrefix(base, mb+n+"[") || strings.HasPrefix(base, mb+n+"$") {
				putFns = append(putFns, fn)
			}
		}
	}
	w := prefixConstsIn(p, putFns)
	d := prefixConstsIn(p, append([]*ssa.Function{del}, del.AnonFuncs...))
	var ws []string
	for k := range w {
		ws = append(ws, k)
	}
	sort.Strings(ws)
	if len(ws) < 4 {
		r.Fatalf("C03.R1: only %d key classes resolved on the put side (%v), expected 4", len(ws), ws)
	}
	for _, k := range ws {
		r1.Check(d[k], "put:"+k+"→delete", p.Pos(del.Pos()), "the delete side builds keys of this class too", "the put side writes keys with prefix "+k+" but deleteMetadata never builds a key of that class: index entries of removed objects stay behind and are found by searches")
	}
	// ---------------- R2
	r2 := r.Rule("C03.R2", "one integer predicate for writer, deleter and query side; the deleter applies it to every attribute it removes", 5)
	pi := p.Func(mb + "parseInt")
	if pi == nil {
		r.Fatalf("C03.R2: metabase.parseInt not found")
	} else {
		ok := len(core.CallSites([]*ssa.Function{pi}, func(s core.Site) bool { return s.Name == s256+"ParseDecimal" })) == 1
		r2.Check(ok, mb+"parseInt#parser", p.Pos(pi.Pos()), "parseInt is signed256.ParseDecimal", "metabase.parseInt no longer decides with signed256.ParseDecimal")
		parserWrapperAgrees(p, r2, pi) // and nothing but it: no pre- or post-filter (rule shared with C05.R2)
	}
	nq := len(core.CallSites(p.FuncsIn("pkg/core/object"), func(s core.Site) bool {
		return s.Name == s256+"ParseDecimal" && strings.HasPrefix(core.FuncName(s.Fn), "pkg/core/object.MetaDataKVHandler")
	}))
	r2.Check(nq >= 1, "pkg/core/object.MetaDataKVHandler#parser", "-", "the query side parses stored values with signed256.ParseDecimal", "the search handler no longer parses stored attribute values with signed256.ParseDecimal")
	isIntG := core.Guard{Name: "parser-accepted", Match: func(s core.Site) bool { return s.Name == mb+"parseInt" }, Comps: []core.Comp{{Result: 1, Kind: core.IsTrue}}}
	core.CheckEffectsFn(p, r2, put, core.EffectRule{Min: 1, Guards: []core.Guard{isIntG}, Effect: func(_ *core.Prog, in ssa.Instruction) (string, bool) {
		c, ok := in.(ssa.CallInstruction)
		if !ok || core.CalleeName(c) != mb+"putIntAttribute" {
			return "", false
		}
		// the two system fields are integers by construction (SetUint64): only attribute values need the parser
		if _, isCall := c.Common().Args[5].(*ssa.Call); isCall {
			return "", false
		}
		return "putIntAttribute(user attribute)", true
	}})
	nCut := 0
	for _, s := range core.CallSites([]*ssa.Function{del}, func(s core.Site) bool { return s.Name == "bytes.Cut" }) {
		nCut++
		isParse := func(in ssa.Instruction) bool {
			c, ok := in.(ssa.CallInstruction)
			return ok && core.CalleeName(c) == mb+"parseInt"
		}
		isErrRet := func(in ssa.Instruction) bool {
			ret, ok := in.(*ssa.Return)
			if !ok {
				return false
			}
			return core.KnownNonNil(core.NewMemReach(del), ret.Results[len(ret.Results)-1], in.Block())
		}
		r2.Check(core.MustFollow(s.Call.(ssa.Instruction), func(in ssa.Instruction) bool { return isParse(in) || isErrRet(in) }), core.FuncName(del)+"#every-attribute-is-asked", p.InstrPos(s.Call),
			"every removed attribute goes through the integer predicate (or the function fails)", "some path through deleteMetadata's attribute loop skips the integer predicate: the integer index key of such an attribute is left behind when the object is removed")
	}
	if nCut == 0 {
		r2.Bad(core.FuncName(del)+"#every-attribute-is-asked", p.Pos(del.Pos()), "deleteMetadata no longer splits id→attribute keys with bytes.Cut; the rule needs re-anchoring")
	}
	// the integer key is queued for deletion under the predicate
	core.CheckEffectsFn(p, r2, del, core.EffectRule{Min: 1, Guards: []core.Guard{isIntG}, Effect: core.CallTo(mb + "putInt")})

	// ---------------- R3
	r3 := r.Rule("C03.R3", "integer value length: one constant for building and cutting keys", 1)
	a, okA := p.ConstInt(s256 + "EncodedLen")
	b, okB := p.ConstInt(mb + "intValLen")
	c, okC := p.ConstInt("pkg/core/object.intValLen")
	r3.Check(okA && okB && okC && a == b && b == c, "intValLen", "-", fmt.Sprintf("all equal %d", a), fmt.Sprintf("integer value length constants disagree: signed256=%d metabase=%d core/object=%d", a, b, c))

	// ---------------- R4
	r4 := r.Rule("C03.R4", "search yields only through the status check", 6)
	searchStatusRule(p, r, r4)
	// ---------------- R5 a remembered parse belongs to the value it was parsed from
	r5 := r.Rule("C03.R5", "the filter matcher reuses a parsed integer only for the stored value it was parsed from: the 'already parsed' flag is not carried around a loop that fetches a new stored value, and starts false", 1)
	parsedFlagNotStale(p, r, r5)
	// ---------------- R6 a lower-bound mismatch never ends the scan
	r6 := r.Rule("C03.R6", "in the ordered scan of the primary attribute a filter mismatch ends the search only for operators whose failure is monotone: never for NUM_GT, NUM_GE or STRING_NOT_EQUAL (a value below a lower bound says nothing about the following keys)", 1)
	mismatchStopsOnlyMonotone(p, r, r6)
	// ---------------- R7 the start position of a PREFIX scan
	r9 := r.Rule("C03.R9", "while the search walks the index of the requested attribute, a filter is matched against the value taken from the index KEY only if it is of the primary filter's kind (numeric / text): the key holds the value in that one form; filters of the other kind on the same attribute go to the per-attribute check", 2)
	keyValueMatchedBySameKindOnly(p, r, r9)
	r.Explain += " (R9) in the handler's primary-key loop the two matchers fed with the key's value (intBytesMatch; combineValues on the key value) are reached only behind the test 'this filter's kind == the primary filter's kind'; without it a numeric filter is compared with plain text (and a nil bound) or a text filter with the 33-byte encoding, and the same query answers differently when ordered by the attribute and when ordered by ID."
	r8 := r.Rule("C03.R8", "the parser of numeric filter bounds (package signed256) uses the value of a strconv parser only where that parser returned no error (shared with C05.R7)", 1)
	parsedValueOnlyAfterErrCheck(p, r, r8)
	r.Explain += " (R8, shared with C05.R7) the parser of numeric filter bounds uses the result of the word-sized strconv parser only where it returned no error; otherwise the bound is the clamped 2^64-1 and the filter compares against another number than the one stored values were indexed under."
	r7 := r.Rule("C03.R7", "PreprocessSearchQuery turns the primary filter's text into a start key with Base58/HEX decoding only when the filter is not a COMMON_PREFIX one or the text is the whole value: a cut text is not a prefix of the binary form", 2)
	if pq := p.Func("pkg/core/object.PreprocessSearchQuery"); pq == nil {
		r.Fatalf("C03.R7: PreprocessSearchQuery not found")
	} else {
		prefK, _ := p.ConstInt("github.com/nspcc-dev/neofs-sdk-go/object.MatchCommonPrefix")
		gs := []core.Guard{
			{Name: "not-a-prefix-filter", Pure: true, Comps: []core.Comp{{Result: -1, Kind: core.IsFalse}}, Value: func(_ *ssa.Function, v ssa.Value) bool {
				bo, ok := v.(*ssa.BinOp)
				if !ok || bo.Op != token.EQL || !strings.HasSuffix(bo.X.Type().String(), "object.SearchMatchType") {
					return false
				}
				k, isK := intConstOf(bo.Y)
				return isK && k == prefK
			}},
			{Name: "text-is-the-whole-value", Pure: true, Comps: []core.Comp{{Result: -1, Kind: core.IsFalse}}, Match: func(s core.Site) bool {
				cal := core.StaticCallee(s.Call)
				if cal == nil || cal.Blocks == nil || core.FuncPkg(cal) != core.FuncPkg(pq) || cal.Signature.Results().Len() != 1 || cal.Signature.Results().At(0).Type().String() != "bool" {
					return false
				}
				// a predicate of the package that itself decodes the text (to compare its length / validity)
				return len(core.CallSites([]*ssa.Function{cal}, func(x core.Site) bool {
					return strings.HasSuffix(x.Name, "base58.Decode") || x.Name == "encoding/hex.DecodeString"
				})) > 0
			}},
		}
		core.CheckEffectsFn(p, r7, pq, core.EffectRule{Min: 2, Guards: gs, Derived: []core.Derived{{Name: "decoding-keeps-the-prefix-relation", Alts: [][]string{{"not-a-prefix-filter"}, {"text-is-the-whole-value"}}}},
			Need: func(string) []string { return []string{"decoding-keeps-the-prefix-relation"} },
			Effect: func(_ *core.Prog, in ssa.Instruction) (string, bool) {
				c, ok := in.(ssa.CallInstruction)
				if !ok {
					return "", false
				}
				n := core.CalleeName(c)
				if strings.HasSuffix(n, "base58.Decode") || n == "encoding/hex.DecodeString" {
					return "start key from " + n[strings.LastIndex(n, "/")+1:], true
				}
				return "", false
			}})
	}
}

// mismatchStopsOnlyMonotone: see C03.R6.
func mismatchStopsOnlyMonotone(p *core.Prog, r *core.Report, h *core.RuleH) {
	opK := func(n string) int64 {
		v, _ := p.ConstInt("github.com/nspcc-dev/neofs-sdk-go/object." + n)
		return v
	}
	var isMatchVal func(v ssa.Value, d int) bool
	isMatchVal = func(v ssa.Value, d int) bool {
		switch x := v.(type) {
		case *ssa.Call:
			switch core.CalleeName(x) {
			case "pkg/core/object.intBytesMatch", "pkg/core/object.matchValues", "pkg/core/object.intMatches":
				return true
			}
		case *ssa.Phi:
			if d > 0 {
				for _, e := range x.Edges {
					if isMatchVal(e, d-1) {
						return true
					}
				}
			}
		}
		return false
	}
	n := 0
	for _, fn := range p.FuncsIn("pkg/core/object") {
		if !strings.HasPrefix(core.FuncName(fn), "pkg/core/object.MetaDataKVHandler$") {
			continue
		}
		// blocks on a "does not match" edge
		var regions []*ssa.BasicBlock
		for _, b := range fn.Blocks {
			iff, ok := b.Instrs[len(b.Instrs)-1].(*ssa.If)
			if ok && isMatchVal(iff.Cond, 3) && len(b.Succs[1].Preds) == 1 {
				regions = append(regions, b.Succs[1])
			}
		}
		if len(regions) == 0 {
			continue
		}
		inRegion := func(b *ssa.BasicBlock) bool {
			for _, rg := range regions {
				if rg.Dominates(b) {
					return true
				}
			}
			return false
		}
		opNot := func(name string) core.Guard {
			k := opK(name)
			return core.Guard{Name: "op!=" + name, Pure: true, Comps: []core.Comp{{Result: -1, Kind: core.IsFalse}}, Value: func(_ *ssa.Function, v ssa.Value) bool {
				bo, ok := v.(*ssa.BinOp)
				if !ok || bo.Op != token.EQL || !strings.HasSuffix(bo.X.Type().String(), "object.SearchMatchType") {
					return false
				}
				c, isK := intConstOf(bo.Y)
				return isK && c == k
			}}
		}
		opNotNE := func(name string) core.Guard { // the `mch != K` spelling: passes on the false edge... of `!=`? no: `mch != K` TRUE means different
			k := opK(name)
			return core.Guard{Name: "op!=" + name + "(ne-form)", Pure: true, Comps: []core.Comp{{Result: -1, Kind: core.IsTrue}}, Value: func(_ *ssa.Function, v ssa.Value) bool {
				bo, ok := v.(*ssa.BinOp)
				if !ok || bo.Op != token.NEQ || !strings.HasSuffix(bo.X.Type().String(), "object.SearchMatchType") {
					return false
				}
				c, isK := intConstOf(bo.Y)
				return isK && c == k
			}}
		}
		names := []string{"MatchNumGT", "MatchNumGE", "MatchStringNotEqual"}
		var gs []core.Guard
		var der []core.Derived
		var need []string
		for _, nm := range names {
			gs = append(gs, opNot(nm), opNotNE(nm))
			der = append(der, core.Derived{Name: "operator-is-not-" + nm, Alts: [][]string{{"op!=" + nm}, {"op!=" + nm + "(ne-form)"}}})
			need = append(need, "operator-is-not-"+nm)
		}
		n += core.CheckEffectsFn(p, h, fn, core.EffectRule{Guards: gs, Derived: der, Need: func(string) []string { return need }, Effect: func(_ *core.Prog, in ssa.Instruction) (string, bool) {
			if !inRegion(in.Block()) {
				return "", false
			}
			switch x := in.(type) {
			case *ssa.Store:
				if c, ok := x.Val.(*ssa.Const); ok && x.Val.Type().String() == "bool" && c.Value != nil && c.Value.String() == "false" {
					if _, isAlloc := x.Addr.(*ssa.Alloc); isAlloc {
						return "stop-the-scan", true
					}
				}
			case *ssa.Return:
				if len(x.Results) == 1 {
					if c, ok := x.Results[0].(*ssa.Const); ok && c.Value != nil && c.Value.String() == "false" {
						return "stop-the-scan", true
					}
				}
			}
			return "", false
		}})
	}
	if n == 0 {
		r.Fatalf("%s: no 'mismatch ends the scan' site found in MetaDataKVHandler", h.ID())
	}
}

// parsedFlagNotStale: in the search handler, `if !parsed { v, err = ParseDecimal(string(dbVal)); parsed = err == nil }` caches the
// integer form of dbVal. The flag must not survive a refresh of dbVal.
func parsedFlagNotStale(p *core.Prog, r *core.Report, h *core.RuleH) {
	n := 0
	for _, fn := range p.FuncsIn("pkg/core/object") {
		if !strings.HasPrefix(core.FuncName(fn), "pkg/core/object.MetaDataKVHandler") {
			continue
		}
		for _, ps := range core.CallSites([]*ssa.Function{fn}, func(s core.Site) bool { return s.Name == s256+"ParseDecimal" }) {
			// the cell the parsed text is loaded from
			var cell ssa.Value
			walkOperands(ps.Call.Common().Args[0], 4, func(x ssa.Value) {
				if u, ok := x.(*ssa.UnOp); ok && u.Op.String() == "*" && cell == nil {
					cell = u.X
				}
			})
			call, _ := ps.Call.(*ssa.Call)
			if cell == nil || call == nil || call.Referrers() == nil {
				continue
			}
			// parsedOK = (err == nil)
			var parsedOK ssa.Value
			for _, ref := range *call.Referrers() {
				ex, ok := ref.(*ssa.Extract)
				if !ok || ex.Index != 1 || ex.Referrers() == nil {
					continue
				}
				for _, u := range *ex.Referrers() {
					if bo, isB := u.(*ssa.BinOp); isB && bo.Op.String() == "==" {
						if c, isC := bo.Y.(*ssa.Const); isC && c.IsNil() {
							parsedOK = bo
						}
					}
				}
			}
			if parsedOK == nil {
				continue
			}
			// phi family fed by parsedOK
			fam := map[*ssa.Phi]bool{}
			var grow func(v ssa.Value)
			grow = func(v ssa.Value) {
				if v.Referrers() == nil {
					return
				}
				for _, ref := range *v.Referrers() {
					if ph, ok := ref.(*ssa.Phi); ok && !fam[ph] {
						fam[ph] = true
						grow(ph)
					}
				}
			}
			grow(parsedOK)
			if len(fam) == 0 {
				continue // parsed every time, nothing remembered
			}
			n++
			id := core.FuncName(fn) + "#remembered-parse"
			pos := p.InstrPos(ps.Call)
			bad := ""
			for ph := range fam {
				for _, e := range ph.Edges {
					if e == parsedOK {
						continue
					}
					if q, isPhi := e.(*ssa.Phi); isPhi && fam[q] {
						continue
					}
					if c, isC := e.(*ssa.Const); isC && c.Value != nil && c.Value.String() == "false" {
						continue
					}
					bad = "the 'already parsed' flag can become true from something else than a successful parse"
				}
				hb := ph.Block()
				isHdr := false
				for _, pr := range hb.Preds {
					if hb.Dominates(pr) {
						isHdr = true
					}
				}
				if !isHdr {
					continue
				}
				for _, b := range fn.Blocks {
					if !(hb.Dominates(b) && (b == hb || reaches(b, hb))) {
						continue
					}
					for _, in := range b.Instrs {
						if st, isSt := in.(*ssa.Store); isSt && st.Addr == cell {
							bad = "the 'already parsed' flag is carried around the loop at " + p.Pos(hb.Instrs[0].Pos()) + " in which a new stored value is fetched (" + p.InstrPos(st) + "): the integer parsed from the previous attribute's value is compared with this attribute's filter"
						}
					}
				}
			}
			h.Check(bad == "", id, pos, "the flag starts false and is never carried across a refresh of the stored value", bad)
		}
	}
	if n == 0 {
		h.OKTrivial("pkg/core/object.MetaDataKVHandler#remembered-parse", "-", "the handler remembers no parse: every comparison parses the current value")
	}
}

func keyValueMatchedBySameKindOnly(p *core.Prog, r *core.Report, h *core.RuleH) {
	var body *ssa.Function
	if mk := p.Func("pkg/core/object.MetaDataKVHandler"); mk != nil {
		for _, a := range mk.AnonFuncs {
			if len(core.CallSites([]*ssa.Function{a}, func(s core.Site) bool { return s.Name == "pkg/core/object.intBytesMatch" })) > 0 {
				body = a
			}
		}
	}
	if body == nil {
		r.Fatalf("C03.R9: the key handler returned by MetaDataKVHandler (with intBytesMatch) not found")
		return
	}
	isFree := func(v ssa.Value, name string) bool {
		u, ok := v.(*ssa.UnOp)
		if !ok || u.Op != token.MUL {
			return false
		}
		fv, ok := u.X.(*ssa.FreeVar)
		return ok && fv.Name() == name
	}
	isKind := func(v ssa.Value) bool {
		c, ok := v.(*ssa.Call)
		return ok && core.CalleeName(c) == "pkg/core/object.IsIntegerSearchOp"
	}
	same := func(op token.Token) func(*ssa.Function, ssa.Value) bool {
		return func(_ *ssa.Function, v ssa.Value) bool {
			bo, ok := v.(*ssa.BinOp)
			if !ok || bo.Op != op {
				return false
			}
			return isKind(bo.X) && isFree(bo.Y, "intPrimMatcher") || isKind(bo.Y) && isFree(bo.X, "intPrimMatcher")
		}
	}
	gs := []core.Guard{
		{Name: "same-kind(ne-form)", Comps: []core.Comp{{Result: -1, Kind: core.IsFalse}}, Value: same(token.NEQ)},
		{Name: "same-kind(eq-form)", Comps: []core.Comp{{Result: -1, Kind: core.IsTrue}}, Value: same(token.EQL)},
	}
	core.CheckEffectsFn(p, h, body, core.EffectRule{Min: 2, Guards: gs,
		Derived: []core.Derived{{Name: "filter-is-of-the-primary-filters-kind", Alts: [][]string{{gs[0].Name}, {gs[1].Name}}}},
		Effect: func(_ *core.Prog, in ssa.Instruction) (string, bool) {
			c, ok := in.(*ssa.Call)
			if !ok {
				return "", false
			}
			switch core.CalleeName(c) {
			case "pkg/core/object.intBytesMatch":
				if isFree(c.Call.Args[0], "primDBVal") {
					return "key-value-as-integer", true
				}
			case "pkg/core/object.combineValues":
				if isFree(c.Call.Args[1], "primDBVal") {
					return "key-value-as-text", true
				}
			}
			return "", false
		}, Need: func(string) []string { return []string{"filter-is-of-the-primary-filters-kind"} }})
}
