package rules

import (
	"go/token"
	"go/types"
	"sort"
	"strings"

	"golang.org/x/tools/go/ssa"

	"verif/analyzer/core"
)

// C33 — request signature chains are accepted only if every layer verifies (structural half).
func init() {
	register(&Check{ID: "C33", Level: "other", Pkgs: []string{"./internal/crypto", "./pkg/services/...", "./cmd/neofs-node", "./pkg/network/peerauth", "./pkg/innerring/processors/netmap/nodevalidation/..."}, Run: runC33})
}

func runC33(p *core.Prog, r *core.Report) {
	r.Explain = "The layer-by-layer verification itself lives in the SDK (VerifyRequestWithBufferN3) and is not analysed. Decided here: (R1) requestNeedsSignature can answer 'no' only on the path {no verification header, meta header present, TTL==1, IsTrustedPeer(ctx)}; (R2) each VerifyRequestSignatures* wrapper returns nil only through that exemption or a nil result of verifyRequestSignatures, which itself returns nil only when the SDK verifier did; (R3) for every gRPC service registered in cmd/neofs-node (derived from the Register*ServiceServer call sites) every method of the generated server interface verifies the signature of its own request before any call through the server's state. Not covered: byte-level mutation of signed fields, the SDK verifier."
	// ---- R1
	r1 := r.Rule("C33.R1", "requestNeedsSignature returns false only when: no verification header, meta header present, TTL == 1 and the peer connection is authenticated", 2)
	signatureExemptionRule(p, r, r1)
	// ---- R2
	r2 := r.Rule("C33.R2", "VerifyRequestSignatures* return nil only via the exemption or verifyRequestSignatures()==nil; verifyRequestSignatures returns nil only if the SDK verifier did", 4)
	needs := core.G("needs-signature-false", core.IsFalse, "internal/crypto.requestNeedsSignature").Where(func(s core.Site) bool {
		a := s.Call.Common().Args
		return len(a) == 2 && core.ParamIndex(s.Fn, a[0]) == 0 && core.ParamIndex(s.Fn, a[1]) == 1
	})
	verify := core.G("verified", core.ErrNil, "internal/crypto.verifyRequestSignatures").Where(func(s core.Site) bool {
		a := s.Call.Common().Args
		i := core.ParamIndex(s.Fn, a[0])
		return i >= 0 && strings.Contains(s.Fn.Params[i].Type().String(), "SignedRequest")
	})
	for _, w := range []struct {
		name   string
		exempt bool
	}{{"VerifyRequestSignatures", false}, {"VerifyRequestSignaturesWithContext", true}, {"VerifyRequestSignaturesN3", true}} {
		alts := [][]string{{"verified"}}
		if w.exempt {
			alts = append(alts, []string{"needs-signature-false"})
		}
		core.CheckSuccess(p, r2, core.SuccessRule{Fn: "internal/crypto." + w.name, ResultIdx: -1, MinReturns: 1,
			Guards: []core.Guard{needs, verify}, Derived: []core.Derived{{Name: "verified-or-exempt", Alts: alts}}, Need: []string{"verified-or-exempt"}})
	}
	core.CheckSuccess(p, r2, core.SuccessRule{Fn: "internal/crypto.verifyRequestSignatures", ResultIdx: -1, MinReturns: 1,
		Guards: []core.Guard{core.G("sdk-verifier", core.ErrNil, "github.com/nspcc-dev/neofs-sdk-go/crypto.VerifyRequestWithBufferN3").Where(func(s core.Site) bool {
			return core.ParamIndex(s.Fn, s.Call.Common().Args[0]) == 0
		})}})

	// ---- R3
	r3 := r.Rule("C33.R3", "every method of every registered gRPC service verifies its own request's signature before any call through the server's state", 19)
	regs := core.CallSites(p.FuncsIn("cmd/neofs-node"), func(s core.Site) bool {
		i := strings.LastIndex(s.Name, ".Register")
		return i > 0 && strings.HasSuffix(s.Name, "ServiceServer") && strings.Contains(s.Name[:i], "/proto/")
	})
	r.Analysed["registered_services"] = len(regs)
	if len(regs) < 5 {
		r.Fatalf("C33.R3: only %d Register*ServiceServer call sites found in cmd/neofs-node (expected >= 6)", len(regs))
	}
	// the object service is registered through a cloned ServiceDesc (cmd/neofs-node/object.go), not Register*: same obligation
	runObjHandlers(p, r, r3, func(fn *ssa.Function, desc string) []string { return []string{gSig} })
	seenSvc := map[string]bool{}
	for _, reg := range regs {
		args := reg.Call.Common().Args
		if len(args) != 2 {
			continue
		}
		callee := core.StaticCallee(reg.Call)
		iface, _ := callee.Signature.Params().At(1).Type().Underlying().(*types.Interface)
		impl := implType(args[1])
		if iface == nil || impl == nil {
			r3.Bad(reg.Name+"#impl", p.InstrPos(reg.Call), "cannot resolve the concrete server type registered here")
			continue
		}
		svc := reg.Name[strings.LastIndex(reg.Name, ".Register")+len(".Register"):]
		if seenSvc[svc] {
			continue
		}
		seenSvc[svc] = true
		if svc == "ObjectServiceServer" {
			// object service: same obligation, discharged with the object handlers' guard set
			runObjHandlers(p, r, r3, func(fn *ssa.Function, desc string) []string { return []string{gSig} })
			continue
		}
		var names []string
		for i := 0; i < iface.NumMethods(); i++ {
			if iface.Method(i).Exported() {
				names = append(names, iface.Method(i).Name())
			}
		}
		sort.Strings(names)
		for _, m := range names {
			sel := p.SSA.MethodSets.MethodSet(impl).Lookup(nil, m)
			if sel == nil {
				// unexported-package method lookup needs the package; fall back to name search
			}
			var fn *ssa.Function
			if sel != nil {
				fn = p.SSA.MethodValue(sel)
			}
			if fn == nil || fn.Blocks == nil {
				r3.Bad(svc+"."+m, "-", "method implementation not found / has no body")
				continue
			}
			if fn.Synthetic != "" { // pointer-receiver / promotion wrapper: analyse the wrapped method
				var real *ssa.Function
				for _, cs := range core.CallSites([]*ssa.Function{fn}, nil) {
					if cal := core.StaticCallee(cs.Call); cal != nil && cal.Name() == m {
						real = cal
					}
				}
				if real == nil || real.Blocks == nil || !strings.HasPrefix(real.String(), "("+core.Mod) && !strings.HasPrefix(real.String(), "(*"+core.Mod) {
					r3.OKTrivial(svc+"."+m+"#promoted", "-", "promoted method of an embedded SDK type (Unimplemented*Server), no body in the module: "+fn.Synthetic)
					continue
				}
				fn = real
			}
			checkServiceHandler(p, r3, fn)
		}
	}
	runC33N3(p, r)
	// ---- R6 the key of an 'authenticated peer' is the key the handshake proved
	r6 := r.Rule("C33.R6", "a peer key is taken only from the FIRST certificate of the presented chain (the only one whose key the TLS handshake proves possession of; the rest of the chain is not verified): every call of peerauth.CertificatePublicKey gets chain[0] or the parsed rawCerts[0]", 3)
	peerKeyFromLeafOnly(p, r, r6)
	r.Explain += " (R6) the exemption of R1 trusts the key attached to the connection; that key is read from element 0 of the peer's certificate chain at every site that derives a key from a certificate (the server requests a client certificate without verifying the chain, so only the leaf's key is proven by the handshake)."
}

func peerKeyFromLeafOnly(p *core.Prog, r *core.Report, h *core.RuleH) {
	isElem0 := func(v ssa.Value) bool {
		u, ok := v.(*ssa.UnOp)
		if !ok || u.Op != token.MUL {
			return false
		}
		ia, ok := u.X.(*ssa.IndexAddr)
		if !ok {
			return false
		}
		k, isK := intConstOf(ia.Index)
		return isK && k == 0
	}
	n := 0
	for _, s := range core.CallSites(p.Funcs(), func(s core.Site) bool { return s.Name == "pkg/network/peerauth.CertificatePublicKey" }) {
		n++
		a := s.Call.Common().Args[0]
		ok := isElem0(a)
		if !ok {
			if ex, isEx := a.(*ssa.Extract); isEx && ex.Index == 0 {
				if c, isC := ex.Tuple.(*ssa.Call); isC && core.CalleeName(c) == "crypto/x509.ParseCertificate" {
					ok = isElem0(c.Call.Args[0])
				}
			}
		}
		h.Check(ok, core.FuncName(s.Fn)+"#certificate", p.InstrPos(s.Call), "the key is read from the first certificate of the chain",
			"a peer key is read from a certificate other than (or not provably) the first of the presented chain: the handshake proves possession of the leaf key only, so a client can append anybody's certificate and its unsigned TTL=1 requests are accepted and attributed to that key")
	}
	if n == 0 {
		r.Fatalf("C33.R6: no caller of peerauth.CertificatePublicKey found")
	}
}

// runC33N3 — R5: the per-signature N3 callback and the script runner it ends in.
func runC33N3(p *core.Prog, r *core.Report) {
	r5 := r.Rule("C33.R5", "the N3 per-signature callback reports success only through verifyN3ScriptsNow()==nil on its own scripts with the hash of its own data argument; verifyN3Scripts reports success only when the contained script ran without error and returned true over a fake transaction built from its own arguments", 5)
	cb := p.Func("internal/crypto.VerifyRequestSignaturesN3$1")
	if cb == nil {
		r.Fatalf("C33.R5: N3 callback closure not found")
		return
	}
	hashesOwnData := func(v ssa.Value) bool {
		mc, ok := v.(*ssa.MakeClosure)
		if !ok {
			return false
		}
		fn := mc.Fn.(*ssa.Function)
		for _, b := range fn.Blocks {
			ret, ok := b.Instrs[len(b.Instrs)-1].(*ssa.Return)
			if !ok {
				continue
			}
			c, ok := ret.Results[0].(*ssa.Call)
			if !ok || core.CalleeName(c) != "crypto/sha256.Sum256" {
				return false
			}
			// its argument is the captured `data` parameter of the callback
			a := c.Call.Args[0]
			if u, isU := a.(*ssa.UnOp); isU {
				a = u.X
			}
			fv, isFV := a.(*ssa.FreeVar)
			if !isFV {
				return false
			}
			bound := core.ResolveFreeVar(fv)
			if bound == nil || core.ParamIndex(cb, bound) != 0 {
				return false
			}
		}
		return true
	}
	now := core.G("n3-scripts-verified", core.ErrNil, "internal/crypto.verifyN3ScriptsNow").Where(func(s core.Site) bool {
		a := s.Call.Common().Args
		if len(a) != 5 {
			return false
		}
		h, isH := a[1].(*ssa.Call)
		return core.RootParam(cb, a[2]) == 1 && core.RootParam(cb, a[3]) == 2 && isH && strings.HasSuffix(core.CalleeName(h), "crypto/hash.Hash160") && core.RootParam(cb, h.Call.Args[0]) == 2 && hashesOwnData(a[4])
	})
	core.CheckSuccessFn(p, r5, cb, core.SuccessRule{ResultIdx: -1, MinReturns: 1, Guards: []core.Guard{now}})
	if fn := p.Func("internal/crypto.verifyN3ScriptsNow"); fn == nil {
		r.Fatalf("C33.R5: verifyN3ScriptsNow not found")
	} else {
		core.CheckSuccessFn(p, r5, fn, core.SuccessRule{ResultIdx: -1, MinReturns: 1, Guards: []core.Guard{core.G("scripts-run", core.ErrNil, "internal/crypto.verifyN3Scripts").Where(func(s core.Site) bool {
			a := s.Call.Common().Args
			d, isC := a[5].(*ssa.Call)
			return core.ParamIndex(fn, a[2]) == 1 && core.ParamIndex(fn, a[3]) == 2 && core.ParamIndex(fn, a[4]) == 3 && isC && core.ParamIndex(fn, d.Call.Value) == 4
		})}})
	}
	if fn := p.Func("internal/crypto.verifyN3Scripts"); fn == nil {
		r.Fatalf("C33.R5: verifyN3Scripts not found")
	} else {
		ub := func(s core.Site) bool { return strings.HasSuffix(s.Name, "neo-go/pkg/rpcclient/unwrap.Bool") }
		gs := []core.Guard{
			{Name: "script-ran", Match: ub, Comps: []core.Comp{{Result: 1, Kind: core.ErrNil}}},
			{Name: "script-returned-true", Match: ub, Comps: []core.Comp{{Result: 0, Kind: core.IsTrue}}},
		}
		core.CheckSuccessFn(p, r5, fn, core.SuccessRule{ResultIdx: -1, MinReturns: 1, Guards: gs})
		// the fake transaction is built from this call's scripts, account and data hash
		okTx := false
		for _, s := range core.CallSites([]*ssa.Function{fn}, func(s core.Site) bool { return strings.HasSuffix(s.Name, "transaction.NewFakeTX") }) {
			a := s.Call.Common().Args
			sc, isC := a[0].(*ssa.Call)
			if isC && core.CalleeName(sc) == "slices.Concat" && core.ParamIndex(fn, a[2]) == 5 {
				okTx = true
			}
		}
		r5.Check(okTx, core.FuncName(fn)+"#NewFakeTX", p.Pos(fn.Pos()), "the verified transaction is (invocation‖verification script, data hash) of this call", "the fake transaction is not built from this call's scripts and data hash")
	}
}

func constBool(c *ssa.Const) (bool, bool) {
	if c.Value == nil || c.Value.Kind().String() != "Bool" {
		return false, false
	}
	return c.Value.String() == "true", true
}

// implType returns the concrete type wrapped into an interface argument.
func implType(v ssa.Value) types.Type {
	for i := 0; i < 8; i++ {
		switch x := v.(type) {
		case *ssa.MakeInterface:
			return x.X.Type()
		case *ssa.ChangeInterface:
			v = x.X
		case *ssa.Call:
			// constructor returning an interface: look at its returns
			if cal := core.StaticCallee(x); cal != nil && cal.Blocks != nil {
				for _, b := range cal.Blocks {
					if ret, ok := b.Instrs[len(b.Instrs)-1].(*ssa.Return); ok && len(ret.Results) > 0 {
						if t := implType(ret.Results[0]); t != nil {
							return t
						}
					}
				}
			}
			return nil
		case *ssa.UnOp:
			// load of a captured variable holding the server
			if fv, ok := x.X.(*ssa.FreeVar); ok {
				if rv := core.ResolveFreeVar(fv); rv != nil {
					v = rv
					continue
				}
			}
			return nil
		case *ssa.FreeVar:
			if rv := core.ResolveFreeVar(x); rv != nil {
				v = rv
				continue
			}
			return nil
		case *ssa.Phi:
			for _, e := range x.Edges {
				if t := implType(e); t != nil {
					return t
				}
			}
			return nil
		default:
			if _, isIface := v.Type().Underlying().(*types.Interface); !isIface {
				return v.Type()
			}
			return nil
		}
	}
	return nil
}

// checkServiceHandler: in a unary service handler, every call through the receiver's
// state (invoke on / call of a value loaded from a receiver field, or call of a
// receiver method that is not a response builder) and every closure is dominated by
// a successful signature verification of the handler's own request.
func checkServiceHandler(p *core.Prog, h *core.RuleH, fn *ssa.Function) {
	mr := core.NewMemReach(fn)
	reqIdx := -1
	for i, prm := range fn.Params {
		if strings.HasSuffix(prm.Type().String(), "Request") {
			reqIdx = i
		}
	}
	sig := core.Guard{Name: gSig, Comps: []core.Comp{{Result: -1, Kind: core.ErrNil}}, Match: func(s core.Site) bool {
		a := s.Call.Common().Args
		switch {
		case strings.HasPrefix(s.Name, "internal/crypto.VerifyRequestSignatures"):
			for _, x := range a {
				if ownRequest(mr, s.Fn, x) {
					return true
				}
			}
		case s.Name == "github.com/nspcc-dev/neofs-sdk-go/crypto.VerifyMessageSignature":
			// (req.Body, req.BodySignature, nil)
			if len(a) < 2 {
				return false
			}
			r0, p0 := core.AccessPathM(mr, a[0])
			r1, p1 := core.AccessPathM(mr, a[1])
			return core.ParamIndex(s.Fn, r0) == reqIdx && core.ParamIndex(s.Fn, r1) == reqIdx &&
				strings.Join(p0, ".") == "Body" && strings.Join(p1, ".") == "BodySignature"
		}
		return false
	}}
	recvType := ""
	if fn.Signature.Recv() != nil {
		recvType = core.Short(fn.Signature.Recv().Type().String())
	}
	n := core.CheckEffectsFn(p, h, fn, core.EffectRule{Guards: []core.Guard{sig}, Effect: func(p *core.Prog, in ssa.Instruction) (string, bool) {
		switch x := in.(type) {
		case ssa.CallInstruction:
			cc := x.Common()
			name := core.CalleeName(x)
			if cc.IsInvoke() || strings.HasPrefix(name, "field:") {
				if core.RootParam(fn, cc.Value) == 0 {
					return name, true
				}
				return "", false
			}
			if cal := core.StaticCallee(x); cal != nil && cal.Signature.Recv() != nil && core.Short(cal.Signature.Recv().Type().String()) == recvType {
				ln := strings.ToLower(cal.Name())
				if strings.HasPrefix(ln, "make") && strings.Contains(ln, "response") {
					return "", false // response builders (status / meta header / signing)
				}
				return "call " + name, true
			}
		case *ssa.MakeClosure:
			return "closure " + core.FuncName(x.Fn.(*ssa.Function)), true
		case *ssa.Go:
			return "go", true
		}
		return "", false
	}})
	if n == 0 {
		h.Bad(core.FuncName(fn)+"#no-effect", p.Pos(fn.Pos()), "handler has no effect site: effect table out of date for this service")
	}
}

// signatureExemptionRule: shared by C33.R1 and C29.R7.
func signatureExemptionRule(p *core.Prog, r *core.Report, r1 *core.RuleH) {
	if fn := p.Func("internal/crypto.requestNeedsSignature"); fn == nil {
		r.Fatalf("%s: requestNeedsSignature not found", r1.ID())
	} else {
		guards := []core.Guard{
			{Name: "no-verify-header", Match: func(s core.Site) bool { return strings.HasSuffix(s.Name, ").GetVerifyHeader") }, Comps: []core.Comp{{Result: -1, Kind: core.IsNil}}},
			{Name: "meta-present", Match: func(s core.Site) bool { return strings.HasSuffix(s.Name, ").GetMetaHeader") }, Comps: []core.Comp{{Result: -1, Kind: core.NonNil}}},
			{Name: "ttl-is-1", Match: func(s core.Site) bool { return strings.HasSuffix(s.Name, "RequestMetaHeader).GetTtl") }, Comps: []core.Comp{{Result: -1, Kind: core.EqConst, Const: 1}}},
		}
		gf := core.Flow(fn, guards)
		n := 0
		for _, b := range fn.Blocks {
			ret, ok := b.Instrs[len(b.Instrs)-1].(*ssa.Return)
			if !ok {
				continue
			}
			n++
			v := ret.Results[0]
			key := core.FuncName(fn) + "#return"
			if c, ok := v.(*ssa.Const); ok {
				if bv, isB := constBool(c); isB && bv {
					r1.OKTrivial(key+"-true", p.InstrPos(ret), "returns true (signature required)")
					continue
				}
				r1.Bad(key+"-false", p.InstrPos(ret), "returns constant false: signature exemption without the trusted-peer test")
				continue
			}
			// must be !IsTrustedPeer(ctx) with all guards passed
			ok = false
			if u, isU := v.(*ssa.UnOp); isU && u.Op.String() == "!" {
				if c, isC := u.X.(*ssa.Call); isC && core.CalleeName(c) == "pkg/network/peerauth.IsTrustedPeer" && core.ParamIndex(fn, c.Call.Args[0]) == 0 {
					ok = true
				}
			}
			if !ok {
				r1.Bad(key+"-exempt", p.InstrPos(ret), "the exemption result is not !peerauth.IsTrustedPeer(ctx)")
				continue
			}
			miss := gf.Missing(gf.At(ret), []int{0, 1, 2})
			r1.Check(len(miss) == 0, key+"-exempt", p.InstrPos(ret), "exemption reachable only with no verification header, meta header present and TTL==1", "exemption reachable without "+strings.Join(miss, ","))
		}
		if n == 0 {
			r.Fatalf("%s: no returns", r1.ID())
		}
	}
}
