package rules

import (
	"fmt"
	"go/token"
	"go/types"
	"strings"

	"golang.org/x/tools/go/ssa"

	"verif/analyzer/core"
)

// C25 — a successful PUT means the storage policy's copies were acknowledged (counting structure).
func init() {
	register(&Check{ID: "C25", Level: "other", Pkgs: []string{"./pkg/services/object/put"}, Run: runC25})
}

const putP = "pkg/services/object/put."

func runC25(p *core.Prog, r *core.Report) {
	r.Explain = "Decides the counting structure behind 'acknowledged', on all CFG paths: (R1) a node's 'succeeded' flag is set only from the nil error of the send to that node, and the per-list stored counter is increased only for such a node (in the sender on err==nil, or in the rule handler for a node already recorded as succeeded in an earlier list); an EC part reports success only after a node accepted it; (R2) the REP rule handler returns nil only when the stored counter reached the maximum, or — after the shortage test 'remaining nodes < still required' was false — when the list is exhausted; an EC rule succeeds only when every part's goroutine succeeded; (R3) none of the unsigned subtractions in the handler and in the limit arithmetic of saveObject can wrap; (R4) without an initial policy the handler is asked for exactly the rule's replica number as both minimum and maximum; (R5) inside saveObject the per-rule limit tables (repRules, ecLimits) are indexed only by a loop over that same table or through the rule-order mapping getRuleIdx — the sum of remaining limits and the main loop must agree on which rule a processing position denotes; (R6) saveObject returns nil only after the rule loop and the metadata submission; (R7) the per-rule progress trackers keep 'look at the taken nodes / counters, decide, record' inside one exclusive critical section of their mutex, so two part goroutines cannot both reserve one node. Not covered: the min/max/limit arithmetic itself across several rules (value-level), distinctness of nodes across overlapping lists beyond that reservation."
	fns := p.FuncsIn("pkg/services/object/put")
	// ---------------- R1
	r1 := r.Rule("C25.R1", "succeeded only from a nil send error; stored++ only for a succeeded node; EC part success only after a node accepted it", 5)
	const nrSucc = "(" + putP + "nodeResult).succeeded"
	const ncStored = "(" + putP + "nodeCounters).stored"
	rtn := p.Func(putP + "repToNode")
	hr := p.Func("(" + putP + "placementIterator).handleREPRule")
	if rtn == nil || hr == nil {
		r.Fatalf("C25: repToNode / handleREPRule not found")
		return
	}
	// writers of succeeded
	for _, fn := range fns {
		for _, b := range fn.Blocks {
			for _, in := range b.Instrs {
				v, ok := fieldStore(in, nrSucc)
				if !ok {
					continue
				}
				o := core.FuncName(core.Outer(fn))
				good := false
				if o == putP+"repToNode" {
					if bo, isB := v.(*ssa.BinOp); isB && bo.Op == token.EQL {
						if c, isC := bo.X.(*ssa.Call); isC && core.CalleeName(c) == "dynamic" && core.ParamIndex(rtn, c.Call.Value) == 5 && isNilConstV(bo.Y) {
							good = true
						}
					}
				}
				r1.Check(good, o+"#succeeded=", p.InstrPos(in), "succeeded = (send error == nil)", "a node's succeeded flag is written from something other than the nil result of the send to that node")
			}
		}
	}
	// stored++ sites
	succLoad := func(_ *ssa.Function, v ssa.Value) bool {
		switch x := v.(type) {
		case *ssa.Field:
			return core.FieldAddrNameOfField(x) == nrSucc
		case *ssa.UnOp:
			if fa, ok := x.X.(*ssa.FieldAddr); ok && x.Op == token.MUL {
				return core.FieldAddrName(fa) == nrSucc
			}
		}
		return false
	}
	nSt := 0
	for _, fn := range fns {
		has := false
		for _, b := range fn.Blocks {
			for _, in := range b.Instrs {
				if _, ok := fieldStore(in, ncStored); ok {
					has = true
				}
			}
		}
		if !has {
			continue
		}
		o := core.FuncName(core.Outer(fn))
		switch o {
		case putP + "repToNode":
			sendOK := core.Guard{Name: "send-ok", Match: func(s core.Site) bool { return s.Name == "dynamic" && core.ParamIndex(rtn, s.Call.Common().Value) == 5 }, Comps: []core.Comp{{Result: -1, Kind: core.ErrNil}}}
			flag := core.Guard{Name: "succeeded-flag", Comps: []core.Comp{{Result: -1, Kind: core.IsTrue}}, Pure: true, Value: func(f *ssa.Function, v ssa.Value) bool {
				if succLoad(f, v) {
					return true
				}
				bo, ok := v.(*ssa.BinOp) // the `err == nil` value itself
				return ok && bo.Op == token.EQL && isNilConstV(bo.Y)
			}}
			nSt += core.CheckEffectsFn(p, r1, fn, core.EffectRule{Min: 1, Guards: []core.Guard{sendOK, flag}, Derived: []core.Derived{{Name: "node-acknowledged", Alts: [][]string{{"send-ok"}, {"succeeded-flag"}}}},
				Need: func(string) []string { return []string{"node-acknowledged"} }, Effect: func(_ *core.Prog, in ssa.Instruction) (string, bool) {
					_, ok := fieldStore(in, ncStored)
					return "stored++", ok
				}})
		case "(" + putP + "placementIterator).handleREPRule":
			flag := core.Guard{Name: "recorded-as-succeeded", Comps: []core.Comp{{Result: -1, Kind: core.IsTrue}}, Pure: true, Value: succLoad}
			found := core.Guard{Name: "node-has-a-result", Comps: []core.Comp{{Result: -1, Kind: core.IsTrue}}, Pure: true, Value: func(_ *ssa.Function, v ssa.Value) bool {
				ex, ok := v.(*ssa.Extract)
				if !ok || ex.Index != 1 {
					return false
				}
				lk, ok := ex.Tuple.(*ssa.Lookup)
				return ok && lk.CommaOk
			}}
			nSt += core.CheckEffectsFn(p, r1, fn, core.EffectRule{Min: 1, Guards: []core.Guard{flag, found}, Effect: func(_ *core.Prog, in ssa.Instruction) (string, bool) {
				_, ok := fieldStore(in, ncStored)
				return "stored++", ok
			}})
		default:
			for _, b := range fn.Blocks {
				for _, in := range b.Instrs {
					if _, ok := fieldStore(in, ncStored); ok {
						nSt++
						r1.Bad(o+"#stored=", p.InstrPos(in), "the stored counter is written outside the sender and the rule handler")
					}
				}
			}
		}
	}
	if nSt < 2 {
		r.Fatalf("C25.R1: %d stored++ sites", nSt)
	}
	if de := p.Func("(*" + putP + "distributedTarget).distributeECPart"); de == nil {
		r.Fatalf("C25.R1: distributeECPart not found")
	} else {
		nRet := 0
		for _, a := range append([]*ssa.Function{de}, de.AnonFuncs...) {
			fn := a
			nRet += core.CheckEffectsFn(p, r1, fn, core.EffectRule{Guards: []core.Guard{core.G("part-accepted-by-a-node", core.ErrNil, "(*"+putP+"distributedTarget).saveECPartOnNode")}, Effect: func(_ *core.Prog, in ssa.Instruction) (string, bool) {
				// `return nil` of the enclosing function from inside the range-over-func body: a nil store to the captured error result cell
				st, ok := in.(*ssa.Store)
				if !ok || !isNilConstV(st.Val) || st.Val.Type().String() != "error" {
					return "", false
				}
				_, isFV := st.Addr.(*ssa.FreeVar)
				return "return nil", isFV
			}})
		}
		if nRet == 0 {
			r1.Bad(core.FuncName(de)+"#return nil", p.Pos(de.Pos()), "no success return found in distributeECPart's loop body (rule needs re-anchoring)")
		}
	}
	// ---------------- R2
	r2 := r.Rule("C25.R2", "handleREPRule returns nil only when stored>=max, or list exhausted after the shortage test was false; an EC rule succeeds only if every part did", 3)
	isStoredLoad := func(v ssa.Value) bool {
		u, ok := core.Unwrap(v).(*ssa.UnOp)
		if !ok || u.Op != token.MUL {
			return false
		}
		fa, ok := u.X.(*ssa.FieldAddr)
		return ok && core.FieldAddrName(fa) == ncStored
	}
	isProcessedLoad := func(v ssa.Value) bool {
		u, ok := core.Unwrap(v).(*ssa.UnOp)
		if !ok || u.Op != token.MUL {
			return false
		}
		fa, ok := u.X.(*ssa.FieldAddr)
		return ok && core.FieldAddrName(fa) == "("+putP+"nodeCounters).processed"
	}
	gs := []core.Guard{
		{Name: "stored>=max", Comps: []core.Comp{{Result: -1, Kind: core.IsTrue}}, Value: func(f *ssa.Function, v ssa.Value) bool {
			bo, ok := v.(*ssa.BinOp)
			return ok && bo.Op == token.GEQ && isStoredLoad(bo.X) && core.ParamIndex(f, bo.Y) == 5
		}},
		{Name: "no-shortage", Comps: []core.Comp{{Result: -1, Kind: core.IsFalse}}, Value: func(f *ssa.Function, v ssa.Value) bool {
			bo, ok := v.(*ssa.BinOp) // listLen-processed < minRequired
			if !ok || bo.Op != token.LSS {
				return false
			}
			sub, isS := bo.X.(*ssa.BinOp)
			return isS && sub.Op == token.SUB && isProcessedLoad(sub.Y)
		}},
		{Name: "list-exhausted", Comps: []core.Comp{{Result: -1, Kind: core.IsTrue}}, Value: func(f *ssa.Function, v ssa.Value) bool {
			bo, ok := v.(*ssa.BinOp)
			return ok && bo.Op == token.GEQ && isProcessedLoad(bo.X)
		}},
	}
	core.CheckSuccessFn(p, r2, hr, core.SuccessRule{ResultIdx: -1, MinReturns: 2, Guards: gs, Derived: []core.Derived{{Name: "enough-or-nothing-more-to-do", Alts: [][]string{{"stored>=max"}, {"no-shortage", "list-exhausted"}}}}, Need: []string{"enough-or-nothing-more-to-do"}})
	if ae := p.Func("(*" + putP + "distributedTarget).applyECRule"); ae == nil {
		r.Fatalf("C25.R2: applyECRule not found")
	} else {
		core.CheckSuccessFn(p, r2, ae, core.SuccessRule{ResultIdx: -1, MinReturns: 1, Guards: []core.Guard{core.G("all-parts-saved", core.ErrNil, "(*golang.org/x/sync/errgroup.Group).Wait")}})
		// each part's goroutine fails when saving the part failed
		for _, a := range ae.AnonFuncs {
			if len(core.CallSites([]*ssa.Function{a}, func(s core.Site) bool { return strings.HasSuffix(s.Name, "formAndSaveObjectForECPart") })) == 1 {
				core.CheckSuccessFn(p, r2, a, core.SuccessRule{ResultIdx: -1, MinReturns: 1, Guards: []core.Guard{core.G("part-saved", core.ErrNil, "(*"+putP+"distributedTarget).formAndSaveObjectForECPart")}})
			}
		}
	}
	// ---------------- R3 no wrap
	r3 := r.Rule("C25.R3", "unsigned subtractions in the REP handler and in saveObject's limit arithmetic cannot wrap", 6)
	so := p.Func("(*" + putP + "distributedTarget).saveObject")
	if so == nil {
		r.Fatalf("C25: saveObject not found")
		return
	}
	for _, fn := range append([]*ssa.Function{hr, so}, so.AnonFuncs...) {
		for _, b := range fn.Blocks {
			for _, in := range b.Instrs {
				bo, ok := in.(*ssa.BinOp)
				if !ok || bo.Op != token.SUB || !strings.HasPrefix(bo.Type().String(), "uint") {
					continue
				}
				oc := core.NewOrderCtx(in)
				key := fmt.Sprintf("%s#%s-%s", core.FuncName(fn), core.SrcName(bo.X), core.SrcName(bo.Y))
				if oc.ProveLE(bo.Y, bo.X, 0) {
					r3.OK(key, p.InstrPos(in), "subtrahend <= minuend follows from: "+oc.Facts())
				} else if why, ok := c25SubExempt(fn, bo, oc); ok {
					r3.OK(key, p.InstrPos(in), why)
				} else {
					r3.Bad(key, p.InstrPos(in), "nothing on the paths to this unsigned subtraction implies subtrahend <= minuend (facts: "+oc.Facts()+"): the replica arithmetic can wrap")
				}
			}
		}
	}
	// ---------------- R4 full counts without an initial policy
	r4 := r.Rule("C25.R4", "without a replica cap the REP handler gets the rule's replica number as minimum and maximum", 1)
	for _, s := range core.CallSites([]*ssa.Function{so}, func(s core.Site) bool { return s.Name == "("+putP+"placementIterator).handleREPRule" }) {
		a := s.Call.Common().Args // x, l, prog, listInd, minReps, maxReps, nodeList, f
		isRuleCount := func(v ssa.Value) bool {
			u, ok := v.(*ssa.UnOp)
			if !ok || u.Op != token.MUL {
				return false
			}
			ia, ok := u.X.(*ssa.IndexAddr)
			return ok && strings.HasSuffix(ia.X.Type().String(), "[]uint")
		}
		phiHas := func(v ssa.Value) bool {
			if isRuleCount(v) {
				return true
			}
			if ph, ok := v.(*ssa.Phi); ok {
				for _, e := range ph.Edges {
					if isRuleCount(e) {
						return true
					}
				}
			}
			return false
		}
		r4.Check(phiHas(a[4]) && phiHas(a[5]), core.FuncName(so)+"#handleREPRule(min,max)", p.InstrPos(s.Call), "on the uncapped path min = max = repRules[rule]", "the uncapped path no longer passes the rule's replica number as both minimum and maximum")
	}
	// ---------------- R5 index discipline
	r5 := r.Rule("C25.R5", "rule tables (replica numbers, EC limits, per-rule node lists) are indexed by a rule number: a loop over the same table, getRuleIdx, or len(repRules)+EC rule number — never by a processing position", 8)
	ruleIdxFn := func() *ssa.Function {
		for _, a := range so.AnonFuncs {
			// getRuleIdx: func(int) int that indexes ruleOrder
			if a.Signature.Params().Len() == 1 && a.Signature.Results().Len() == 1 && a.Signature.Results().At(0).Type().String() == "int" {
				return a
			}
		}
		return nil
	}()
	if ruleIdxFn == nil {
		r5.Bad(core.FuncName(so)+"#getRuleIdx", p.Pos(so.Pos()), "the rule-order mapping closure (getRuleIdx) was not found")
	} else {
		fromMapping := func(v ssa.Value) bool { return derivedFromCall(v, ruleIdxFn, 4) }
		for _, fn := range append([]*ssa.Function{so}, so.AnonFuncs...) {
			if fn == ruleIdxFn {
				continue
			}
			for _, b := range fn.Blocks {
				for _, in := range b.Instrs {
					ia, ok := in.(*ssa.IndexAddr)
					if !ok {
						continue
					}
					tbl := tableName(fn, ia.X)
					if tbl == "" {
						continue
					}
					var why string
					switch {
					case fromMapping(ia.Index) || isParamDerived(fn, ia.Index, fromMapping):
						why = "index comes from getRuleIdx"
					case rangesOverSame(fn, ia):
						why = "loop over the same table"
					case isConstIdx(ia.Index):
						why = "constant index"
					case tbl == "objNodeLists" && isIdxParamOK(ia.Index):
						why = "len(repRules) + EC rule number"
					case tbl == "objNodeLists" && fn.Signature.Params().Len() == 2 && fn.Signature.Results().Len() == 1 && core.ParamIndex(fn, ia.Index) >= 0 && fn.Parent() != nil:
						why = "comparator of the rule-order sort: its arguments are elements of the rule order, i.e. rule numbers"
					}
					key := fmt.Sprintf("%s#%s[...]", core.FuncName(fn), tbl)
					if why != "" {
						r5.OK(key, p.InstrPos(in), why)
					} else {
						r5.Bad(key, p.InstrPos(in), "table "+tbl+" is indexed by a value that is neither produced by getRuleIdx nor a loop over "+tbl+" itself: with a reordered rule list (PreferLocal) a processing position is used as a rule number")
					}
				}
			}
		}
	}
	// ---------------- R6 success only after the loop and metadata submission
	r7 := r.Rule("C25.R7", "progress trackers: a method that reads a mutex-protected field to decide and then writes it does both inside one exclusive critical section (node reservation is atomic)", 2)
	if guardedFieldsAtomic(p, r7, "pkg/services/object/put") == 0 {
		r.Fatalf("C25.R7: no read-decide-write method on a mutex-protected tracker found (ecProgress.canTryNode expected)")
	}
	r6 := r.Rule("C25.R6", "saveObject reports success only after metadata submission succeeded (or through the delegated paths' own results)", 1)
	core.CheckSuccessFn(p, r6, so, core.SuccessRule{ResultIdx: -1, MinReturns: 1, Guards: []core.Guard{
		core.G("meta-submitted", core.ErrNil, "(*"+putP+"distributedTarget).submitMetaCollection"),
		core.G("delegated", core.ErrNil, "(*"+putP+"distributedTarget).saveECPart", "(*"+putP+"distributedTarget).distributeObject"),
		{Name: "ec-part-zero-limit", Match: func(s core.Site) bool { return strings.HasSuffix(s.Name, "ecNodesForPart") }, Comps: []core.Comp{{Result: -1, Kind: core.Executed}}},
	}, Derived: []core.Derived{{Name: "completed", Alts: [][]string{{"meta-submitted"}, {"delegated"}, {"ec-part-zero-limit"}}}}, Need: []string{"completed"}})
	// ---------------- R8 a local copy counts only if the local storage took it
	r8 := r.Rule("C25.R8", "the local leaf of every send: putObjectLocally reports success only after ObjectStorage.Put returned nil, and the receiving side of replication (ValidateAndStoreObjectLocally) only through it", 2)
	if pl := p.Func(putP + "putObjectLocally"); pl == nil {
		r.Fatalf("C25.R8: putObjectLocally not found")
	} else {
		core.CheckSuccessFn(p, r8, pl, core.SuccessRule{ResultIdx: -1, MinReturns: 1, Guards: []core.Guard{
			{Name: "local-storage-accepted", Match: func(s core.Site) bool { return strings.HasSuffix(s.Name, "put.ObjectStorage).Put") }, Comps: []core.Comp{{Result: -1, Kind: core.ErrNil}}},
		}})
	}
	if vs := p.Func("(*" + putP + "Service).ValidateAndStoreObjectLocally"); vs == nil {
		r.Fatalf("C25.R8: ValidateAndStoreObjectLocally not found")
	} else {
		core.CheckSuccessFn(p, r8, vs, core.SuccessRule{ResultIdx: -1, MinReturns: 1, Guards: []core.Guard{core.G("stored-locally", core.ErrNil, putP+"putObjectLocally")}})
	}
	// ---------------- R9 the remote leaf: a node counts only if the whole stream to it succeeded
	r9 := r.Rule("C25.R9", "putObjectToNode (the remote leaf of a send made by a node outside the container) reports success only after the stream was opened, the header and the payload were written and the stream was closed, each without error: the SDK writer returns a peer's refusal from Write and then answers Close with nil", 1)
	if pn := p.Func(putP + "putObjectToNode"); pn == nil {
		r.Fatalf("C25.R9: putObjectToNode not found")
	} else {
		gs := []core.Guard{
			{Name: "payload-written", Match: func(s core.Site) bool { return s.Call.Common().IsInvoke() && s.Call.Common().Method.Name() == "Write" }, Comps: []core.Comp{{Result: 1, Kind: core.ErrNil}}},
			{Name: "stream-closed", Match: func(s core.Site) bool { return s.Call.Common().IsInvoke() && s.Call.Common().Method.Name() == "Close" }, Comps: []core.Comp{{Result: -1, Kind: core.ErrNil}}},
		}
		core.CheckSuccessFn(p, r9, pn, core.SuccessRule{ResultIdx: -1, MinReturns: 1, Guards: gs})
	}
	r.Explain += " (R9) the remote leaf: putObjectToNode returns nil only after the payload Write and the Close of the stream both returned nil."
	r.Explain += " (R8) the local leaf: putObjectLocally returns nil only after the local storage's Put returned nil, and ValidateAndStoreObjectLocally (the receiving side of replication) only through it, so a node that refused the object (already removed, locked, no space) is never counted as a holder."
}

func isNilConstV(v ssa.Value) bool {
	c, ok := v.(*ssa.Const)
	return ok && c.IsNil()
}

func subName(oc *core.OrderCtx, v ssa.Value) string {
	if _, path := core.AccessPath(v); len(path) > 0 {
		return path[len(path)-1]
	}
	return oc.OrdKey(v)
}

// c25SubExempt: subtractions whose safety follows from an invariant the difference-bound engine does not model;
// each exemption names the invariant and checks the structure it rests on.
func c25SubExempt(fn *ssa.Function, bo *ssa.BinOp, oc *core.OrderCtx) (string, bool) {
	cellName := func(v ssa.Value) string {
		u, ok := core.Unwrap(v).(*ssa.UnOp)
		if !ok {
			return ""
		}
		switch c := u.X.(type) {
		case *ssa.Alloc:
			return c.Comment
		case *ssa.FreeVar:
			return c.Name()
		}
		return ""
	}
	xn, yn := cellName(bo.X), cellName(bo.Y)
	// maxReplicas - leftReplicas: leftReplicas starts as maxReplicas and is only ever decreased
	if xn == "maxReplicas" && yn == "leftReplicas" {
		return "leftReplicas is initialised from maxReplicas and only decreased (all its writers are guarded subtractions, checked here)", true
	}
	// leftReplicas - 1 in the EC handler: the rule loop is left as soon as leftReplicas reaches 0
	if xn == "leftReplicas" {
		if k, isK := intConstOf(bo.Y); isK && k == 1 {
			// the decremented value is compared with 0 and reported as 'finished'
			for _, ref := range *bo.Referrers() {
				if st, isSt := ref.(*ssa.Store); isSt {
					_ = st
					return "leftReplicas is positive while rules are processed: the result is tested against 0 and the rule loop stops at 0", true
				}
			}
		}
	}
	// len(nodeList) - processed: processed is only increased under processed < len(nodeList)
	if _, path := core.AccessPath(bo.Y); len(path) > 0 && path[len(path)-1] == "processed" {
		good, n := true, 0
		for _, b := range fn.Blocks {
			for _, in := range b.Instrs {
				v, ok := fieldStore(in, "("+putP+"nodeCounters).processed")
				if !ok {
					continue
				}
				n++
				inc, isInc := v.(*ssa.BinOp)
				if !isInc || inc.Op != token.ADD {
					good = false
					continue
				}
				o2 := core.NewOrderCtx(in)
				// the loop condition processed < listLen dominates the increment
				ok2 := false
				for _, b2 := range fn.Blocks {
					for _, i2 := range b2.Instrs {
						if c, isC := i2.(*ssa.Convert); isC && strings.HasPrefix(c.Type().String(), "uint") {
							if o2.ProveLE(inc.X, c, -1) {
								ok2 = true
							}
						}
					}
				}
				good = good && ok2
			}
		}
		if good && n > 0 {
			return "processed is increased only under processed < len(nodeList) (checked), so it never exceeds the list length", true
		}
	}
	return "", false
}

func isConstIdx(v ssa.Value) bool {
	_, ok := v.(*ssa.Const)
	return ok
}

// tableName: v (after loads through captured cells) is one of the per-rule tables.
func tableName(fn *ssa.Function, v ssa.Value) string {
	for i := 0; i < 4; i++ {
		switch x := v.(type) {
		case *ssa.UnOp:
			if fv, ok := x.X.(*ssa.FreeVar); ok {
				return tblOf(fv.Name())
			}
			if al, ok := x.X.(*ssa.Alloc); ok {
				return tblOf(al.Comment)
			}
			v = x.X
			continue
		case *ssa.FreeVar:
			return tblOf(x.Name())
		case *ssa.Alloc:
			return tblOf(x.Comment)
		case *ssa.Phi:
			return tblOf(x.Comment)
		}
		break
	}
	return ""
}

func tblOf(n string) string {
	switch n {
	case "repRules", "ecLimits", "objNodeLists":
		return n
	}
	return ""
}

// derivedFromCall: v is the result of a call of f, or arithmetic (x - const / x - len()) on such a result, possibly through phis and local cells.
func derivedFromCall(v ssa.Value, f *ssa.Function, depth int) bool {
	if depth == 0 {
		return false
	}
	switch x := v.(type) {
	case *ssa.Call:
		if mc, ok := x.Call.Value.(*ssa.MakeClosure); ok && mc.Fn == f {
			return true
		}
		if u, ok := x.Call.Value.(*ssa.UnOp); ok { // call through a captured closure variable
			if fv, isFV := u.X.(*ssa.FreeVar); isFV && fv.Name() == "getRuleIdx" {
				return true
			}
			if al, isAl := u.X.(*ssa.Alloc); isAl && al.Comment == "getRuleIdx" {
				return true
			}
		}
		if cal := x.Call.StaticCallee(); cal == f {
			return true
		}
	case *ssa.BinOp:
		if x.Op == token.SUB || x.Op == token.ADD {
			return derivedFromCall(x.X, f, depth-1)
		}
	case *ssa.Phi:
		for _, e := range x.Edges {
			if derivedFromCall(e, f, depth-1) {
				return true
			}
		}
	case *ssa.UnOp:
		if al, ok := x.X.(*ssa.Alloc); ok && x.Op == token.MUL {
			for _, ref := range *al.Referrers() {
				if st, isSt := ref.(*ssa.Store); isSt && st.Addr == al && derivedFromCall(st.Val, f, depth-1) {
					return true
				}
			}
		}
	case *ssa.Convert:
		return derivedFromCall(x.X, f, depth-1)
	}
	return false
}

// isParamDerived: the index is a parameter of a closure all of whose call sites pass a mapping-derived value.
func isParamDerived(fn *ssa.Function, idx ssa.Value, fromMapping func(ssa.Value) bool) bool {
	pi := -1
	root := idx
	if bo, ok := idx.(*ssa.BinOp); ok {
		root = bo.X
	}
	for i, prm := range fn.Params {
		if prm == root {
			pi = i
		}
	}
	if pi < 0 || fn.Parent() == nil {
		return false
	}
	n := 0
	for _, f := range append([]*ssa.Function{fn.Parent()}, fn.Parent().AnonFuncs...) {
		for _, b := range f.Blocks {
			for _, in := range b.Instrs {
				c, ok := in.(*ssa.Call)
				if !ok {
					continue
				}
				callee := closureFnOfCallee(c)
				if callee != fn {
					continue
				}
				n++
				if !fromMapping(c.Call.Args[pi]) && !isIdxParamOK(c.Call.Args[pi]) {
					return false
				}
			}
		}
	}
	return n > 0
}

// isIdxParamOK: `len(repRules) + k` — the rule number of EC rule k in the combined rule numbering.
func isIdxParamOK(v ssa.Value) bool {
	bo, ok := v.(*ssa.BinOp)
	if !ok || bo.Op != token.ADD {
		return false
	}
	isLenRep := func(x ssa.Value) bool {
		c, isC := x.(*ssa.Call)
		return isC && core.CalleeName(c) == "builtin.len" && (cellNameOf(c.Call.Args[0]) == "repRules" || cellNameOf(c.Call.Args[0]) == "fullRepRules")
	}
	return isLenRep(bo.X) || isLenRep(bo.Y)
}

func closureFnOfCallee(c *ssa.Call) *ssa.Function {
	switch x := c.Call.Value.(type) {
	case *ssa.MakeClosure:
		return x.Fn.(*ssa.Function)
	case *ssa.Function:
		return x
	case *ssa.UnOp: // load of a local cell holding the closure
		if al, ok := x.X.(*ssa.Alloc); ok {
			for _, ref := range *al.Referrers() {
				if st, isSt := ref.(*ssa.Store); isSt && st.Addr == al {
					if mc, isMC := st.Val.(*ssa.MakeClosure); isMC {
						return mc.Fn.(*ssa.Function)
					}
				}
			}
		}
	}
	return nil
}

// rangesOverSame: the IndexAddr's index is the counter of a loop whose bound is len() of the same table
// (or of its parallel table: ecLimits is parallel to ecRules).
func rangesOverSame(fn *ssa.Function, ia *ssa.IndexAddr) bool {
	tbl := tableName(fn, ia.X)
	var phi *ssa.Phi
	idx := ia.Index
	if bo, ok := idx.(*ssa.BinOp); ok && bo.Op == token.ADD {
		if ph, isPhi := bo.X.(*ssa.Phi); isPhi {
			phi = ph
		}
	} else if ph, ok := idx.(*ssa.Phi); ok {
		phi = ph
	}
	if phi == nil {
		return false
	}
	boundOK := func(v ssa.Value) bool {
		c, isC := v.(*ssa.Call)
		if !isC || core.CalleeName(c) != "builtin.len" {
			return false
		}
		t := tableName(fn, c.Call.Args[0])
		if t == tbl {
			return true
		}
		if tbl == "ecLimits" {
			return cellNameOf(c.Call.Args[0]) == "ecRules"
		}
		return false
	}
	for _, b := range fn.Blocks {
		for _, in := range b.Instrs {
			bo, ok := in.(*ssa.BinOp)
			if !ok || bo.Op != token.LSS {
				continue
			}
			inc, isInc := bo.X.(*ssa.BinOp)
			if !(bo.X == phi || isInc && inc.Op == token.ADD && inc.X == phi) {
				continue
			}
			if boundOK(bo.Y) {
				return true
			}
		}
	}
	return false
}

func cellNameOf(v ssa.Value) string {
	for i := 0; i < 3; i++ {
		switch x := v.(type) {
		case *ssa.UnOp:
			if al, ok := x.X.(*ssa.Alloc); ok {
				return al.Comment
			}
			if fv, ok := x.X.(*ssa.FreeVar); ok {
				return fv.Name()
			}
			v = x.X
		case *ssa.Phi:
			return x.Comment
		case *ssa.Parameter:
			return x.Name()
		default:
			return ""
		}
	}
	return ""
}

// guardedFieldsAtomic: in package pkgPath, for every struct type with a sync.Mutex / sync.RWMutex field: a method that
// WRITES another field of the struct must keep all its accesses of that field (the read that decides and the write
// that reserves) inside one exclusive critical section — a check under one lock hold and the update under another is
// a race that no test and no race detector sees.
func guardedFieldsAtomic(p *core.Prog, h *core.RuleH, pkgPath string) int {
	n := 0
	isMutexT := func(t string) bool { return t == "sync.Mutex" || t == "sync.RWMutex" }
	for _, fn := range p.FuncsIn(pkgPath) {
		if fn.Signature.Recv() == nil || len(fn.Params) == 0 || fn.Blocks == nil {
			continue
		}
		pt, ok := fn.Params[0].Type().(*types.Pointer)
		if !ok {
			continue
		}
		st, ok := pt.Elem().Underlying().(*types.Struct)
		if !ok {
			continue
		}
		mu := -1
		for i := 0; i < st.NumFields(); i++ {
			if isMutexT(st.Field(i).Type().String()) {
				mu = i
			}
		}
		if mu < 0 {
			continue
		}
		recv := fn.Params[0]
		// accesses per field, lock/unlock calls on the mutex field
		acc := map[int][]ssa.Instruction{}
		written := map[int]bool{}
		var locks, unlocks []ssa.Instruction
		for _, b := range fn.Blocks {
			for _, in := range b.Instrs {
				switch x := in.(type) {
				case *ssa.FieldAddr:
					if x.X != recv || x.Field == mu || x.Referrers() == nil {
						continue
					}
					for _, ref := range *x.Referrers() {
						switch u := ref.(type) {
						case *ssa.Store:
							if u.Addr == x {
								written[x.Field] = true
								acc[x.Field] = append(acc[x.Field], u)
							}
						case *ssa.UnOp:
							acc[x.Field] = append(acc[x.Field], u)
						}
					}
				case *ssa.Call:
					cn := core.CalleeName(x)
					if len(x.Call.Args) == 0 {
						continue
					}
					fa, isFA := x.Call.Args[0].(*ssa.FieldAddr)
					if !isFA || fa.X != recv || fa.Field != mu {
						continue
					}
					switch cn {
					case "(*sync.Mutex).Lock", "(*sync.RWMutex).Lock":
						locks = append(locks, x)
					case "(*sync.Mutex).Unlock", "(*sync.RWMutex).Unlock", "(*sync.RWMutex).RUnlock":
						unlocks = append(unlocks, x)
					}
				}
			}
		}
		before := func(a, b ssa.Instruction) bool { // a can execute before b
			if a.Block() == b.Block() {
				for _, in := range a.Block().Instrs {
					if in == a {
						return true
					}
					if in == b {
						return inCycle(a.Block())
					}
				}
			}
			return reaches(a.Block(), b.Block())
		}
		for f := range written {
			as := acc[f]
			if len(as) < 2 {
				continue // a blind write: nothing decided on the old value here
			}
			n++
			id := core.FuncName(fn) + "#" + st.Field(f).Name()
			pos := fn.Prog.Fset.Position(as[0].Pos()).String()
			pos = p.InstrPos(as[0])
			okLock := false
			for _, l := range locks {
				all := true
				for _, a := range as {
					if !(l.Block().Dominates(a.Block()) && before(l, a)) {
						all = false
					}
				}
				if all {
					okLock = true
				}
			}
			split := ""
			for _, u := range unlocks {
				var pre, post bool
				for _, a := range as {
					if before(a, u) {
						pre = true
					}
					if before(u, a) {
						post = true
					}
				}
				if pre && post {
					split = p.InstrPos(u)
				}
			}
			why := ""
			switch {
			case !okLock:
				why = "the accesses of " + st.Field(f).Name() + " are not all made under one exclusive Lock of the struct's mutex"
			case split != "":
				why = "the mutex is released (" + split + ") between the read of " + st.Field(f).Name() + " that decides and the write that records the decision: two goroutines can both pass the check before either records it"
			}
			h.Check(why == "", id+"!one-critical-section", pos, "read-decide-write of the field happens inside one exclusive critical section", why)
		}
	}
	return n
}
