#!/usr/bin/env python3
"""Mutation self-test of the checker: each variant is one small edit of /repo that still
compiles; the named property's check must report a VIOLATION (expect='fire') or stay
silent (expect='silent', behaviour-preserving refactorings).
usage: run.py [-j N] [id-or-prop-substring ...]"""
import json,os,subprocess,sys,shutil,tempfile,concurrent.futures as cf
HERE=os.path.dirname(os.path.abspath(__file__))
sys.path.insert(0,HERE)
from variants import VARIANTS
ENV=dict(os.environ,PATH="/opt/veriftools/go1.26.8/bin:"+os.environ["PATH"],GOTOOLCHAIN="local",GOFLAGS="-mod=mod",GOPROXY="off",GOSUMDB="off",GOWORK="off")
def run(v):
    d=tempfile.mkdtemp(prefix="nfsv-",dir="/tmp")
    try:
        subprocess.check_call(["rsync","-a","--exclude",".git","/repo/",d+"/"])
        pkgs=set()
        for e in v["edits"]:
            p=os.path.join(d,e["file"]); s=open(p).read()
            if s.count(e["old"])!=1: return (v["id"],"BROKEN-VARIANT",f"old text occurs {s.count(e['old'])} times in {e['file']}")
            open(p,"w").write(s.replace(e["old"],e["new"])); pkgs.add("./"+os.path.dirname(e["file"]))
        b=subprocess.run(["go","build"]+sorted(pkgs),cwd=d,env=ENV,capture_output=True,text=True)
        if b.returncode!=0: return (v["id"],"BROKEN-VARIANT","does not compile: "+b.stderr[-400:])
        ev=tempfile.mkdtemp(prefix="nfsev-",dir="/tmp")
        c=subprocess.run(["/verif/bin/nfscheck","-prop",v["prop"],"-root",d,"-evidence",ev,"-known","/verif/known_findings.json"],env=ENV,capture_output=True,text=True)
        shutil.rmtree(ev,ignore_errors=True)
        fired=("VIOLATION property="+v["prop"]) in c.stdout
        exp=v.get("expect","fire")
        if exp=="fire":
            ok=fired and c.returncode==1 and (v.get("rule","") in c.stdout)
        else:
            ok=(not fired) and c.returncode==0
        detail="" if ok else (c.stdout[-1500:]+c.stderr[-500:])
        return (v["id"],"ok" if ok else "FAIL",detail)
    finally:
        shutil.rmtree(d,ignore_errors=True)
def main():
    args=sys.argv[1:]; j=6
    if args[:1]==["-j"]: j=int(args[1]); args=args[2:]
    vs=[v for v in VARIANTS if not args or any(a in v["id"] or a==v["prop"] for a in args)]
    bad=0
    with cf.ThreadPoolExecutor(j) as ex:
        for vid,st,detail in ex.map(run,vs):
            print(f"{vid:40s} {st}")
            if st!="ok": bad+=1; print("   ",detail.replace("\n","\n    "))
    print(f"{len(vs)-bad}/{len(vs)} variants behaved as expected")
    sys.exit(1 if bad else 0)
main()
