#!/usr/bin/env python3
"""Runs every registered check against every kept seeded change (seeded/<dir>/patch.diff) in a
scratch git worktree of /repo (never in /repo itself) and (re)writes seeded/<dir>/meta.json with
what fired. usage: seeded_matrix.py [-j N] [dir ...]"""
import json,os,re,subprocess,sys,shutil,tempfile,concurrent.futures as cf
HERE=os.path.dirname(os.path.abspath(__file__)); SEED=os.path.join(os.path.dirname(HERE),"seeded")
ENV=dict(os.environ,PATH="/opt/veriftools/go1.26.8/bin:"+os.environ["PATH"],GOTOOLCHAIN="local",GOFLAGS="-mod=mod",GOPROXY="off",GOSUMDB="off",GOWORK="off")
def run(name):
    d=os.path.join(SEED,name); patch=os.path.join(d,"patch.diff")
    wt=tempfile.mkdtemp(prefix="nfsseed-",dir="/tmp"); os.rmdir(wt)
    ev=tempfile.mkdtemp(prefix="nfsev-",dir="/tmp")
    try:
        subprocess.check_call(["git","-C","/repo","worktree","add","--detach","-q",wt,"HEAD"])
        a=subprocess.run(["git","-C",wt,"apply",patch],capture_output=True,text=True)
        if a.returncode!=0: return name,None,"patch does not apply: "+a.stderr[-300:]
        for attempt in range(3):
            c=subprocess.run(["/verif/bin/nfscheck","-prop","all","-root",wt,"-evidence",ev,"-known","/verif/known_findings.json"],env=ENV,capture_output=True,text=True)
            # a killed or crashed checker (e.g. out of memory when many run at once) must not read as 'nothing fired'
            if c.returncode in (0,1,2) and len(re.findall(r"^\[C\d+ ",c.stdout,re.M))>=40: break
        else:
            return name,None,"checker did not complete (exit %s): %s"%(c.returncode,(c.stderr or c.stdout)[-300:])
        fired=sorted(set(re.findall(r"VIOLATION property=(C\d+)",c.stdout)))
        rules=sorted(set(m for m in re.findall(r"^  violated (C\d+\.R\w+) (\S+)",c.stdout,re.M)))
        fatal=re.findall(r"FATAL.*",c.stdout+c.stderr)
        return name,{"fired":fired,"violated":[f"{r} {k}" for r,k in rules][:12],"fatal":fatal[:3],"exit":c.returncode},""
    finally:
        subprocess.run(["git","-C","/repo","worktree","remove","--force",wt],capture_output=True)
        shutil.rmtree(wt,ignore_errors=True); shutil.rmtree(ev,ignore_errors=True)
def main():
    args=sys.argv[1:]; j=4
    if args[:1]==["-j"]: j=int(args[1]); args=args[2:]
    def skip(n):
        mp=os.path.join(SEED,n,"meta.json")
        return os.path.exists(mp) and json.load(open(mp)).get("skip_in_matrix")
    names=sorted(n for n in os.listdir(SEED) if os.path.exists(os.path.join(SEED,n,"patch.diff")) and (not args or n in args) and not skip(n))
    with cf.ThreadPoolExecutor(j) as ex:
        for name,res,err in ex.map(run,names):
            if res is None: print(f"{name:12s} ERROR {err}"); continue
            mp=os.path.join(SEED,name,"meta.json")
            meta=json.load(open(mp)) if os.path.exists(mp) else {}
            prop=meta.get("property_id") or name.split("-")[0]
            meta["property_id"]=prop
            meta["checks_run"]="/verif/bin/nfscheck -prop all -tier quick -root <scratch worktree of /repo HEAD with patch.diff applied>"
            meta["caught"]=prop in res["fired"]
            meta["fired_properties"]=res["fired"]; meta["violated_obligations"]=res["violated"]
            if res["fatal"]: meta["fatal"]=res["fatal"]
            json.dump(meta,open(mp,"w"),indent=1); open(mp,"a").write("\n")
            print(f"{name:12s} {'CAUGHT' if meta['caught'] else 'missed'} fired={res['fired']} {res['fatal'][:1]}")
main()
